(* C14 — metamorphic statements: two layouts of the same abstract deck give
   the same front-end result. *)
From Coq Require Import List NArith Bool String Ascii Lia.
From T4V Require Import Base.Str C14.Model C14.ProofsContent C14.ProofsCards C14.ProofsBlocks
  C14.ProofsFront C14.ProofsCase C14.ProofsSplit C14.ProofsDeck C14.ProofsCell C14.ProofsCell2.
Import ListNotations.
Open Scope string_scope.

Definition toks3 := (list (list string) * list (list string) * list (list string))%type.

(* the token lists of the cards of the three blocks: what every consumer of
   the front end sees after str.split() *)
Definition front_tokens (text : string) : res toks3 :=
  map_res (fun t : list string * list string * list string =>
             let '(a, b, c) := t in (map words a, map words b, map words c)) (front text).

Definition laid_tokens (L : laid_deck) : toks3 :=
  (map lc_toks (l_cells L), map lc_toks (l_surfs L), map lc_toks (l_data L)).

Lemma words_content_forms cs :
  lblock_ok noline cs -> map words (map card_content_form cs) = map lc_toks cs.
Proof.
  intros H. pose proof (lblock_lines_ok _ _ H) as Hl. clear H. rewrite map_map.
  induction Hl as [|c more Hc _ IH]; [reflexivity|]. cbn [map]. rewrite IH. f_equal.
  unfold card_content_form. apply words_padded. exact (ptoks_tokens _ Hc).
Qed.

Theorem front_tokens_layout L : laid_ok L -> front_tokens (laid_text L) = Ok (laid_tokens L).
Proof.
  intros H. unfold front_tokens. rewrite (front_layout_any L H).
  destruct H as (_ & _ & _ & _ & _ & _ & Hc & Hs & Hd & _).
  unfold laid_contents, laid_tokens. cbn [map_res].
  now rewrite (words_content_forms _ Hc), (words_content_forms _ Hs), (words_content_forms _ Hd).
Qed.

(* two layouts -- different blanks, tabs, continuation breaks, comment lines,
   $ and & trailers, blank delimiter lines, message block or not, final
   newline or not -- of the same cards' tokens *)
Theorem front_metamorphic L1 L2 :
  laid_ok L1 -> laid_ok L2 -> laid_tokens L1 = laid_tokens L2 ->
  front_tokens (laid_text L1) = front_tokens (laid_text L2).
Proof. intros H1 H2 E. now rewrite (front_tokens_layout L1 H1), (front_tokens_layout L2 H2), E. Qed.

(* ... and of tokens that differ only in letter case: equal after lower() *)
Definition lower_toks (t : toks3) : toks3 :=
  let '(a, b, c) := t in (map (map lower) a, map (map lower) b, map (map lower) c).

Theorem front_metamorphic_case L1 L2 :
  laid_ok L1 -> laid_ok L2 -> lower_toks (laid_tokens L1) = lower_toks (laid_tokens L2) ->
  map_res lower_toks (front_tokens (laid_text L1)) = map_res lower_toks (front_tokens (laid_text L2)).
Proof.
  intros H1 H2 E. rewrite (front_tokens_layout L1 H1), (front_tokens_layout L2 H2).
  cbn [map_res]. now rewrite E.
Qed.

(* ---- through the splits: what the consumers of a surface card get ---- *)
Definition surf_parsed (c : string) : res (string * list string * string * list string) :=
  map_res (fun t : string * string * string * string =>
             let '(n, tr, mn, p) := t in (n, words tr, lower mn, words p)) (surf_split c).

Theorem surface_card_parsed ls bc ds mn p ps :
  Forall line_ok ls -> flat_map ptoks ls = (bc ++ ds) :: mn :: p :: ps ->
  all_chars is_bc bc = true -> all_chars is_digit ds = true -> ds <> "" ->
  all_chars is_mnemo mn = true -> mn <> "" ->
  surf_parsed (content (map line_text ls)) = Ok (bc ++ ds, [], lower mn, p :: ps).
Proof.
  intros Hl Ht Hbc Hds Nds Hmn Nmn. unfold surf_parsed.
  rewrite (surface_card_layout ls bc ds mn p ps Hl Ht Hbc Hds Nds Hmn Nmn). cbn [map_res].
  assert (Hk : Forall is_token (p :: ps)).
  { pose proof (ptoks_tokens ls Hl) as Hk. rewrite Ht in Hk.
    inversion Hk as [|? ? _ Hk1]; subst. now inversion Hk1. }
  pose proof (words_padded false (ends_ws (joined ls)) (p :: ps) Hk) as W. cbn [pad append] in W.
  now rewrite W.
Qed.

(* two layouts of a surface card whose tokens agree up to the case of the
   mnemonic: the same name, transformation, lower-cased mnemonic, parameters *)
Corollary surface_metamorphic ls ls' bc ds mn mn' p ps :
  Forall line_ok ls -> Forall line_ok ls' ->
  flat_map ptoks ls = (bc ++ ds) :: mn :: p :: ps -> flat_map ptoks ls' = (bc ++ ds) :: mn' :: p :: ps ->
  lower mn = lower mn' ->
  all_chars is_bc bc = true -> all_chars is_digit ds = true -> ds <> "" ->
  all_chars is_mnemo mn = true -> mn <> "" -> all_chars is_mnemo mn' = true -> mn' <> "" ->
  surf_parsed (content (map line_text ls)) = surf_parsed (content (map line_text ls')).
Proof.
  intros Hl Hl' Ht Ht' E Hbc Hds Nds Hmn Nmn Hmn' Nmn'.
  rewrite (surface_card_parsed ls bc ds mn p ps), (surface_card_parsed ls' bc ds mn' p ps); auto.
  now rewrite E.
Qed.

(* ---- through cellcard.split and the option tokenisation ---- *)
Definition cell_parsed (c : string) : res (list string * list string * string * list string) :=
  map_res (fun t : string * string * string * string =>
             let '(n, m, g, o) := t in (words n, words m, g, opt_tokens o)) (cell_split c).

Lemma opt_tokens_pad s b : opt_tokens (s ++ pad b) = opt_tokens s.
Proof. destruct b; cbn [pad]; [apply opt_tokens_trailing_blank|now rewrite sapp_nil_r]. Qed.

Lemma words_pad_token b t : is_token t -> words (pad b ++ t) = [t].
Proof.
  intros Ht. pose proof (words_padded b false [t] (Forall_cons _ Ht (Forall_nil _))) as W.
  cbn [join pad] in W. now rewrite sapp_nil_r in W.
Qed.

(* a void cell card laid out in any way: the cell number, the material, the
   geometry string and the option keyword list do not depend on the layout *)
Theorem void_cell_card_parsed ls name m gs d o os :
  Forall line_ok ls -> flat_map ptoks ls = (name :: m :: gs ++ String d o :: os)%list ->
  all_chars is_digit name = true -> name <> "" ->
  all_chars (ceq "0") m = true -> m <> "" ->
  gs <> [] -> Forall geom_token gs -> is_opt_start d = true ->
  cell_parsed (content (map line_text ls))
  = Ok ([name], [m], " " ++ join " " gs ++ " ", opt_tokens (join " " (String d o :: os))).
Proof.
  intros Hl Ht Hn Nn Hm Nm Ng Hg Hd. unfold cell_parsed.
  rewrite (content_layout ls Hl), Ht.
  assert (NN : nonnil (name :: m :: gs ++ String d o :: os)%list = true) by reflexivity.
  rewrite NN, andb_true_r.
  rewrite (cell_split_rendered_void _ _ name m gs d o os Hn Nn Hm Nm Ng Hg Hd). cbn [map_res].
  rewrite opt_tokens_pad.
  rewrite (words_pad_token _ name (digits_token name Nn Hn)).
  pose proof (words_pad_token true m (digits_token m Nm (zeros_digits m Hm))) as W. cbn [pad] in W.
  now rewrite W.
Qed.

Theorem material_cell_card_parsed ls name m rho gs d o os :
  Forall line_ok ls -> flat_map ptoks ls = (name :: m :: rho :: gs ++ String d o :: os)%list ->
  all_chars is_digit name = true -> name <> "" ->
  all_chars is_digit m = true -> all_chars (ceq "0") m = false ->
  all_chars dens_char rho = true -> all_chars nostart rho = true -> rho <> "" ->
  gs <> [] -> Forall geom_token gs -> is_opt_start d = true ->
  cell_parsed (content (map line_text ls))
  = Ok ([name], [m; rho], " " ++ join " " gs ++ " ", opt_tokens (join " " (String d o :: os))).
Proof.
  intros Hl Ht Hn Nn Hm Hm0 Hr Hrs Nr Ng Hg Hd. unfold cell_parsed.
  rewrite (content_layout ls Hl), Ht.
  assert (NN : nonnil (name :: m :: rho :: gs ++ String d o :: os)%list = true) by reflexivity.
  rewrite NN, andb_true_r.
  rewrite (cell_split_rendered_material _ _ name m rho gs d o os Hn Nn Hm Hm0 Hr Hrs Nr Ng Hg Hd).
  cbn [map_res]. rewrite opt_tokens_pad.
  rewrite (words_pad_token _ name (digits_token name Nn Hn)).
  assert (Nm : m <> "") by (intros ->; discriminate).
  assert (Tr : is_token rho).
  { pose proof (ptoks_tokens ls Hl) as Hk. rewrite Ht in Hk.
    inversion Hk as [|? ? _ Hk1]; subst. inversion Hk1 as [|? ? _ Hk2]; subst. now inversion Hk2. }
  pose proof (words_padded true false [m; rho]
                (Forall_cons _ (digits_token m Nm Hm) (Forall_cons _ Tr (Forall_nil _)))) as W.
  cbn [pad join] in W. rewrite sapp_nil_r in W. cbn [append] in *. now rewrite W.
Qed.

(* LIKE-free cell cards whose tokens agree up to the case of the options *)
Corollary void_cell_metamorphic ls ls' name m gs d o os d' o' os' :
  Forall line_ok ls -> Forall line_ok ls' ->
  flat_map ptoks ls = (name :: m :: gs ++ String d o :: os)%list ->
  flat_map ptoks ls' = (name :: m :: gs ++ String d' o' :: os')%list ->
  lower (join " " (String d o :: os)) = lower (join " " (String d' o' :: os')) ->
  all_chars is_digit name = true -> name <> "" ->
  all_chars (ceq "0") m = true -> m <> "" ->
  gs <> [] -> Forall geom_token gs -> is_opt_start d = true -> is_opt_start d' = true ->
  cell_parsed (content (map line_text ls)) = cell_parsed (content (map line_text ls')).
Proof.
  intros Hl Hl' Ht Ht' E Hn Nn Hm Nm Ng Hg Hd Hd'.
  rewrite (void_cell_card_parsed ls name m gs d o os), (void_cell_card_parsed ls' name m gs d' o' os'); auto.
  now rewrite (opt_tokens_case _ _ E).
Qed.
