(* C14 -> C15 link, part 1: the cell parser modelled by C15 (LIKE n BUT
   resolution, keyword parsing, defaults) gives the same cells for two tables
   of cards that agree up to what C14 shows to be layout: the option strings
   are tokenised alike, LIKE/BUT geometries agree up to letter case.
   Nothing of C15 is edited; only its definitions and lemmas are used. *)
From Coq Require Import List NArith ZArith Bool String Ascii Lia.
From T4V Require Import Base.Str Base.Scalar C15.Model C15.Proofs.
Import ListNotations.
Open Scope string_scope.

(* an option string that neither ends nor starts (blanks apart) with a colon:
   apply_but's blank then never glues two tokens (C15.tokenize_app) *)
Definition owf (o : string) : Prop := sq_state false o = false /\ leads_colon o = false.

Lemma leads_colon_app2 (a b : string) :
  leads_colon a = false -> leads_colon b = false -> leads_colon (a ++ String " " b) = false.
Proof.
  intros Ha Hb. induction a as [|c r IH].
  - cbn. exact Hb.
  - cbn [append leads_colon] in *. destruct (Ascii.eqb c " "); [now apply IH|exact Ha].
Qed.

Lemma sq_state_app (a b : string) (after : bool) :
  leads_colon b = false -> sq_state after a = false ->
  sq_state after (a ++ String " " b) = sq_state false b.
Proof.
  intros Hb. revert after. induction a as [|c r IH]; intros after Hs.
  - cbn in Hs. subst after. cbn. rewrite Hb. reflexivity.
  - cbn [append sq_state]. cbn [sq_state] in Hs.
    rewrite (leads_colon_app r b Hb).
    destruct (Ascii.eqb c " ").
    + destruct (after || leads_colon r); apply IH, Hs.
    + apply IH, Hs.
Qed.

Lemma owf_app a b : owf a -> owf b -> owf (a ++ " " ++ b).
Proof.
  intros [A1 A2] [B1 B2]. split; cbn [append].
  - now rewrite (sq_state_app a b false B2 A1).
  - now apply leads_colon_app2.
Qed.

Section Link.
  Context {T : Type} (SC : Scalar T).

  (* cards that the front end may produce for the same abstract card *)
  Definition card_eq (c c' : card) : Prop :=
    let '(m, g, o) := c in let '(m', g', o') := c' in
    m = m' /\ lower g = lower g' /\ (search_like (lower g) = None -> g = g') /\
    tokenize o = tokenize o' /\ owf o /\ owf o'.

  Definition table_eq (t t' : table) : Prop :=
    Forall2 (fun p p' => fst p = fst p' /\ card_eq (snd p) (snd p')) t t'.

  Lemma apply_but_eq b b' o o' :
    card_eq b b' -> tokenize o = tokenize o' -> owf o -> owf o' ->
    card_eq (apply_but b o) (apply_but b' o').
  Proof.
    destruct b as [[m g] ob], b' as [[m' g'] ob']. cbn [card_eq apply_but].
    intros (Em & Eg & Eg' & Eo & W & W') Et Wo Wo'. repeat split; auto.
    - rewrite (tokenize_app ob o (proj1 W) (proj2 Wo)), (tokenize_app ob' o' (proj1 W') (proj2 Wo')).
      now rewrite Eo, Et.
    - exact (proj1 (owf_app _ _ W Wo)).
    - exact (proj2 (owf_app _ _ W Wo)).
    - exact (proj1 (owf_app _ _ W' Wo')).
    - exact (proj2 (owf_app _ _ W' Wo')).
  Qed.

  Lemma lookup_eq n t t' :
    table_eq t t' ->
    match lookup n t, lookup n t' with
    | Some c, Some c' => card_eq c c'
    | None, None => True
    | _, _ => False
    end.
  Proof.
    induction 1 as [|[k c] [k' c'] r r' [Hk Hc] _ IH]; [exact I|].
    cbn [lookup fst snd] in *. subst k'.
    destruct (lookup n r), (lookup n r'); try contradiction; [exact IH|].
    destruct (n =? k)%Z; [exact Hc|exact I].
  Qed.

  Lemma resolve_like_eq fuel t t' : table_eq t t' -> forall c c',
    card_eq c c' ->
    match resolve_like fuel t c, resolve_like fuel t' c' with
    | Ok d, Ok d' => card_eq d d' /\ search_like (lower (snd (fst d))) = None
    | Err x, Err x' => x = x'
    | _, _ => False
    end.
  Proof.
    intros Ht. induction fuel as [|f IH]; intros [[m g] o] [[m' g'] o'] Hc;
      pose proof Hc as (Em & Eg & Eg' & Eo & W & W'); cbn [resolve_like]; rewrite <- Eg.
    - destruct (search_like (lower g)) eqn:S; [reflexivity|]. split; [exact Hc|exact S].
    - destruct (search_like (lower g)) as [n|] eqn:S; [|split; [exact Hc|exact S]].
      pose proof (lookup_eq n t t' Ht) as L.
      destruct (lookup n t) as [b|], (lookup n t') as [b'|]; try contradiction; [|reflexivity].
      apply IH. now apply apply_but_eq.
  Qed.

  Lemma worker_eq (e : env (T:=T)) rank lat c c' :
    card_eq c c' -> search_like (lower (snd (fst c))) = None ->
    worker SC e rank lat c = worker SC e rank lat c'.
  Proof.
    destruct c as [[m g] o], c' as [[m' g'] o']. cbn [card_eq fst snd].
    intros (Em & Eg & Eg' & Eo & _) S. subst m'. rewrite <- (Eg' S).
    unfold worker. now rewrite Eo.
  Qed.

  Lemma parse_one_cell_eq (e : env (T:=T)) fuel t t' rank lat c c' :
    table_eq t t' -> card_eq c c' ->
    parse_one_cell SC fuel e t rank lat c = parse_one_cell SC fuel e t' rank lat c'.
  Proof.
    intros Ht Hc. unfold parse_one_cell.
    pose proof (resolve_like_eq fuel t t' Ht c c' Hc) as R.
    destruct (resolve_like fuel t c) as [d|x], (resolve_like fuel t' c') as [d'|x']; try contradiction.
    - destruct R as [Hd S]. cbn [bind]. now apply worker_eq.
    - now subst.
  Qed.

  Lemma table_eq_length (t t' : table) : table_eq t t' -> List.length t = List.length t'.
  Proof. induction 1; cbn; congruence. Qed.

  Lemma parse_cells_eq (e : env (T:=T)) t t' : table_eq t t' -> forall todo todo' rank,
    table_eq todo todo' ->
    parse_cells SC e t rank todo = parse_cells SC e t' rank todo'.
  Proof.
    intros Ht todo todo' rank H. revert rank.
    induction H as [|[k c] [k' c'] r r' [Hk Hc] _ IH]; intros rank; [reflexivity|].
    cbn [parse_cells fst snd] in *. subst k'.
    rewrite (table_eq_length _ _ Ht).
    rewrite (parse_one_cell_eq e (List.length t') t t' rank (latopt e k) c c' Ht Hc).
    destruct (parse_one_cell SC (List.length t') e t' rank (latopt e k) c'); [|reflexivity].
    cbn [bind]. now rewrite IH.
  Qed.

  (* the whole cell parser of C15 does not distinguish such tables *)
  Theorem parse_all_eq (e : env (T:=T)) t t' :
    table_eq t t' -> parse_all SC e t = parse_all SC e t'.
  Proof. intros H. unfold parse_all. now apply parse_cells_eq. Qed.
End Link.

Section LinkDensity.
  Context {T : Type} (SC : Scalar T) (e : env (T:=T)).

  (* the same with materials that parse_material reads alike in the environment
     (density in another letter case under a case-insensitive normalize_float) *)
  Definition card_eq_d (c c' : card) : Prop :=
    let '(m, g, o) := c in let '(m', g', o') := c' in
    parse_material e m = parse_material e m' /\ lower g = lower g' /\ (search_like (lower g) = None -> g = g') /\
    tokenize o = tokenize o' /\ owf o /\ owf o'.

  Definition table_eq_d (t t' : table) : Prop :=
    Forall2 (fun p p' => fst p = fst p' /\ card_eq_d (snd p) (snd p')) t t'.

  Lemma apply_but_eq_d b b' o o' :
    card_eq_d b b' -> tokenize o = tokenize o' -> owf o -> owf o' ->
    card_eq_d (apply_but b o) (apply_but b' o').
  Proof.
    destruct b as [[m g] ob], b' as [[m' g'] ob']. cbn [card_eq_d apply_but].
    intros (Em & Eg & Eg' & Eo & W & W') Et Wo Wo'. repeat split; auto.
    - rewrite (tokenize_app ob o (proj1 W) (proj2 Wo)), (tokenize_app ob' o' (proj1 W') (proj2 Wo')).
      now rewrite Eo, Et.
    - exact (proj1 (owf_app _ _ W Wo)).
    - exact (proj2 (owf_app _ _ W Wo)).
    - exact (proj1 (owf_app _ _ W' Wo')).
    - exact (proj2 (owf_app _ _ W' Wo')).
  Qed.

  Lemma lookup_eq_d n t t' :
    table_eq_d t t' ->
    match lookup n t, lookup n t' with
    | Some c, Some c' => card_eq_d c c'
    | None, None => True
    | _, _ => False
    end.
  Proof.
    induction 1 as [|[k c] [k' c'] r r' [Hk Hc] _ IH]; [exact I|].
    cbn [lookup fst snd] in *. subst k'.
    destruct (lookup n r), (lookup n r'); try contradiction; [exact IH|].
    destruct (n =? k)%Z; [exact Hc|exact I].
  Qed.

  Lemma resolve_like_eq_d fuel t t' : table_eq_d t t' -> forall c c',
    card_eq_d c c' ->
    match resolve_like fuel t c, resolve_like fuel t' c' with
    | Ok d, Ok d' => card_eq_d d d' /\ search_like (lower (snd (fst d))) = None
    | Err x, Err x' => x = x'
    | _, _ => False
    end.
  Proof.
    intros Ht. induction fuel as [|f IH]; intros [[m g] o] [[m' g'] o'] Hc;
      pose proof Hc as (Em & Eg & Eg' & Eo & W & W'); cbn [resolve_like]; rewrite <- Eg.
    - destruct (search_like (lower g)) eqn:S; [reflexivity|]. split; [exact Hc|exact S].
    - destruct (search_like (lower g)) as [n|] eqn:S; [|split; [exact Hc|exact S]].
      pose proof (lookup_eq_d n t t' Ht) as L.
      destruct (lookup n t) as [b|], (lookup n t') as [b'|]; try contradiction; [|reflexivity].
      apply IH. now apply apply_but_eq_d.
  Qed.

  Lemma worker_eq_d rank lat c c' :
    card_eq_d c c' -> search_like (lower (snd (fst c))) = None ->
    worker SC e rank lat c = worker SC e rank lat c'.
  Proof.
    destruct c as [[m g] o], c' as [[m' g'] o']. cbn [card_eq_d fst snd].
    intros (Em & Eg & Eg' & Eo & _) S. rewrite <- (Eg' S).
    unfold worker. now rewrite Em, Eo.
  Qed.

  Lemma parse_one_cell_eq_d fuel t t' rank lat c c' :
    table_eq_d t t' -> card_eq_d c c' ->
    parse_one_cell SC fuel e t rank lat c = parse_one_cell SC fuel e t' rank lat c'.
  Proof.
    intros Ht Hc. unfold parse_one_cell.
    pose proof (resolve_like_eq_d fuel t t' Ht c c' Hc) as R.
    destruct (resolve_like fuel t c) as [d|x], (resolve_like fuel t' c') as [d'|x']; try contradiction.
    - destruct R as [Hd S]. cbn [bind]. now apply worker_eq_d.
    - now subst.
  Qed.

  Lemma table_eq_length_d (t t' : table) : table_eq_d t t' -> List.length t = List.length t'.
  Proof. induction 1; cbn; congruence. Qed.

  Lemma parse_cells_eq_d t t' : table_eq_d t t' -> forall todo todo' rank,
    table_eq_d todo todo' ->
    parse_cells SC e t rank todo = parse_cells SC e t' rank todo'.
  Proof.
    intros Ht todo todo' rank H. revert rank.
    induction H as [|[k c] [k' c'] r r' [Hk Hc] _ IH]; intros rank; [reflexivity|].
    cbn [parse_cells fst snd] in *. subst k'.
    rewrite (table_eq_length_d _ _ Ht).
    rewrite (parse_one_cell_eq_d (List.length t') t t' rank (latopt e k) c c' Ht Hc).
    destruct (parse_one_cell SC (List.length t') e t' rank (latopt e k) c'); [|reflexivity].
    cbn [bind]. now rewrite IH.
  Qed.

  (* the whole cell parser of C15 does not distinguish such tables *)
  Theorem parse_all_eq_d t t' :
    table_eq_d t t' -> parse_all SC e t = parse_all SC e t'.
  Proof. intros H. unfold parse_all. now apply parse_cells_eq_d. Qed.
End LinkDensity.

