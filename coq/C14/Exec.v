(* C14 — executable comparison functions used by the generated correspondence
   files. Outputs of the model functions are serialised to strings (separators
   \001 \002, errors \004 + name) and compared with the serialisation of what
   the implementation returned; exhaustive domains (all strings of a length
   over a small alphabet, behind a prefix) are enumerated here and compared by
   a polynomial fingerprint. *)
From Coq Require Import List NArith ZArith QArith Bool String Ascii Uint63.
From T4V Require Import Base.Str Base.Cases C14.Model.
Import ListNotations.
Open Scope string_scope.

(* strings with unprintable characters are shipped as lists of codes *)
Fixpoint S_ (l : list N) : string :=
  match l with
  | [] => ""
  | n :: r => String (ascii_of_N n) (S_ r)
  end.

Definition sep1 : string := String "001"%char "".
Definition sep2 : string := String "002"%char "".
Definition sep4 : string := String "004"%char "".

Definition ser_bool (b : bool) : string := if b then "T" else "F".
Definition ser_list (l : list string) : string := concat "" (map (fun s => s ++ sep1) l).
Definition ser_list2 (l : list (list string)) : string :=
  concat "" (map (fun c => ser_list c ++ sep2) l).
Definition ser_err (e : err) : string :=
  sep4 ++ match e with
          | EIndex => "EIndex" | EValue => "EValue" | EAttribute => "EAttribute"
          | EUnsupported => "EUnsupported"
          end.
Definition ser_res {A} (f : A -> string) (r : res A) : string :=
  match r with Ok a => f a | Err e => ser_err e end.
Definition ser4 (t : string * string * string * string) : string :=
  let '(a, b, c, d) := t in ser_list [a; b; c; d].
Definition ser3 (t : string * string * string) : string :=
  let '(a, b, c) := t in ser_list [a; b; c].
Definition ser_blocks (l : list (ascii * string)) : string :=
  ser_list (map (fun p => String (fst p) (snd p)) l).
Definition ser_front (t : list string * list string * list string) : string :=
  let '(a, b, c) := t in ser_list2 [a; b; c].

(* the tied functions, by number (harness/props/c14.py FUNS has the same table) *)
Definition tied (fid : N) (s : string) : string :=
  match fid with
  | 0 => ser_bool (is_comment s)
  | 1 => ser_bool (has5 s)
  | 2 => ser_bool (amp_cont s)
  | 3 => expand_tabs s
  | 4 => ser_list (strip_trailer s)
  | 5 => squeeze s
  | 6 => ser_list (words s)
  | 7 => ser_list (splitlines s)
  | 8 => ser_res ser_blocks (blocks s)
  | 9 => ser_list2 (get_cards s)
  | 10 => ser_list (block_cards s)
  | 11 => ser_res ser4 (surf_split s)
  | 12 => ser_res ser4 (data_split s)
  | 13 => ser_res ser4 (cell_split s)
  | 14 => match split_options s with Some (a, o) => ser_list [a; o] | None => "N" end
  | 15 => ser_res ser3 (void_split s)
  | 16 => ser_res ser3 (nonvoid_split s)
  | 17 => ser_res ser3 (likebut_split s)
  | 18 => ser_list (opt_tokens s)
  | 19 => lower s
  | 20 => ser_res ser_front (front s)
  | 21 => (* everything the front end computes on one text: the card contents
             of the three blocks, the blocks, the raw cards of each block *)
      ser_res ser_front (front s) ++ sep2 ++ ser_res ser_blocks (blocks s) ++ sep2 ++
      match blocks s with
      | Ok l => concat "" (map (fun p => ser_list2 (get_cards (snd p)) ++ sep4)
                               (filter (fun p => ceq (fst p) "c" || ceq (fst p) "s" || ceq (fst p) "d") l))
      | Err _ => ""
      end
  | 22 => match to_float_form s with
          | ReadAsIs t => "F" ++ t | ReadFortran t => "X" ++ t | NotRead => "N"
          end
  | 23 => match to_float_form s with NotRead => "N" | _ => "A" end
  | _ => "?"
  end%N.

(* explicit case: (function, input, serialised output of the implementation) *)
Definition check_ser (c : N * string * string) : bool :=
  let '(fid, inp, out) := c in String.eqb (tied fid inp) out.

(* ---- exhaustive domains by fingerprint (primitive 63-bit integers: every
   intermediate value stays below 2^52) ---- *)
Definition MODULUS : int := 2147483647%uint63.

Definition b2i (b : bool) (v : int) : int := if b then v else 0%uint63.
Definition ascii_int (c : ascii) : int :=
  match c with
  | Ascii b0 b1 b2 b3 b4 b5 b6 b7 =>
      (b2i b0 1 + b2i b1 2 + b2i b2 4 + b2i b3 8 + b2i b4 16 + b2i b5 32 + b2i b6 64 + b2i b7 128)%uint63
  end.

Fixpoint hstr (s : string) (h : int) : int :=
  match s with
  | EmptyString => h
  | String c r => hstr r ((h * 263 + ascii_int c + 1) mod MODULUS)%uint63
  end.

Fixpoint all_strings (alpha : list ascii) (n : nat) : list string :=
  match n with
  | O => [""]
  | S k => flat_map (fun c => map (String c) (all_strings alpha k)) alpha
  end.

Definition fingerprint (fid : N) (inputs : list string) : int :=
  fold_left (fun acc s => ((acc * 1000003 + hstr (tied fid s) (hstr s 7)) mod MODULUS)%uint63)
            inputs 0%uint63.

(* explicit case with a long output: (function, input, hash of the serialised
   output of the implementation) *)
Definition check_hash (c : N * string * int) : bool :=
  let '(fid, inp, h) := c in Uint63.eqb (hstr (tied fid inp) 7%uint63) h.

(* case: (function, alphabet, length of the enumerated part, prefix, suffix, fingerprint
   computed from the implementation) *)
Definition check_fp (c : N * string * N * string * string * int) : bool :=
  let '(fid, alpha, n, pre, suf, fp) := c in
  Uint63.eqb (fingerprint fid (map (fun s => pre ++ s ++ suf)
                                   (all_strings (list_ascii_of_string alpha) (N.to_nat n)))) fp.

(* all sequences of [n] lines from a line alphabet, each line ended by \n,
   behind a prefix *)
Fixpoint all_seqs {A} (alpha : list A) (n : nat) : list (list A) :=
  match n with
  | O => [[]]
  | S k => flat_map (fun c => map (cons c) (all_seqs alpha k)) alpha
  end.

Definition nlstr : string := String nl "".

Definition check_fp_lines (c : N * list string * N * string * int) : bool :=
  let '(fid, alpha, n, pre, fp) := c in
  Uint63.eqb (fingerprint fid (map (fun seq => pre ++ concat "" (map (fun l => l ++ nlstr) seq))
                                   (all_seqs alpha (N.to_nat n)))) fp.

(* ---- expand_data_card at exact rationals (tokens: integers) ---- *)
Definition rd_int (t : string) : option Q :=
  match t with
  | String "-" r => match int_of_string r with Some n => Some (inject_Z (- Z.of_N n)) | None => None end
  | _ => match int_of_string t with Some n => Some (inject_Z (Z.of_N n)) | None => None end
  end.

Fixpoint lin_q_from (lo step : Q) (i n : nat) : list Q :=
  match n with
  | O => []
  | S m => Qred (lo + inject_Z (Z.of_nat i) * step) :: lin_q_from lo step (S i) m
  end.
Definition lin_q (lo hi : Q) (n : nat) : list Q :=
  lin_q_from lo ((hi - lo) / inject_Z (Z.of_nat (S n))) 1 n.
Definition mul_q (a b : Q) : Q := Qred (a * b).

Definition ser_q (q : Q) : string :=
  let r := Qred q in dec_Z (Qnum r) ++ "/" ++ dec (Npos (Qden r)).
Definition ser_xerr (e : xerr) : string :=
  sep4 ++ match e with XIndex => "XIndex" | XValue => "XValue" | XType => "XType"
                  | XUnsupported => "XUnsupported" end.
Definition ser_expand (r : xres (list (option Q) * nat)) : string :=
  match r with
  | XOk (vs, k) => ser_list (map (fun v => match v with Some q => ser_q q | None => "J" end) vs)
                   ++ sep2 ++ dec (N.of_nat k)
  | XErr e => ser_xerr e
  end.

Definition expand_q (expected : option nat) (ts : list string) : string :=
  ser_expand (expand Q rd_int lin_q mul_q expected ts).

Definition fingerprint_l (f : list string -> string) (inputs : list (list string)) : int :=
  fold_left (fun acc ts => ((acc * 1000003 + hstr (f ts) (hstr (concat " " ts) 7)) mod MODULUS)%uint63)
            inputs 0%uint63.

(* case: (token alphabet, number of free tokens, leading tokens, expected, fingerprint) *)
Definition check_fp_expand (c : list string * N * list string * option N * int) : bool :=
  let '(alpha, n, pre, expected, fp) := c in
  Uint63.eqb (fingerprint_l (expand_q (option_map N.to_nat expected))
                (map (fun seq => pre ++ seq)%list (all_seqs alpha (N.to_nat n)))) fp.

Definition check_expand (c : option N * list string * string) : bool :=
  let '(expected, ts, out) := c in String.eqb (expand_q (option_map N.to_nat expected) ts) out.
