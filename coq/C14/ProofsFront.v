(* C14 — the whole text front end on a laid-out deck:
   text -> blocks -> cards -> contents. *)
From Coq Require Import List NArith Bool String Ascii Lia.
From T4V Require Import Base.Str C14.Model C14.ProofsContent C14.ProofsCards.
From T4V Require Import C14.ProofsBlocks.
Import ListNotations.
Open Scope string_scope.

Definition no_break (l : string) : bool := all_chars (fun c => negb (is_linebreak c)) l.

Lemma sl_line l rest :
  no_break l = true -> sl (l ++ String nl rest) = Some (l, opt_lines (sl rest)).
Proof.
  induction l as [|c l IH]; intros H.
  - reflexivity.
  - simpl in H. apply andb_true_iff in H. destruct H as [Hc Hl]. apply negb_true_iff in Hc.
    cbn [append sl]. rewrite Hc, (IH Hl). reflexivity.
Qed.

Lemma splitlines_unlines ls :
  Forall (fun l => no_break l = true) ls -> splitlines (unlines ls) = ls.
Proof.
  induction 1 as [|l ls Hl _ IH]; [reflexivity|].
  unfold splitlines in *. cbn [unlines]. rewrite (sl_line _ _ Hl). cbn [opt_lines]. now rewrite IH.
Qed.

(* a block = the physical lines of laid-out cards and trailing comment lines *)
Definition block_lines (cs : list lcard) (tailc : list string) : list string :=
  (flat_map pc_phys (map lc_pcard cs) ++ tailc)%list.

Lemma block_cards_layout cs tailc :
  lblock_ok noline cs -> comment_lines tailc ->
  Forall (fun l => no_break l = true) (block_lines cs tailc) ->
  block_cards (unlines (block_lines cs tailc)) = map card_content_form cs.
Proof.
  intros H Ht Hb. unfold block_cards, get_cards. rewrite (splitlines_unlines _ Hb).
  exact (cards_layout cs tailc H Ht).
Qed.

(* the front end on a whole deck: whatever the layout of each card, the
   comment lines, the blank delimiter lines, the three lists of card contents
   are the cards' tokens joined by single blanks *)
Theorem front_layout d ccs ctail scs stail dcs dtail :
  deck_ok d -> first_word_message (deck_text d) = Some false ->
  d_cells d = block_lines ccs ctail -> d_surfs d = block_lines scs stail ->
  d_data d = block_lines dcs dtail ->
  lblock_ok noline ccs -> lblock_ok noline scs -> lblock_ok noline dcs ->
  comment_lines ctail -> comment_lines stail -> comment_lines dtail ->
  Forall (fun l => no_break l = true) (d_cells d) ->
  Forall (fun l => no_break l = true) (d_surfs d) ->
  Forall (fun l => no_break l = true) (d_data d) ->
  front (deck_text d) =
  Ok (map card_content_form ccs, map card_content_form scs, map card_content_form dcs).
Proof.
  intros Hd Hm Ec Es Ed Hc Hs Hdd Tc Ts Td Bc Bs Bd.
  unfold front. rewrite (blocks_layout d Hd Hm). unfold lookup. cbn [find fst snd ceq].
  cbn. rewrite Ec, Es, Ed in *.
  rewrite (block_cards_layout _ _ Hc Tc Bc), (block_cards_layout _ _ Hs Ts Bs),
          (block_cards_layout _ _ Hdd Td Bd).
  reflexivity.
Qed.
