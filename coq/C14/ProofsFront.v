(* C14 — the whole text front end on a laid-out deck:
   text -> blocks -> cards -> contents. *)
From Coq Require Import List NArith Bool String Ascii Lia.
From T4V Require Import Base.Str C14.Model C14.ProofsContent C14.ProofsCards.
From T4V Require Import C14.ProofsBlocks.
Import ListNotations.
Open Scope string_scope.

Definition no_break (l : string) : bool := all_chars (fun c => negb (is_linebreak c)) l.

Lemma sl_line l rest :
  no_break l = true -> sl (l ++ String nl rest) = Some (l, opt_lines (sl rest)).
Proof.
  induction l as [|c l IH]; intros H.
  - reflexivity.
  - simpl in H. apply andb_true_iff in H. destruct H as [Hc Hl]. apply negb_true_iff in Hc.
    cbn [append sl]. rewrite Hc, (IH Hl). reflexivity.
Qed.

Lemma splitlines_unlines ls :
  Forall (fun l => no_break l = true) ls -> splitlines (unlines ls) = ls.
Proof.
  induction 1 as [|l ls Hl _ IH]; [reflexivity|].
  unfold splitlines in *. cbn [unlines]. rewrite (sl_line _ _ Hl). cbn [opt_lines]. now rewrite IH.
Qed.

(* a block = the physical lines of laid-out cards and trailing comment lines *)
Definition block_lines (cs : list lcard) (tailc : list string) : list string :=
  (flat_map pc_phys (map lc_pcard cs) ++ tailc)%list.

Lemma block_cards_layout cs tailc :
  lblock_ok noline cs -> comment_lines tailc ->
  Forall (fun l => no_break l = true) (block_lines cs tailc) ->
  block_cards (unlines (block_lines cs tailc)) = map card_content_form cs.
Proof.
  intros H Ht Hb. unfold block_cards, get_cards. rewrite (splitlines_unlines _ Hb).
  exact (cards_layout cs tailc H Ht).
Qed.

(* the front end on a whole deck: whatever the layout of each card, the
   comment lines, the blank delimiter lines, the three lists of card contents
   are the cards' tokens joined by single blanks *)
Theorem front_layout d ccs ctail scs stail dcs dtail :
  deck_ok d -> first_word_message (deck_text d) = Some false ->
  d_cells d = block_lines ccs ctail -> d_surfs d = block_lines scs stail ->
  d_data d = block_lines dcs dtail ->
  lblock_ok noline ccs -> lblock_ok noline scs -> lblock_ok noline dcs ->
  comment_lines ctail -> comment_lines stail -> comment_lines dtail ->
  Forall (fun l => no_break l = true) (d_cells d) ->
  Forall (fun l => no_break l = true) (d_surfs d) ->
  Forall (fun l => no_break l = true) (d_data d) ->
  front (deck_text d) =
  Ok (map card_content_form ccs, map card_content_form scs, map card_content_form dcs).
Proof.
  intros Hd Hm Ec Es Ed Hc Hs Hdd Tc Ts Td Bc Bs Bd.
  unfold front. rewrite (blocks_layout d Hd Hm). unfold lookup. cbn [find fst snd ceq].
  cbn. rewrite Ec, Es, Ed in *.
  rewrite (block_cards_layout _ _ Hc Tc Bc), (block_cards_layout _ _ Hs Ts Bs),
          (block_cards_layout _ _ Hdd Td Bd).
  reflexivity.
Qed.

(* ---- layout -> split: a card's pieces do not depend on its layout ---- *)
From T4V Require Import C14.ProofsSplit.

Theorem surface_card_layout ls bc ds mn p ps :
  Forall line_ok ls -> flat_map ptoks ls = (bc ++ ds) :: mn :: p :: ps ->
  all_chars is_bc bc = true -> all_chars is_digit ds = true -> ds <> "" ->
  all_chars is_mnemo mn = true -> mn <> "" ->
  surf_split (content (map line_text ls))
  = Ok (bc ++ ds, "", mn, join " " (p :: ps) ++ pad (ends_ws (joined ls))).
Proof.
  intros Hl Ht Hbc Hds Nds Hmn Nmn.
  rewrite (content_layout ls Hl), Ht. cbn [nonnil]. rewrite andb_true_r.
  apply surf_split_rendered; auto.
  pose proof (ptoks_tokens ls Hl) as Hk. rewrite Ht in Hk.
  inversion Hk as [|? ? _ Hk1]; subst. inversion Hk1 as [|? ? _ Hk2]; subst. now inversion Hk2.
Qed.

Theorem data_card_layout ls st ty ds ps :
  Forall line_ok ls -> flat_map ptoks ls = (st ++ ty ++ ds) :: ps ->
  all_chars (ceq "*") st = true ->
  all_chars nondigit ty = true -> (exists c ty', ty = String c ty' /\ is_letter c = true) ->
  all_chars is_digit ds = true -> ds <> "" ->
  data_split (content (map line_text ls))
  = Ok (st ++ ty, ds, "", match ps with [] => "" | _ => " " ++ join " " ps end
                          ++ pad (ends_ws (joined ls))).
Proof.
  intros Hl Ht Hst Hty Hlet Hds Nds.
  rewrite (content_layout ls Hl), Ht. cbn [nonnil]. rewrite andb_true_r.
  now apply data_split_rendered.
Qed.

(* two layouts of the same tokens: the same split, up to one trailing blank
   in the parameter string (which its consumers split() away) *)
Corollary surface_layout_invariant ls ls' bc ds mn p ps :
  Forall line_ok ls -> Forall line_ok ls' ->
  flat_map ptoks ls = (bc ++ ds) :: mn :: p :: ps -> flat_map ptoks ls' = flat_map ptoks ls ->
  all_chars is_bc bc = true -> all_chars is_digit ds = true -> ds <> "" ->
  all_chars is_mnemo mn = true -> mn <> "" ->
  exists b b',
    surf_split (content (map line_text ls)) = Ok (bc ++ ds, "", mn, join " " (p :: ps) ++ pad b) /\
    surf_split (content (map line_text ls')) = Ok (bc ++ ds, "", mn, join " " (p :: ps) ++ pad b').
Proof.
  intros Hl Hl' Ht Ht' Hbc Hds Nds Hmn Nmn. rewrite Ht in Ht'.
  exists (ends_ws (joined ls)), (ends_ws (joined ls')). split.
  - now apply surface_card_layout.
  - now apply surface_card_layout.
Qed.
