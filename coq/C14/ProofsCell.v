(* C14 — cellcard.split on the content of a laid-out cell card. *)
From Coq Require Import List NArith Bool String Ascii Lia.
From T4V Require Import Base.Str C14.Model C14.ProofsContent C14.ProofsSplit.
Import ListNotations.
Open Scope string_scope.

(* no blank or closing parenthesis directly followed by a letter or a star *)
Fixpoint opt_free (s : string) : bool :=
  match s with
  | EmptyString => true
  | String x r => match r with
                  | EmptyString => true
                  | String y _ => negb (is_opt_lead x && is_opt_start y) && opt_free r
                  end
  end.

Lemma split_options_cons c r :
  split_options (String c r) =
  match r with
  | EmptyString => None
  | String d _ =>
      if is_opt_lead c && is_opt_start d then Some (String c "", r)
      else match split_options r with
           | Some (a, o) => Some (String c a, o)
           | None => None
           end
  end.
Proof. reflexivity. Qed.

Lemma split_options_none s : opt_free s = true -> split_options s = None.
Proof.
  induction s as [|x r IH]; [reflexivity|]. intros H. rewrite split_options_cons.
  destruct r as [|y r']; [reflexivity|]. cbn [opt_free] in H.
  apply andb_true_iff in H. destruct H as [H1 H2]. apply negb_true_iff in H1.
  now rewrite H1, (IH H2).
Qed.

Lemma split_options_found a c d o :
  opt_free (a ++ String c "") = true -> is_opt_lead c = true -> is_opt_start d = true ->
  split_options (a ++ String c (String d o)) = Some (a ++ String c "", String d o).
Proof.
  intros H Hc Hd. induction a as [|x a IH].
  - cbn [append]. rewrite split_options_cons. now rewrite Hc, Hd.
  - cbn [append] in *. rewrite split_options_cons.
    destruct a as [|y a'].
    + cbn [append] in *. cbn [opt_free] in H. apply andb_true_iff in H. destruct H as [H1 H2].
      apply negb_true_iff in H1. rewrite H1. rewrite (IH H2). reflexivity.
    + cbn [append] in *. cbn [opt_free] in H. apply andb_true_iff in H. destruct H as [H1 H2].
      apply negb_true_iff in H1. rewrite H1. rewrite (IH H2). reflexivity.
Qed.

(* sufficient: after its first character the text holds no letter and no star *)
Lemma opt_free_no_start x s :
  all_chars (fun c => negb (is_opt_start c)) s = true -> opt_free (String x s) = true.
Proof.
  revert x. induction s as [|y s IH]; intros x H; [reflexivity|].
  simpl in H. apply andb_true_iff in H. destruct H as [Hy Hs].
  cbn [opt_free]. apply negb_true_iff in Hy. rewrite Hy, andb_false_r. cbn [negb andb].
  now apply IH.
Qed.

(* words of a cell card: name, material, then something *)
Lemma digits_token ds : ds <> "" -> all_chars is_digit ds = true -> is_token ds.
Proof.
  intros Hne H. split; [exact Hne|]. clear Hne. induction ds as [|c ds IH]; [reflexivity|].
  simpl in *. apply andb_true_iff in H. destruct H as [Hc Hs].
  apply andb_true_iff. split; [unfold nows; now rewrite (digit_not_ws c Hc)|now apply IH].
Qed.

Lemma words_has_nonws a d r : is_ws d = false -> words (a ++ String d r) <> [].
Proof.
  intros Hd. induction a as [|x a IH]; [now apply words_nonws_nonempty|].
  cbn [append]. destruct (is_ws x) eqn:Ex.
  - rewrite words_cons, Ex. exact IH.
  - now apply words_nonws_nonempty.
Qed.

Lemma zero_digit c : ceq "0" c = true -> is_digit c = true.
Proof. destruct c as [[] [] [] [] [] [] [] []]; vm_compute; intros; (reflexivity || discriminate). Qed.

Lemma zeros_digits m : all_chars (ceq "0") m = true -> all_chars is_digit m = true.
Proof.
  induction m as [|c m IH]; [reflexivity|]. cbn [all_chars]. intros H.
  apply andb_true_iff in H. destruct H as [Hc Hm]. now rewrite (zero_digit c Hc), IH.
Qed.

Lemma all_digits_chars m : all_chars is_digit m = true -> all_digits m = true.
Proof. induction m as [|c m IH]; [reflexivity|]. simpl. intros H.
  apply andb_true_iff in H. destruct H as [Hc Hm]. now rewrite Hc, IH. Qed.

Lemma digit_lower c : is_digit c = true -> lower_char c = c.
Proof. destruct c as [[] [] [] [] [] [] [] []]; vm_compute; intros; (reflexivity || discriminate). Qed.

Lemma digit_not_l c : is_digit c = true -> Ascii.eqb c "l" = false.
Proof. destruct c as [[] [] [] [] [] [] [] []]; vm_compute; intros; (reflexivity || discriminate). Qed.

Lemma digits_not_like m : m <> "" -> all_chars is_digit m = true -> String.eqb (lower m) "like" = false.
Proof.
  intros Hne H. destruct m as [|c m]; [contradiction|]. simpl in H.
  apply andb_true_iff in H. destruct H as [Hc _]. cbn [lower].
  rewrite (digit_lower c Hc). cbn [String.eqb]. now rewrite (digit_not_l c Hc).
Qed.

Lemma opt_start_not_ws d : is_opt_start d = true -> is_ws d = false.
Proof. destruct d as [[] [] [] [] [] [] [] []]; vm_compute; intros; (reflexivity || discriminate). Qed.

Lemma words_cell w0 ds w1 m x g :
  all_chars is_ws w0 = true -> all_chars is_digit ds = true -> ds <> "" ->
  all_chars is_ws w1 = true -> w1 <> "" ->
  all_chars is_digit m = true -> m <> "" -> is_ws x = true ->
  words (w0 ++ ds ++ w1 ++ m ++ String x g) = ds :: m :: words g.
Proof.
  intros Hw0 Hds Nds Hw1 Nw1 Hm Nm Hx.
  rewrite (words_ws _ _ Hw0).
  assert (S1 : (w1 ++ m ++ String x g) = "" \/ starts_ws (w1 ++ m ++ String x g) = true).
  { right. destruct w1 as [|y w1]; [contradiction|]. simpl in *. now apply andb_true_iff in Hw1. }
  rewrite (words_token_app ds _ (digits_token ds Nds Hds) S1).
  rewrite (words_ws _ _ Hw1).
  assert (S2 : String x g = "" \/ starts_ws (String x g) = true) by (right; exact Hx).
  rewrite (words_token_app m _ (digits_token m Nm Hm) S2).
  now rewrite words_cons, Hx.
Qed.

(* void_split / nonvoid_split on their shapes *)
Lemma void_split_shape w0 ds w1 m g :
  all_chars is_ws w0 = true -> all_chars is_digit ds = true -> ds <> "" ->
  all_chars is_ws w1 = true -> w1 <> "" ->
  all_chars nows m = true -> m <> "" -> head_fails nows g ->
  void_split (w0 ++ ds ++ w1 ++ m ++ g) = Ok (w0 ++ ds, w1 ++ m, g).
Proof.
  intros Hw0 Hds Nds Hw1 Nw1 Hm Nm Hg.
  destruct ds as [|d0 ds]; [contradiction|]. destruct w1 as [|x1 w1]; [contradiction|].
  destruct m as [|m0 m]; [contradiction|].
  pose proof (all_head _ _ _ Hds) as Hd0. pose proof (all_head _ _ _ Hm) as Hm0.
  unfold nows in Hm0. apply negb_true_iff in Hm0.
  unfold void_split.
  rewrite (span_app is_ws w0 _ Hw0) by (simpl; now apply digit_not_ws).
  rewrite (span_app is_digit (String d0 ds) _ Hds) by (simpl; apply ws_not_digit; exact (all_head _ _ _ Hw1)).
  rewrite (span_app is_ws (String x1 w1) _ Hw1) by (simpl; exact Hm0).
  rewrite (span_app (fun c => negb (is_ws c)) (String m0 m) _ Hm) by exact Hg.
  reflexivity.
Qed.

Definition dens_char (c : ascii) : bool := negb (is_ws c || ceq c "(").

Lemma nonvoid_split_shape w0 ds w1 m w2 rho g :
  all_chars is_ws w0 = true -> all_chars is_digit ds = true -> ds <> "" ->
  all_chars is_ws w1 = true -> w1 <> "" ->
  all_chars nows m = true -> m <> "" ->
  all_chars is_ws w2 = true -> w2 <> "" ->
  all_chars dens_char rho = true -> rho <> "" -> head_fails dens_char g ->
  nonvoid_split (w0 ++ ds ++ w1 ++ m ++ w2 ++ rho ++ g) = Ok (w0 ++ ds, w1 ++ m ++ w2 ++ rho, g).
Proof.
  intros Hw0 Hds Nds Hw1 Nw1 Hm Nm Hw2 Nw2 Hr Nr Hg.
  destruct ds as [|d0 ds]; [contradiction|]. destruct w1 as [|x1 w1]; [contradiction|].
  destruct m as [|m0 m]; [contradiction|]. destruct w2 as [|x2 w2]; [contradiction|].
  destruct rho as [|r0 rho]; [contradiction|].
  pose proof (all_head _ _ _ Hds) as Hd0. pose proof (all_head _ _ _ Hm) as Hm0.
  unfold nows in Hm0. apply negb_true_iff in Hm0.
  pose proof (all_head _ _ _ Hr) as Hr0. unfold dens_char in Hr0. apply negb_true_iff in Hr0.
  apply orb_false_iff in Hr0. destruct Hr0 as [Hr0 _].
  pose proof (all_head _ _ _ Hw2) as Hx2.
  unfold nonvoid_split.
  rewrite (span_app is_ws w0 _ Hw0) by (simpl; now apply digit_not_ws).
  rewrite (span_app is_digit (String d0 ds) _ Hds) by (simpl; apply ws_not_digit; exact (all_head _ _ _ Hw1)).
  rewrite (span_app is_ws (String x1 w1) _ Hw1) by (simpl; exact Hm0).
  rewrite (span_app (fun c => negb (is_ws c)) (String m0 m) _ Hm) by (simpl; now rewrite Hx2).
  rewrite (span_app is_ws (String x2 w2) _ Hw2) by (simpl; exact Hr0).
  rewrite (span_app (fun c => negb (is_ws c || ceq c "(")) (String r0 rho) _ Hr) by exact Hg.
  reflexivity.
Qed.

Lemma digits_nows m : all_chars is_digit m = true -> all_chars nows m = true.
Proof.
  induction m as [|c m IH]; [reflexivity|]. simpl. intros H.
  apply andb_true_iff in H. destruct H as [Hc Hm].
  apply andb_true_iff. split; [unfold nows; now rewrite (digit_not_ws c Hc)|now apply IH].
Qed.

(* a void cell with options: name, zero material, geometry, then the options
   starting at the first letter or star that follows a blank or a closing
   parenthesis *)
Theorem cell_split_void_options w0 ds w1 m x g c d o :
  all_chars is_ws w0 = true -> all_chars is_digit ds = true -> ds <> "" ->
  all_chars is_ws w1 = true -> w1 <> "" ->
  all_chars (ceq "0") m = true -> m <> "" -> is_ws x = true ->
  opt_free (w0 ++ ds ++ w1 ++ m ++ String x g ++ String c "") = true ->
  is_opt_lead c = true -> is_opt_start d = true ->
  cell_split (w0 ++ ds ++ w1 ++ m ++ String x g ++ String c (String d o))
  = Ok (w0 ++ ds, w1 ++ m, String x g ++ String c "", String d o).
Proof.
  intros Hw0 Hds Nds Hw1 Nw1 Hm0 Nm Hx Hfree Hc Hd.
  pose proof (zeros_digits m Hm0) as Hm.
  unfold cell_split.
  change (String x g ++ String c (String d o)) with (String x (g ++ String c (String d o))).
  rewrite (words_cell _ _ _ _ _ _ Hw0 Hds Nds Hw1 Nw1 Hm Nm Hx).
  pose proof (words_has_nonws g c (String d o)) as W1.
  assert (W : words (g ++ String c (String d o)) <> []).
  { destruct (is_ws c) eqn:Ec.
    - change (g ++ String c (String d o)) with (g ++ (String c "") ++ String d o).
      rewrite <- sapp_assoc. apply words_has_nonws. now apply opt_start_not_ws.
    - now apply W1. }
  destruct (words (g ++ String c (String d o))) as [|w3 ws3]; [contradiction|].
  rewrite (digits_not_like m Nm Hm).
  change (String x (g ++ String c (String d o))) with (String x g ++ String c (String d o)).
  assert (E : w0 ++ ds ++ w1 ++ m ++ String x g ++ String c (String d o)
              = (w0 ++ ds ++ w1 ++ m ++ String x g) ++ String c (String d o))
    by now rewrite !sapp_assoc.
  rewrite E. rewrite split_options_found; [| now rewrite !sapp_assoc | exact Hc | exact Hd].
  unfold mat_is_zero. rewrite (all_digits_chars m Hm), Hm0.
  destruct m as [|m0 m']; [contradiction|]. cbn [nonempty andb].
  rewrite !sapp_assoc.
  rewrite (void_split_shape w0 ds w1 (String m0 m') (String x g ++ String c ""));
    auto using digits_nows; try discriminate.
  simpl. unfold nows. now rewrite Hx.
Qed.

(* a cell with a material and a density *)
Theorem cell_split_material_options w0 ds w1 m w2 rho x g c d o :
  all_chars is_ws w0 = true -> all_chars is_digit ds = true -> ds <> "" ->
  all_chars is_ws w1 = true -> w1 <> "" ->
  all_chars is_digit m = true -> all_chars (ceq "0") m = false ->
  all_chars is_ws w2 = true -> w2 <> "" ->
  all_chars dens_char rho = true -> rho <> "" -> is_ws x = true ->
  opt_free (w0 ++ ds ++ w1 ++ m ++ w2 ++ rho ++ String x g ++ String c "") = true ->
  is_opt_lead c = true -> is_opt_start d = true ->
  cell_split (w0 ++ ds ++ w1 ++ m ++ w2 ++ rho ++ String x g ++ String c (String d o))
  = Ok (w0 ++ ds, w1 ++ m ++ w2 ++ rho, String x g ++ String c "", String d o).
Proof.
  intros Hw0 Hds Nds Hw1 Nw1 Hm Hm0 Hw2 Nw2 Hr Nr Hx Hfree Hc Hd.
  assert (Nm : m <> "") by (intros ->; discriminate).
  destruct w2 as [|x2 w2']; [contradiction|]. pose proof (all_head _ _ _ Hw2) as Hx2.
  unfold cell_split.
  change (String x2 w2' ++ rho ++ String x g ++ String c (String d o))
    with (String x2 (w2' ++ rho ++ String x g ++ String c (String d o))).
  rewrite (words_cell _ _ _ _ _ _ Hw0 Hds Nds Hw1 Nw1 Hm Nm Hx2).
  assert (W : words (w2' ++ rho ++ String x g ++ String c (String d o)) <> []).
  { destruct rho as [|r0 rho']; [contradiction|].
    change (String r0 rho' ++ String x g ++ String c (String d o))
      with (String r0 (rho' ++ String x g ++ String c (String d o))).
    apply words_has_nonws. pose proof (all_head _ _ _ Hr) as Hr0. unfold dens_char in Hr0.
    apply negb_true_iff in Hr0. now apply orb_false_iff in Hr0. }
  destruct (words (w2' ++ rho ++ String x g ++ String c (String d o))) as [|w3 ws3]; [contradiction|].
  rewrite (digits_not_like m Nm Hm).
  change (String x2 (w2' ++ rho ++ String x g ++ String c (String d o)))
    with (String x2 w2' ++ rho ++ String x g ++ String c (String d o)).
  assert (E : w0 ++ ds ++ w1 ++ m ++ String x2 w2' ++ rho ++ String x g ++ String c (String d o)
              = (w0 ++ ds ++ w1 ++ m ++ String x2 w2' ++ rho ++ String x g) ++ String c (String d o))
    by now rewrite !sapp_assoc.
  rewrite E. rewrite split_options_found; [| now rewrite !sapp_assoc | exact Hc | exact Hd].
  unfold mat_is_zero. rewrite (all_digits_chars m Hm), Hm0.
  destruct m as [|m0 m']; [contradiction|]. cbn [nonempty andb].
  rewrite !sapp_assoc.
  rewrite (nonvoid_split_shape w0 ds w1 (String m0 m') (String x2 w2') rho (String x g ++ String c ""));
    auto using digits_nows; try discriminate.
  simpl. unfold dens_char. now rewrite Hx.
Qed.
