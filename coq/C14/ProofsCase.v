(* C14 — letter case: the functions of the front end that look at letters do
   so through lower() or through classes closed under lower(). *)
From Coq Require Import List NArith Bool String Ascii Lia.
From T4V Require Import Base.Str C14.Model C14.ProofsContent.
Import ListNotations.
Open Scope string_scope.

Ltac by_ascii c := destruct c as [[] [] [] [] [] [] [] []]; vm_compute; reflexivity.

Lemma lower_char_idem c : lower_char (lower_char c) = lower_char c.
Proof. by_ascii c. Qed.
Lemma lower_ws c : is_ws (lower_char c) = is_ws c.
Proof. by_ascii c. Qed.
Lemma lower_digit c : is_digit (lower_char c) = is_digit c.
Proof. by_ascii c. Qed.
Lemma lower_letter c : is_letter (lower_char c) = is_letter c.
Proof. by_ascii c. Qed.
Lemma lower_bc c : is_bc (lower_char c) = is_bc c.
Proof. by_ascii c. Qed.
Lemma lower_sign c : is_sign (lower_char c) = is_sign c.
Proof. by_ascii c. Qed.
Lemma lower_mnemo c : is_mnemo (lower_char c) = is_mnemo c.
Proof. by_ascii c. Qed.
Lemma lower_blank c : ceq (lower_char c) " " = ceq c " ".
Proof. by_ascii c. Qed.
Lemma lower_colon c : ceq (lower_char c) ":" = ceq c ":".
Proof. by_ascii c. Qed.
Lemma lower_star c : ceq "*" (lower_char c) = ceq "*" c.
Proof. by_ascii c. Qed.

Lemma lower_idem s : lower (lower s) = lower s.
Proof. induction s as [|c s IH]; simpl; [reflexivity|now rewrite lower_char_idem, IH]. Qed.

Lemma lower_app a b : lower (a ++ b) = lower a ++ lower b.
Proof. induction a as [|c a IH]; simpl; [reflexivity|now rewrite IH]. Qed.

Lemma lower_spaces n : lower (spaces n) = spaces n.
Proof. induction n as [|n IH]; simpl; [reflexivity|now rewrite IH]. Qed.

(* re.sub(' *: *', ':', s) does not look at letters *)
Lemma colon_sub_lower s pend ac : lower (colon_sub s pend ac) = colon_sub (lower s) pend ac.
Proof.
  revert pend ac. induction s as [|c s IH]; intros pend ac; simpl.
  - apply lower_spaces.
  - rewrite lower_blank, lower_colon. destruct (ceq c " ").
    + destruct ac; apply IH.
    + destruct (ceq c ":") eqn:Ec.
      * simpl. now rewrite IH.
      * rewrite lower_app, lower_spaces. simpl. now rewrite IH.
Qed.

(* option tokenisation: two spellings of a cell card's options that differ
   only in letter case give the same keyword list *)
Theorem opt_tokens_case s s' : lower s = lower s' -> opt_tokens s = opt_tokens s'.
Proof. intros H. unfold opt_tokens. now rewrite !colon_sub_lower, H. Qed.

Corollary opt_tokens_lower s : opt_tokens (lower s) = opt_tokens s.
Proof. apply opt_tokens_case. apply lower_idem. Qed.

(* the splits cut at the same places whatever the case *)
Lemma span_lower p s :
  (forall c, p (lower_char c) = p c) ->
  span p (lower s) = (lower (fst (span p s)), lower (snd (span p s))).
Proof.
  intros Hp. induction s as [|c s IH]; [reflexivity|].
  simpl. rewrite Hp. destruct (p c).
  - rewrite IH. now destruct (span p s).
  - reflexivity.
Qed.

Lemma nonempty_lower s : nonempty (lower s) = nonempty s.
Proof. now destruct s. Qed.

Definition lower4 (t : string * string * string * string) : string * string * string * string :=
  let '(a, b, c, d) := t in (lower a, lower b, lower c, lower d).

Definition map_res {A B} (f : A -> B) (r : res A) : res B :=
  match r with Ok a => Ok (f a) | Err e => Err e end.

Theorem surf_split_lower s : surf_split (lower s) = map_res lower4 (surf_split s).
Proof.
  unfold surf_split.
  rewrite (span_lower is_ws s lower_ws). cbn [snd].
  destruct (span is_ws s) as [w0 s1]. cbn [snd fst].
  rewrite (span_lower is_bc s1 lower_bc). destruct (span is_bc s1) as [bc s2]. cbn [snd fst].
  rewrite (span_lower is_digit s2 lower_digit). destruct (span is_digit s2) as [ds s3]. cbn [snd fst].
  rewrite (span_lower is_ws s3 lower_ws). destruct (span is_ws s3) as [w1 s4]. cbn [snd fst].
  rewrite (span_lower is_sign s4 lower_sign). destruct (span is_sign s4) as [sg s5]. cbn [snd fst].
  rewrite (span_lower is_digit s5 lower_digit). destruct (span is_digit s5) as [d2 s6]. cbn [snd fst].
  rewrite (span_lower is_ws s6 lower_ws). destruct (span is_ws s6) as [w2 s7]. cbn [snd fst].
  rewrite (span_lower is_mnemo s7 lower_mnemo). destruct (span is_mnemo s7) as [ty s8]. cbn [snd fst].
  rewrite (span_lower is_ws s8 lower_ws). destruct (span is_ws s8) as [w3 s9]. cbn [snd fst].
  rewrite !nonempty_lower.
  destruct (nonempty ds && nonempty w1 && nonempty ty && nonempty w3); [|reflexivity].
  cbn [map_res lower4]. now rewrite !lower_app.
Qed.

Lemma lower_negdigit c : negb (is_digit (lower_char c)) = negb (is_digit c).
Proof. now rewrite lower_digit. Qed.

Theorem data_split_lower s : data_split (lower s) = map_res lower4 (data_split s).
Proof.
  unfold data_split.
  rewrite (span_lower is_ws s lower_ws). cbn [snd].
  destruct (span is_ws s) as [w0 s1]. cbn [snd fst].
  rewrite (span_lower (ceq "*") s1 lower_star). destruct (span (ceq "*") s1) as [st s2]. cbn [snd fst].
  destruct s2 as [|c s2']; [reflexivity|]. cbn [lower]. rewrite lower_letter.
  destruct (is_letter c); [|reflexivity].
  change (String (lower_char c) (lower s2')) with (lower (String c s2')).
  rewrite (span_lower (fun c => negb (is_digit c)) (String c s2') lower_negdigit).
  destruct (span (fun c => negb (is_digit c)) (String c s2')) as [ty s3]. cbn [snd fst].
  rewrite (span_lower is_digit s3 lower_digit). destruct (span is_digit s3) as [ds s4]. cbn [snd fst].
  destruct s4 as [|d s5]; [cbn [lower map_res lower4]; now rewrite !lower_app|].
  cbn [lower].
  assert (Hstar : forall x, lower_char x = "*"%char <-> x = "*"%char).
  { intros x. split; [|intros ->; reflexivity].
    destruct x as [[] [] [] [] [] [] [] []]; vm_compute; intros H; (reflexivity || discriminate). }
  destruct (Ascii.eqb d "*") eqn:Ed.
  - apply Ascii.eqb_eq in Ed. subst d. cbn [map_res lower4]. now rewrite !lower_app.
  - assert (Ed' : Ascii.eqb (lower_char d) "*" = false).
    { destruct (Ascii.eqb (lower_char d) "*") eqn:E; [|reflexivity].
      apply Ascii.eqb_eq in E. apply (proj1 (Hstar d)) in E. rewrite E in Ed. vm_compute in Ed. discriminate Ed. }
    assert (M : forall (x : ascii) (A : Type) (a b : A), Ascii.eqb x "*" = false ->
                match x with "*"%char => a | _ => b end = b).
    { intros x A a b Hx. destruct x as [[] [] [] [] [] [] [] []]; try reflexivity. discriminate. }
    rewrite (M _ _ _ _ Ed'), (M _ _ _ _ Ed). cbn [map_res lower4 lower]. now rewrite !lower_app.
Qed.
