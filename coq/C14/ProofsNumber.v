(* C14 — MIP.mip.datacard.to_float at token level: the Fortran spellings of
   one decimal number are all read, with the same mantissa and exponent. *)
From Coq Require Import List NArith Bool String Ascii Lia.
From T4V Require Import Base.Str C14.Model C14.ProofsContent C14.ProofsSplit.
Import ListNotations.
Open Scope string_scope.

Definition mantissa (d1 : string) (frac : option string) : string :=
  match frac with None => d1 | Some d2 => d1 ++ String "." d2 end.

Definition mant_ok (d1 : string) (frac : option string) : Prop :=
  all_chars is_digit d1 = true /\
  match frac with
  | None => d1 <> ""
  | Some d2 => all_chars is_digit d2 = true /\ (d1 <> "" \/ d2 <> "")
  end.

Definition sign_str (s : string) : Prop := s = "" \/ s = "+" \/ s = "-".

(* what may follow a mantissa: not a digit, not a dot *)
Definition head_marker (r : string) : Prop :=
  match r with
  | String c _ => is_digit c = false /\ ceq c "." = false
  | EmptyString => True
  end.

Lemma dot_match {A} (c : ascii) (r : string) (f : string -> A) (b : A) :
  ceq c "." = false ->
  match String c r with String "."%char r2 => f r2 | _ => b end = b.
Proof. intros H. destruct c as [[] [] [] [] [] [] [] []]; try reflexivity. discriminate. Qed.

Lemma nonempty_ne s : s <> "" -> nonempty s = true.
Proof. destruct s; [contradiction|reflexivity]. Qed.

Lemma mantissa_split_app d1 frac r :
  mant_ok d1 frac -> head_marker r ->
  mantissa_split (mantissa d1 frac ++ r) = Some (mantissa d1 frac, r).
Proof.
  intros [Hd1 Hf] Hr. unfold mantissa_split, mantissa. destruct frac as [d2|].
  - destruct Hf as [Hd2 Hne]. rewrite sapp_assoc. cbn [append].
    rewrite (span_app is_digit d1 _ Hd1) by reflexivity.
    assert (Hh : head_fails is_digit r) by (destruct r; [exact I|exact (proj1 Hr)]).
    rewrite (span_app is_digit d2 _ Hd2 Hh).
    destruct Hne as [Hne|Hne]; rewrite (nonempty_ne _ Hne); [reflexivity|now rewrite orb_true_r].
  - assert (Hh : head_fails is_digit r) by (destruct r; [exact I|exact (proj1 Hr)]).
    rewrite (span_app is_digit d1 _ Hd1 Hh). rewrite (nonempty_ne _ Hf).
    destruct r as [|c r]; [reflexivity|]. destruct Hr as [_ Hdot].
    destruct c as [[] [] [] [] [] [] [] []]; try reflexivity. discriminate Hdot.
Qed.

Lemma mantissa_head d1 frac r :
  mant_ok d1 frac -> exists c q, mantissa d1 frac ++ r = String c q /\ is_sign c = false.
Proof.
  intros [Hd1 Hf]. unfold mantissa. destruct d1 as [|c d1].
  - destruct frac as [d2|]; [|contradiction]. exists "."%char, (d2 ++ r). split; reflexivity.
  - exists c. destruct frac as [d2|]; eexists; (split; [reflexivity|]);
      apply digit_not_sign; exact (all_head _ _ _ Hd1).
Qed.

Lemma strip_sign_app s d1 frac r :
  sign_str s -> mant_ok d1 frac ->
  strip_sign (s ++ mantissa d1 frac ++ r) = mantissa d1 frac ++ r /\
  sign_of (s ++ mantissa d1 frac ++ r) = s.
Proof.
  intros Hs Hm. destruct (mantissa_head d1 frac r Hm) as (c & q & E & Hc).
  destruct Hs as [->|[->| ->]]; cbn [append]; rewrite ?E; cbn; rewrite ?Hc; split; reflexivity.
Qed.

Definition starts_sign (e : string) : Prop :=
  match e with String g _ => is_sign g = true | EmptyString => False end.

Lemma sign_not_e g : is_sign g = true ->
  ceq g "e" = false /\ ceq g "E" = false /\ ceq g "d" = false /\ ceq g "D" = false /\
  is_digit g = false /\ ceq g "." = false.
Proof. destruct g as [[] [] [] [] [] [] [] []]; vm_compute; intros H; try discriminate; repeat split. Qed.

Theorem to_float_spellings s d1 frac e :
  sign_str s -> mant_ok d1 frac -> exp_ok e = true ->
  let m := mantissa d1 frac in
  to_float_form (s ++ m ++ "d" ++ e) = ReadFortran (s ++ m ++ "e" ++ e) /\
  to_float_form (s ++ m ++ "D" ++ e) = ReadFortran (s ++ m ++ "e" ++ e) /\
  (starts_sign e -> to_float_form (s ++ m ++ e) = ReadFortran (s ++ m ++ "e" ++ e)) /\
  to_float_form (s ++ m ++ "e" ++ e) = ReadAsIs (s ++ m ++ "e" ++ e) /\
  to_float_form (s ++ m ++ "E" ++ e) = ReadAsIs (s ++ m ++ "E" ++ e).
Proof.
  intros Hs Hm He m.
  assert (K : forall mk tl, is_digit mk = false -> ceq mk "." = false ->
              mantissa_split (strip_sign (s ++ m ++ String mk tl)) = Some (m, String mk tl) /\
              sign_of (s ++ m ++ String mk tl) = s).
  { intros mk tl H1 H2. destruct (strip_sign_app s d1 frac (String mk tl) Hs Hm) as [E1 E2].
    fold m in E1, E2. rewrite E1, E2. split; [|reflexivity].
    apply mantissa_split_app; [exact Hm|]. split; assumption. }
  repeat split.
  - destruct (K "d"%char e eq_refl eq_refl) as [E1 E2]. unfold to_float_form, py_float_ok.
    cbn [append] in *. rewrite E1. cbn. rewrite He. now rewrite E2.
  - destruct (K "D"%char e eq_refl eq_refl) as [E1 E2]. unfold to_float_form, py_float_ok.
    cbn [append] in *. rewrite E1. cbn. rewrite He. now rewrite E2.
  - intros Hg. destruct e as [|g ed]; [contradiction|]. simpl in Hg.
    destruct (sign_not_e g Hg) as (G1 & G2 & G3 & G4 & G5 & G6).
    destruct (K g ed G5 G6) as [E1 E2]. unfold to_float_form, py_float_ok.
    rewrite E1. rewrite G1, G2, G3, G4. cbn [orb andb]. rewrite He. now rewrite E2.
  - destruct (K "e"%char e eq_refl eq_refl) as [E1 E2]. unfold to_float_form, py_float_ok.
    cbn [append] in *. rewrite E1. cbn. now rewrite He.
  - destruct (K "E"%char e eq_refl eq_refl) as [E1 E2]. unfold to_float_form, py_float_ok.
    cbn [append] in *. rewrite E1. cbn. now rewrite He.
Qed.
