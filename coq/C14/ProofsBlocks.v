(* C14 — proofs about get_block_positions: blank-line delimiters, title. *)
From Coq Require Import List NArith Bool String Ascii Lia PeanoNat.
From T4V Require Import Base.Str C14.Model C14.ProofsContent.
Import ListNotations.
Open Scope string_scope.

(* the block scanner of raw_blocks, named *)
Fixpoint take_block (ls : list string) : list string * option (list string) :=
  match ls with
  | [] => ([], None)
  | l :: r => if is_blank l then ([], Some (drop_blank r))
              else let (b, k) := take_block r in (l :: b, k)
  end.

Lemma raw_blocks_S f ls :
  raw_blocks (S f) ls =
  let (blk, rest) := take_block ls in
  match rest with
  | None => [join (String nl "") blk]
  | Some [] => [unlines blk]
  | Some more => unlines blk :: raw_blocks f more
  end.
Proof. reflexivity. Qed.

Definition nonblank_lines (ls : list string) : Prop := Forall (fun l => is_blank l = false) ls.
Definition blank_lines (ls : list string) : Prop := Forall (fun l => is_blank l = true) ls.

Lemma take_block_app blk l r :
  nonblank_lines blk -> is_blank l = true ->
  take_block (blk ++ l :: r)%list = (blk, Some (drop_blank r)).
Proof.
  intros H Hl. induction H as [|x blk Hx _ IH]; simpl.
  - now rewrite Hl.
  - now rewrite Hx, IH.
Qed.

Lemma drop_blank_app bs r : blank_lines bs -> drop_blank (bs ++ r)%list = drop_blank r.
Proof. induction 1 as [|x bs Hx _ IH]; simpl; [reflexivity|now rewrite Hx]. Qed.

Lemma drop_blank_all bs : blank_lines bs -> drop_blank bs = [].
Proof. intros H. rewrite <- (app_nil_r bs). now rewrite drop_blank_app. Qed.

Lemma drop_blank_nonblank l r : is_blank l = false -> drop_blank (l :: r) = l :: r.
Proof. intros H. simpl. now rewrite H. Qed.

Lemma take_block_gap blk gap r :
  nonblank_lines blk -> blank_lines gap -> gap <> [] ->
  take_block (blk ++ gap ++ r)%list = (blk, Some (drop_blank r)).
Proof.
  intros Hb Hg Hne. destruct gap as [|g gs]; [contradiction|]. inversion Hg; subst.
  rewrite <- app_comm_cons. rewrite take_block_app by assumption. now rewrite drop_blank_app.
Qed.

Lemma drop_blank_lines nb r : nonblank_lines nb -> nb <> [] -> drop_blank (nb ++ r)%list = (nb ++ r)%list.
Proof.
  intros H Hne. destruct nb as [|x nb]; [contradiction|]. inversion H; subst.
  rewrite <- app_comm_cons. now apply drop_blank_nonblank.
Qed.

Lemma raw_blocks_next f blk gap nb r :
  nonblank_lines blk -> blank_lines gap -> gap <> [] -> nonblank_lines nb -> nb <> [] ->
  raw_blocks (S f) (blk ++ gap ++ nb ++ r)%list = unlines blk :: raw_blocks f (nb ++ r)%list.
Proof.
  intros Hb Hg Hne Hn Hnn. rewrite raw_blocks_S, (take_block_gap _ _ _ Hb Hg Hne).
  rewrite (drop_blank_lines _ _ Hn Hnn). destruct nb as [|x nb]; [contradiction|]. reflexivity.
Qed.

Lemma raw_blocks_last f blk gap :
  nonblank_lines blk -> blank_lines gap -> gap <> [] ->
  raw_blocks (S f) (blk ++ gap)%list = [unlines blk].
Proof.
  intros Hb Hg Hne. rewrite <- (app_nil_r gap). rewrite raw_blocks_S, (take_block_gap _ _ _ Hb Hg Hne).
  reflexivity.
Qed.

(* text.split('\n') *)
Definition no_crnl (l : string) : bool := all_chars (fun c => negb (is_crnl c)) l.

Lemma split_nl_cons c r :
  split_nl (String c r) =
  if ceq c nl then "" :: split_nl r
  else match split_nl r with l :: ls => String c l :: ls | [] => [String c ""] end.
Proof. reflexivity. Qed.

Lemma not_crnl_not_nl c : negb (is_crnl c) = true -> ceq c nl = false.
Proof. unfold is_crnl. intros H. apply negb_true_iff in H. now apply orb_false_iff in H. Qed.

Lemma split_nl_line l rest : no_crnl l = true -> split_nl (l ++ String nl rest) = l :: split_nl rest.
Proof.
  induction l as [|c l IH]; intros H.
  - reflexivity.
  - simpl in H. apply andb_true_iff in H. destruct H as [Hc Hl].
    change ((String c l) ++ String nl rest) with (String c (l ++ String nl rest)).
    rewrite split_nl_cons, (not_crnl_not_nl c Hc), (IH Hl). reflexivity.
Qed.

Lemma split_nl_unlines ls rest :
  Forall (fun l => no_crnl l = true) ls -> split_nl (unlines ls ++ rest) = (ls ++ split_nl rest)%list.
Proof.
  induction 1 as [|l ls Hl _ IH]; [reflexivity|].
  cbn [unlines]. rewrite sapp_assoc. cbn [append]. rewrite (split_nl_line _ _ Hl), IH. reflexivity.
Qed.

Lemma unlines_app a b : unlines (a ++ b)%list = unlines a ++ unlines b.
Proof. induction a as [|x a IH]; [reflexivity|]. cbn [app unlines]. now rewrite IH, sapp_assoc. Qed.

(* the title line of the first block *)
Lemma span_not_crnl t r :
  no_crnl t = true -> span (fun c => negb (is_crnl c)) (t ++ String nl r) = (t, String nl r).
Proof.
  induction t as [|c t IH]; intros H; [reflexivity|].
  simpl in H. apply andb_true_iff in H. destruct H as [Hc Ht].
  cbn [append span]. rewrite Hc, (IH Ht). reflexivity.
Qed.

Definition head_not_crnl (s : string) : Prop :=
  match s with String c _ => is_crnl c = false | EmptyString => True end.

Lemma title_split_block t cells :
  no_crnl t = true -> head_not_crnl (unlines cells) ->
  title_split (unlines (t :: cells)) = (t, unlines cells).
Proof.
  intros Ht Hc. unfold title_split. cbn [unlines]. rewrite (span_not_crnl _ _ Ht).
  cbn [span]. change (is_crnl nl) with true. cbv beta iota.
  destruct (unlines cells) as [|c r]; [reflexivity|]. simpl in Hc. cbn [span]. rewrite Hc. reflexivity.
Qed.

(* is the first word of the first 20 characters "message:"? *)
Definition first_word_message (text : string) : option bool :=
  match words (first20 text) with
  | [] => None
  | w :: _ => Some (String.eqb (lower w) "message:")
  end.

Record deck_layout := {
  d_title : string; d_cells : list string; d_gap1 : list string;
  d_surfs : list string; d_gap2 : list string; d_data : list string; d_tail : list string }.

Definition deck_text (d : deck_layout) : string :=
  unlines (d_title d :: d_cells d) ++ unlines (d_gap1 d) ++ unlines (d_surfs d)
  ++ unlines (d_gap2 d) ++ unlines (d_data d) ++ unlines (d_tail d).

Definition lines_ok (ls : list string) : Prop := Forall (fun l => no_crnl l = true) ls.

Definition deck_ok (d : deck_layout) : Prop :=
  lines_ok (d_title d :: d_cells d) /\ lines_ok (d_gap1 d) /\ lines_ok (d_surfs d) /\
  lines_ok (d_gap2 d) /\ lines_ok (d_data d) /\ lines_ok (d_tail d) /\
  nonblank_lines (d_title d :: d_cells d) /\ nonblank_lines (d_surfs d) /\ nonblank_lines (d_data d) /\
  blank_lines (d_gap1 d) /\ blank_lines (d_gap2 d) /\ blank_lines (d_tail d) /\
  d_cells d <> [] /\ d_gap1 d <> [] /\ d_surfs d <> [] /\ d_gap2 d <> [] /\ d_data d <> [].

Lemma nonblank_nonempty l : is_blank l = false -> l <> "".
Proof. intros H ->. discriminate. Qed.

Lemma blank_empty : is_blank "" = true.
Proof. reflexivity. Qed.

Lemma head_not_crnl_unlines ls :
  lines_ok ls -> nonblank_lines ls -> head_not_crnl (unlines ls).
Proof.
  intros H1 H2. destruct ls as [|l ls]; [exact I|].
  inversion H1 as [|? ? Hl _]; inversion H2 as [|? ? Hb _]; subst.
  destruct l as [|c l]; [discriminate|]. simpl in *.
  apply andb_true_iff in Hl. destruct Hl as [Hc _]. now apply negb_true_iff in Hc.
Qed.

Theorem blocks_layout d :
  deck_ok d -> first_word_message (deck_text d) = Some false ->
  blocks (deck_text d) =
  Ok [("t"%char, d_title d); ("c"%char, unlines (d_cells d));
      ("s"%char, unlines (d_surfs d)); ("d"%char, unlines (d_data d))].
Proof.
  intros (L1 & L2 & L3 & L4 & L5 & L6 & N1 & N3 & N5 & B2 & B4 & B6 & E1 & E2 & E3 & E4 & E5) Hm.
  unfold blocks. unfold first_word_message in Hm.
  destruct (words (first20 (deck_text d))) as [|w ws]; [discriminate|].
  injection Hm as Hm. rewrite Hm.
  (* the lines of the text *)
  assert (Hls : split_nl (deck_text d) =
                ((d_title d :: d_cells d) ++ d_gap1 d ++ d_surfs d ++ d_gap2 d ++ d_data d
                 ++ d_tail d ++ [""])%list).
  { unfold deck_text.
    rewrite (split_nl_unlines _ _ L1), (split_nl_unlines _ _ L2), (split_nl_unlines _ _ L3),
            (split_nl_unlines _ _ L4), (split_nl_unlines _ _ L5).
    rewrite <- (sapp_nil_r (unlines (d_tail d))). rewrite (split_nl_unlines _ _ L6). reflexivity. }
  rewrite Hls.
  (* the text is not empty *)
  assert (Hne : exists c r, deck_text d = String c r).
  { unfold deck_text. cbn [unlines]. inversion N1 as [|? ? Hb _]; subst.
    destruct (d_title d) as [|c t]; [discriminate|]. eexists; eexists; reflexivity. }
  destruct Hne as (c0 & r0 & Hne). rewrite Hne.
  (* the three blocks *)
  set (fuel := List.length ((d_title d :: d_cells d) ++ d_gap1 d ++ d_surfs d ++ d_gap2 d
                             ++ d_data d ++ d_tail d ++ [""])%list).
  assert (Hf : exists f, fuel = S (S (S f))).
  { assert (3 <= fuel).
    { unfold fuel. rewrite !app_length. cbn [List.length].
      destruct (d_gap1 d); [contradiction|]. destruct (d_surfs d); [contradiction|].
      cbn [List.length]. lia. }
    exists (fuel - 3). lia. }
  destruct Hf as (f & ->).
  assert (Bt : blank_lines (d_tail d ++ [""])%list).
  { apply Forall_app. split; [exact B6|repeat constructor]. }
  assert (Nt : (d_tail d ++ [""])%list <> []) by (destruct (d_tail d); discriminate).
  rewrite (raw_blocks_next _ _ _ _ _ N1 B2 E2 N3 E3).
  rewrite (raw_blocks_next _ _ _ _ _ N3 B4 E4 N5 E5).
  rewrite (raw_blocks_last _ _ _ N5 Bt Nt).
  cbn [tl]. cbv beta iota.
  (* title and assignment *)
  assert (Hb1 : nonempty (unlines (d_title d :: d_cells d)) = true).
  { cbn [unlines]. inversion N1 as [|? ? Hb0 _]; subst.
    destruct (d_title d); [discriminate|reflexivity]. }
  rewrite Hb1.
  inversion L1 as [|? ? Lt Lc]; inversion N1 as [|? ? _ Nc]; subst.
  rewrite (title_split_block _ _ Lt (head_not_crnl_unlines _ Lc Nc)).
  reflexivity.
Qed.

(* the same deck behind a message block *)
Theorem blocks_layout_message msg gap0 d :
  lines_ok msg -> nonblank_lines msg -> msg <> [] ->
  lines_ok gap0 -> blank_lines gap0 -> gap0 <> [] ->
  deck_ok d -> first_word_message (unlines msg ++ unlines gap0 ++ deck_text d) = Some true ->
  blocks (unlines msg ++ unlines gap0 ++ deck_text d) =
  Ok [("m"%char, unlines msg); ("t"%char, d_title d); ("c"%char, unlines (d_cells d));
      ("s"%char, unlines (d_surfs d)); ("d"%char, unlines (d_data d))].
Proof.
  intros Lm Nm Em L0 B0 E0
         (L1 & L2 & L3 & L4 & L5 & L6 & N1 & N3 & N5 & B2 & B4 & B6 & E1 & E2 & E3 & E4 & E5) Hm.
  unfold blocks. unfold first_word_message in Hm.
  destruct (words (first20 (unlines msg ++ unlines gap0 ++ deck_text d))) as [|w ws]; [discriminate|].
  injection Hm as Hm. rewrite Hm.
  assert (Hls : split_nl (unlines msg ++ unlines gap0 ++ deck_text d) =
                (msg ++ gap0 ++ (d_title d :: d_cells d) ++ d_gap1 d ++ d_surfs d ++ d_gap2 d
                 ++ d_data d ++ d_tail d ++ [""])%list).
  { unfold deck_text.
    rewrite (split_nl_unlines _ _ Lm), (split_nl_unlines _ _ L0).
    rewrite (split_nl_unlines _ _ L1), (split_nl_unlines _ _ L2), (split_nl_unlines _ _ L3),
            (split_nl_unlines _ _ L4), (split_nl_unlines _ _ L5).
    rewrite <- (sapp_nil_r (unlines (d_tail d))). rewrite (split_nl_unlines _ _ L6). reflexivity. }
  rewrite Hls.
  assert (Hne : exists c r, unlines msg ++ unlines gap0 ++ deck_text d = String c r).
  { destruct msg as [|m0 msg]; [contradiction|]. inversion Nm as [|? ? Hb _]; subst.
    cbn [unlines]. destruct m0 as [|c t]; [discriminate|]. eexists; eexists; reflexivity. }
  destruct Hne as (c0 & r0 & Hne). rewrite Hne.
  set (fuel := List.length (msg ++ gap0 ++ (d_title d :: d_cells d) ++ d_gap1 d ++ d_surfs d ++ d_gap2 d
                             ++ d_data d ++ d_tail d ++ [""])%list).
  assert (Hf : exists f, fuel = S (S (S (S f)))).
  { assert (4 <= fuel).
    { unfold fuel. rewrite !app_length. cbn [List.length].
      destruct msg; [contradiction|]. destruct gap0; [contradiction|].
      destruct (d_gap1 d); [contradiction|]. destruct (d_surfs d); [contradiction|].
      cbn [List.length]. lia. }
    exists (fuel - 4). lia. }
  destruct Hf as (f & ->).
  assert (Bt : blank_lines (d_tail d ++ [""])%list).
  { apply Forall_app. split; [exact B6|repeat constructor]. }
  assert (Nt : (d_tail d ++ [""])%list <> []) by (destruct (d_tail d); discriminate).
  assert (Et : d_title d :: d_cells d <> []) by discriminate.
  rewrite (raw_blocks_next _ _ _ _ _ Nm B0 E0 N1 Et).
  rewrite (raw_blocks_next _ _ _ _ _ N1 B2 E2 N3 E3).
  rewrite (raw_blocks_next _ _ _ _ _ N3 B4 E4 N5 E5).
  rewrite (raw_blocks_last _ _ _ N5 Bt Nt).
  cbn [tl]. cbv beta iota.
  assert (Hb1 : nonempty (unlines (d_title d :: d_cells d)) = true).
  { cbn [unlines]. inversion N1 as [|? ? Hb0 _]; subst.
    destruct (d_title d); [discriminate|reflexivity]. }
  rewrite Hb1.
  inversion L1 as [|? ? Lt Lc]; inversion N1 as [|? ? _ Nc]; subst.
  rewrite (title_split_block _ _ Lt (head_not_crnl_unlines _ Lc Nc)).
  reflexivity.
Qed.

(* a non-vacuity witness *)
Definition ex_deck : deck_layout :=
  {| d_title := "a title"; d_cells := ["1 0 -1"; "2 0 1"]; d_gap1 := [""; "  "];
     d_surfs := ["1 so 5"]; d_gap2 := [String tab ""]; d_data := ["m1 1001 1"; "nps 10"];
     d_tail := [" "] |}.

Lemma ex_deck_ok : deck_ok ex_deck /\ first_word_message (deck_text ex_deck) = Some false.
Proof. unfold deck_ok, lines_ok, nonblank_lines, blank_lines. cbn. repeat split; repeat constructor; discriminate. Qed.
