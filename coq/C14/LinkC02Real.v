(* C14 -> C02 link at the reals: spellings that move the decimal point
   (5.0, .5e1, 50.-1, 0.05d2) are read by C02's to_float as the same real. *)
From Coq Require Import List NArith ZArith Bool String Ascii Lia Reals Lra.
From T4V Require Import Base.Str Base.Scalar C02.Model C02.Text C02.ProofsText.
From T4V Require C14.LinkC02.
Import ListNotations.
Open Scope R_scope.

Lemma pow10_powerRZ e : (0 <= e)%Z -> IZR (10 ^ e) = powerRZ 10 e.
Proof.
  intros H. rewrite <- (Z2Nat.id e H). rewrite <- pow_powerRZ. now rewrite pow_IZR.
Qed.

Lemma ten_neq0 : 10 <> 0. Proof. lra. Qed.

(* m * 10^e in the two-branch form of C02's num_value_real *)
Lemma mant_exp_powerRZ m e :
  (if (0 <=? e)%Z then IZR m * IZR (10 ^ e) else IZR m / IZR (10 ^ (- e))) = IZR m * powerRZ 10 e.
Proof.
  destruct (0 <=? e)%Z eqn:E.
  - apply Z.leb_le in E. now rewrite (pow10_powerRZ e E).
  - apply Z.leb_gt in E. rewrite (pow10_powerRZ (- e)) by lia.
    assert (P : powerRZ 10 e * powerRZ 10 (- e) = 1).
    { rewrite <- (powerRZ_add 10 e (- e) ten_neq0). now replace (e + - e)%Z with 0%Z by lia. }
    assert (N : powerRZ 10 (- e) <> 0) by (apply powerRZ_NOR; exact ten_neq0).
    unfold Rdiv. f_equal. apply (Rmult_eq_reg_r (powerRZ 10 (- e))); [|exact N].
    rewrite Rinv_l by exact N. now rewrite P.
Qed.

Lemma value_scaled m x k :
  (k <= x)%Z -> IZR m * powerRZ 10 x = IZR (m * 10 ^ (x - k)) * powerRZ 10 k.
Proof.
  intros H. rewrite mult_IZR, (pow10_powerRZ (x - k)) by lia.
  rewrite Rmult_assoc, <- (powerRZ_add 10 (x - k) k ten_neq0).
  now replace (x - k + k)%Z with x by lia.
Qed.

(* two numerals with the same sign whose mantissas agree after scaling to a
   common power of ten denote the same real *)
Theorem same_value_scaled p p' s m x m' x' k :
  scan_real p = Some (mkNum s m x) -> scan_real p' = Some (mkNum s m' x') ->
  (k <= x)%Z -> (k <= x')%Z ->
  (Z.of_N m * 10 ^ (x - k) = Z.of_N m' * 10 ^ (x' - k))%Z ->
  C14.LinkC02.same_value RS p p'.
Proof.
  intros Hp Hp' Hk Hk' E. unfold C14.LinkC02.same_value, to_float. rewrite Hp, Hp'. f_equal.
  rewrite !num_value_real, !mant_exp_powerRZ.
  rewrite (value_scaled _ x k Hk), (value_scaled _ x' k Hk'), E. reflexivity.
Qed.
