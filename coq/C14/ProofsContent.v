(* C14 — proofs about Card.content: squeezing and the layout of a card's
   tokens on physical lines. *)
From Coq Require Import List NArith Bool String Ascii Lia.
From T4V Require Import Base.Str C14.Model.
Import ListNotations.
Open Scope string_scope.

(* ---- strings ---- *)
Lemma sapp_assoc (a b c : string) : (a ++ b) ++ c = a ++ (b ++ c).
Proof. induction a as [|x a IH]; simpl; [reflexivity|now rewrite IH]. Qed.

Lemma sapp_nil_r (a : string) : a ++ "" = a.
Proof. induction a as [|x a IH]; simpl; [reflexivity|now rewrite IH]. Qed.

Lemma all_chars_app p a b : all_chars p (a ++ b) = all_chars p a && all_chars p b.
Proof. induction a as [|x a IH]; simpl; [reflexivity|now rewrite IH, andb_assoc]. Qed.

Definition nows (c : ascii) : bool := negb (is_ws c).

Definition starts_ws (s : string) : bool :=
  match s with String c _ => is_ws c | EmptyString => false end.

Fixpoint ends_ws (s : string) : bool :=
  match s with
  | EmptyString => false
  | String c r => match r with EmptyString => is_ws c | _ => ends_ws r end
  end.

(* ---- words (str.split()) ---- *)
Lemma words_cons c r :
  words (String c r) =
  if is_ws c then words r
  else match r with
       | EmptyString => [String c ""]
       | String d _ => if is_ws d then String c "" :: words r
                       else match words r with
                            | w :: ws => String c w :: ws
                            | [] => [String c ""]
                            end
       end.
Proof. reflexivity. Qed.

Lemma words_ws g r : all_chars is_ws g = true -> words (g ++ r) = words r.
Proof.
  induction g as [|c g IH]; simpl; intros H; [reflexivity|].
  apply andb_true_iff in H. destruct H as [H1 H2]. rewrite H1. auto.
Qed.

Lemma words_nonws_nonempty c r : is_ws c = false -> words (String c r) <> [].
Proof.
  intros H. rewrite words_cons, H. destruct r as [|d r]; [discriminate|].
  destruct (is_ws d); [discriminate|]. destruct (words (String d r)); discriminate.
Qed.

(* words distributes over a blank: the general splitting law *)
Lemma words_app_ws a w b : is_ws w = true -> words (a ++ String w b) = (words a ++ words b)%list.
Proof.
  intros Hw. induction a as [|c a IH].
  - simpl. now rewrite Hw.
  - change ((String c a) ++ String w b) with (String c (a ++ String w b)).
    rewrite (words_cons c (a ++ String w b)), (words_cons c a).
    destruct (is_ws c) eqn:Ec; [exact IH|].
    destruct a as [|d a].
    + simpl. rewrite Hw. reflexivity.
    + change ((String d a) ++ String w b) with (String d (a ++ String w b)) in *.
      cbv beta iota.
      destruct (is_ws d) eqn:Ed.
      * rewrite IH. reflexivity.
      * rewrite IH. pose proof (words_nonws_nonempty d a Ed) as Hne.
        destruct (words (String d a)) as [|w0 ws0]; [contradiction|reflexivity].
Qed.

Lemma words_nil : words "" = [].
Proof. reflexivity. Qed.

Lemma words_join_blank xs : words (join " " xs) = flat_map words xs.
Proof.
  induction xs as [|x xs IH]; [reflexivity|].
  destruct xs as [|y xs].
  - simpl. now rewrite app_nil_r.
  - change (join " " (x :: y :: xs)) with (x ++ String " " (join " " (y :: xs))).
    rewrite words_app_ws by reflexivity. rewrite IH. reflexivity.
Qed.

(* a token: non-empty, no blank character *)
Definition is_token (t : string) : Prop := t <> "" /\ all_chars nows t = true.

Lemma words_token t : is_token t -> words t = [t].
Proof.
  intros [Hne H]. induction t as [|c t IH]; [contradiction|].
  simpl in H. apply andb_true_iff in H. destruct H as [H1 H2].
  unfold nows in H1. apply negb_true_iff in H1.
  rewrite words_cons, H1. destruct t as [|d t]; [reflexivity|].
  assert (Hd : is_ws d = false).
  { simpl in H2. apply andb_true_iff in H2. destruct H2 as [H2 _]. now apply negb_true_iff in H2. }
  rewrite Hd. rewrite IH; [reflexivity|discriminate|exact H2].
Qed.

Lemma words_token_app t r :
  is_token t -> (r = "" \/ starts_ws r = true) -> words (t ++ r) = t :: words r.
Proof.
  intros Ht [->|Hr].
  - rewrite sapp_nil_r. now rewrite words_token.
  - destruct r as [|w r]; [discriminate|]. simpl in Hr.
    rewrite words_app_ws by exact Hr. rewrite words_token by exact Ht.
    rewrite words_cons, Hr. reflexivity.
Qed.

(* ---- squeeze (re_spaces.sub(' ', s)) in closed form ---- *)
Lemma squeeze_cons c r :
  squeeze (String c r) =
  if is_ws c then
    match r with
    | EmptyString => " "
    | String d _ => if is_ws d then squeeze r else String " " (squeeze r)
    end
  else String c (squeeze r).
Proof. reflexivity. Qed.

Definition nonnil {A} (l : list A) : bool := match l with [] => false | _ => true end.

Definition pad (b : bool) : string := if b then " " else "".

Definition squeezed_form (s : string) : string :=
  pad (starts_ws s) ++ join " " (words s) ++ pad (ends_ws s && nonnil (words s)).

Lemma words_nil_ends r : r <> "" -> words r = [] -> ends_ws r = true.
Proof.
  induction r as [|c r IH]; [contradiction|]. intros _ H.
  rewrite words_cons in H. destruct (is_ws c) eqn:Ec.
  - destruct r as [|d r]; [simpl; exact Ec|].
    change (ends_ws (String c (String d r))) with (ends_ws (String d r)).
    apply IH; [discriminate|exact H].
  - exfalso. destruct r as [|d r]; [discriminate|].
    destruct (is_ws d); [discriminate|]. destruct (words (String d r)); discriminate.
Qed.

Lemma join_cons_token c w ws : join " " (String c w :: ws) = String c (join " " (w :: ws)).
Proof. destruct ws; reflexivity. Qed.

Theorem squeeze_closed_form s : squeeze s = squeezed_form s.
Proof.
  induction s as [|c r IH]; [reflexivity|].
  rewrite squeeze_cons. unfold squeezed_form. rewrite words_cons.
  cbn [starts_ws]. destruct (is_ws c) eqn:Ec.
  - destruct r as [|d r]; [cbn; rewrite andb_false_r; reflexivity|].
    change (ends_ws (String c (String d r))) with (ends_ws (String d r)).
    cbv beta iota.
    destruct (is_ws d) eqn:Ed.
    + rewrite IH. unfold squeezed_form. cbn [starts_ws]. rewrite Ed. reflexivity.
    + rewrite IH. unfold squeezed_form. cbn [starts_ws]. rewrite Ed. reflexivity.
  - rewrite IH. unfold squeezed_form. destruct r as [|d r]; [simpl; rewrite Ec; reflexivity|].
    change (ends_ws (String c (String d r))) with (ends_ws (String d r)).
    cbn [starts_ws]. cbv beta iota. destruct (is_ws d) eqn:Ed.
    + cbn [pad nonnil]. rewrite andb_true_r.
      destruct (words (String d r)) as [|w0 ws0] eqn:Ew.
      * rewrite (words_nil_ends (String d r)) by (discriminate || exact Ew). reflexivity.
      * cbn [nonnil]. rewrite andb_true_r. reflexivity.
    + pose proof (words_nonws_nonempty d r Ed) as Hne.
      destruct (words (String d r)) as [|w0 ws0]; [contradiction|].
      cbn [pad nonnil]. rewrite join_cons_token. reflexivity.
Qed.

(* ---- a card laid out on physical lines ---- *)
Definition clean (c : ascii) : bool := negb (is_ws c) && negb (is_trailer_start c).

(* item = (blanks before the token, token) *)
Definition item := (string * string)%type.

Fixpoint items_text (its : list item) : string :=
  match its with
  | [] => ""
  | it :: r => fst it ++ snd it ++ items_text r
  end.

Definition item_ok (it : item) : Prop :=
  all_chars is_ws (fst it) = true /\ snd it <> "" /\ all_chars clean (snd it) = true.

Record pline := mk_pline { p_items : list item; p_final : string; p_trailer : string }.

Definition body (l : pline) : string := items_text (p_items l) ++ p_final l.
Definition line_text (l : pline) : string := body l ++ p_trailer l.
Definition ptoks (l : pline) : list string := map snd (p_items l).

Definition trailer_ok (t : string) : Prop :=
  t = "" \/ exists c r, t = String c r /\ is_trailer_start c = true.

Definition gap_nonempty (it : item) : Prop := fst it <> "".

Definition line_ok (l : pline) : Prop :=
  Forall item_ok (p_items l) /\ Forall gap_nonempty (tl (p_items l)) /\
  all_chars is_ws (p_final l) = true /\ trailer_ok (p_trailer l).

Lemma ws_not_trailer c : is_ws c = true -> is_trailer_start c = false.
Proof.
  destruct c as [[] [] [] [] [] [] [] []]; vm_compute; intros H; (reflexivity || discriminate).
Qed.

Lemma has_trailer_app a b : has_trailer (a ++ b) = has_trailer a || has_trailer b.
Proof. induction a as [|c a IH]; simpl; [reflexivity|now rewrite IH, orb_assoc]. Qed.

Lemma ws_no_trailer g : all_chars is_ws g = true -> has_trailer g = false.
Proof.
  induction g as [|c g IH]; simpl; intros H; [reflexivity|].
  apply andb_true_iff in H. destruct H as [H1 H2].
  now rewrite (ws_not_trailer c H1), IH.
Qed.

Lemma clean_no_trailer t : all_chars clean t = true -> has_trailer t = false.
Proof.
  induction t as [|c t IH]; simpl; intros H; [reflexivity|].
  apply andb_true_iff in H. destruct H as [H1 H2]. unfold clean in H1.
  apply andb_true_iff in H1. destruct H1 as [_ H1]. apply negb_true_iff in H1.
  now rewrite H1, IH.
Qed.

Lemma clean_token t : t <> "" -> all_chars clean t = true -> is_token t.
Proof.
  intros Hne H. split; [exact Hne|]. clear Hne.
  induction t as [|c t IH]; simpl in *; [reflexivity|].
  apply andb_true_iff in H. destruct H as [H1 H2]. unfold clean in H1.
  apply andb_true_iff in H1. destruct H1 as [H1 _].
  apply andb_true_iff. split; [exact H1|now apply IH].
Qed.

Lemma items_no_trailer its : Forall item_ok its -> has_trailer (items_text its) = false.
Proof.
  induction 1 as [|it r [Hg [_ Ht]] _ IH]; simpl; [reflexivity|].
  now rewrite !has_trailer_app, (ws_no_trailer _ Hg), (clean_no_trailer _ Ht), IH.
Qed.

Lemma body_no_trailer l : line_ok l -> has_trailer (body l) = false.
Proof.
  intros (Hi & _ & Hf & _). unfold body.
  now rewrite has_trailer_app, (items_no_trailer _ Hi), (ws_no_trailer _ Hf).
Qed.

Lemma before_trailer_app a c r :
  has_trailer a = false -> is_trailer_start c = true -> before_trailer (a ++ String c r) = a.
Proof.
  intros Ha Hc. induction a as [|x a IH]; simpl in *; [now rewrite Hc|].
  apply orb_false_iff in Ha. destruct Ha as [Hx Ha]. now rewrite Hx, IH.
Qed.

Lemma strip_trailer_line l :
  line_ok l ->
  strip_trailer (line_text l) = match p_trailer l with "" => [body l] | _ => [body l; ""] end.
Proof.
  intros Hl. pose proof (body_no_trailer l Hl) as Hb. destruct Hl as (_ & _ & _ & Ht).
  unfold strip_trailer, line_text. destruct Ht as [->|(c & r & -> & Hc)].
  - now rewrite sapp_nil_r, Hb.
  - rewrite has_trailer_app, Hb. simpl. rewrite Hc. simpl.
    now rewrite (before_trailer_app _ _ _ Hb Hc).
Qed.

Lemma ws_starts g : all_chars is_ws g = true -> g = "" \/ starts_ws g = true.
Proof.
  destruct g as [|c g]; [now left|]. simpl. intros H. apply andb_true_iff in H. now right.
Qed.

Lemma words_items its final :
  Forall item_ok its -> Forall gap_nonempty (tl its) -> all_chars is_ws final = true ->
  words (items_text its ++ final) = map snd its.
Proof.
  intros Hi. revert final. induction Hi as [|it r [Hg [Hne Ht]] Hr IH]; intros final Hgap Hf.
  - simpl. rewrite <- (sapp_nil_r final). now rewrite words_ws.
  - simpl in Hgap. cbn [items_text map]. rewrite !sapp_assoc.
    rewrite (words_ws _ _ Hg).
    rewrite words_token_app; [| now apply clean_token |].
    + f_equal. apply IH; [|exact Hf]. destruct r; [constructor|]. now inversion Hgap.
    + destruct r as [|it2 r2].
      * simpl. now apply ws_starts.
      * right. inversion Hgap as [|? ? Hg2 _]; subst. unfold gap_nonempty in Hg2.
        inversion Hr as [|? ? [Hg2w _] _]; subst.
        cbn [items_text]. destruct (fst it2) as [|c g2]; [contradiction|].
        simpl in *. apply andb_true_iff in Hg2w. tauto.
Qed.

Lemma words_body l : line_ok l -> words (body l) = ptoks l.
Proof. intros (Hi & Hg & Hf & _). now apply words_items. Qed.

Definition joined (ls : list pline) : string :=
  join " " (flat_map strip_trailer (map line_text ls)).

Lemma words_joined ls : Forall line_ok ls -> words (joined ls) = flat_map ptoks ls.
Proof.
  intros H. unfold joined. rewrite words_join_blank.
  induction H as [|l r Hl _ IH]; [reflexivity|].
  cbn [map flat_map]. rewrite flat_map_app, IH. f_equal.
  rewrite (strip_trailer_line l Hl). destruct (p_trailer l); simpl;
    rewrite (words_body l Hl); now rewrite ?app_nil_r.
Qed.

Lemma words_join_tokens ts : Forall is_token ts -> words (join " " ts) = ts.
Proof.
  intros H. rewrite words_join_blank. induction H as [|t r Ht _ IH]; [reflexivity|].
  simpl. now rewrite (words_token t Ht), IH.
Qed.

Lemma words_padded bl br ts :
  Forall is_token ts -> words (pad bl ++ join " " ts ++ pad br) = ts.
Proof.
  intros H. assert (E : words (join " " ts ++ pad br) = ts).
  { destruct br; simpl.
    - rewrite words_app_ws by reflexivity. rewrite words_join_tokens by exact H. apply app_nil_r.
    - rewrite sapp_nil_r. now apply words_join_tokens. }
  destruct bl; simpl; exact E.
Qed.

Lemma ptoks_tokens ls : Forall line_ok ls -> Forall is_token (flat_map ptoks ls).
Proof.
  induction 1 as [|l r (Hi & _) _ IH]; simpl; [constructor|].
  apply Forall_app. split; [|exact IH]. unfold ptoks.
  clear -Hi. induction Hi as [|it r [_ [Hne Ht]] _ IH]; simpl; constructor; auto.
  now apply clean_token.
Qed.

(* the layout theorem for Card.content *)
Theorem content_layout ls :
  Forall line_ok ls ->
  content (map line_text ls) =
    pad (starts_ws (joined ls)) ++ join " " (flat_map ptoks ls)
    ++ pad (ends_ws (joined ls) && nonnil (flat_map ptoks ls)).
Proof.
  intros H. unfold content. fold (joined ls). rewrite squeeze_closed_form.
  unfold squeezed_form. now rewrite (words_joined ls H).
Qed.

Corollary content_words ls :
  Forall line_ok ls -> words (content (map line_text ls)) = flat_map ptoks ls.
Proof.
  intros H. rewrite (content_layout ls H). apply words_padded. now apply ptoks_tokens.
Qed.

(* no leading blank when the first line starts with a token in column 1 *)
Lemma starts_ws_app_token t r : is_token t -> starts_ws (t ++ r) = false.
Proof.
  intros [Hne H]. destruct t as [|c t]; [contradiction|]. simpl in *.
  apply andb_true_iff in H. destruct H as [H _]. now apply negb_true_iff in H.
Qed.

Lemma join_head_app x xs : exists r, join " " (x :: xs) = x ++ r.
Proof. destruct xs; [exists ""; simpl; now rewrite sapp_nil_r|eexists; reflexivity]. Qed.

Corollary content_layout_col1 l ls t its :
  Forall line_ok (l :: ls) -> p_items l = ("", t) :: its ->
  exists br, content (map line_text (l :: ls)) = join " " (flat_map ptoks (l :: ls)) ++ pad br.
Proof.
  intros H E. rewrite (content_layout _ H). eexists.
  assert (S : starts_ws (joined (l :: ls)) = false).
  { unfold joined. cbn [map flat_map]. inversion H as [|? ? Hl _]; subst.
    rewrite (strip_trailer_line l Hl).
    assert (B : exists r, body l = t ++ r).
    { unfold body. rewrite E. cbn. rewrite sapp_assoc. eexists; reflexivity. }
    destruct B as [r B].
    assert (Ht : is_token t).
    { destruct Hl as (Hi & _). rewrite E in Hi. inversion Hi as [|? ? [_ [Hne Hc]] _]; subst.
      now apply clean_token. }
    destruct (p_trailer l); cbn [app];
      match goal with |- starts_ws (join " " (?x :: ?xs)) = false =>
        destruct (join_head_app x xs) as [q ->] end;
      rewrite B, sapp_assoc; now apply starts_ws_app_token. }
  rewrite S. reflexivity.
Qed.
