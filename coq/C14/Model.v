(* C14 — model of the text front end (what the code DOES, ASCII subset):
     MIP/mip/blocks.py      get_block_positions            [blocks]
     MIP/mip/cards.py       re_comment, expand_tabs, is_continuation,
                            get_cards(skipcomments=True)   [is_comment, expand_tabs,
                                                            has5, amp_cont, is_cont, get_cards]
     MIP/mip/main.py        Card.content                   [strip_trailer, squeeze, content]
     MIP/mip/cellcard.py    split                          [cell_split]
     MIP/mip/surfacecard.py split                          [surf_split]
     MIP/mip/datacard.py    split                          [data_split]
     t4_geom_convert/Kernel/FileHandlers/Parser/ParseMCNPCell.py:163-167
                            option tokenisation            [opt_tokens]
   Python's str methods used by those functions are modelled on ASCII:
   str.split() [words], str.splitlines() [splitlines], str.lower() [lower],
   regex class \s [is_ws].
   Every consumer in the converter calls cards(..., skipcomments=True), so only
   that mode of get_cards is modelled.
   Executable; proofs live in C14/Proofs*.v. *)
From Coq Require Import List NArith Bool String Ascii.
From T4V Require Import Base.Str.
Import ListNotations.
Open Scope string_scope.

Inductive err :=
  | EIndex        (* IndexError: findall(...)[0] on no match, text[:20].split()[0] *)
  | EValue        (* ValueError: unpacking txt.split(None, 2), too many blocks *)
  | EAttribute    (* AttributeError: m.groups() on None *)
  | EUnsupported. (* the model abstains: float(t2) on a token that is not a digit string *)
Inductive res (A : Type) := Ok (a : A) | Err (e : err).
Arguments Ok {A}. Arguments Err {A}.

(* ---- character classes -------------------------------------------------- *)

Definition code (c : ascii) : N := N_of_ascii c.

(* regex \s and str.isspace on ASCII: blank, \t \n \v \f \r, \x1c-\x1f
   (codes 32, 9-13, 28-31; written as a match so that vm_compute is fast) *)
Definition is_ws (c : ascii) : bool :=
  match c with
  | " "%char | "009"%char | "010"%char | "011"%char | "012"%char | "013"%char
  | "028"%char | "029"%char | "030"%char | "031"%char => true
  | _ => false
  end.

(* str.splitlines() boundaries on ASCII: \n \v \f \r \x1c \x1d \x1e *)
Definition is_linebreak (c : ascii) : bool :=
  match c with
  | "010"%char | "011"%char | "012"%char | "013"%char
  | "028"%char | "029"%char | "030"%char => true
  | _ => false
  end.

Definition is_upper (c : ascii) : bool := let n := code c in ((65 <=? n) && (n <=? 90))%N.
Definition is_lower (c : ascii) : bool := let n := code c in ((97 <=? n) && (n <=? 122))%N.
Definition is_letter (c : ascii) : bool := is_upper c || is_lower c.
Definition ceq (a b : ascii) : bool := Ascii.eqb a b.

Definition lower_char (c : ascii) : ascii :=
  if is_upper c then ascii_of_N (code c + 32) else c.

Fixpoint lower (s : string) : string :=
  match s with
  | EmptyString => EmptyString
  | String c r => String (lower_char c) (lower r)
  end.

Definition nl : ascii := "010"%char.
Definition tab : ascii := "009"%char.
Definition cr : ascii := "013"%char.

(* ---- generic scanners --------------------------------------------------- *)

Definition nonempty (s : string) : bool := match s with EmptyString => false | _ => true end.

(* longest prefix of characters satisfying p, and the rest *)
Fixpoint span (p : ascii -> bool) (s : string) : string * string :=
  match s with
  | EmptyString => (EmptyString, EmptyString)
  | String c r => if p c then let (a, b) := span p r in (String c a, b) else (EmptyString, s)
  end.

Fixpoint all_chars (p : ascii -> bool) (s : string) : bool :=
  match s with
  | EmptyString => true
  | String c r => p c && all_chars p r
  end.

Fixpoint join (sep : string) (l : list string) : string :=
  match l with
  | [] => ""
  | [x] => x
  | x :: r => x ++ sep ++ join sep r
  end.

(* str.split() without argument *)
Fixpoint words (s : string) : list string :=
  match s with
  | EmptyString => []
  | String c r =>
      if is_ws c then words r
      else match r with
           | EmptyString => [String c ""]
           | String d _ =>
               if is_ws d then String c "" :: words r
               else match words r with
                    | w :: ws => String c w :: ws
                    | [] => [String c ""]
                    end
           end
  end.

(* str.splitlines(): lines ended by a line break (\r\n counts once), plus the
   unterminated rest when it is not empty.
   sl s = None for the empty text, Some (first line, other lines) otherwise *)
Definition opt_lines (o : option (string * list string)) : list string :=
  match o with None => [] | Some (l, ls) => l :: ls end.

Fixpoint sl (s : string) : option (string * list string) :=
  match s with
  | EmptyString => None
  | String c r =>
      if is_linebreak c then
        Some ("", opt_lines (if ceq c cr
                             then match r with
                                  | String d r' => if ceq d nl then sl r' else sl r
                                  | EmptyString => None
                                  end
                             else sl r))
      else match sl r with
           | None => Some (String c "", [])
           | Some (l, ls) => Some (String c l, ls)
           end
  end.

Definition splitlines (s : string) : list string := opt_lines (sl s).

(* text.split('\n') *)
Fixpoint split_nl (s : string) : list string :=
  match s with
  | EmptyString => [""]
  | String c r =>
      if ceq c nl then "" :: split_nl r
      else match split_nl r with
           | l :: ls => String c l :: ls
           | [] => [String c ""]
           end
  end.

(* ---- cards.py ------------------------------------------------------------ *)

(* re_comment = ^\s{0,4}[cC](\s|$) *)
Definition is_comment (l : string) : bool :=
  let (w, r) := span is_ws l in
  Nat.leb (length w) 4 &&
  match r with
  | String c r' =>
      (ceq c "c" || ceq c "C") &&
      match r' with
      | EmptyString => true
      | String d _ => is_ws d
      end
  | EmptyString => false
  end.

Fixpoint spaces (n : nat) : string :=
  match n with O => "" | S k => String " " (spaces k) end.

(* expand_tabs, [col] = number of characters produced so far, modulo 8 *)
Fixpoint expand_tabs_from (col : nat) (l : string) : string :=
  match l with
  | EmptyString => EmptyString
  | String c r =>
      if ceq c tab then spaces (8 - col) ++ expand_tabs_from 0 r
      else String c (expand_tabs_from (Nat.modulo (S col) 8) r)
  end.
Definition expand_tabs (l : string) : string := expand_tabs_from 0 l.

(* re_continuation_spaces = ^\s{5,} *)
Definition five_ws (s : string) : bool :=
  match s with
  | String a (String b (String c (String d (String e _)))) =>
      is_ws a && is_ws b && is_ws c && is_ws d && is_ws e
  | _ => false
  end.
Definition has5 (l : string) : bool := five_ws (expand_tabs l).

(* re_continuation_prev = [^$]* & ws* (end | $ anything) matched at the start of a line
   without line breaks: the last non-blank character before the first '$' is
   '&'. [st] = "the last non-blank character seen so far is '&'". *)
Fixpoint amp_scan (s : string) (st : bool) : bool :=
  match s with
  | EmptyString => st
  | String c r =>
      if ceq c "$" then st
      else if ceq c "&" then amp_scan r true
      else if is_ws c then amp_scan r st
      else amp_scan r false
  end.
Definition amp_cont (prev : string) : bool := amp_scan prev false.

(* is_continuation(l, prev); prev = "" stands for None (both are falsy) *)
Definition is_cont (l prev : string) : bool := has5 l || amp_cont prev.

(* get_cards(block, skipcomments=True) on the lines of the block.
   cards_from prev ls = (rest of the card that is open when ls starts,
                         the cards that start inside ls) *)
Fixpoint cards_from (prev : string) (ls : list string) : list string * list (list string) :=
  match ls with
  | [] => ([], [])
  | l :: r =>
      if is_comment l then cards_from prev r
      else let (cur, cs) := cards_from l r in
           if is_cont l prev then (l :: cur, cs) else ([], (l :: cur) :: cs)
  end.

Definition get_cards_lines (ls : list string) : list (list string) :=
  let (cur, cs) := cards_from "" ls in
  match cur with [] => cs | _ => cur :: cs end.

Definition get_cards (block : string) : list (list string) := get_cards_lines (splitlines block).

(* ---- main.py: Card.content ----------------------------------------------- *)

Definition is_trailer_start (c : ascii) : bool := ceq c "$" || ceq c "&".

(* text before the first $ or & *)
Fixpoint before_trailer (l : string) : string :=
  match l with
  | EmptyString => EmptyString
  | String c r => if is_trailer_start c then EmptyString else String c (before_trailer r)
  end.

Fixpoint has_trailer (l : string) : bool :=
  match l with
  | EmptyString => false
  | String c r => is_trailer_start c || has_trailer r
  end.

(* re_comment.split(l) with re_comment = [$&].*$ (MULTILINE), l without \n *)
Definition strip_trailer (l : string) : list string :=
  if has_trailer l then [before_trailer l; ""] else [l].

(* re_spaces.sub(' ', s) with re_spaces = \s+ *)
Fixpoint squeeze (s : string) : string :=
  match s with
  | EmptyString => EmptyString
  | String c r =>
      if is_ws c then
        match r with
        | EmptyString => " "
        | String d _ => if is_ws d then squeeze r else String " " (squeeze r)
        end
      else String c (squeeze r)
  end.

Definition content (lines : list string) : string :=
  squeeze (join " " (flat_map strip_trailer lines)).

(* ---- blocks.py ----------------------------------------------------------- *)

Definition is_blank (l : string) : bool := all_chars is_ws l.

(* get_block_positions, first loop, on text.split('\n'): a block is a maximal
   run of lines up to the next line matching ^\s*$; the greedy \s* swallows the
   following blank lines. The text of a block keeps the '\n' of each of its
   lines, except when the block is ended by the end of the text.
   raw_from cur ls: cur = lines of the open block (reversed). *)
Fixpoint unlines (ls : list string) : string :=
  match ls with
  | [] => ""
  | l :: r => l ++ String nl (unlines r)
  end.

Fixpoint drop_blank (ls : list string) : list string :=
  match ls with
  | l :: r => if is_blank l then drop_blank r else ls
  | [] => []
  end.

(* [fuel] >= number of lines; every call consumes at least one line *)
Fixpoint raw_blocks (fuel : nat) (ls : list string) : list string :=
  match fuel with
  | O => []
  | S f =>
      let (blk, rest) := (fix take (ls : list string) : list string * option (list string) :=
                            match ls with
                            | [] => ([], None)
                            | l :: r => if is_blank l then ([], Some (drop_blank r))
                                        else let (b, k) := take r in (l :: b, k)
                            end) ls in
      match rest with
      | None => [join (String nl "") blk]
      | Some [] => [unlines blk]
      | Some more => unlines blk :: raw_blocks f more
      end
  end.

Definition first20 (s : string) : string := substring 0 20 s.

(* title / cell split of the first block (utils.newlineindex: [\r\n]+) *)
Definition is_crnl (c : ascii) : bool := ceq c nl || ceq c cr.
Definition title_split (b : string) : string * string :=
  let (t, r) := span (fun c => negb (is_crnl c)) b in
  (t, snd (span is_crnl r)).

Fixpoint assign (keys : list ascii) (bl : list string) : res (list (ascii * string)) :=
  match bl with
  | [] => Ok []
  | b :: r =>
      match keys with
      | [] => Err EValue
      | k :: ks => match assign ks r with
                   | Ok l => Ok ((k, b) :: l)
                   | Err e => Err e
                   end
      end
  end.

(* get_block_positions(text, firstblock=None): the blocks by key, in order *)
Definition blocks (text : string) : res (list (ascii * string)) :=
  let ls := split_nl text in
  let bl := match text with EmptyString => [] | _ => raw_blocks (S (List.length ls)) ls end in
  match words (first20 text) with
  | [] => Err EIndex
  | w :: _ =>
      let has_m := String.eqb (lower w) "message:" in
      let msg := if has_m then match bl with b :: _ => [("m"%char, b)] | [] => [] end else [] in
      let bl := if has_m then tl bl else bl in
      match bl with
      | [] => Err EIndex
      | [b] => Ok (msg ++ [("d"%char, b)])%list
      | b :: more =>
          (* an empty first block (the text starts with a blank line): the
             search for the end of the title line runs on into the text *)
          let (t, c) := if nonempty b then title_split b
                        else (fst (span (fun c => negb (is_crnl c)) text), "") in
          match assign ["c"; "s"; "d"]%char (c :: more) with
          | Ok l => Ok (msg ++ ("t"%char, t) :: l)%list
          | Err e => Err e
          end
      end
  end.

(* ---- surfacecard.py ------------------------------------------------------- *)

Definition is_bc (c : ascii) : bool := ceq c "+" || ceq c "*".
Definition is_sign (c : ascii) : bool := ceq c "-" || ceq c "+".
Definition is_mnemo (c : ascii) : bool := is_letter c || ceq c "/".

(* re_surface: ^ ws* ( [+*]* digit+ ) ws+ ( [-+]* digit* ws* ) ( [a-zA-Z/]+ ) ws+ ( rest ) $ on a string without \n *)
Definition surf_split (txt : string) : res (string * string * string * string) :=
  let s1 := snd (span is_ws txt) in
  let (bc, s2) := span is_bc s1 in
  let (ds, s3) := span is_digit s2 in
  let (w1, s4) := span is_ws s3 in
  let (sg, s5) := span is_sign s4 in
  let (d2, s6) := span is_digit s5 in
  let (w2, s7) := span is_ws s6 in
  let (ty, s8) := span is_mnemo s7 in
  let (w3, s9) := span is_ws s8 in
  if nonempty ds && nonempty w1 && nonempty ty && nonempty w3
  then Ok (bc ++ ds, sg ++ d2 ++ w2, ty, s9)
  else Err EAttribute.

(* ---- datacard.py ----------------------------------------------------------- *)

(* re_data: ^ ws* ( star* letter+ nondigit* ) ( digit* ) ( star? ) ( rest ) $ on a string without \n *)
Definition data_split (txt : string) : res (string * string * string * string) :=
  let s1 := snd (span is_ws txt) in
  let (st, s2) := span (ceq "*") s1 in
  match s2 with
  | String c _ =>
      if is_letter c then
        let (ty, s3) := span (fun c => negb (is_digit c)) s2 in
        let (ds, s4) := span is_digit s3 in
        match s4 with
        | String "*" s5 => Ok (st ++ ty, ds, "*", s5)
        | _ => Ok (st ++ ty, ds, "", s4)
        end
      else Err EAttribute
  | EmptyString => Err EAttribute
  end.

(* ---- cellcard.py ----------------------------------------------------------- *)

(* re_options: leftmost closing parenthesis or blank followed by a letter or a
   star; result = (text up to and including that character, options) *)
Definition is_opt_lead (c : ascii) : bool := is_ws c || ceq c ")".
Definition is_opt_start (c : ascii) : bool := is_letter c || ceq c "*".

Fixpoint split_options (s : string) : option (string * string) :=
  match s with
  | EmptyString => None
  | String c r =>
      match r with
      | EmptyString => None
      | String d _ =>
          if is_opt_lead c && is_opt_start d then Some (String c "", r)
          else match split_options r with
               | Some (a, o) => Some (String c a, o)
               | None => None
               end
      end
  end.

(* re_void: ^ ( ws* digit+ ) ( ws+ nonblank+ ) ( rest ) $ *)
Definition void_split (txt : string) : res (string * string * string) :=
  let (w0, s1) := span is_ws txt in
  let (ds, s2) := span is_digit s1 in
  let (w1, s3) := span is_ws s2 in
  let (m, s4) := span (fun c => negb (is_ws c)) s3 in
  if nonempty ds && nonempty w1 && nonempty m then Ok (w0 ++ ds, w1 ++ m, s4) else Err EIndex.

(* re_nonvoid: ^ ( ws* digit+ ) ( ws+ nonblank+ ws+ [not blank, not open paren]+ ) ( rest ) $ *)
Definition nonvoid_split (txt : string) : res (string * string * string) :=
  let (w0, s1) := span is_ws txt in
  let (ds, s2) := span is_digit s1 in
  let (w1, s3) := span is_ws s2 in
  let (m, s4) := span (fun c => negb (is_ws c)) s3 in
  let (w2, s5) := span is_ws s4 in
  let (d, s6) := span (fun c => negb (is_ws c || ceq c "(")) s5 in
  if nonempty ds && nonempty w1 && nonempty m && nonempty w2 && nonempty d
  then Ok (w0 ++ ds, w1 ++ m ++ w2 ++ d, s6) else Err EIndex.

Definition starts_ci (p s : string) : bool := String.eqb (lower (substring 0 (length p) s)) p.

(* the last occurrence of "but" (any case): (text up to and including it, rest) *)
Fixpoint last_but (s : string) : option (string * string) :=
  match s with
  | EmptyString => None
  | String c r =>
      match last_but r with
      | Some (a, b) => Some (String c a, b)
      | None => if starts_ci "but" s then Some (substring 0 3 s, substring 3 (length s - 3) s)
                else None
      end
  end.

(* re_likebut: ^ ( ws* digit+ ) ( ws+ like anything but ) ( rest ) $ IGNORECASE, greedy *)
Definition likebut_split (txt : string) : res (string * string * string) :=
  let (w0, s1) := span is_ws txt in
  let (ds, s2) := span is_digit s1 in
  let (w1, s3) := span is_ws s2 in
  if nonempty ds && nonempty w1 && starts_ci "like" s3 then
    match last_but (substring 4 (length s3 - 4) s3) with
    | Some (a, b) => Ok (w0 ++ ds, w1 ++ substring 0 4 s3 ++ a, b)
    | None => Err EIndex
    end
  else Err EIndex.

(* float(t2) == 0 for a material number written with digits only *)
Definition mat_is_zero (t2 : string) : option bool :=
  if nonempty t2 && all_digits t2 then Some (all_chars (ceq "0") t2) else None.

Definition cell_split (txt : string) : res (string * string * string * string) :=
  match words txt with
  | _ :: t2 :: _ :: _ =>
      if String.eqb (lower t2) "like" then
        match likebut_split txt with
        | Ok (n, g, o) => Ok (n, "", g, o)
        | Err e => Err e
        end
      else
        let (txt', opts) := match split_options txt with
                            | Some (a, o) => (a, o)
                            | None => (txt, "")
                            end in
        match mat_is_zero t2 with
        | None => Err EUnsupported
        | Some z =>
            match (if z then void_split txt' else nonvoid_split txt') with
            | Ok (n, m, g) => Ok (n, m, g, opts)
            | Err e => Err e
            end
        end
  | _ => Err EValue
  end.

(* ---- ParseMCNPCell.parse_one_cell_worker: option tokens -------------------- *)

(* re.sub(' *: *', ':', s) -- blanks around colons removed; [pend] blanks are pending, [ac] = just after ':' *)
Fixpoint colon_sub (s : string) (pend : nat) (ac : bool) : string :=
  match s with
  | EmptyString => spaces pend
  | String c r =>
      if ceq c " " then (if ac then colon_sub r 0 true else colon_sub r (S pend) false)
      else if ceq c ":" then String ":" (colon_sub r 0 true)
      else spaces pend ++ String c (colon_sub r 0 false)
  end.

Definition paren_eq_blank (c : ascii) : ascii :=
  if ceq c "(" || ceq c ")" || ceq c "=" then " "%char else c.

Fixpoint map_chars (f : ascii -> ascii) (s : string) : string :=
  match s with
  | EmptyString => EmptyString
  | String c r => String (f c) (map_chars f r)
  end.

(* the keyword list before it is reversed *)
Definition opt_tokens (opts : string) : list string :=
  words (map_chars paren_eq_blank (lower (colon_sub opts 0 false))).

(* ---- MIP/mip/datacard.py: to_float (token level) ---------------------------- *)
(* Which spelling is handed to float(): the token itself when Python's float()
   reads it, otherwise mantissa ++ "e" ++ exponent when re_fortran matches
   (^([-+]?(?:[0-9]+\.?[0-9]*|\.[0-9]+))[dD]?([-+]?[0-9]+)$), otherwise nothing
   (ValueError). float() is modelled on tokens over [0-9 . + - e E d D] only
   (no blanks, underscores, inf, nan). *)

Definition strip_sign (s : string) : string :=
  match s with
  | String c r => if is_sign c then r else s
  | EmptyString => EmptyString
  end.

Definition sign_of (s : string) : string :=
  match s with
  | String c _ => if is_sign c then String c "" else ""
  | EmptyString => ""
  end.

(* digits+ [. digits*] | . digits+ at the start of b: (mantissa, rest) *)
Definition mantissa_split (b : string) : option (string * string) :=
  let (d1, r1) := span is_digit b in
  match r1 with
  | String "." r2 =>
      let (d2, r3) := span is_digit r2 in
      if nonempty d1 || nonempty d2 then Some (d1 ++ String "." d2, r3) else None
  | _ => if nonempty d1 then Some (d1, r1) else None
  end.

(* [-+]? digits+ up to the end *)
Definition exp_ok (r : string) : bool :=
  let b := strip_sign r in nonempty b && all_chars is_digit b.

(* Python float(): sign? mantissa ([eE] sign? digits+)? *)
Definition py_float_ok (t : string) : bool :=
  match mantissa_split (strip_sign t) with
  | None => false
  | Some (_, EmptyString) => true
  | Some (_, String c r) => (ceq c "e" || ceq c "E") && exp_ok r
  end.

Inductive float_reading := ReadAsIs (t : string) | ReadFortran (t : string) | NotRead.

Definition to_float_form (t : string) : float_reading :=
  if py_float_ok t then ReadAsIs t
  else match mantissa_split (strip_sign t) with
       | Some (m, String c r) =>
           let e := if ceq c "d" || ceq c "D" then r else String c r in
           if exp_ok e then ReadFortran (sign_of t ++ m ++ "e" ++ e) else NotRead
       | _ => NotRead
       end.

(* ---- MIP/mip/datacard.py: expand_data_card (token level) -------------------- *)
(* Generic in the numbers: V = values, rd = to_float on a plain entry (None =
   ValueError), lin lo hi n = the n interior values of nI, mul = xM.
   Tokens are lower-cased first; the LOG shorthand is not modelled (a token
   ending in "log" makes the model abstain). acc = the result so far, last
   entry first; k = tokens consumed so far. *)
Inductive xerr := XIndex | XValue | XType | XUnsupported.
Inductive xres (A : Type) := XOk (a : A) | XErr (e : xerr).
Arguments XOk {A}. Arguments XErr {A}.

Inductive tkind := KRep (pre : string) | KInt (pre : string) | KMul (pre : string)
                 | KJump (pre : string) | KLog | KPlain.

Fixpoint last_char (s : string) : option ascii :=
  match s with
  | EmptyString => None
  | String c EmptyString => Some c
  | String _ r => last_char r
  end.

Fixpoint but_last (s : string) : string :=
  match s with
  | EmptyString => EmptyString
  | String _ EmptyString => EmptyString
  | String c r => String c (but_last r)
  end.

Definition ends_log (t : string) : bool :=
  Nat.leb 3 (length t) && String.eqb (substring (length t - 3) 3 t) "log".

(* classification of a lower-cased token, in the order of the if/elif chain *)
Definition kind_of (t : string) : tkind :=
  match last_char t with
  | Some c =>
      if ceq c "r" then KRep (but_last t)
      else if ceq c "i" then KInt (but_last t)
      else if ceq c "m" then KMul (but_last t)
      else if ceq c "j" then KJump (but_last t)
      else if ends_log t then KLog else KPlain
  | None => KPlain
  end.

(* int(token[:-1]) if len(token) > 1 else 1, on digit strings *)
Definition count_of (pre : string) : option nat :=
  match pre with
  | EmptyString => Some 1
  | _ => if all_digits pre then Some (N.to_nat (parse_digits pre 0%N)) else None
  end.

Section Expand.
  Variable V : Type.
  Variable rd : string -> option V.
  Variable lin : V -> V -> nat -> list V.
  Variable mul : V -> V -> V.

  Definition full (expected : option nat) (acc : list (option V)) : bool :=
    match expected with Some e => Nat.leb e (List.length acc) | None => false end.

  Definition finish (expected : option nat) (acc : list (option V)) (k : nat)
    : xres (list (option V) * nat) :=
    match expected with
    | Some e => if Nat.eqb (List.length acc) e then XOk (rev acc, k) else XErr XValue
    | None => XOk (rev acc, k)
    end.

  Fixpoint run (expected : option nat) (acc : list (option V)) (k : nat) (ts : list string)
    : xres (list (option V) * nat) :=
    match ts with
    | [] => finish expected acc k
    | t0 :: r =>
        if full expected acc then finish expected acc k
        else
          let t := lower t0 in
          match kind_of t with
          | KRep pre =>
              match count_of pre with
              | None => XErr XValue
              | Some n => match acc with
                          | [] => XErr XIndex
                          | v :: _ => run expected (repeat v n ++ acc)%list (S k) r
                          end
              end
          | KInt pre =>
              match acc with
              | [] => XErr XIndex
              | lo :: _ =>
                  match r with
                  | [] => XErr XIndex
                  | u :: r' =>
                      match rd (lower u) with
                      | None => XErr XValue
                      | Some hi =>
                          match lo with
                          | None => XErr XType
                          | Some lo' =>
                              match count_of pre with
                              | None => XErr XValue
                              | Some n => run expected
                                              (Some hi :: rev (map Some (lin lo' hi n)) ++ acc)%list
                                              (S (S k)) r'
                              end
                          end
                      end
                  end
              end
          | KMul pre =>
              match pre with
              | EmptyString => XErr XValue
              | _ => match rd pre with
                     | None => XErr XValue
                     | Some f => match acc with
                                 | [] => XErr XIndex
                                 | None :: _ => XErr XType
                                 | Some v :: _ => run expected (Some (mul v f) :: acc) (S k) r
                                 end
                     end
              end
          | KJump pre =>
              match count_of pre with
              | None => XErr XValue
              | Some n => run expected (repeat None n ++ acc)%list (S k) r
              end
          | KLog => XErr XUnsupported
          | KPlain =>
              match rd t with
              | None => XErr XValue
              | Some v => run expected (Some v :: acc) (S k) r
              end
          end
    end.

  Definition expand (expected : option nat) (ts : list string) := run expected [] 0 ts.
End Expand.

(* ---- the front end: text -> contents of the cards of each block ------------- *)

Definition block_cards (b : string) : list string := map content (get_cards b).

Definition lookup (k : ascii) (l : list (ascii * string)) : option string :=
  match find (fun p => ceq (fst p) k) l with Some p => Some (snd p) | None => None end.

(* MIP.cards(blocks=k, skipcomments=True) then Card.content() *)
Definition front (text : string) : res (list string * list string * list string) :=
  match blocks text with
  | Err e => Err e
  | Ok l =>
      let get k := match lookup k l with Some b => block_cards b | None => [] end in
      Ok (get "c"%char, get "s"%char, get "d"%char)
  end.
