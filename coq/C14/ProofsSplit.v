(* C14 — the split regexes on the content of a laid-out card. *)
From Coq Require Import List NArith Bool String Ascii Lia.
From T4V Require Import Base.Str C14.Model C14.ProofsContent.
Import ListNotations.
Open Scope string_scope.

Ltac cls c := destruct c as [[] [] [] [] [] [] [] []]; vm_compute; intros; (reflexivity || discriminate).

Lemma bc_not_ws c : is_bc c = true -> is_ws c = false. Proof. cls c. Qed.
Lemma digit_not_bc c : is_digit c = true -> is_bc c = false. Proof. cls c. Qed.
Lemma digit_not_ws c : is_digit c = true -> is_ws c = false. Proof. cls c. Qed.
Lemma digit_not_sign c : is_digit c = true -> is_sign c = false. Proof. cls c. Qed.
Lemma digit_not_mnemo c : is_digit c = true -> is_mnemo c = false. Proof. cls c. Qed.
Lemma sign_not_ws c : is_sign c = true -> is_ws c = false. Proof. cls c. Qed.
Lemma sign_not_digit c : is_sign c = true -> is_digit c = false. Proof. cls c. Qed.
Lemma mnemo_not_ws c : is_mnemo c = true -> is_ws c = false. Proof. cls c. Qed.
Lemma mnemo_not_sign c : is_mnemo c = true -> is_sign c = false. Proof. cls c. Qed.
Lemma mnemo_not_digit c : is_mnemo c = true -> is_digit c = false. Proof. cls c. Qed.
Lemma ws_not_digit c : is_ws c = true -> is_digit c = false. Proof. cls c. Qed.
Lemma ws_not_sign c : is_ws c = true -> is_sign c = false. Proof. cls c. Qed.
Lemma ws_not_mnemo c : is_ws c = true -> is_mnemo c = false. Proof. cls c. Qed.
Lemma ws_not_bc c : is_ws c = true -> is_bc c = false. Proof. cls c. Qed.

Definition head_fails (p : ascii -> bool) (r : string) : Prop :=
  match r with String c _ => p c = false | EmptyString => True end.

Lemma span_app p a r : all_chars p a = true -> head_fails p r -> span p (a ++ r) = (a, r).
Proof.
  intros Ha Hr. induction a as [|c a IH].
  - destruct r as [|c r]; [reflexivity|]. simpl in *. now rewrite Hr.
  - simpl in *. apply andb_true_iff in Ha. destruct Ha as [Hc Ha]. now rewrite Hc, (IH Ha).
Qed.

Lemma span_none p r : head_fails p r -> span p r = ("", r).
Proof. intros H. exact (span_app p "" r eq_refl H). Qed.

Lemma all_head p c a : all_chars p (String c a) = true -> p c = true.
Proof. simpl. intros H. now apply andb_true_iff in H. Qed.

(* a surface card without transformation number:
   blanks, [+*]* digits, blanks, mnemonic, blanks, parameters *)
Theorem surf_split_plain w0 bc ds w1 mn w3 rest :
  all_chars is_ws w0 = true -> all_chars is_bc bc = true ->
  all_chars is_digit ds = true -> ds <> "" ->
  all_chars is_ws w1 = true -> w1 <> "" ->
  all_chars is_mnemo mn = true -> mn <> "" ->
  all_chars is_ws w3 = true -> w3 <> "" -> head_fails is_ws rest ->
  surf_split (w0 ++ bc ++ ds ++ w1 ++ mn ++ w3 ++ rest) = Ok (bc ++ ds, "", mn, rest).
Proof.
  intros Hw0 Hbc Hds Nds Hw1 Nw1 Hmn Nmn Hw3 Nw3 Hrest.
  destruct ds as [|d0 ds]; [contradiction|]. destruct w1 as [|x1 w1]; [contradiction|].
  destruct mn as [|m0 mn]; [contradiction|]. destruct w3 as [|x3 w3]; [contradiction|].
  pose proof (all_head _ _ _ Hds) as Hd0. pose proof (all_head _ _ _ Hw1) as Hx1.
  pose proof (all_head _ _ _ Hmn) as Hm0. pose proof (all_head _ _ _ Hw3) as Hx3.
  unfold surf_split.
  assert (Hh : head_fails is_ws (bc ++ String d0 ds ++ String x1 w1 ++ String m0 mn ++ String x3 w3 ++ rest)).
  { destruct bc as [|b bc]; simpl.
    - now apply digit_not_ws.
    - apply bc_not_ws. exact (all_head _ _ _ Hbc). }
  rewrite (span_app is_ws w0 _ Hw0 Hh). cbn [snd].
  rewrite (span_app is_bc bc _ Hbc) by (simpl; now apply digit_not_bc).
  rewrite (span_app is_digit (String d0 ds) _ Hds) by (simpl; now apply ws_not_digit).
  rewrite (span_app is_ws (String x1 w1) _ Hw1) by (simpl; now apply mnemo_not_ws).
  rewrite (span_none is_sign) by (simpl; now apply mnemo_not_sign).
  rewrite (span_none is_digit) by (simpl; now apply mnemo_not_digit).
  rewrite (span_none is_ws) by (simpl; now apply mnemo_not_ws).
  rewrite (span_app is_mnemo (String m0 mn) _ Hmn) by (simpl; now apply ws_not_mnemo).
  rewrite (span_app is_ws (String x3 w3) _ Hw3) by exact Hrest.
  destruct bc; reflexivity.
Qed.

(* with a transformation number: [+-]* digits blanks* before the mnemonic *)
Theorem surf_split_tr w0 bc ds w1 sg d2 w2 mn w3 rest :
  all_chars is_ws w0 = true -> all_chars is_bc bc = true ->
  all_chars is_digit ds = true -> ds <> "" ->
  all_chars is_ws w1 = true -> w1 <> "" ->
  all_chars is_sign sg = true -> all_chars is_digit d2 = true -> d2 <> "" ->
  all_chars is_ws w2 = true ->
  all_chars is_mnemo mn = true -> mn <> "" ->
  all_chars is_ws w3 = true -> w3 <> "" -> head_fails is_ws rest ->
  surf_split (w0 ++ bc ++ ds ++ w1 ++ sg ++ d2 ++ w2 ++ mn ++ w3 ++ rest)
  = Ok (bc ++ ds, sg ++ d2 ++ w2, mn, rest).
Proof.
  intros Hw0 Hbc Hds Nds Hw1 Nw1 Hsg Hd2 Nd2 Hw2 Hmn Nmn Hw3 Nw3 Hrest.
  destruct ds as [|d0 ds]; [contradiction|]. destruct w1 as [|x1 w1]; [contradiction|].
  destruct d2 as [|e0 d2]; [contradiction|].
  destruct mn as [|m0 mn]; [contradiction|]. destruct w3 as [|x3 w3]; [contradiction|].
  pose proof (all_head _ _ _ Hds) as Hd0. pose proof (all_head _ _ _ Hw1) as Hx1.
  pose proof (all_head _ _ _ Hd2) as He0.
  pose proof (all_head _ _ _ Hmn) as Hm0. pose proof (all_head _ _ _ Hw3) as Hx3.
  unfold surf_split.
  assert (Hh : head_fails is_ws (bc ++ String d0 ds ++ String x1 w1 ++ sg ++ String e0 d2 ++ w2
                                   ++ String m0 mn ++ String x3 w3 ++ rest)).
  { destruct bc as [|b bc]; simpl.
    - now apply digit_not_ws.
    - apply bc_not_ws. exact (all_head _ _ _ Hbc). }
  rewrite (span_app is_ws w0 _ Hw0 Hh). cbn [snd].
  rewrite (span_app is_bc bc _ Hbc) by (simpl; now apply digit_not_bc).
  rewrite (span_app is_digit (String d0 ds) _ Hds) by (simpl; now apply ws_not_digit).
  rewrite (span_app is_ws (String x1 w1) _ Hw1).
  2:{ destruct sg as [|s0 sg]; simpl; [now apply digit_not_ws|].
      apply sign_not_ws. exact (all_head _ _ _ Hsg). }
  rewrite (span_app is_sign sg _ Hsg) by (simpl; now apply digit_not_sign).
  rewrite (span_app is_digit (String e0 d2) _ Hd2).
  2:{ destruct w2 as [|y w2]; simpl; [now apply mnemo_not_digit|].
      apply ws_not_digit. exact (all_head _ _ _ Hw2). }
  rewrite (span_app is_ws w2 _ Hw2) by (simpl; now apply mnemo_not_ws).
  rewrite (span_app is_mnemo (String m0 mn) _ Hmn) by (simpl; now apply ws_not_mnemo).
  rewrite (span_app is_ws (String x3 w3) _ Hw3) by exact Hrest.
  destruct bc; reflexivity.
Qed.

(* on the content of a laid-out surface card (C14_cards_layout): name,
   mnemonic and at least one parameter, joined by single blanks *)
Lemma head_fails_token t r : is_token t -> head_fails is_ws (t ++ r).
Proof.
  intros [Hne H]. destruct t as [|c t]; [contradiction|]. simpl in *.
  apply andb_true_iff in H. destruct H as [H _]. now apply negb_true_iff in H.
Qed.

Lemma join_cons2 x y r : join " " (x :: y :: r) = x ++ " " ++ join " " (y :: r).
Proof. reflexivity. Qed.

Corollary surf_split_rendered bl br bc ds mn p ps :
  all_chars is_bc bc = true -> all_chars is_digit ds = true -> ds <> "" ->
  all_chars is_mnemo mn = true -> mn <> "" -> is_token p ->
  surf_split (pad bl ++ join " " ((bc ++ ds) :: mn :: p :: ps) ++ pad br)
  = Ok (bc ++ ds, "", mn, join " " (p :: ps) ++ pad br).
Proof.
  intros Hbc Hds Nds Hmn Nmn Hp.
  rewrite !join_cons2. rewrite !sapp_assoc.
  apply surf_split_plain; auto; try discriminate.
  - now destruct bl.
  - destruct ps as [|q ps].
    + simpl. now apply head_fails_token.
    + rewrite join_cons2, sapp_assoc. now apply head_fails_token.
Qed.

(* ---- data cards ---- *)
Definition nondigit (c : ascii) : bool := negb (is_digit c).

Lemma letter_not_ws c : is_letter c = true -> is_ws c = false. Proof. cls c. Qed.
Lemma letter_not_star c : is_letter c = true -> ceq "*" c = false. Proof. cls c. Qed.
Lemma star_not_ws c : ceq "*" c = true -> is_ws c = false. Proof. cls c. Qed.

(* a numbered data card (M7, TR3, *TR3, F4 ...): stars, a name that starts
   with a letter and holds no digit, the number, then the entries *)
Theorem data_split_numbered w0 st ty ds rest :
  all_chars is_ws w0 = true -> all_chars (ceq "*") st = true ->
  all_chars nondigit ty = true -> (exists c ty', ty = String c ty' /\ is_letter c = true) ->
  all_chars is_digit ds = true -> ds <> "" ->
  head_fails is_digit rest -> head_fails (ceq "*") rest ->
  data_split (w0 ++ st ++ ty ++ ds ++ rest) = Ok (st ++ ty, ds, "", rest).
Proof.
  intros Hw0 Hst Hty (c & ty' & -> & Hc) Hds Nds Hr1 Hr2.
  destruct ds as [|d0 ds]; [contradiction|]. pose proof (all_head _ _ _ Hds) as Hd0.
  unfold data_split.
  assert (Hh : head_fails is_ws (st ++ String c ty' ++ String d0 ds ++ rest)).
  { destruct st as [|x st]; simpl; [now apply letter_not_ws|].
    apply star_not_ws. exact (all_head _ _ _ Hst). }
  rewrite (span_app is_ws w0 _ Hw0 Hh). cbn [snd].
  rewrite (span_app (ceq "*") st _ Hst) by (simpl; now apply letter_not_star).
  cbn [append]. rewrite Hc.
  change (String c (ty' ++ String d0 (ds ++ rest))) with ((String c ty') ++ (String d0 ds) ++ rest).
  rewrite (span_app (fun c => negb (is_digit c)) (String c ty') _ Hty)
    by (simpl; now rewrite Hd0).
  rewrite (span_app is_digit (String d0 ds) _ Hds) by exact Hr1.
  destruct rest as [|r0 rest]; [reflexivity|]. simpl in Hr2.
  destruct r0 as [[] [] [] [] [] [] [] []]; try reflexivity. discriminate.
Qed.

Corollary data_split_rendered bl br st ty ds ps :
  all_chars (ceq "*") st = true ->
  all_chars nondigit ty = true -> (exists c ty', ty = String c ty' /\ is_letter c = true) ->
  all_chars is_digit ds = true -> ds <> "" ->
  data_split (pad bl ++ join " " ((st ++ ty ++ ds) :: ps) ++ pad br)
  = Ok (st ++ ty, ds, "", match ps with [] => "" | _ => " " ++ join " " ps end ++ pad br).
Proof.
  intros Hst Hty Hl Hds Nds.
  assert (E : join " " ((st ++ ty ++ ds) :: ps) ++ pad br
              = st ++ ty ++ ds ++ match ps with [] => "" | _ => " " ++ join " " ps end ++ pad br).
  { destruct ps as [|p ps]; [simpl; now rewrite !sapp_assoc|].
    rewrite join_cons2. now rewrite !sapp_assoc. }
  rewrite E. apply data_split_numbered; auto.
  - now destruct bl.
  - destruct ps; [destruct br|]; simpl; auto.
  - destruct ps; [destruct br|]; simpl; auto.
Qed.
