(* C14 — expand_data_card: a shorthand entry and its expansion give the same
   values (token level, generic in the numbers). *)
From Coq Require Import List NArith Bool String Ascii Lia PeanoNat.
From T4V Require Import Base.Str C14.Model.
Import ListNotations.
Open Scope string_scope.

Section ExpandProofs.
  Variable V : Type.
  Variable rd : string -> option V.
  Variable lin : V -> V -> nat -> list V.
  Variable mul : V -> V -> V.

  Notation run := (run V rd lin mul).

  Definition vals (r : xres (list (option V) * nat)) : xres (list (option V)) :=
    match r with XOk (v, _) => XOk v | XErr e => XErr e end.

  (* a plain entry (no shorthand suffix) that reads as v *)
  Definition plain (x : string) (v : V) : Prop :=
    kind_of (lower x) = KPlain /\ rd (lower x) = Some v.

  (* the values do not depend on the consumed-token counter *)
  Lemma vals_counter n : forall ts acc k k',
    List.length ts <= n -> vals (run None acc k ts) = vals (run None acc k' ts).
  Proof.
    induction n as [|n IH]; intros ts acc k k' Hn.
    - destruct ts; [reflexivity|simpl in Hn; lia].
    - destruct ts as [|t r]; [reflexivity|]. simpl in Hn. cbn [Model.run full].
      destruct (kind_of (lower t)) as [pre|pre|pre|pre| |].
      + destruct (count_of pre); [|reflexivity]. destruct acc; [reflexivity|]. apply IH. lia.
      + destruct acc as [|lo acc]; [reflexivity|]. destruct r as [|u r']; [reflexivity|].
        destruct (rd (lower u)); [|reflexivity]. destruct lo; [|reflexivity].
        destruct (count_of pre); [|reflexivity]. apply IH. simpl in Hn. lia.
      + destruct pre; [reflexivity|]. destruct (rd _); [|reflexivity].
        destruct acc as [|[w|] acc]; try reflexivity. apply IH. lia.
      + destruct (count_of pre); [|reflexivity]. apply IH. lia.
      + reflexivity.
      + destruct (rd (lower t)); [|reflexivity]. apply IH. lia.
  Qed.

  Lemma vals_k ts acc k k' : vals (run None acc k ts) = vals (run None acc k' ts).
  Proof. now apply (vals_counter (List.length ts)). Qed.

  Lemma run_plain x v acc k ts :
    plain x v -> run None acc k (x :: ts) = run None (Some v :: acc) (S k) ts.
  Proof. intros [Hk Hr]. cbn [Model.run full]. now rewrite Hk, Hr. Qed.

  Lemma run_plains xs vs acc k ts :
    Forall2 plain xs vs ->
    run None acc k (xs ++ ts)%list = run None (rev (map Some vs) ++ acc)%list (List.length xs + k) ts.
  Proof.
    intros H. revert acc k. induction H as [|x v xs vs Hx _ IH]; intros acc k; [reflexivity|].
    cbn [app map rev List.length]. rewrite (run_plain x v acc k _ Hx), IH.
    rewrite <- app_assoc. cbn [app]. f_equal. lia.
  Qed.

  Lemma rev_repeat {A} (a : A) n : rev (repeat a n) = repeat a n.
  Proof.
    induction n as [|n IH]; [reflexivity|]. cbn [repeat rev]. rewrite IH.
    clear. induction n as [|n IH]; [reflexivity|]. cbn [repeat app]. now rewrite IH.
  Qed.

  Lemma map_repeat {A B} (f : A -> B) a n : map f (repeat a n) = repeat (f a) n.
  Proof. induction n as [|n IH]; [reflexivity|]. cbn. now rewrite IH. Qed.

  Lemma Forall2_repeat x v n : plain x v -> Forall2 plain (repeat x n) (repeat v n).
  Proof. intros H. induction n; constructor; auto. Qed.

  (* nR = the previous entry written n more times *)
  Theorem expand_repeat t pre n x v acc k ts :
    kind_of (lower t) = KRep pre -> count_of pre = Some n -> plain x v ->
    vals (run None (Some v :: acc) k (t :: ts))
    = vals (run None (Some v :: acc) k (repeat x n ++ ts)%list).
  Proof.
    intros Hk Hc Hx. rewrite (run_plains _ _ _ _ _ (Forall2_repeat x v n Hx)).
    cbn [Model.run full]. rewrite Hk, Hc. rewrite map_repeat, rev_repeat. apply vals_k.
  Qed.

  (* nJ = n single jumps *)
  Lemma kind_j : kind_of (lower "j") = KJump "".
  Proof. reflexivity. Qed.

  Lemma run_jumps n acc k ts :
    run None acc k (repeat "j" n ++ ts)%list = run None (repeat None n ++ acc)%list (n + k) ts.
  Proof.
    revert acc k. induction n as [|n IH]; intros acc k; [reflexivity|].
    cbn [repeat app]. cbn [Model.run full]. rewrite kind_j. cbn [count_of repeat app].
    rewrite IH. f_equal; [|lia].
    clear. induction n as [|n IH]; [reflexivity|]. cbn [repeat app]. now rewrite IH.
  Qed.

  Theorem expand_jump t pre n acc k ts :
    kind_of (lower t) = KJump pre -> count_of pre = Some n ->
    vals (run None acc k (t :: ts)) = vals (run None acc k (repeat "j" n ++ ts)%list).
  Proof.
    intros Hk Hc. rewrite run_jumps. cbn [Model.run full]. rewrite Hk, Hc. apply vals_k.
  Qed.

  (* nI u = the n interpolated entries written out, then u *)
  Theorem expand_interpolate t pre n lo u hi xs acc k ts :
    kind_of (lower t) = KInt pre -> count_of pre = Some n -> plain u hi ->
    Forall2 plain xs (lin lo hi n) ->
    vals (run None (Some lo :: acc) k (t :: u :: ts))
    = vals (run None (Some lo :: acc) k (xs ++ u :: ts)%list).
  Proof.
    intros Hk Hc Hu Hxs. rewrite (run_plains _ _ _ _ _ Hxs), (run_plain u hi _ _ _ Hu).
    cbn [Model.run full]. rewrite Hk. destruct Hu as [_ Hu]. rewrite Hu, Hc. apply vals_k.
  Qed.

  (* xM = the product written out *)
  Theorem expand_multiply t c pre f v x acc k ts :
    kind_of (lower t) = KMul (String c pre) -> rd (String c pre) = Some f -> plain x (mul v f) ->
    vals (run None (Some v :: acc) k (t :: ts)) = vals (run None (Some v :: acc) k (x :: ts)).
  Proof.
    intros Hk Hf Hx. rewrite (run_plain x _ _ _ _ Hx). cbn [Model.run full]. now rewrite Hk, Hf.
  Qed.
End ExpandProofs.

(* ---- with an expected count ---- *)
Section ExpandExpected.
  Variable V : Type.
  Variable rd : string -> option V.
  Variable lin : V -> V -> nat -> list V.
  Variable mul : V -> V -> V.

  Notation run := (run V rd lin mul).

  (* the counter is irrelevant whatever the expected count *)
  Lemma vals_counter_e e n : forall ts acc k k',
    List.length ts <= n -> vals V (run e acc k ts) = vals V (run e acc k' ts).
  Proof.
    induction n as [|n IH]; intros ts acc k k' Hn.
    - destruct ts; [|simpl in Hn; lia]. cbn [Model.run]. unfold finish.
      destruct e as [e|]; [destruct (Nat.eqb _ e)|]; reflexivity.
    - destruct ts as [|t r].
      { cbn [Model.run]. unfold finish. destruct e as [e|]; [destruct (Nat.eqb _ e)|]; reflexivity. }
      simpl in Hn. cbn [Model.run].
      destruct (full V e acc).
      { unfold finish. destruct e as [e|]; [destruct (Nat.eqb _ e)|]; reflexivity. }
      destruct (kind_of (lower t)) as [pre|pre|pre|pre| |].
      + destruct (count_of pre); [|reflexivity]. destruct acc; [reflexivity|]. apply IH. lia.
      + destruct acc as [|lo acc]; [reflexivity|]. destruct r as [|u r']; [reflexivity|].
        destruct (rd (lower u)); [|reflexivity]. destruct lo; [|reflexivity].
        destruct (count_of pre); [|reflexivity]. apply IH. simpl in Hn. lia.
      + destruct pre; [reflexivity|]. destruct (rd _); [|reflexivity].
        destruct acc as [|[w|] acc]; try reflexivity. apply IH. lia.
      + destruct (count_of pre); [|reflexivity]. apply IH. lia.
      + reflexivity.
      + destruct (rd (lower t)); [|reflexivity]. apply IH. lia.
  Qed.

  (* n plain entries, as long as the expected count is not reached before the last *)
  Lemma run_plains_e e x v n : plain V rd x v -> forall acc k ts,
    List.length acc + n <= e ->
    run (Some e) acc k (repeat x n ++ ts)%list
    = run (Some e) (repeat (Some v) n ++ acc)%list (n + k) ts.
  Proof.
    intros [Hk Hr]. induction n as [|n IH]; intros acc k ts Hle; [reflexivity|].
    cbn [repeat app]. cbn [Model.run full].
    assert (F : Nat.leb e (List.length acc) = false) by (apply Nat.leb_gt; lia).
    rewrite F, Hk, Hr. rewrite (IH (Some v :: acc) (S k) ts) by (cbn [List.length]; lia).
    f_equal; [|lia].
    clear. induction n as [|n IH]; [reflexivity|]. cbn [repeat app]. now rewrite IH.
  Qed.

  (* nR against its expansion when the repeated entries FIT the expected count *)
  Theorem expand_repeat_expected e t pre n x v acc k ts :
    kind_of (lower t) = KRep pre -> count_of pre = Some n -> plain V rd x v ->
    List.length acc + 1 + n <= e -> n <> 0 ->
    vals V (run (Some e) (Some v :: acc) k (t :: ts))
    = vals V (run (Some e) (Some v :: acc) k (repeat x n ++ ts)%list).
  Proof.
    intros Hk Hc Hx Hle Hn.
    rewrite (run_plains_e e x v n Hx) by (cbn [List.length]; lia).
    cbn [Model.run full].
    assert (F : Nat.leb e (List.length (Some v :: acc)) = false)
      by (apply Nat.leb_gt; cbn [List.length]; lia).
    rewrite F, Hk, Hc. apply (vals_counter_e (Some e) (List.length ts)). lia.
  Qed.

  (* ... and when they do NOT fit (an over-long card): the shorthand form is
     rejected, its expansion is cut after the expected number of entries *)
  Theorem expand_repeat_overlong e t pre n x v acc k :
    kind_of (lower t) = KRep pre -> count_of pre = Some n -> plain V rd x v ->
    List.length acc + 1 < e -> e < List.length acc + 1 + n ->
    vals V (run (Some e) (Some v :: acc) k [t]) = XErr XValue /\
    exists r, vals V (run (Some e) (Some v :: acc) k (repeat x n)) = XOk r /\ List.length r = e.
  Proof.
    intros Hk Hc Hx Hlo Hhi. split.
    - cbn [Model.run full].
      assert (F : Nat.leb e (List.length (Some v :: acc)) = false)
        by (apply Nat.leb_gt; cbn [List.length]; lia).
      rewrite F, Hk, Hc. cbn [Model.run]. unfold finish.
      assert (N : Nat.eqb (List.length (repeat (Some v) n ++ Some v :: acc)%list) e = false).
      { apply Nat.eqb_neq. rewrite app_length, repeat_length. cbn [List.length]. lia. }
      now rewrite N.
    - set (m := e - (List.length acc + 1)).
      assert (Hn : n = m + (n - m)) by (unfold m; lia).
      rewrite Hn, repeat_app.
      rewrite (run_plains_e e x v m Hx) by (cbn [List.length]; unfold m; lia).
      set (acc' := (repeat (Some v) m ++ Some v :: acc)%list).
      assert (L : List.length acc' = e).
      { unfold acc'. rewrite app_length, repeat_length. cbn [List.length]. unfold m. lia. }
      destruct (n - m) as [|q] eqn:Eq; [unfold m in Eq; lia|].
      cbn [repeat Model.run full]. rewrite L, Nat.leb_refl. unfold finish. rewrite L, Nat.eqb_refl.
      cbn [vals]. eexists. split; [reflexivity|]. now rewrite rev_length.
  Qed.
End ExpandExpected.

(* ---- nJ, nI, xM with an expected count ---- *)
Section ExpandExpected2.
  Variable V : Type.
  Variable rd : string -> option V.
  Variable lin : V -> V -> nat -> list V.
  Variable mul : V -> V -> V.

  Notation run := (run V rd lin mul).

  Lemma forall2_len {A B} (R : A -> B -> Prop) l l' : Forall2 R l l' -> List.length l = List.length l'.
  Proof. induction 1; cbn; congruence. Qed.

  Lemma run_plains_list_e e xs vs : Forall2 (plain V rd) xs vs -> forall acc k ts,
    List.length acc + List.length xs <= e ->
    run (Some e) acc k (xs ++ ts)%list
    = run (Some e) (rev (map Some vs) ++ acc)%list (List.length xs + k) ts.
  Proof.
    induction 1 as [|x v xs vs [Hk Hr] _ IH]; intros acc k ts Hle; [reflexivity|].
    cbn [app map rev List.length] in *. cbn [Model.run full].
    assert (F : Nat.leb e (List.length acc) = false) by (apply Nat.leb_gt; lia).
    rewrite F, Hk, Hr. rewrite (IH (Some v :: acc) (S k) ts) by (cbn [List.length]; lia).
    rewrite <- app_assoc. cbn [app]. f_equal. lia.
  Qed.

  Lemma run_jumps_e e n : forall acc k ts,
    List.length acc + n <= e ->
    run (Some e) acc k (repeat "j" n ++ ts)%list
    = run (Some e) (repeat None n ++ acc)%list (n + k) ts.
  Proof.
    induction n as [|n IH]; intros acc k ts Hle; [reflexivity|].
    cbn [repeat app]. cbn [Model.run full].
    assert (F : Nat.leb e (List.length acc) = false) by (apply Nat.leb_gt; lia).
    rewrite F. change (kind_of (lower "j")) with (KJump ""). cbn [count_of repeat app].
    rewrite (IH (None :: acc) (S k) ts) by (cbn [List.length]; lia).
    f_equal; [|lia].
    clear. induction n as [|n IH]; [reflexivity|]. cbn [repeat app]. now rewrite IH.
  Qed.

  Theorem expand_jump_expected e t pre n acc k ts :
    kind_of (lower t) = KJump pre -> count_of pre = Some n ->
    List.length acc + n <= e -> n <> 0 ->
    vals V (run (Some e) acc k (t :: ts))
    = vals V (run (Some e) acc k (repeat "j" n ++ ts)%list).
  Proof.
    intros Hk Hc Hle Hn. rewrite (run_jumps_e e n acc k ts Hle).
    cbn [Model.run full].
    assert (F : Nat.leb e (List.length acc) = false) by (apply Nat.leb_gt; lia).
    rewrite F, Hk, Hc. apply (vals_counter_e V rd lin mul (Some e) (List.length ts)). lia.
  Qed.

  Theorem expand_interpolate_expected e t pre n lo u hi xs acc k ts :
    kind_of (lower t) = KInt pre -> count_of pre = Some n -> plain V rd u hi ->
    Forall2 (plain V rd) xs (lin lo hi n) ->
    List.length acc + 1 + List.length xs + 1 <= e ->
    vals V (run (Some e) (Some lo :: acc) k (t :: u :: ts))
    = vals V (run (Some e) (Some lo :: acc) k (xs ++ u :: ts)%list).
  Proof.
    intros Hk Hc Hu Hxs Hle.
    rewrite (run_plains_list_e e xs _ Hxs) by (cbn [List.length]; lia).
    assert (F : Nat.leb e (List.length (Some lo :: acc)) = false)
      by (apply Nat.leb_gt; cbn [List.length]; lia).
    assert (F2 : Nat.leb e (List.length (rev (map Some (lin lo hi n)) ++ Some lo :: acc)%list) = false).
    { apply Nat.leb_gt. rewrite app_length, rev_length, map_length.
      rewrite <- (forall2_len _ _ _ Hxs). cbn [List.length]. lia. }
    cbn [Model.run full]. rewrite F, F2, Hk. destruct Hu as [Hku Hu]. rewrite Hku, Hu, Hc.
    apply (vals_counter_e V rd lin mul (Some e) (List.length ts)). lia.
  Qed.

  (* xM stands for ONE entry: no condition on the count *)
  Theorem expand_multiply_expected e t c pre f v x acc k ts :
    kind_of (lower t) = KMul (String c pre) -> rd (String c pre) = Some f -> plain V rd x (mul v f) ->
    vals V (run (Some e) (Some v :: acc) k (t :: ts)) = vals V (run (Some e) (Some v :: acc) k (x :: ts)).
  Proof.
    intros Hk Hf [Hkx Hx]. cbn [Model.run]. destruct (full V (Some e) (Some v :: acc)); [reflexivity|].
    now rewrite Hk, Hf, Hkx, Hx.
  Qed.
End ExpandExpected2.
