(* C14 -> C15 link, part 2: the cards that C14's front end (Card.content +
   cellcard.split) produces for two layouts / case variants of the same
   abstract cell cards are equivalent in the sense of LinkC15, hence C15's
   cell parser returns the same cells. *)
From Coq Require Import List NArith ZArith Bool String Ascii Lia.
From T4V Require Import Base.Str Base.Scalar.
From T4V Require C15.Model C15.Proofs C14.LinkC15.
From T4V Require Import C14.Model C14.ProofsContent C14.ProofsSplit C14.ProofsCase C14.ProofsCell
  C14.ProofsCell2.
Import ListNotations.
Open Scope string_scope.

Module M15 := C15.Model.
Module P15 := C15.Proofs.
Module L15 := C14.LinkC15.

(* ---- the two models of str.lower agree ---- *)
Lemma lower_char_agree c : M15.lower_char c = lower_char c.
Proof. destruct c as [[] [] [] [] [] [] [] []]; vm_compute; reflexivity. Qed.

Lemma lower_agree s : M15.lower s = lower s.
Proof.
  induction s as [|c s IH]; [reflexivity|].
  change (M15.lower (String c s)) with (String (M15.lower_char c) (M15.lower s)).
  cbn [lower]. now rewrite lower_char_agree, IH.
Qed.

(* ---- C15's option tokenisation and letter case ---- *)
Lemma eqb_blank_lower c : Ascii.eqb (M15.lower_char c) " " = Ascii.eqb c " ".
Proof. destruct c as [[] [] [] [] [] [] [] []]; vm_compute; reflexivity. Qed.
Lemma eqb_colon_lower c : Ascii.eqb (M15.lower_char c) ":" = Ascii.eqb c ":".
Proof. destruct c as [[] [] [] [] [] [] [] []]; vm_compute; reflexivity. Qed.
Lemma opt_char_lower c : M15.opt_char (M15.lower_char c) = M15.opt_char c.
Proof. destruct c as [[] [] [] [] [] [] [] []]; vm_compute; reflexivity. Qed.

Lemma leads_colon_lower s : M15.leads_colon (M15.lower s) = M15.leads_colon s.
Proof.
  induction s as [|c s IH]; [reflexivity|]. cbn [M15.lower M15.smap M15.leads_colon].
  rewrite eqb_blank_lower, eqb_colon_lower. fold (M15.lower s). now rewrite IH.
Qed.

Lemma squeeze_lower after s : M15.squeeze after (M15.lower s) = M15.lower (M15.squeeze after s).
Proof.
  revert after. induction s as [|c s IH]; intros after; [reflexivity|].
  cbn [M15.lower M15.smap M15.squeeze]. fold (M15.lower s).
  rewrite eqb_blank_lower, eqb_colon_lower, leads_colon_lower.
  destruct (Ascii.eqb c " ").
  - destruct (after || M15.leads_colon s); [apply IH|]. cbn [M15.lower M15.smap]. now rewrite IH.
  - cbn [M15.lower M15.smap]. now rewrite IH.
Qed.

Lemma sq_state_lower after s : P15.sq_state after (M15.lower s) = P15.sq_state after s.
Proof.
  revert after. induction s as [|c s IH]; intros after; [reflexivity|].
  cbn [M15.lower M15.smap P15.sq_state]. fold (M15.lower s).
  rewrite eqb_blank_lower, eqb_colon_lower, leads_colon_lower.
  destruct (Ascii.eqb c " "); [destruct (after || M15.leads_colon s)|]; apply IH.
Qed.

Lemma smap_opt_lower s : M15.smap M15.opt_char (M15.lower s) = M15.smap M15.opt_char s.
Proof.
  induction s as [|c s IH]; [reflexivity|].
  change (M15.lower (String c s)) with (String (M15.lower_char c) (M15.lower s)).
  cbn [M15.smap]. now rewrite opt_char_lower, IH.
Qed.

Lemma tokenize_lower s : M15.tokenize (M15.lower s) = M15.tokenize s.
Proof. unfold M15.tokenize. now rewrite squeeze_lower, smap_opt_lower. Qed.

Lemma owf_lower s : L15.owf (M15.lower s) <-> L15.owf s.
Proof. unfold L15.owf. now rewrite sq_state_lower, leads_colon_lower. Qed.

(* same string up to letter case (C14's lower) *)
Lemma tokenize_case s s' : lower s = lower s' -> M15.tokenize s = M15.tokenize s'.
Proof. intros E. rewrite <- (tokenize_lower s), <- (tokenize_lower s'). now rewrite !lower_agree, E. Qed.

Lemma owf_case s s' : lower s = lower s' -> L15.owf s -> L15.owf s'.
Proof. intros E H. apply owf_lower. rewrite lower_agree, <- E, <- lower_agree. now apply owf_lower. Qed.

(* ---- the blanks Card.content may leave around the option string ---- *)
Lemma owf_empty : L15.owf "".
Proof. split; reflexivity. Qed.

Lemma tokenize_pad s b : L15.owf s -> M15.tokenize (s ++ pad b) = M15.tokenize s.
Proof.
  intros [H1 _]. destruct b; cbn [pad]; [|now rewrite sapp_nil_r].
  change (s ++ " ") with (s ++ " " ++ ""). rewrite (P15.tokenize_app s "" H1 eq_refl).
  apply app_nil_r.
Qed.

Lemma owf_pad s b : L15.owf s -> L15.owf (s ++ pad b).
Proof.
  intros H. destruct b; cbn [pad]; [|now rewrite sapp_nil_r].
  change (s ++ " ") with (s ++ " " ++ ""). apply L15.owf_app; [exact H|exact owf_empty].
Qed.

Lemma tokenize_lead s : L15.owf s -> M15.tokenize (" " ++ s) = M15.tokenize s.
Proof.
  intros [_ H2]. change (" " ++ s) with ("" ++ " " ++ s).
  now rewrite (P15.tokenize_app "" s eq_refl H2).
Qed.

Lemma owf_lead s : L15.owf s -> L15.owf (" " ++ s).
Proof. intros H. change (" " ++ s) with ("" ++ " " ++ s). apply L15.owf_app; [exact owf_empty|exact H]. Qed.

(* ---- from a card content to C15's table entry: MIP.geom.cells.get_cells ---- *)
Definition c15_entry (content : string) : option (Z * M15.card) :=
  match cell_split content with
  | Ok (n, m, g, o) =>
      match words n with
      | [w] => match int_of_string w with
               | Some k => Some (Z.of_N k, (m, g, o))
               | None => None
               end
      | _ => None
      end
  | Err _ => None
  end.

Lemma name_key bl name :
  all_chars is_digit name = true -> name <> "" ->
  words (pad bl ++ name) = [name] /\ int_of_string name = Some (parse_digits name 0%N).
Proof.
  intros Hn Nn. split.
  - pose proof (words_padded bl false [name]
                  (Forall_cons _ (digits_token name Nn Hn) (Forall_nil _))) as W.
    cbn [join pad] in W. now rewrite sapp_nil_r in W.
  - unfold int_of_string. destruct name; [contradiction|]. now rewrite (all_digits_chars _ Hn).
Qed.

(* ---- abstract cell cards ---- *)
Inductive acell :=
  | AVoid (name m : string) (gs : list string) (d : ascii) (o : string) (os : list string)
  | AMat (name m : string) (r0 : ascii) (rho : string) (gs : list string)
         (d : ascii) (o : string) (os : list string)
  | ALike (name : string) (l1 l2 l3 l4 : ascii) (n : string) (b1 b2 b3 : ascii) (opts : list string).

Definition like_word l1 l2 l3 l4 := String l1 (String l2 (String l3 (String l4 ""))).
Definition but_word b1 b2 b3 := String b1 (String b2 (String b3 "")).
Definition like_opts (opts : list string) : string :=
  match opts with [] => "" | _ => " " ++ join " " opts end.

Definition atoks (a : acell) : list string :=
  match a with
  | AVoid name m gs d o os => (name :: m :: gs ++ String d o :: os)%list
  | AMat name m r0 rho gs d o os => (name :: m :: String r0 rho :: gs ++ String d o :: os)%list
  | ALike name l1 l2 l3 l4 n b1 b2 b3 opts =>
      name :: like_word l1 l2 l3 l4 :: n :: but_word b1 b2 b3 :: opts
  end.

Definition aname (a : acell) : string :=
  match a with AVoid n _ _ _ _ _ | AMat n _ _ _ _ _ _ _ | ALike n _ _ _ _ _ _ _ _ _ => n end.

(* the card (material, geometry, options) get_cells stores; b = Card.content
   left a blank behind the last token *)
Definition acard (a : acell) (b : bool) : M15.card :=
  match a with
  | AVoid _ m gs d o os => (" " ++ m, " " ++ join " " gs ++ " ", join " " (String d o :: os) ++ pad b)
  | AMat _ m r0 rho gs d o os =>
      (" " ++ m ++ " " ++ String r0 rho, " " ++ join " " gs ++ " ", join " " (String d o :: os) ++ pad b)
  | ALike _ l1 l2 l3 l4 n b1 b2 b3 opts =>
      ("", " " ++ String l1 (String l2 (String l3 (String l4 (" " ++ n ++ " " ++ but_word b1 b2 b3)))),
       like_opts opts ++ pad b)
  end.

Definition acell_ok (a : acell) : Prop :=
  all_chars is_digit (aname a) = true /\ aname a <> "" /\
  match a with
  | AVoid _ m gs d o os =>
      all_chars (ceq "0") m = true /\ m <> "" /\ gs <> [] /\ Forall geom_token gs /\
      is_opt_start d = true /\ L15.owf (join " " (String d o :: os))
  | AMat _ m r0 rho gs d o os =>
      all_chars is_digit m = true /\ all_chars (ceq "0") m = false /\
      all_chars dens_char (String r0 rho) = true /\ all_chars nolead (String r0 rho) = true /\
      is_opt_start r0 = false /\ gs <> [] /\ Forall geom_token gs /\
      is_opt_start d = true /\ L15.owf (join " " (String d o :: os))
  | ALike _ l1 l2 l3 l4 n b1 b2 b3 opts =>
      lower (like_word l1 l2 l3 l4) = "like" /\ is_but b1 b2 b3 /\
      all_chars is_digit n = true /\ n <> "" /\
      (forall b, has_but (like_opts opts ++ pad b) = false) /\ L15.owf (like_opts opts)
  end.

Theorem c15_entry_rendered a bl br :
  acell_ok a ->
  c15_entry (pad bl ++ join " " (atoks a) ++ pad br)
  = Some (Z.of_N (parse_digits (aname a) 0%N), acard a br).
Proof.
  intros (Hn & Nn & H). unfold c15_entry. destruct a; cbn [atoks aname acard] in *.
  - destruct H as (Hm & Nm & Ng & Hg & Hd & _).
    rewrite (cell_split_rendered_void bl br name m gs d o os Hn Nn Hm Nm Ng Hg Hd).
    destruct (name_key bl name Hn Nn) as [W K]. now rewrite W, K.
  - destruct H as (Hm & Hm0 & Hr & Hrl & Hr0 & Ng & Hg & Hd & _).
    rewrite (cell_split_rendered_density bl br name m r0 rho gs d o os Hn Nn Hm Hm0 Hr Hrl Hr0 Ng Hg Hd).
    destruct (name_key bl name Hn Nn) as [W K]. now rewrite W, K.
  - destruct H as (Hl & Hb & Hnn & Nnn & Hh & _). unfold like_word, but_word, like_opts in *.
    rewrite (cell_split_rendered_like bl br name l1 l2 l3 l4 n b1 b2 b3 opts Hn Nn Hl Hb
               (digits_token n Nnn Hnn) (Hh br)).
    destruct (name_key bl name Hn Nn) as [W K]. now rewrite W, K.
Qed.

(* ---- two variants of the same abstract cell: options (and LIKE / BUT) in
   another letter case ---- *)
Definition avariant (a a' : acell) : Prop :=
  match a, a' with
  | AVoid name m gs d o os, AVoid name' m' gs' d' o' os' =>
      name = name' /\ m = m' /\ gs = gs' /\
      lower (join " " (String d o :: os)) = lower (join " " (String d' o' :: os'))
  | AMat name m r0 rho gs d o os, AMat name' m' r0' rho' gs' d' o' os' =>
      name = name' /\ m = m' /\ r0 = r0' /\ rho = rho' /\ gs = gs' /\
      lower (join " " (String d o :: os)) = lower (join " " (String d' o' :: os'))
  | ALike name _ _ _ _ n _ _ _ opts, ALike name' _ _ _ _ n' _ _ _ opts' =>
      name = name' /\ n = n' /\ lower (like_opts opts) = lower (like_opts opts')
  | _, _ => False
  end.

Lemma lower_digits n : all_chars is_digit n = true -> lower n = n.
Proof.
  induction n as [|c n IH]; [reflexivity|]. cbn [all_chars lower]. intros H.
  apply andb_true_iff in H. destruct H as [Hc Hn]. now rewrite (digit_lower c Hc), IH.
Qed.

Lemma like_geometry_lower l1 l2 l3 l4 n b1 b2 b3 :
  lower (like_word l1 l2 l3 l4) = "like" -> is_but b1 b2 b3 -> all_chars is_digit n = true ->
  M15.lower (" " ++ String l1 (String l2 (String l3 (String l4 (" " ++ n ++ " " ++ but_word b1 b2 b3)))))
  = " like " ++ n ++ " but".
Proof.
  intros Hl (B1 & B2 & B3) Hn. rewrite lower_agree. cbn [append lower]. unfold like_word in Hl.
  cbn [lower] in Hl. injection Hl as E1 E2 E3 E4. rewrite E1, E2, E3, E4.
  rewrite lower_app. cbn [lower append]. rewrite (lower_digits n Hn).
  unfold but_word. cbn [lower]. rewrite B1, B2, B3. reflexivity.
Qed.

Lemma acard_eq a a' b b' :
  acell_ok a -> acell_ok a' -> avariant a a' -> L15.card_eq (acard a b) (acard a' b').
Proof.
  intros (Hn & Nn & H) (Hn' & Nn' & H') V.
  destruct a, a'; cbn [avariant] in V; try contradiction; cbn [acard aname] in *.
  - destruct V as (-> & -> & -> & E). destruct H as (_ & _ & _ & _ & _ & W), H' as (_ & _ & _ & _ & _ & W').
    cbn [L15.card_eq]. repeat split; auto.
    + rewrite (tokenize_pad _ b W), (tokenize_pad _ b' W'). now apply tokenize_case.
    + exact (proj1 (owf_pad _ b W)). + exact (proj2 (owf_pad _ b W)).
    + exact (proj1 (owf_pad _ b' W')). + exact (proj2 (owf_pad _ b' W')).
  - destruct V as (-> & -> & -> & -> & -> & E).
    destruct H as (_ & _ & _ & _ & _ & _ & _ & _ & W), H' as (_ & _ & _ & _ & _ & _ & _ & _ & W').
    cbn [L15.card_eq]. repeat split; auto.
    + rewrite (tokenize_pad _ b W), (tokenize_pad _ b' W'). now apply tokenize_case.
    + exact (proj1 (owf_pad _ b W)). + exact (proj2 (owf_pad _ b W)).
    + exact (proj1 (owf_pad _ b' W')). + exact (proj2 (owf_pad _ b' W')).
  - destruct V as (-> & -> & E).
    destruct H as (Hl & Hb & Hd & Nd & _ & W), H' as (Hl' & Hb' & Hd' & _ & _ & W').
    cbn [L15.card_eq].
    rewrite (like_geometry_lower _ _ _ _ _ _ _ _ Hl Hb Hd), (like_geometry_lower _ _ _ _ _ _ _ _ Hl' Hb' Hd').
    repeat split; auto.
    + intros S. exfalso. rewrite (P15.like_re_recognises n0 (all_digits_chars _ Hd) Nd) in S. discriminate.
    + rewrite (tokenize_pad _ b W), (tokenize_pad _ b' W'). now apply tokenize_case.
    + exact (proj1 (owf_pad _ b W)). + exact (proj2 (owf_pad _ b W)).
    + exact (proj1 (owf_pad _ b' W')). + exact (proj2 (owf_pad _ b' W')).
Qed.

(* ---- the linked metamorphic theorem ---- *)
Section Linked.
  Context {T : Type} (SC : Scalar T).

  (* layouts of the cell cards of a deck: physical lines of each card *)
  Definition layout_of (ls : list pline) (a : acell) : Prop :=
    Forall line_ok ls /\ flat_map ptoks ls = atoks a.

  Definition entries (Ls : list (list pline)) : list (option (Z * M15.card)) :=
    map (fun ls => c15_entry (content (map line_text ls))) Ls.

  Lemma entries_layout Ls As :
    Forall2 layout_of Ls As -> Forall acell_ok As ->
    exists bs, List.length bs = List.length As /\
      entries Ls = map Some (map (fun ab => (Z.of_N (parse_digits (aname (fst ab)) 0%N),
                                             acard (fst ab) (snd ab))) (combine As bs)).
  Proof.
    induction 1 as [|ls a Ls As [Hl Ht] _ IH]; intros Hok.
    - exists []. split; reflexivity.
    - inversion Hok as [|? ? Ha Hoks]; subst. destruct (IH Hoks) as (bs & Hlen & E).
      exists ((ends_ws (joined ls) && nonnil (atoks a)) :: bs). split; [cbn; now rewrite Hlen|].
      cbn [entries map combine fst snd]. fold (entries Ls). rewrite E. f_equal.
      rewrite (content_layout ls Hl), Ht. now apply c15_entry_rendered.
  Qed.

  Theorem parse_metamorphic_linked (e : M15.env (T:=T)) Ls Ls' As As' :
    Forall2 layout_of Ls As -> Forall2 layout_of Ls' As' ->
    Forall acell_ok As -> Forall acell_ok As' -> Forall2 avariant As As' ->
    exists t t',
      entries Ls = map Some t /\ entries Ls' = map Some t' /\
      M15.parse_all SC e t = M15.parse_all SC e t'.
  Proof.
    intros HL HL' Hok Hok' Hv.
    destruct (entries_layout Ls As HL Hok) as (bs & Hb & E).
    destruct (entries_layout Ls' As' HL' Hok') as (bs' & Hb' & E').
    eexists; eexists. split; [exact E|]. split; [exact E'|].
    apply L15.parse_all_eq.
    clear E E' HL HL'. revert bs bs' Hb Hb' Hok Hok'.
    induction Hv as [|a a' As As' Va _ IH]; intros bs bs' Hb Hb' Hok Hok'.
    - destruct bs, bs'; try discriminate. constructor.
    - destruct bs as [|b bs], bs' as [|b' bs']; try discriminate.
      inversion Hok; inversion Hok'; subst. cbn [combine map fst snd]. constructor.
      + split.
        * cbn [fst]. destruct a, a'; cbn [avariant aname] in *; try contradiction;
            now (destruct Va as (-> & _)).
        * cbn [snd]. now apply acard_eq.
      + apply IH; auto; cbn in Hb, Hb'; lia.
  Qed.
End Linked.

(* ---- density in another letter case (1.5E-3 / 1.5e-3 / 1.5D-3 vs 1.5d-3) ---- *)
Lemma srev_acc_invol t : forall a b, M15.srev_acc (M15.srev_acc t a) b = M15.srev_acc a (t ++ b).
Proof.
  induction t as [|c t IH]; intros a b; [reflexivity|].
  cbn [M15.srev_acc append]. rewrite IH. reflexivity.
Qed.

Definition nows15 (t : string) : Prop := all_chars (fun c => negb (M15.is_ws c)) t = true.

Lemma words_acc_tok t : forall cur, nows15 t -> (t <> "" \/ cur <> "") ->
  M15.words_acc cur t = [M15.srev_acc t cur].
Proof.
  induction t as [|c t IH]; intros cur Ht Hne.
  - destruct Hne as [H|H]; [contradiction|]. cbn. destruct cur; [contradiction|reflexivity].
  - unfold nows15 in Ht. cbn [all_chars] in Ht. apply andb_true_iff in Ht. destruct Ht as [Hc Ht].
    apply negb_true_iff in Hc. cbn [M15.words_acc M15.srev_acc]. rewrite Hc.
    apply IH; [exact Ht|right; discriminate].
Qed.

Lemma words15_tok t : nows15 t -> t <> "" -> M15.words t = [t].
Proof.
  intros Ht Hne. unfold M15.words. rewrite (words_acc_tok t "" Ht (or_introl Hne)).
  cbn [map]. unfold M15.srev. rewrite srev_acc_invol. cbn [M15.srev_acc]. now rewrite sapp_nil_r.
Qed.

Lemma words15_material m rho :
  nows15 m -> m <> "" -> nows15 rho -> rho <> "" ->
  M15.words (" " ++ m ++ " " ++ rho) = [m; rho].
Proof.
  intros Hm Nm Hr Nr.
  change (" " ++ m ++ " " ++ rho) with ("" ++ String " " (m ++ String " " rho)).
  rewrite P15.words_app, P15.words_app, (words15_tok m Hm Nm), (words15_tok rho Hr Nr). reflexivity.
Qed.

Lemma ws15_of_ws14 c : is_ws c = false -> M15.is_ws c = false.
Proof. destruct c as [[] [] [] [] [] [] [] []]; vm_compute; intros H; (reflexivity || discriminate). Qed.

Lemma nows15_digits m : all_chars is_digit m = true -> nows15 m.
Proof.
  unfold nows15. induction m as [|c m IH]; [reflexivity|]. cbn [all_chars]. intros H.
  apply andb_true_iff in H. destruct H as [Hc Hm]. rewrite (IH Hm), andb_true_r.
  now rewrite (ws15_of_ws14 c (digit_not_ws c Hc)).
Qed.

Lemma nows15_dens rho : all_chars dens_char rho = true -> nows15 rho.
Proof.
  unfold nows15. induction rho as [|c r IH]; [reflexivity|]. cbn [all_chars]. intros H.
  apply andb_true_iff in H. destruct H as [Hc Hr]. rewrite (IH Hr), andb_true_r.
  unfold dens_char in Hc. apply negb_true_iff in Hc. apply orb_false_iff in Hc.
  now rewrite (ws15_of_ws14 c (proj1 Hc)).
Qed.

Section LinkedDensity.
  Context {T : Type} (SC : Scalar T) (e : M15.env (T:=T)).

  (* variants: as avariant, and the densities of a material cell may be any
     two strings that the environment's normalize_float maps to the same string
     (the real one maps e E d D to e: 1.5E-3, 1.5D-3, 1.5e-3) *)
  Definition avariant_d (a a' : acell) : Prop :=
    match a, a' with
    | AMat name m r0 rho gs d o os, AMat name' m' r0' rho' gs' d' o' os' =>
        name = name' /\ m = m' /\
        M15.normfloat e (String r0 rho) = M15.normfloat e (String r0' rho') /\ gs = gs' /\
        lower (join " " (String d o :: os)) = lower (join " " (String d' o' :: os'))
    | _, _ => avariant a a'
    end.

  Lemma card_eq_weaken c c' : L15.card_eq c c' -> L15.card_eq_d e c c'.
  Proof.
    destruct c as [[m g] o], c' as [[m' g'] o']. cbn [L15.card_eq L15.card_eq_d].
    intros (-> & H). split; [reflexivity|exact H].
  Qed.

  Lemma acard_eq_d a a' b b' :
    acell_ok a -> acell_ok a' -> avariant_d a a' ->
    L15.card_eq_d e (acard a b) (acard a' b').
  Proof.
    intros Hok Hok' V.
    destruct a, a'; try (apply card_eq_weaken; now apply acard_eq).
    cbn [avariant_d] in V. destruct V as (-> & -> & Er & -> & Eo).
    destruct Hok as (Hn & Nn & Hm & Hm0 & Hr & _ & _ & _ & _ & _ & W).
    destruct Hok' as (_ & _ & _ & _ & Hr' & _ & _ & _ & _ & _ & W').
    cbn [acard L15.card_eq_d]. repeat split; auto.
    - assert (Nm : m0 <> "") by (intros ->; discriminate).
      unfold M15.parse_material.
      rewrite (words15_material m0 (String r0 rho) (nows15_digits _ Hm) Nm (nows15_dens _ Hr)) by discriminate.
      rewrite (words15_material m0 (String r1 rho0) (nows15_digits _ Hm) Nm (nows15_dens _ Hr')) by discriminate.
      destruct (M15.pyint m0) as [[|?|?]|]; try reflexivity; now rewrite Er.
    - rewrite (tokenize_pad _ b W), (tokenize_pad _ b' W'). now apply tokenize_case.
    - exact (proj1 (owf_pad _ b W)). - exact (proj2 (owf_pad _ b W)).
    - exact (proj1 (owf_pad _ b' W')). - exact (proj2 (owf_pad _ b' W')).
  Qed.

  Theorem parse_metamorphic_density_linked Ls Ls' As As' :
    Forall2 layout_of Ls As -> Forall2 layout_of Ls' As' ->
    Forall acell_ok As -> Forall acell_ok As' -> Forall2 avariant_d As As' ->
    exists t t',
      entries Ls = map Some t /\ entries Ls' = map Some t' /\
      M15.parse_all SC e t = M15.parse_all SC e t'.
  Proof.
    intros HL HL' Hok Hok' Hv.
    destruct (entries_layout Ls As HL Hok) as (bs & Hb & E).
    destruct (entries_layout Ls' As' HL' Hok') as (bs' & Hb' & E').
    eexists; eexists. split; [exact E|]. split; [exact E'|].
    apply L15.parse_all_eq_d.
    clear E E' HL HL'. revert bs bs' Hb Hb' Hok Hok'.
    induction Hv as [|a a' As As' Va _ IH]; intros bs bs' Hb Hb' Hok Hok'.
    - destruct bs, bs'; try discriminate. constructor.
    - destruct bs as [|b bs], bs' as [|b' bs']; try discriminate.
      inversion Hok; inversion Hok'; subst. cbn [combine map fst snd]. constructor.
      + split.
        * cbn [fst]. destruct a, a'; cbn [avariant_d avariant aname] in *; try contradiction;
            now (destruct Va as (-> & _)).
        * cbn [snd]. now apply acard_eq_d.
      + apply IH; auto; cbn in Hb, Hb'; lia.
  Qed.
End LinkedDensity.
