(* C14 — cellcard.split on rendered cell cards, LIKE n BUT, trailing blanks of
   the option string. *)
From Coq Require Import List NArith Bool String Ascii Lia PeanoNat.
From T4V Require Import Base.Str C14.Model C14.ProofsContent C14.ProofsSplit C14.ProofsCase C14.ProofsCell.
Import ListNotations.
Open Scope string_scope.

Definition nostart (c : ascii) : bool := negb (is_opt_start c).

Lemma opt_free_all s : all_chars nostart s = true -> opt_free s = true.
Proof.
  destruct s as [|x s]; [reflexivity|]. intros H. simpl in H. apply andb_true_iff in H.
  now apply opt_free_no_start.
Qed.

Lemma join_app xs ys :
  xs <> [] -> ys <> [] -> join " " (xs ++ ys) = join " " xs ++ " " ++ join " " ys.
Proof.
  induction xs as [|x xs IH]; [contradiction|]. intros _ Hy.
  destruct xs as [|x2 xs].
  - destruct ys as [|y ys]; [contradiction|]. reflexivity.
  - change (((x :: x2 :: xs) ++ ys)%list) with (x :: ((x2 :: xs) ++ ys))%list.
    change (join " " (x :: (x2 :: xs) ++ ys)%list) with (x ++ " " ++ join " " ((x2 :: xs) ++ ys)%list).
    rewrite IH by (discriminate || exact Hy). cbn [join]. now rewrite !sapp_assoc.
Qed.

Lemma all_chars_join p xs :
  p " "%char = true -> Forall (fun t => all_chars p t = true) xs -> all_chars p (join " " xs) = true.
Proof.
  intros Hp H. induction H as [|x xs Hx _ IH]; [reflexivity|].
  destruct xs as [|y xs]; [exact Hx|].
  change (join " " (x :: y :: xs)) with (x ++ " " ++ join " " (y :: xs)).
  rewrite !all_chars_app, Hx, IH. cbn. now rewrite Hp.
Qed.

Lemma digits_nostart s : all_chars is_digit s = true -> all_chars nostart s = true.
Proof.
  induction s as [|c s IH]; [reflexivity|]. cbn [all_chars]. intros H.
  apply andb_true_iff in H. destruct H as [Hc Hs]. rewrite (IH Hs), andb_true_r.
  unfold nostart. destruct c as [[] [] [] [] [] [] [] []]; vm_compute in Hc |- *; (reflexivity || discriminate).
Qed.

Lemma all_chars_cons p c s : all_chars p (String c s) = p c && all_chars p s.
Proof. reflexivity. Qed.

Lemma pad_nostart b : all_chars nostart (pad b) = true.
Proof. now destruct b. Qed.

(* a geometry token: no blank, no letter, no star *)
Definition geom_token (t : string) : Prop := is_token t /\ all_chars nostart t = true.

(* a void cell as Card.content renders it: name, zero material, geometry
   tokens, option tokens *)
Theorem cell_split_rendered_void bl br name m gs d o os :
  all_chars is_digit name = true -> name <> "" ->
  all_chars (ceq "0") m = true -> m <> "" ->
  gs <> [] -> Forall geom_token gs -> is_opt_start d = true ->
  cell_split (pad bl ++ join " " (name :: m :: gs ++ String d o :: os) ++ pad br)
  = Ok (pad bl ++ name, " " ++ m, " " ++ join " " gs ++ " ", join " " (String d o :: os) ++ pad br).
Proof.
  intros Hn Nn Hm Nm Ng Hg Hd.
  assert (E : pad bl ++ join " " (name :: m :: gs ++ String d o :: os) ++ pad br
              = pad bl ++ name ++ " " ++ m ++ String " " (join " " gs) ++ String " " (String d
                  (match os with [] => o | _ => o ++ " " ++ join " " os end ++ pad br))).
  { change (name :: m :: gs ++ String d o :: os)%list with (name :: m :: (gs ++ String d o :: os))%list.
    destruct gs as [|g0 gs']; [contradiction|].
    change (join " " (name :: m :: (g0 :: gs') ++ String d o :: os)%list)
      with (name ++ " " ++ m ++ " " ++ join " " ((g0 :: gs') ++ String d o :: os)%list).
    rewrite join_app by discriminate. rewrite !sapp_assoc. cbn [append].
    destruct os; cbn [join append]; now rewrite ?sapp_assoc. }
  rewrite E.
  assert (R : join " " (String d o :: os) ++ pad br
              = String d (match os with [] => o | _ => o ++ " " ++ join " " os end ++ pad br)).
  { destruct os; cbn [join append]; now rewrite ?sapp_assoc. }
  rewrite R.
  assert (G : " " ++ join " " gs ++ " " = String " " (join " " gs) ++ String " " "") by reflexivity.
  rewrite G.
  apply cell_split_void_options; auto; try discriminate; try (now destruct bl).
  apply opt_free_all.
  assert (J : all_chars nostart (join " " gs) = true).
  { apply all_chars_join; [reflexivity|]. clear -Hg. induction Hg as [|t r [_ Ht] _ IH]; constructor; auto. }
  repeat (rewrite all_chars_app || rewrite all_chars_cons).
  now rewrite pad_nostart, (digits_nostart _ Hn), (digits_nostart _ (zeros_digits _ Hm)), J.
Qed.

(* with a material and a density that holds no letter (-1.0, 6.4-2); densities
   with an e/d exponent are covered by cell_split_material_options, whose
   opt_free hypothesis they satisfy, but not by this rendered form *)
Theorem cell_split_rendered_material bl br name m rho gs d o os :
  all_chars is_digit name = true -> name <> "" ->
  all_chars is_digit m = true -> all_chars (ceq "0") m = false ->
  all_chars dens_char rho = true -> all_chars nostart rho = true -> rho <> "" ->
  gs <> [] -> Forall geom_token gs -> is_opt_start d = true ->
  cell_split (pad bl ++ join " " (name :: m :: rho :: gs ++ String d o :: os) ++ pad br)
  = Ok (pad bl ++ name, " " ++ m ++ " " ++ rho, " " ++ join " " gs ++ " ",
        join " " (String d o :: os) ++ pad br).
Proof.
  intros Hn Nn Hm Hm0 Hr Hrs Nr Ng Hg Hd.
  assert (E : pad bl ++ join " " (name :: m :: rho :: gs ++ String d o :: os) ++ pad br
              = pad bl ++ name ++ " " ++ m ++ " " ++ rho ++ String " " (join " " gs) ++ String " " (String d
                  (match os with [] => o | _ => o ++ " " ++ join " " os end ++ pad br))).
  { change (name :: m :: rho :: gs ++ String d o :: os)%list with (name :: m :: rho :: (gs ++ String d o :: os))%list.
    destruct gs as [|g0 gs']; [contradiction|].
    change (join " " (name :: m :: rho :: (g0 :: gs') ++ String d o :: os)%list)
      with (name ++ " " ++ m ++ " " ++ rho ++ " " ++ join " " ((g0 :: gs') ++ String d o :: os)%list).
    rewrite join_app by discriminate. rewrite !sapp_assoc. cbn [append].
    destruct os; cbn [join append]; now rewrite ?sapp_assoc. }
  rewrite E.
  assert (R : join " " (String d o :: os) ++ pad br
              = String d (match os with [] => o | _ => o ++ " " ++ join " " os end ++ pad br)).
  { destruct os; cbn [join append]; now rewrite ?sapp_assoc. }
  rewrite R.
  assert (G : " " ++ join " " gs ++ " " = String " " (join " " gs) ++ String " " "") by reflexivity.
  rewrite G.
  apply cell_split_material_options; auto; try discriminate; try (now destruct bl).
  apply opt_free_all.
  assert (J : all_chars nostart (join " " gs) = true).
  { apply all_chars_join; [reflexivity|]. clear -Hg. induction Hg as [|t r [_ Ht] _ IH]; constructor; auto. }
  repeat (rewrite all_chars_app || rewrite all_chars_cons).
  now rewrite pad_nostart, (digits_nostart _ Hn), (digits_nostart _ Hm), Hrs, J.
Qed.

(* ---- LIKE n BUT ---- *)
(* does "but" (any case) occur in s? *)
Fixpoint has_but (s : string) : bool :=
  match s with
  | EmptyString => false
  | String c r => starts_ci "but" s || has_but r
  end.

Lemma last_but_none s : has_but s = false -> last_but s = None.
Proof.
  induction s as [|c r IH]; [reflexivity|]. intros H. cbn [has_but] in H.
  apply orb_false_iff in H. destruct H as [H1 H2]. cbn [last_but]. now rewrite (IH H2), H1.
Qed.

Lemma last_but_cons c r : last_but (String c r) =
  match last_but r with
  | Some (a, b) => Some (String c a, b)
  | None => if starts_ci "but" (String c r)
            then Some (substring 0 3 (String c r), substring 3 (length (String c r) - 3) (String c r))
            else None
  end.
Proof. reflexivity. Qed.

Lemma substring_all s : substring 0 (length s) s = s.
Proof. induction s as [|c s IH]; [reflexivity|]. cbn. now rewrite IH. Qed.

(* the keyword but, in any case, as three characters *)
Definition is_but (b1 b2 b3 : ascii) : Prop :=
  lower_char b1 = "b"%char /\ lower_char b2 = "u"%char /\ lower_char b3 = "t"%char.

Lemma not_b_no_start c r : lower_char c <> "b"%char -> starts_ci "but" (String c r) = false.
Proof.
  intros H. unfold starts_ci. cbn [length substring lower String.eqb].
  destruct (Ascii.eqb (lower_char c) "b") eqn:E; [|reflexivity].
  apply Ascii.eqb_eq in E. contradiction.
Qed.

Lemma last_but_found mid b1 b2 b3 rest :
  is_but b1 b2 b3 -> has_but rest = false ->
  last_but (mid ++ String b1 (String b2 (String b3 rest)))
  = Some (mid ++ String b1 (String b2 (String b3 "")), rest).
Proof.
  intros (H1 & H2 & H3) Hr. induction mid as [|c mid IH].
  - cbn [append]. rewrite last_but_cons.
    assert (N : last_but (String b2 (String b3 rest)) = None).
    { rewrite last_but_cons. rewrite (last_but_cons b3 rest), (last_but_none rest Hr).
      rewrite (not_b_no_start b3 rest) by (rewrite H3; discriminate).
      rewrite (not_b_no_start b2 _) by (rewrite H2; discriminate). reflexivity. }
    rewrite N.
    assert (S : starts_ci "but" (String b1 (String b2 (String b3 rest))) = true).
    { unfold starts_ci. cbn [length substring lower]. rewrite H1, H2, H3.
      destruct rest; reflexivity. }
    rewrite S.
    assert (A : substring 0 3 (String b1 (String b2 (String b3 rest))) = String b1 (String b2 (String b3 "")))
      by (destruct rest; reflexivity).
    assert (B : substring 3 (length (String b1 (String b2 (String b3 rest))) - 3)
                  (String b1 (String b2 (String b3 rest))) = rest).
    { change (length (String b1 (String b2 (String b3 rest))) - 3) with (length rest - 0).
      rewrite Nat.sub_0_r. cbn [substring]. apply substring_all. }
    now rewrite A, B.
  - cbn [append]. rewrite last_but_cons, IH. reflexivity.
Qed.

(* LIKE n BUT card: number, blanks, like (any case), anything, the last but
   (any case), options holding no further "but" *)
Theorem likebut_split_shape w0 ds w1 l1 l2 l3 l4 mid b1 b2 b3 rest :
  all_chars is_ws w0 = true -> all_chars is_digit ds = true -> ds <> "" ->
  all_chars is_ws w1 = true -> w1 <> "" ->
  lower (String l1 (String l2 (String l3 (String l4 "")))) = "like" ->
  is_but b1 b2 b3 -> has_but rest = false ->
  likebut_split (w0 ++ ds ++ w1 ++ String l1 (String l2 (String l3 (String l4
                   (mid ++ String b1 (String b2 (String b3 rest)))))))
  = Ok (w0 ++ ds,
        w1 ++ String l1 (String l2 (String l3 (String l4 (mid ++ String b1 (String b2 (String b3 "")))))),
        rest).
Proof.
  intros Hw0 Hds Nds Hw1 Nw1 Hl Hb Hr.
  destruct ds as [|d0 ds']; [contradiction|]. destruct w1 as [|x1 w1']; [contradiction|].
  pose proof (all_head _ _ _ Hds) as Hd0. pose proof (all_head _ _ _ Hw1) as Hx1.
  assert (Hl1 : is_ws l1 = false).
  { cbn [lower] in Hl. injection Hl as E _. destruct l1 as [[] [] [] [] [] [] [] []]; try reflexivity; discriminate E. }
  unfold likebut_split.
  rewrite (span_app is_ws w0 _ Hw0) by (simpl; now apply digit_not_ws).
  rewrite (span_app is_digit (String d0 ds') _ Hds) by (simpl; now apply ws_not_digit).
  rewrite (span_app is_ws (String x1 w1') _ Hw1) by (simpl; exact Hl1).
  cbn [nonempty andb].
  set (tl := mid ++ String b1 (String b2 (String b3 rest))).
  assert (S : starts_ci "like" (String l1 (String l2 (String l3 (String l4 tl)))) = true).
  { unfold starts_ci.
    assert (A : substring 0 (length "like") (String l1 (String l2 (String l3 (String l4 tl))))
                = String l1 (String l2 (String l3 (String l4 "")))) by (destruct tl; reflexivity).
    rewrite A, Hl. reflexivity. }
  rewrite S.
  assert (B : substring 4 (length (String l1 (String l2 (String l3 (String l4 tl)))) - 4)
                (String l1 (String l2 (String l3 (String l4 tl)))) = tl).
  { change (length (String l1 (String l2 (String l3 (String l4 tl)))) - 4) with (length tl - 0).
    rewrite Nat.sub_0_r. cbn [substring]. apply substring_all. }
  rewrite B.
  assert (C : substring 0 4 (String l1 (String l2 (String l3 (String l4 tl))))
              = String l1 (String l2 (String l3 (String l4 "")))) by (destruct tl; reflexivity).
  rewrite C. unfold tl. rewrite (last_but_found mid b1 b2 b3 rest Hb Hr). reflexivity.
Qed.

(* ---- the option string may end with one blank (Card.content's pad) ---- *)
Lemma spaces_snoc n : spaces (S n) = spaces n ++ " ".
Proof. induction n as [|n IH]; [reflexivity|]. cbn [spaces append] in *. now rewrite <- IH. Qed.

Lemma colon_sub_trailing s pend ac :
  (ac = true -> pend = 0) ->
  colon_sub (s ++ " ") pend ac = colon_sub s pend ac ++ " " \/
  colon_sub (s ++ " ") pend ac = colon_sub s pend ac.
Proof.
  revert pend ac. induction s as [|c s IH]; intros pend ac Hinv.
  - cbn [append colon_sub]. change (ceq " " " ") with true. cbv beta iota.
    destruct ac.
    + right. now rewrite (Hinv eq_refl).
    + left. apply spaces_snoc.
  - cbn [append colon_sub]. destruct (ceq c " ").
    + destruct ac; apply IH; auto; discriminate.
    + destruct (ceq c ":").
      * destruct (IH 0 true (fun _ => eq_refl)) as [E|E]; rewrite E; [left|right]; reflexivity.
      * destruct (IH 0 false) as [E|E]; [discriminate| |]; rewrite E; [left|right];
          [now rewrite !sapp_assoc|reflexivity].
Qed.

Lemma map_chars_app f a b : map_chars f (a ++ b) = map_chars f a ++ map_chars f b.
Proof. induction a as [|c a IH]; [reflexivity|]. cbn. now rewrite IH. Qed.

Theorem opt_tokens_trailing_blank s : opt_tokens (s ++ " ") = opt_tokens s.
Proof.
  unfold opt_tokens. destruct (colon_sub_trailing s 0 false) as [E|E]; [discriminate| |]; rewrite E; [|reflexivity].
  rewrite lower_app, map_chars_app. cbn [lower map_chars append].
  change (map_chars paren_eq_blank (lower (colon_sub s 0 false)) ++ String (paren_eq_blank (lower_char " ")) "")
    with (map_chars paren_eq_blank (lower (colon_sub s 0 false)) ++ String " " "").
  rewrite words_app_ws by reflexivity. apply app_nil_r.
Qed.

(* ---- densities with letters (1.5e-3, 6.4d-2) in the rendered form ---- *)
Definition nolead (c : ascii) : bool := negb (is_opt_lead c).

Lemma opt_free_cons2 x y r :
  opt_free (String x (String y r)) = negb (is_opt_lead x && is_opt_start y) && opt_free (String y r).
Proof. reflexivity. Qed.

Lemma opt_free_nostart_prefix a b :
  all_chars nostart a = true -> head_fails is_opt_start b ->
  opt_free (a ++ b) = opt_free b.
Proof.
  intros Ha Hb. induction a as [|x a IH]; [reflexivity|].
  cbn [all_chars] in Ha. apply andb_true_iff in Ha. destruct Ha as [_ Ha].
  cbn [append]. specialize (IH Ha).
  destruct (a ++ b) as [|y r] eqn:E.
  - destruct a; [|discriminate]. cbn in E. subst b. reflexivity.
  - rewrite opt_free_cons2, IH.
    assert (Hy : is_opt_start y = false).
    { destruct a as [|a0 a']; cbn [append] in E.
      - subst b. exact Hb.
      - injection E as -> _. cbn [all_chars] in Ha. apply andb_true_iff in Ha. destruct Ha as [Ha _].
        unfold nostart in Ha. now apply negb_true_iff in Ha. }
    now rewrite Hy, andb_false_r.
Qed.

Lemma opt_free_nolead_prefix s b : all_chars nolead s = true -> opt_free (s ++ b) = opt_free b.
Proof.
  intros Hs. induction s as [|x s IH]; [reflexivity|].
  cbn [all_chars] in Hs. apply andb_true_iff in Hs. destruct Hs as [Hx Hs].
  unfold nolead in Hx. apply negb_true_iff in Hx. cbn [append]. specialize (IH Hs).
  destruct (s ++ b) as [|y r] eqn:E.
  - destruct s; [|discriminate]. cbn in E. subst b. reflexivity.
  - rewrite opt_free_cons2, IH. now rewrite Hx.
Qed.

(* density: no blank, no parenthesis, does not start with a letter or a star *)
Theorem cell_split_rendered_density bl br name m r0 rho gs d o os :
  all_chars is_digit name = true -> name <> "" ->
  all_chars is_digit m = true -> all_chars (ceq "0") m = false ->
  all_chars dens_char (String r0 rho) = true -> all_chars nolead (String r0 rho) = true ->
  is_opt_start r0 = false ->
  gs <> [] -> Forall geom_token gs -> is_opt_start d = true ->
  cell_split (pad bl ++ join " " (name :: m :: String r0 rho :: gs ++ String d o :: os) ++ pad br)
  = Ok (pad bl ++ name, " " ++ m ++ " " ++ String r0 rho, " " ++ join " " gs ++ " ",
        join " " (String d o :: os) ++ pad br).
Proof.
  intros Hn Nn Hm Hm0 Hr Hrl Hr0 Ng Hg Hd.
  set (rh := String r0 rho) in *.
  assert (E : pad bl ++ join " " (name :: m :: rh :: gs ++ String d o :: os) ++ pad br
              = pad bl ++ name ++ " " ++ m ++ " " ++ rh ++ String " " (join " " gs) ++ String " " (String d
                  (match os with [] => o | _ => o ++ " " ++ join " " os end ++ pad br))).
  { change (name :: m :: rh :: gs ++ String d o :: os)%list with (name :: m :: rh :: (gs ++ String d o :: os))%list.
    destruct gs as [|g0 gs']; [contradiction|].
    change (join " " (name :: m :: rh :: (g0 :: gs') ++ String d o :: os)%list)
      with (name ++ " " ++ m ++ " " ++ rh ++ " " ++ join " " ((g0 :: gs') ++ String d o :: os)%list).
    rewrite join_app by discriminate. rewrite !sapp_assoc. cbn [append].
    destruct os; cbn [join append]; now rewrite ?sapp_assoc. }
  rewrite E.
  assert (R : join " " (String d o :: os) ++ pad br
              = String d (match os with [] => o | _ => o ++ " " ++ join " " os end ++ pad br)).
  { destruct os; cbn [join append]; now rewrite ?sapp_assoc. }
  rewrite R.
  assert (G : " " ++ join " " gs ++ " " = String " " (join " " gs) ++ String " " "") by reflexivity.
  rewrite G.
  apply cell_split_material_options; auto; try discriminate; try (now destruct bl).
  assert (J : all_chars nostart (join " " gs) = true).
  { apply all_chars_join; [reflexivity|]. clear -Hg. induction Hg as [|t r [_ Ht] _ IH]; constructor; auto. }
  assert (P : pad bl ++ name ++ " " ++ m ++ " " ++ rh ++ String " " (join " " gs) ++ String " " ""
              = (pad bl ++ name ++ " " ++ m ++ " ") ++ rh ++ String " " (join " " gs) ++ String " " "")
    by now rewrite !sapp_assoc.
  rewrite P.
  rewrite opt_free_nostart_prefix.
  - rewrite (opt_free_nolead_prefix rh _ Hrl). apply opt_free_all.
    repeat (rewrite all_chars_app || rewrite all_chars_cons). now rewrite J.
  - repeat (rewrite all_chars_app || rewrite all_chars_cons).
    now rewrite pad_nostart, (digits_nostart _ Hn), (digits_nostart _ Hm).
  - unfold rh. cbn [append]. exact Hr0.
Qed.

(* ---- a LIKE n BUT card as Card.content renders it ---- *)
Theorem cell_split_rendered_like bl br name l1 l2 l3 l4 n b1 b2 b3 opts :
  all_chars is_digit name = true -> name <> "" ->
  lower (String l1 (String l2 (String l3 (String l4 "")))) = "like" -> is_but b1 b2 b3 ->
  is_token n -> has_but (match opts with [] => "" | _ => " " ++ join " " opts end ++ pad br) = false ->
  cell_split (pad bl ++ join " " (name :: String l1 (String l2 (String l3 (String l4 ""))) :: n
                                   :: String b1 (String b2 (String b3 "")) :: opts) ++ pad br)
  = Ok (pad bl ++ name, "",
        " " ++ String l1 (String l2 (String l3 (String l4 (" " ++ n ++ " " ++ String b1 (String b2 (String b3 "")))))),
        match opts with [] => "" | _ => " " ++ join " " opts end ++ pad br).
Proof.
  intros Hn Nn Hl Hb Ht Hr.
  set (L := String l1 (String l2 (String l3 (String l4 "")))).
  set (B := String b1 (String b2 (String b3 ""))).
  set (rest := match opts with [] => "" | _ => " " ++ join " " opts end ++ pad br) in *.
  assert (E : pad bl ++ join " " (name :: L :: n :: B :: opts) ++ pad br
              = pad bl ++ name ++ " " ++ String l1 (String l2 (String l3 (String l4
                  ((" " ++ n ++ " ") ++ String b1 (String b2 (String b3 rest))))))).
  { unfold rest, L, B. destruct opts as [|o1 os]; cbn [join append]; rewrite ?sapp_assoc; cbn [append];
      rewrite ?sapp_assoc; reflexivity. }
  rewrite E. unfold cell_split.
  (* the second word is "like" *)
  assert (TL : is_token L).
  { split; [discriminate|]. unfold L. cbn [lower] in Hl. injection Hl as E1 E2 E3 E4.
    cbn [all_chars]. unfold nows.
    assert (W : forall c x, lower_char c = x -> is_ws x = false -> is_ws c = false).
    { intros c x <-. now rewrite lower_ws. }
    now rewrite (W l1 _ E1 eq_refl), (W l2 _ E2 eq_refl), (W l3 _ E3 eq_refl), (W l4 _ E4 eq_refl). }
  assert (Wd : exists w3 ws3, words (pad bl ++ name ++ " " ++ String l1 (String l2 (String l3 (String l4
                  ((" " ++ n ++ " ") ++ String b1 (String b2 (String b3 rest)))))))
                = name :: L :: w3 :: ws3).
  { rewrite (words_ws (pad bl)) by (now destruct bl).
    rewrite (words_token_app name) by (try (now apply digits_token); right; reflexivity).
    cbn [append]. rewrite words_cons. change (is_ws " ") with true. cbv beta iota.
    change (String l1 (String l2 (String l3 (String l4 (String " " ((n ++ " ") ++ String b1 (String b2 (String b3 rest))))))))
      with (L ++ String " " ((n ++ " ") ++ String b1 (String b2 (String b3 rest)))).
    rewrite (words_token_app L) by (try exact TL; right; reflexivity).
    rewrite words_cons. change (is_ws " ") with true. cbv beta iota. rewrite sapp_assoc.
    rewrite (words_token_app n) by (try exact Ht; right; reflexivity).
    eexists; eexists; reflexivity. }
  destruct Wd as (w3 & ws3 & ->).
  fold L in Hl. rewrite Hl.
  change (String.eqb "like" "like") with true. cbv beta iota.
  rewrite <- (sapp_assoc (pad bl) name).
  change ((pad bl ++ name) ++ " " ++ String l1 (String l2 (String l3 (String l4
            ((" " ++ n ++ " ") ++ String b1 (String b2 (String b3 rest)))))))
    with ((pad bl ++ name) ++ " " ++ String l1 (String l2 (String l3 (String l4
            ((" " ++ n ++ " ") ++ String b1 (String b2 (String b3 rest))))))).
  assert (Sp : likebut_split (pad bl ++ name ++ " " ++ String l1 (String l2 (String l3 (String l4
                  ((" " ++ n ++ " ") ++ String b1 (String b2 (String b3 rest)))))))
               = Ok (pad bl ++ name, " " ++ String l1 (String l2 (String l3 (String l4
                       ((" " ++ n ++ " ") ++ String b1 (String b2 (String b3 "")))))), rest)).
  { apply likebut_split_shape; auto; try discriminate. now destruct bl. }
  rewrite sapp_assoc, Sp. rewrite !sapp_assoc. reflexivity.
Qed.
