(* C14 — the front end on a laid-out deck in full generality: with or without
   a message block, with or without a final newline; and the metamorphic
   statement (two layouts of the same abstract deck). *)
From Coq Require Import List NArith Bool String Ascii Lia PeanoNat.
From T4V Require Import Base.Str C14.Model C14.ProofsContent C14.ProofsCards C14.ProofsBlocks
  C14.ProofsFront C14.ProofsCase.
Import ListNotations.
Open Scope string_scope.

Definition nlstr : string := String nl "".

(* text of the data block and of the end of the deck; fin = the text ends with
   a newline (then any run of blank lines may follow) *)
Definition data_text (fin : bool) (d : deck_layout) : string :=
  if fin then unlines (d_data d) else join nlstr (d_data d).
Definition end_text (fin : bool) (d : deck_layout) : string :=
  if fin then unlines (d_data d) ++ unlines (d_tail d) else join nlstr (d_data d).
Definition end_rest (fin : bool) (d : deck_layout) : list string :=
  if fin then (d_tail d ++ [""])%list else [].

Definition body_text (fin : bool) (d : deck_layout) : string :=
  unlines (d_title d :: d_cells d) ++ unlines (d_gap1 d) ++ unlines (d_surfs d)
  ++ unlines (d_gap2 d) ++ end_text fin d.

(* optional message block: its lines and the blank lines after it *)
Definition full_text (msg : option (list string * list string)) (fin : bool) (d : deck_layout) : string :=
  match msg with
  | None => body_text fin d
  | Some (m, g) => unlines m ++ unlines g ++ body_text fin d
  end.

Definition msg_ok (msg : option (list string * list string)) : Prop :=
  match msg with
  | None => True
  | Some (m, g) => lines_ok m /\ nonblank_lines m /\ m <> [] /\ lines_ok g /\ blank_lines g /\ g <> []
  end.

Lemma split_nl_last l : no_crnl l = true -> split_nl l = [l].
Proof.
  induction l as [|c l IH]; intros H; [reflexivity|].
  simpl in H. apply andb_true_iff in H. destruct H as [Hc Hl].
  rewrite split_nl_cons, (not_crnl_not_nl c Hc), (IH Hl). reflexivity.
Qed.

Lemma split_nl_join ls : lines_ok ls -> ls <> [] -> split_nl (join nlstr ls) = ls.
Proof.
  induction 1 as [|l ls Hl Hls IH]; [contradiction|]. intros _.
  destruct ls as [|y ls]; [now apply split_nl_last|].
  change (join nlstr (l :: y :: ls)) with (l ++ String nl (join nlstr (y :: ls))).
  rewrite (split_nl_line _ _ Hl). f_equal. apply IH. discriminate.
Qed.

Lemma end_lines fin d :
  lines_ok (d_data d) -> lines_ok (d_tail d) -> d_data d <> [] ->
  split_nl (end_text fin d) = (d_data d ++ end_rest fin d)%list.
Proof.
  intros L5 L6 E5. unfold end_text, end_rest. destruct fin.
  - rewrite (split_nl_unlines _ _ L5). rewrite <- (sapp_nil_r (unlines (d_tail d))).
    rewrite (split_nl_unlines _ _ L6). reflexivity.
  - rewrite app_nil_r. now apply split_nl_join.
Qed.

Lemma take_block_all blk : nonblank_lines blk -> take_block blk = (blk, None).
Proof. induction 1 as [|x blk Hx _ IH]; simpl; [reflexivity|now rewrite Hx, IH]. Qed.

Lemma raw_end f fin d :
  nonblank_lines (d_data d) -> blank_lines (d_tail d) ->
  raw_blocks (S f) (d_data d ++ end_rest fin d)%list = [data_text fin d].
Proof.
  intros N5 B6. unfold end_rest, data_text. destruct fin.
  - apply raw_blocks_last; [exact N5| |destruct (d_tail d); discriminate].
    apply Forall_app. split; [exact B6|repeat constructor].
  - rewrite app_nil_r, raw_blocks_S, (take_block_all _ N5). reflexivity.
Qed.

Lemma body_lines fin d :
  deck_ok d ->
  split_nl (body_text fin d) =
  ((d_title d :: d_cells d) ++ d_gap1 d ++ d_surfs d ++ d_gap2 d ++ d_data d ++ end_rest fin d)%list.
Proof.
  intros (L1 & L2 & L3 & L4 & L5 & L6 & _ & _ & _ & _ & _ & _ & _ & _ & _ & _ & E5).
  unfold body_text.
  rewrite (split_nl_unlines _ _ L1), (split_nl_unlines _ _ L2), (split_nl_unlines _ _ L3),
          (split_nl_unlines _ _ L4). now rewrite (end_lines fin d L5 L6 E5).
Qed.

Lemma raw_body f fin d :
  deck_ok d ->
  raw_blocks (S (S (S f)))
    ((d_title d :: d_cells d) ++ d_gap1 d ++ d_surfs d ++ d_gap2 d ++ d_data d ++ end_rest fin d)%list
  = [unlines (d_title d :: d_cells d); unlines (d_surfs d); data_text fin d].
Proof.
  intros (_ & _ & _ & _ & _ & _ & N1 & N3 & N5 & B2 & B4 & B6 & E1 & E2 & E3 & E4 & E5).
  rewrite (raw_blocks_next _ _ _ _ _ N1 B2 E2 N3 E3).
  rewrite (raw_blocks_next _ _ _ _ _ N3 B4 E4 N5 E5).
  now rewrite (raw_end _ fin d N5 B6).
Qed.

Definition expected_blocks (msg : option (list string * list string)) (fin : bool) (d : deck_layout)
  : list (ascii * string) :=
  (match msg with None => [] | Some (m, _) => [("m"%char, unlines m)] end
   ++ [("t"%char, d_title d); ("c"%char, unlines (d_cells d));
       ("s"%char, unlines (d_surfs d)); ("d"%char, data_text fin d)])%list.

Definition message_flag (msg : option (list string * list string)) : bool :=
  match msg with None => false | Some _ => true end.

Theorem blocks_layout_any msg fin d :
  msg_ok msg -> deck_ok d ->
  first_word_message (full_text msg fin d) = Some (message_flag msg) ->
  blocks (full_text msg fin d) = Ok (expected_blocks msg fin d).
Proof.
  intros Hmsg Hd Hm.
  pose proof (body_lines fin d Hd) as Hbody. pose proof Hd as Hd'.
  destruct Hd' as (L1 & _ & _ & _ & _ & _ & N1 & _ & _ & _ & _ & _ & _ & E2 & E3 & _ & _).
  unfold blocks. unfold first_word_message in Hm.
  destruct (words (first20 (full_text msg fin d))) as [|w ws]; [discriminate|].
  injection Hm as Hm. rewrite Hm.
  assert (Hb1 : nonempty (unlines (d_title d :: d_cells d)) = true).
  { cbn [unlines]. inversion N1 as [|? ? Hb0 _]; subst. destruct (d_title d); [discriminate|reflexivity]. }
  assert (Hts : title_split (unlines (d_title d :: d_cells d)) = (d_title d, unlines (d_cells d))).
  { inversion L1 as [|? ? Lt Lc]; inversion N1 as [|? ? _ Nc]; subst.
    exact (title_split_block _ _ Lt (head_not_crnl_unlines _ Lc Nc)). }
  destruct msg as [[m g]|]; cbn [full_text message_flag expected_blocks] in *.
  - destruct Hmsg as (Lm & Nm & Em & L0 & B0 & E0).
    rewrite (split_nl_unlines _ _ Lm), (split_nl_unlines _ _ L0), Hbody.
    assert (Hne : exists c r, unlines m ++ unlines g ++ body_text fin d = String c r).
    { destruct m as [|m0 m']; [contradiction|]. inversion Nm as [|? ? Hb _]; subst.
      cbn [unlines]. destruct m0 as [|c t]; [discriminate|]. eexists; eexists; reflexivity. }
    destruct Hne as (c0 & r0 & ->).
    match goal with |- context [raw_blocks (S (List.length ?L)) _] => set (fuel := List.length L) end.
    assert (Hf : exists f, fuel = S (S (S (S f)))).
    { assert (4 <= fuel).
      { unfold fuel. rewrite !app_length. cbn [List.length].
        destruct m; [contradiction|]. destruct g; [contradiction|].
        destruct (d_gap1 d); [contradiction|]. destruct (d_surfs d); [contradiction|].
        cbn [List.length]. lia. }
      exists (fuel - 4). lia. }
    destruct Hf as (f & ->).
    assert (Et : d_title d :: d_cells d <> []) by discriminate.
    rewrite (raw_blocks_next _ _ _ _ _ Nm B0 E0 N1 Et).
    rewrite (raw_body _ fin d Hd). cbn [tl]. cbv beta iota. rewrite Hb1, Hts. reflexivity.
  - rewrite Hbody.
    assert (Hne : exists c r, body_text fin d = String c r).
    { unfold body_text. cbn [unlines]. inversion N1 as [|? ? Hb _]; subst.
      destruct (d_title d) as [|c t]; [discriminate|]. eexists; eexists; reflexivity. }
    destruct Hne as (c0 & r0 & ->).
    match goal with |- context [raw_blocks (S (List.length ?L)) _] => set (fuel := List.length L) end.
    assert (Hf : exists f, fuel = S (S f)).
    { assert (2 <= fuel).
      { unfold fuel. rewrite !app_length. cbn [List.length].
        destruct (d_gap1 d); [contradiction|]. destruct (d_surfs d); [contradiction|].
        cbn [List.length]. lia. }
      exists (fuel - 2). lia. }
    destruct Hf as (f & ->).
    rewrite (raw_body _ fin d Hd). cbv beta iota. rewrite Hb1, Hts. reflexivity.
Qed.

(* ---- block texts -> cards ---- *)
Lemma sl_last l : no_break l = true -> l <> "" -> sl l = Some (l, []).
Proof.
  induction l as [|c l IH]; intros H Hne; [contradiction|].
  simpl in H. apply andb_true_iff in H. destruct H as [Hc Hl]. apply negb_true_iff in Hc.
  cbn [sl]. rewrite Hc. destruct l as [|c' l']; [reflexivity|].
  rewrite (IH Hl) by discriminate. reflexivity.
Qed.

Lemma splitlines_join ls :
  Forall (fun l => no_break l = true) ls -> Forall (fun l => l <> "") ls ->
  splitlines (join nlstr ls) = ls.
Proof.
  induction 1 as [|l ls Hl Hls IH]; [reflexivity|]. intros Hne. inversion Hne as [|? ? Hl0 Hne']; subst.
  destruct ls as [|y ls].
  - unfold splitlines. cbn [join]. now rewrite (sl_last l Hl Hl0).
  - change (join nlstr (l :: y :: ls)) with (l ++ String nl (join nlstr (y :: ls))).
    unfold splitlines in *. rewrite (sl_line _ _ Hl). cbn [opt_lines]. now rewrite (IH Hne').
Qed.

Lemma nonblank_nonempty_lines ls : nonblank_lines ls -> Forall (fun l => l <> "") ls.
Proof. induction 1 as [|l ls Hl _ IH]; constructor; [now apply nonblank_nonempty|exact IH]. Qed.

Lemma block_cards_join cs tailc :
  lblock_ok noline cs -> comment_lines tailc ->
  Forall (fun l => no_break l = true) (block_lines cs tailc) -> nonblank_lines (block_lines cs tailc) ->
  block_cards (join nlstr (block_lines cs tailc)) = map card_content_form cs.
Proof.
  intros H Ht Hb Hn. unfold block_cards, get_cards.
  rewrite (splitlines_join _ Hb (nonblank_nonempty_lines _ Hn)).
  exact (cards_layout cs tailc H Ht).
Qed.

(* ---- a laid-out deck ---- *)
Record laid_deck := {
  l_msg : option (list string * list string);
  l_fin : bool;
  l_deck : deck_layout;
  l_cells : list lcard; l_ctail : list string;
  l_surfs : list lcard; l_stail : list string;
  l_data : list lcard; l_dtail : list string }.

Definition laid_text (L : laid_deck) : string := full_text (l_msg L) (l_fin L) (l_deck L).

Definition breaks_ok (ls : list string) : Prop := Forall (fun l => no_break l = true) ls.

Definition laid_ok (L : laid_deck) : Prop :=
  msg_ok (l_msg L) /\ deck_ok (l_deck L) /\
  first_word_message (laid_text L) = Some (message_flag (l_msg L)) /\
  d_cells (l_deck L) = block_lines (l_cells L) (l_ctail L) /\
  d_surfs (l_deck L) = block_lines (l_surfs L) (l_stail L) /\
  d_data (l_deck L) = block_lines (l_data L) (l_dtail L) /\
  lblock_ok noline (l_cells L) /\ lblock_ok noline (l_surfs L) /\ lblock_ok noline (l_data L) /\
  comment_lines (l_ctail L) /\ comment_lines (l_stail L) /\ comment_lines (l_dtail L) /\
  breaks_ok (d_cells (l_deck L)) /\ breaks_ok (d_surfs (l_deck L)) /\ breaks_ok (d_data (l_deck L)).

Definition laid_contents (L : laid_deck) : list string * list string * list string :=
  (map card_content_form (l_cells L), map card_content_form (l_surfs L),
   map card_content_form (l_data L)).

Lemma lookup_expected msg fin d :
  lookup "c"%char (expected_blocks msg fin d) = Some (unlines (d_cells d)) /\
  lookup "s"%char (expected_blocks msg fin d) = Some (unlines (d_surfs d)) /\
  lookup "d"%char (expected_blocks msg fin d) = Some (data_text fin d).
Proof. destruct msg as [[m g]|]; repeat split; reflexivity. Qed.

(* the whole text front end, any layout *)
Theorem front_layout_any L :
  laid_ok L -> front (laid_text L) = Ok (laid_contents L).
Proof.
  intros (Hmsg & Hd & Hm & Ec & Es & Ed & Hc & Hs & Hdd & Tc & Ts & Td & Bc & Bs & Bd).
  unfold front, laid_text. rewrite (blocks_layout_any _ _ _ Hmsg Hd Hm).
  destruct (lookup_expected (l_msg L) (l_fin L) (l_deck L)) as (E1 & E2 & E3).
  rewrite E1, E2, E3. unfold laid_contents.
  pose proof Hd as (_ & _ & _ & _ & _ & _ & _ & _ & N5 & _).
  rewrite Ec in *. rewrite Es in *. 
  rewrite (block_cards_layout _ _ Hc Tc Bc), (block_cards_layout _ _ Hs Ts Bs).
  unfold data_text. rewrite Ed in *. destruct (l_fin L).
  - now rewrite (block_cards_layout _ _ Hdd Td Bd).
  - now rewrite (block_cards_join _ _ Hdd Td Bd N5).
Qed.
