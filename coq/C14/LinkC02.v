(* C14 -> C02 link: C02's reader of a surface card (surfacecard.split,
   get_surfaces: flags, number, TR entry, lower-cased mnemonic, parameter
   VALUES through datacard.to_float) gives the same card for two layouts /
   case variants / number respellings of the same surface card.
   Nothing of C02 is edited; its definitions and lemmas are used as they are. *)
From Coq Require Import List NArith ZArith Bool String Ascii Lia.
From T4V Require Import Base.Str Base.Scalar C02.Model C02.Text C02.ProofsText.
From T4V Require C14.Model C14.ProofsContent C14.ProofsSplit C14.ProofsFront C14.ProofsNumber.
Import ListNotations.
Open Scope string_scope.

Module M14 := C14.Model.
Module PC14 := C14.ProofsContent.
Module PS14 := C14.ProofsSplit.
Module PF14 := C14.ProofsFront.
Module PN14 := C14.ProofsNumber.

(* ---- the two models' character classes and helpers agree ---- *)
Ltac by256 c := destruct c as [[] [] [] [] [] [] [] []]; vm_compute; reflexivity.

Lemma ws_agree c : M14.is_ws c = is_ws c. Proof. by256 c. Qed.
Lemma flag_agree c : M14.is_bc c = is_flag c. Proof. by256 c. Qed.
Lemma type_agree c : M14.is_mnemo c = is_type_char c. Proof. by256 c. Qed.
Lemma lower_char_agree c : M14.lower_char c = to_lower c. Proof. by256 c. Qed.

Lemma lower_agree s : M14.lower s = lower s.
Proof. induction s as [|c s IH]; [reflexivity|]. cbn. now rewrite lower_char_agree, IH. Qed.

Lemma all_chars_agree p q s :
  (forall c, p c = q c) -> M14.all_chars p s = all_chars q s.
Proof. intros H. induction s as [|c s IH]; [reflexivity|]. cbn. now rewrite H, IH. Qed.

(* ---- str.split() of tokens joined by single blanks ---- *)
Definition tok2 (t : string) : Prop := t <> "" /\ all_chars (fun c => negb (is_ws c)) t = true.

Lemma tok2_of_token t : PC14.is_token t -> tok2 t.
Proof.
  intros [Hne H]. split; [exact Hne|].
  rewrite <- (all_chars_agree PC14.nows (fun c => negb (is_ws c))); [exact H|].
  intros c. unfold PC14.nows. now rewrite ws_agree.
Qed.

Lemma span_tok t r :
  tok2 t -> starts_not (fun c => negb (is_ws c)) r = true ->
  span (fun c => negb (is_ws c)) (t ++ r) = (t, r).
Proof. intros [_ H] Hr. now apply span_app. Qed.

Lemma tok_starts_not_ws t r : tok2 t -> starts_not is_ws (t ++ r) = true.
Proof.
  intros [Hne H]. destruct t as [|c t]; [contradiction|]. cbn in *.
  apply andb_true_iff in H. tauto.
Qed.

Lemma split_ws_tokens toks : forall f g w,
  Forall tok2 toks -> all_chars is_ws g = true -> all_chars is_ws w = true ->
  List.length toks < f ->
  split_ws_fuel f (g ++ M14.join " " toks ++ w) = toks.
Proof.
  induction toks as [|t r IH]; intros f g w Ht Hg Hw Hf.
  - destruct f; [lia|]. cbn [M14.join append split_ws_fuel].
    assert (A : all_chars is_ws (g ++ w) = true).
    { clear -Hg Hw. induction g as [|c g IH]; [exact Hw|]. cbn in *.
      apply andb_true_iff in Hg. destruct Hg as [Hc Hg]. now rewrite Hc, IH. }
    change (g ++ "" ++ w) with (g ++ w). now rewrite (span_all _ _ A).
  - destruct f; [cbn in Hf; lia|]. inversion Ht as [|? ? Ht1 Htr]; subst.
    cbn [split_ws_fuel].
    destruct r as [|t2 r'].
    + cbn [M14.join].
      rewrite (span_app is_ws g (t ++ w) Hg (tok_starts_not_ws t w Ht1)).
      assert (Hw' : starts_not (fun c => negb (is_ws c)) w = true).
      { destruct w as [|c w]; [reflexivity|]. cbn in *. apply andb_true_iff in Hw.
        destruct Hw as [Hc _]. now rewrite Hc. }
      destruct (t ++ w) as [|c0 r0] eqn:E.
      { destruct Ht1 as [Hne _]. destruct t; [contradiction|discriminate]. }
      rewrite <- E. rewrite (span_tok t w Ht1 Hw'). f_equal.
      specialize (IH f w "" (Forall_nil _) Hw eq_refl). cbn [M14.join] in IH.
      rewrite str_app_nil in IH. apply IH. cbn in *. lia.
    + change (M14.join " " (t :: t2 :: r')) with (t ++ " " ++ M14.join " " (t2 :: r')).
      rewrite <- !PC14.sapp_assoc. rewrite !PC14.sapp_assoc.
      rewrite (span_app is_ws g _ Hg (tok_starts_not_ws t _ Ht1)).
      destruct (t ++ " " ++ M14.join " " (t2 :: r') ++ w) as [|c0 r0] eqn:E.
      { destruct Ht1 as [Hne _]. destruct t; [contradiction|discriminate]. }
      rewrite <- E. rewrite (span_tok t (" " ++ M14.join " " (t2 :: r') ++ w) Ht1 eq_refl). f_equal.
      apply (IH f " " w Htr eq_refl Hw). cbn in *. lia.
Qed.

Lemma slength_app_local (a b : string) : String.length (a ++ b) = String.length a + String.length b.
Proof. induction a as [|c a IH]; cbn; [reflexivity|now rewrite IH]. Qed.

Lemma length_join_ge toks : Forall tok2 toks -> List.length toks <= String.length (M14.join " " toks).
Proof.
  induction 1 as [|t r [Hne _] _ IH]; [cbn; lia|].
  destruct r as [|t2 r'].
  - cbn [M14.join List.length]. destruct t; [contradiction|cbn; lia].
  - change (M14.join " " (t :: t2 :: r')) with (t ++ " " ++ M14.join " " (t2 :: r')).
    rewrite !slength_app_local. cbn [List.length String.length] in *. lia.
Qed.

(* ---- C02's reader on the content Card.content renders for a surface card ---- *)
Definition pad (b : bool) : string := if b then " " else "".

Lemma pad_agree b : PC14.pad b = pad b. Proof. reflexivity. Qed.

Lemma no_nl_tok t : tok2 t -> all_chars (fun c => negb (code c =? 10)%N) t = true.
Proof.
  intros [_ H]. induction t as [|c t IH]; [reflexivity|]. cbn in *.
  apply andb_true_iff in H. destruct H as [Hc Ht]. rewrite (IH Ht), andb_true_r.
  revert Hc. clear. destruct c as [[] [] [] [] [] [] [] []]; vm_compute; intros H; (reflexivity || discriminate).
Qed.

Lemma all_chars_app2 p a b : all_chars p (a ++ b) = all_chars p a && all_chars p b.
Proof. induction a as [|c a IH]; cbn; [reflexivity|now rewrite IH, andb_assoc]. Qed.

Lemma no_nl_join toks w :
  Forall tok2 toks -> all_chars (fun c => negb (code c =? 10)%N) w = true ->
  all_chars (fun c => negb (code c =? 10)%N) (M14.join " " toks ++ w) = true.
Proof.
  induction 1 as [|t r Ht _ IH]; intros Hw; [exact Hw|].
  destruct r as [|t2 r'].
  - cbn [M14.join]. now rewrite all_chars_app2, (no_nl_tok t Ht), Hw.
  - change (M14.join " " (t :: t2 :: r')) with (t ++ " " ++ M14.join " " (t2 :: r')).
    rewrite !PC14.sapp_assoc, all_chars_app2, (no_nl_tok t Ht). cbn [append all_chars andb].
    change (negb (code " " =? 10)%N) with true. cbn [andb]. exact (IH Hw).
Qed.

Section Reader.
  Context {T : Type} (S : Scalar T).

  Theorem parse_surface_rendered bl br bc ds mn p ps :
    all_chars is_flag bc = true -> all_chars is_digit ds = true -> ds <> "" ->
    all_chars is_type_char mn = true -> mn <> "" -> Forall tok2 (p :: ps) ->
    parse_surface_card S (pad bl ++ M14.join " " ((bc ++ ds) :: mn :: p :: ps) ++ pad br)
    = (do prm <- map_res (to_float S) (p :: ps);
       Ok (bc, parse_digits ds 0, "", lower mn, prm)).
  Proof.
    intros Hbc Hds Nds Hmn Nmn Ht.
    set (rest := M14.join " " (p :: ps) ++ pad br).
    assert (E : pad bl ++ M14.join " " ((bc ++ ds) :: mn :: p :: ps) ++ pad br
                = pad bl ++ bc ++ ds ++ " " ++ mn ++ " " ++ rest).
    { unfold rest.
      change (M14.join " " ((bc ++ ds) :: mn :: p :: ps))
        with ((bc ++ ds) ++ " " ++ mn ++ " " ++ M14.join " " (p :: ps)).
      now rewrite !PC14.sapp_assoc. }
    rewrite E. unfold parse_surface_card.
    assert (Hp : tok2 p) by (now inversion Ht).
    assert (R1 : starts_not is_ws rest = true).
    { unfold rest. destruct ps as [|p2 ps'].
      - cbn [M14.join]. now apply tok_starts_not_ws.
      - change (M14.join " " (p :: p2 :: ps')) with (p ++ " " ++ M14.join " " (p2 :: ps')).
        rewrite PC14.sapp_assoc. now apply tok_starts_not_ws. }
    assert (R2 : all_chars (fun c => negb (code c =? 10)%N) rest = true).
    { unfold rest. apply no_nl_join; [exact Ht|now destruct br]. }
    rewrite (split_surface_render (pad bl) bc ds " " mn " " rest); auto; try discriminate;
      try (now destruct bl).
    assert (F : span is_flag (bc ++ ds) = (bc, ds)).
    { apply span_app; [exact Hbc|]. destruct ds as [|d0 ds']; [contradiction|]. cbn in *.
      apply andb_true_iff in Hds. destruct Hds as [Hd _]. now rewrite (digit_not_flag d0 Hd). }
    rewrite F.
    assert (Wa : all_chars is_ws (pad br) = true) by (now destruct br).
    assert (Wb : List.length (p :: ps) < Datatypes.S (String.length (M14.join " " (p :: ps) ++ pad br))).
    { rewrite slength_app_local. pose proof (length_join_ge (p :: ps) Ht) as G.
      unfold lt. apply le_n_S.
      eapply PeanoNat.Nat.le_trans; [exact G|apply PeanoNat.Nat.le_add_r]. }
    pose proof (split_ws_tokens (p :: ps) _ "" (pad br) Ht eq_refl Wa Wb) as W.
    cbn [append] in W. unfold split_ws. fold rest in W. rewrite W.
    reflexivity.
  Qed.

  (* entries that denote the same number for C02's to_float *)
  Definition same_number (p p' : string) : Prop := scan_real p = scan_real p'.

  (* ... or, weaker, that to_float reads as the same value of the scalar domain *)
  Definition same_value (p p' : string) : Prop := to_float S p = to_float S p'.

  Lemma same_number_value p p' : same_number p p' -> same_value p p'.
  Proof. unfold same_number, same_value, to_float. now intros ->. Qed.

  Lemma map_to_float_same ps ps' :
    Forall2 same_value ps ps' -> map_res (to_float S) ps = map_res (to_float S) ps'.
  Proof.
    induction 1 as [|p p' r r' Hp _ IH]; [reflexivity|].
    cbn [map_res]. unfold same_value in Hp. rewrite Hp, IH. reflexivity.
  Qed.

  (* ---- the linked statement ---- *)
  Theorem surface_reader_linked ls ls' bc ds mn mn' p ps p' ps' :
    Forall PC14.line_ok ls -> Forall PC14.line_ok ls' ->
    flat_map PC14.ptoks ls = (bc ++ ds) :: mn :: p :: ps ->
    flat_map PC14.ptoks ls' = (bc ++ ds) :: mn' :: p' :: ps' ->
    lower mn = lower mn' -> Forall2 same_value (p :: ps) (p' :: ps') ->
    all_chars is_flag bc = true -> all_chars is_digit ds = true -> ds <> "" ->
    all_chars is_type_char mn = true -> mn <> "" -> all_chars is_type_char mn' = true -> mn' <> "" ->
    parse_surface_card S (M14.content (map PC14.line_text ls))
    = parse_surface_card S (M14.content (map PC14.line_text ls')) /\
    parse_surface_card S (M14.content (map PC14.line_text ls))
    = (do prm <- map_res (to_float S) (p :: ps); Ok (bc, parse_digits ds 0, "", lower mn, prm)).
  Proof.
    intros Hl Hl' Ht Ht' Em Es Hbc Hds Nds Hmn Nmn Hmn' Nmn'.
    assert (K : forall l toks, Forall PC14.line_ok l -> flat_map PC14.ptoks l = toks -> Forall tok2 toks).
    { intros l toks H E. rewrite <- E.
      exact (Forall_impl tok2 tok2_of_token (PC14.ptoks_tokens l H)). }
    pose proof (K ls _ Hl Ht) as T1. pose proof (K ls' _ Hl' Ht') as T2.
    inversion T1 as [|? ? _ T1a]; subst. inversion T1a as [|? ? _ T1b]; subst.
    inversion T2 as [|? ? _ T2a]; subst. inversion T2a as [|? ? _ T2b]; subst.
    rewrite (PC14.content_layout ls Hl), (PC14.content_layout ls' Hl'), Ht, Ht'.
    cbn [PC14.nonnil]. rewrite !andb_true_r, !pad_agree.
    rewrite (parse_surface_rendered _ _ bc ds mn p ps Hbc Hds Nds Hmn Nmn T1b).
    rewrite (parse_surface_rendered _ _ bc ds mn' p' ps' Hbc Hds Nds Hmn' Nmn' T2b).
    rewrite (map_to_float_same _ _ Es), Em. split; reflexivity.
  Qed.
End Reader.

(* ---- the Fortran spellings of C14_to_float_spellings denote, for C02's
   to_float, the same number ---- *)
Lemma sign_agree c : M14.is_sign c = is_sign c. Proof. by256 c. Qed.

Lemma exp_ok_scan e : M14.exp_ok e = true -> exists ev, scan_exp_int e = Some ev.
Proof.
  unfold M14.exp_ok, M14.strip_sign, scan_exp_int. intros H.
  assert (K : forall b, M14.nonempty b && M14.all_chars is_digit b = true ->
              exists d, span is_digit b = (d, "") /\ is_empty d = false).
  { intros b Hb. apply andb_true_iff in Hb. destruct Hb as [Hn Hd]. exists b. split.
    - apply span_all. now rewrite <- (all_chars_agree is_digit is_digit b (fun _ => eq_refl)).
    - destruct b; [discriminate|reflexivity]. }
  destruct e as [|c r].
  - discriminate H.
  - rewrite sign_agree in H. destruct (is_sign c).
    + destruct (K r H) as (d & -> & Hd). rewrite Hd. cbn [orb negb is_empty]. eexists; reflexivity.
    + destruct (K (String c r) H) as (d & -> & Hd). rewrite Hd. cbn [orb negb is_empty]. eexists; reflexivity.
Qed.

Lemma mant_scan d1 frac suffix suffix' ev :
  PN14.mant_ok d1 frac -> suffix_exp suffix = Some ev -> suffix_exp suffix' = Some ev ->
  starts_not (fun c => (code c =? 46)%N) suffix = true ->
  starts_not (fun c => (code c =? 46)%N) suffix' = true ->
  scan_real (PN14.mantissa d1 frac ++ suffix) = scan_real (PN14.mantissa d1 frac ++ suffix') /\
  exists n, scan_real (PN14.mantissa d1 frac ++ suffix) = Some n.
Proof.
  intros [Hd1 Hf] E E' Hs Hs'. unfold PN14.mantissa.
  assert (A1 : all_chars is_digit d1 = true)
    by now rewrite <- (all_chars_agree is_digit is_digit d1 (fun _ => eq_refl)).
  destruct frac as [d2|].
  - destruct Hf as [Hd2 Hne].
    assert (A2 : all_chars is_digit d2 = true)
      by now rewrite <- (all_chars_agree is_digit is_digit d2 (fun _ => eq_refl)).
    rewrite !PC14.sapp_assoc. cbn [append].
    rewrite (scan_real_point d1 d2 suffix ev A1 A2 Hne E), (scan_real_point d1 d2 suffix' ev A1 A2 Hne E').
    split; [reflexivity|eexists; reflexivity].
  - rewrite (scan_real_int d1 suffix ev A1 Hf E Hs), (scan_real_int d1 suffix' ev A1 Hf E' Hs').
    split; [reflexivity|eexists; reflexivity].
Qed.

Lemma mantissa_not_sign d1 frac r : PN14.mant_ok d1 frac ->
  starts_not is_sign (PN14.mantissa d1 frac ++ r) = true.
Proof.
  intros Hm. destruct (PN14.mantissa_head d1 frac r Hm) as (c & q & -> & Hc).
  cbn. now rewrite <- sign_agree, Hc.
Qed.

Lemma signed_same s a b :
  PN14.sign_str s -> starts_not is_sign a = true -> starts_not is_sign b = true ->
  scan_real a = scan_real b -> (exists n, scan_real a = Some n) ->
  scan_real (s ++ a) = scan_real (s ++ b).
Proof.
  intros Hs Ha Hb E [n Hn]. destruct Hs as [->|[->| ->]]; [exact E| |]; cbn [append].
  - pose proof (scan_real_sign a n Ha Hn) as (_ & P & _).
    rewrite E in Hn. pose proof (scan_real_sign b n Hb Hn) as (_ & P' & _). now rewrite P, P'.
  - pose proof (scan_real_sign a n Ha Hn) as (P & _).
    rewrite E in Hn. pose proof (scan_real_sign b n Hb Hn) as (P' & _). now rewrite P, P'.
Qed.

Theorem spellings_same_number s d1 frac e :
  PN14.sign_str s -> PN14.mant_ok d1 frac -> M14.exp_ok e = true ->
  let m := PN14.mantissa d1 frac in
  same_number (s ++ m ++ "d" ++ e) (s ++ m ++ "e" ++ e) /\
  same_number (s ++ m ++ "D" ++ e) (s ++ m ++ "e" ++ e) /\
  same_number (s ++ m ++ "E" ++ e) (s ++ m ++ "e" ++ e) /\
  (PN14.starts_sign e -> same_number (s ++ m ++ e) (s ++ m ++ "e" ++ e)).
Proof.
  intros Hs Hm He m. destruct (exp_ok_scan e He) as [ev Hev]. unfold same_number, m.
  assert (Ee : suffix_exp ("e" ++ e) = Some ev) by exact Hev.
  assert (X : forall suffix, suffix_exp suffix = Some ev ->
              starts_not (fun c => (code c =? 46)%N) suffix = true ->
              scan_real (s ++ PN14.mantissa d1 frac ++ suffix)
              = scan_real (s ++ PN14.mantissa d1 frac ++ "e" ++ e)).
  { intros suffix E Hdot.
    destruct (mant_scan d1 frac suffix ("e" ++ e) ev Hm E Ee Hdot eq_refl) as [Q N].
    apply signed_same; auto using mantissa_not_sign. }
  repeat split.
  - apply X; [exact Hev|reflexivity].
  - apply X; [exact Hev|reflexivity].
  - apply X; [exact Hev|reflexivity].
  - intros Hg. destruct e as [|g ed]; [contradiction|]. cbn in Hg. rewrite sign_agree in Hg.
    apply X.
    + unfold suffix_exp. 
      assert (G : is_e g || is_d g = false).
      { revert Hg. clear. destruct g as [[] [] [] [] [] [] [] []]; vm_compute; intros H; (reflexivity || discriminate). }
      now rewrite G, Hg.
    + cbn. revert Hg. clear. destruct g as [[] [] [] [] [] [] [] []]; vm_compute; intros H; (reflexivity || discriminate).
Qed.
