(* C11 — the code-shaped model (Regex.v: eight rewriting functions + character
   PEG) and the lexer + automaton model (Model.v) are the same function on
   every string of length <= 5 over the ten characters "123-#(): ." —
   checked by computation inside Coq (111 111 strings). *)
From Coq Require Import List NArith ZArith Bool String Ascii Lia.
From T4V Require Import Base.Str Base.Cases C11.Model C11.Exec C11.Regex.
Import ListNotations.
Local Open Scope nat_scope.

Lemma option_N_eqb_eq (a b : option N) : option_eqb N.eqb a b = true -> a = b.
Proof.
  destruct a as [x|], b as [y|]; cbn; intros H; try discriminate; auto.
  apply N.eqb_eq in H. now subst.
Qed.

Lemma ast_eqb_eq : forall a b, ast_eqb a b = true -> a = b.
Proof.
  induction a as [z sub|l IHl r IHr|l IHl r IHr|n|l IHl r IHr]; destruct b; cbn [ast_eqb]; intros H;
    try discriminate.
  - apply andb_prop in H. destruct H as [Hz Hs]. apply Z.eqb_eq in Hz. apply option_N_eqb_eq in Hs. now subst.
  - apply andb_prop in H. destruct H as [H1 H2]. now rewrite (IHl _ H1), (IHr _ H2).
  - apply andb_prop in H. destruct H as [H1 H2]. now rewrite (IHl _ H1), (IHr _ H2).
  - apply N.eqb_eq in H. now subst.
  - apply andb_prop in H. destruct H as [H1 H2]. now rewrite (IHl _ H1), (IHr _ H2).
Qed.

Lemma res_eqb_eq (x y : res ast) : res_eqb x y = true -> x = y.
Proof.
  destruct x as [a|e], y as [b|e']; cbn; intros H; try discriminate.
  - now rewrite (ast_eqb_eq _ _ H).
  - destruct e, e'; try discriminate; reflexivity.
Qed.

(* all strings of length <= n over the alphabet *)
Definition strings_upto (al : list ascii) (n : nat) : list string :=
  flat_map (strings_len al) (seq 0 (S n)).

Definition models_agree (s : string) : bool := res_eqb (get_ast2 s) (get_ast s).

Lemma models_agree_checked : forallb models_agree (strings_upto alpha3 5) = true.
Proof. vm_compute. reflexivity. Qed.

Theorem get_ast2_eq_bounded : forall s, In s (strings_upto alpha3 5) -> get_ast2 s = get_ast s.
Proof.
  intros s Hs. apply res_eqb_eq. exact (proj1 (forallb_forall _ _) models_agree_checked s Hs).
Qed.

(* membership in the domain, in plain words *)
Lemma in_strings_len al : forall n s, In s (strings_len al n) <->
  String.length s = n /\ (forall c, In c (list_ascii_of_string s) -> In c al).
Proof.
  induction n as [|n IH]; intros s; cbn [strings_len].
  - split.
    + intros [<-|[]]. split; [reflexivity|]. intros c [].
    + intros [Hl _]. destruct s; [now left|discriminate].
  - rewrite in_flat_map. split.
    + intros (t & Ht & Hs). apply in_map_iff in Hs. destruct Hs as (c & <- & Hc).
      apply IH in Ht. destruct Ht as [Hl Ha]. split; [cbn; now rewrite Hl|].
      intros d [<-|Hd]; auto.
    + intros [Hl Ha]. destruct s as [|c t]; [discriminate|]. exists t. split.
      * apply IH. split; [cbn in Hl; lia|]. intros d Hd. apply Ha. now right.
      * apply in_map_iff. exists c. split; [reflexivity|]. apply Ha. now left.
Qed.

Theorem get_ast2_eq_short : forall s, String.length s <= 5 ->
  (forall c, In c (list_ascii_of_string s) -> In c alpha3) -> get_ast2 s = get_ast s.
Proof.
  intros s Hl Ha. apply get_ast2_eq_bounded. unfold strings_upto. apply in_flat_map.
  exists (String.length s). split; [apply in_seq; lia|]. apply in_strings_len. auto.
Qed.
