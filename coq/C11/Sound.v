(* C11 — soundness of acceptance at token level: every token sequence the
   parser accepts is the canonical token sequence of an MCNP expression [e]
   (with its parentheses as MParen nodes) and the tree returned is [psem e]. *)
From Coq Require Import List NArith ZArith Bool Lia.
From T4V Require Import C11.Model C11.Spec C11.Proofs.
Import ListNotations.

Definition is_operand (e : mexpr) : bool :=
  match e with MAnd _ _ | MOr _ _ => false | _ => true end.
Definition is_isect (e : mexpr) : bool :=
  match e with MOr _ _ => false | _ => true end.

(* what a frame has read so far: the union operands already closed by ':' and
   the intersection being built *)
Definition fabs := (option mexpr * option mexpr)%type.

Definition part_ok (x : option ast) (e : option mexpr) : Prop :=
  match e with
  | None => x = None
  | Some e' => exists v, psem e' = Ok v /\ x = Some v
  end.

Definition frame_ok (fr : frame) (ab : fabs) : Prop :=
  part_ok (fu fr) (fst ab) /\ part_ok (fi fr) (snd ab) /\
  (forall i, snd ab = Some i -> is_isect i = true).

Definition frame_toks (ab : fabs) : list token :=
  (match fst ab with Some u => toks 0 u ++ [TColon] | None => [] end) ++
  (match snd ab with Some i => toks 1 i | None => [] end).

Definition opener (k : fkind) : list token :=
  match k with KHash => [THashP] | KParen => [TLP] | KTop => [] end.

Fixpoint stack_ok (child : fkind) (stk : list frame) (sabs : list fabs) : Prop :=
  match stk, sabs with
  | [], [] => True
  | fr :: stk', ab :: sabs' =>
      frame_ok fr ab /\ stack_ok (fk fr) stk' sabs'
  | _, _ => False
  end.

Fixpoint stack_toks (child : fkind) (stk : list frame) (sabs : list fabs) : list token :=
  match stk, sabs with
  | fr :: stk', ab :: sabs' => stack_toks (fk fr) stk' sabs' ++ frame_toks ab ++ opener child
  | _, _ => []
  end.

(* the expression a frame amounts to when it closes *)
Definition closed_expr (ab : fabs) : option mexpr :=
  match snd ab with
  | None => None
  | Some i => Some (match fst ab with None => i | Some u => MOr u i end)
  end.

Lemma toks_isect i : is_isect i = true -> toks 0 i = toks 1 i.
Proof. destruct i; intros H; try reflexivity. discriminate. Qed.

Lemma toks_operand o : is_operand o = true -> toks 1 o = toks 2 o.
Proof. destruct o; intros H; try reflexivity; discriminate. Qed.

Lemma close_frame_ok fr ab v : frame_ok fr ab -> close_frame fr = Some v ->
  exists e, closed_expr ab = Some e /\ psem e = Ok v /\ toks 0 e = frame_toks ab.
Proof.
  destruct ab as [eu ei]. intros (Hu & Hi & His) Hc. cbn [fst snd] in *.
  unfold close_frame in Hc. unfold closed_expr, frame_toks. cbn [fst snd].
  destruct ei as [i|]; cbn [part_ok] in Hi.
  - destruct Hi as (vi & Ei & Fi). rewrite Fi in Hc.
    destruct eu as [u|]; cbn [part_ok] in Hu.
    + destruct Hu as (vu & Eu & Fu). rewrite Fu in Hc. injection Hc as <-.
      exists (MOr u i). split; [reflexivity|]. split.
      * cbn [psem]. rewrite Eu. cbn [bind]. rewrite Ei. reflexivity.
      * cbn [toks paren Nat.ltb Nat.leb]. now rewrite <- app_assoc.
    + rewrite Hu in Hc. injection Hc as <-. exists i. split; [reflexivity|]. split; [exact Ei|].
      cbn [app]. apply toks_isect. now apply His.
  - rewrite Hi in Hc. discriminate.
Qed.

(* pushing an operand *)
Lemma push_ok fr ab o v : frame_ok fr ab -> is_operand o = true -> psem o = Ok v ->
  let i' := match snd ab with None => o | Some i => MAnd i o end in
  frame_ok (push_operand v fr) (fst ab, Some i') /\
  frame_toks (fst ab, Some i') = frame_toks ab ++ toks 2 o.
Proof.
  destruct ab as [eu ei]. intros (Hu & Hi & His) Hop Ev. cbn [fst snd] in *. cbv zeta.
  split.
  - unfold frame_ok, push_operand. cbn [fu fi fst snd]. repeat split.
    + exact Hu.
    + destruct ei as [i|]; cbn [part_ok] in *.
      * destruct Hi as (vi & Ei & ->). exists (AAnd vi v). split; [|reflexivity].
        cbn [psem]. now rewrite Ei, Ev.
      * rewrite Hi. exists v. auto.
    + intros i0 E. injection E as <-. destruct ei as [i|]; [reflexivity|].
      destruct o; try reflexivity; discriminate.
  - unfold frame_toks. cbn [fst snd]. rewrite <- app_assoc. f_equal.
    destruct ei as [i|].
    + reflexivity.
    + cbn [app]. now apply toks_operand.
Qed.

Lemma sound_gen : forall ts cur stk cab sabs a,
  frame_ok cur cab -> stack_ok (fk cur) stk sabs -> run ts cur stk = Ok a ->
  exists e, toks 0 e = stack_toks (fk cur) stk sabs ++ frame_toks cab ++ ts /\ psem e = Ok a.
Proof.
  induction ts as [|t r IH]; intros cur stk cab sabs a Hcur Hstk Hrun.
  - (* end of input *)
    cbn [run] in Hrun. destruct stk as [|p stk']; [|discriminate].
    destruct (fk cur) eqn:K; try discriminate.
    destruct (close_frame cur) as [v|] eqn:C; [|discriminate]. injection Hrun as <-.
    destruct (close_frame_ok cur cab v Hcur C) as (e & _ & Ep & Et).
    exists e. split; [|exact Ep]. destruct sabs; cbn [stack_toks app]; now rewrite app_nil_r.
  - destruct t as [z sub|n| | | | |]; cbn [run] in Hrun.
    + (* literal *)
      destruct (push_ok cur cab (MLit z sub) (ASurf z sub) Hcur eq_refl eq_refl) as [Hf Ht].
      cbv zeta in Hf, Ht.
      destruct (IH _ _ _ sabs a Hf Hstk Hrun) as (e & Et & Ep). exists e. split; [|exact Ep].
      rewrite Et, Ht. cbn [toks]. unfold push_operand. cbn [fk]. now rewrite <- !app_assoc.
    + (* #n *)
      destruct (push_ok cur cab (MNotCell n) (ACompl n) Hcur eq_refl eq_refl) as [Hf Ht].
      cbv zeta in Hf, Ht.
      destruct (IH _ _ _ sabs a Hf Hstk Hrun) as (e & Et & Ep). exists e. split; [|exact Ep].
      rewrite Et, Ht. cbn [toks]. unfold push_operand. cbn [fk]. now rewrite <- !app_assoc.
    + (* #( *)
      assert (Hnew : frame_ok (new_frame KHash) (None, None)).
      { unfold frame_ok, new_frame. cbn. repeat split; auto; try discriminate; congruence. }
      assert (Hstk' : stack_ok (fk (new_frame KHash)) (cur :: stk) (cab :: sabs)).
      { cbn [stack_ok fk new_frame]. split; [exact Hcur|exact Hstk]. }
      destruct (IH _ _ (None, None) _ a Hnew Hstk' Hrun) as (e & Et & Ep). exists e. split; [|exact Ep].
      rewrite Et. cbn [stack_toks fk new_frame opener frame_toks fst snd app]. now rewrite <- !app_assoc.
    + (* ( *)
      assert (Hnew : frame_ok (new_frame KParen) (None, None)).
      { unfold frame_ok, new_frame. cbn. repeat split; auto; try discriminate; congruence. }
      assert (Hstk' : stack_ok (fk (new_frame KParen)) (cur :: stk) (cab :: sabs)).
      { cbn [stack_ok fk new_frame]. split; [exact Hcur|exact Hstk]. }
      destruct (IH _ _ (None, None) _ a Hnew Hstk' Hrun) as (e & Et & Ep). exists e. split; [|exact Ep].
      rewrite Et. cbn [stack_toks fk new_frame opener frame_toks fst snd app]. now rewrite <- !app_assoc.
    + (* ) *)
      destruct (fk cur) eqn:K; [discriminate| |].
      * (* closes a parenthesis *)
        destruct (close_frame cur) as [v|] eqn:C; [|discriminate].
        destruct stk as [|p stk']; [discriminate|]. cbn [stack_ok] in Hstk.
        destruct sabs as [|pab sabs']; [contradiction|]. destruct Hstk as (Hp & Hrest).
        destruct (close_frame_ok cur cab v Hcur C) as (e0 & _ & Ep0 & Et0).
        destruct (push_ok p pab (MParen e0) v Hp eq_refl Ep0) as [Hf Ht].
        cbv zeta in Hf, Ht.
        assert (Hrest' : stack_ok (fk (push_operand v p)) stk' sabs') by exact Hrest.
        destruct (IH _ _ _ sabs' a Hf Hrest' Hrun) as (e & Et & Ep). exists e. split; [|exact Ep].
        rewrite Et, Ht. cbn [toks stack_toks opener]. unfold push_operand at 1. cbn [fk].
        rewrite Et0. rewrite <- !app_assoc. cbn [app]. rewrite <- ?app_assoc. reflexivity.
      * (* closes a #( *)
        destruct (close_frame cur) as [v|] eqn:C; [|discriminate].
        destruct stk as [|p stk']; [discriminate|]. cbn [stack_ok] in Hstk.
        destruct sabs as [|pab sabs']; [contradiction|]. destruct Hstk as (Hp & Hrest).
        destruct (inverse v) as [v'|] eqn:Ei; [|discriminate].
        destruct (close_frame_ok cur cab v Hcur C) as (e0 & _ & Ep0 & Et0).
        assert (Ep1 : psem (MNot e0) = Ok v') by (cbn [psem]; rewrite Ep0; exact Ei).
        destruct (push_ok p pab (MNot e0) v' Hp eq_refl Ep1) as [Hf Ht].
        cbv zeta in Hf, Ht.
        assert (Hrest' : stack_ok (fk (push_operand v' p)) stk' sabs') by exact Hrest.
        destruct (IH _ _ _ sabs' a Hf Hrest' Hrun) as (e & Et & Ep). exists e. split; [|exact Ep].
        rewrite Et, Ht. cbn [toks stack_toks opener]. unfold push_operand at 1. cbn [fk].
        rewrite Et0. rewrite <- !app_assoc. cbn [app]. rewrite <- ?app_assoc. reflexivity.
    + (* : *)
      destruct (close_frame cur) as [u|] eqn:C; [|discriminate].
      destruct (close_frame_ok cur cab u Hcur C) as (e0 & Ec & Ep0 & Et0).
      assert (Hnew : frame_ok (mkFrame (fk cur) (Some u) None) (Some e0, None)).
      { unfold frame_ok. cbn [fu fi fst snd part_ok]. repeat split; auto; try discriminate.
        exists u. auto. }
      assert (Hstk' : stack_ok (fk (mkFrame (fk cur) (Some u) None)) stk sabs) by exact Hstk.
      destruct (IH _ _ _ sabs a Hnew Hstk' Hrun) as (e & Et & Ep). exists e. split; [|exact Ep].
      rewrite Et. cbn [fk]. unfold frame_toks at 1. cbn [fst snd]. rewrite Et0.
      rewrite app_nil_r. now rewrite <- !app_assoc.
    + discriminate.
Qed.

Theorem parse_sound ts a : parse_tokens ts = Ok a ->
  exists e, toks 0 e = ts /\ psem e = Ok a.
Proof.
  intros H. unfold parse_tokens in H.
  assert (Hnew : frame_ok (new_frame KTop) (None, None)).
  { unfold frame_ok, new_frame. cbn. repeat split; auto; try discriminate; congruence. }
  destruct (sound_gen ts (new_frame KTop) [] (None, None) [] a Hnew I H) as (e & Et & Ep).
  exists e. split; [|exact Ep]. exact Et.
Qed.

(* ... and the tree denotes what MCNP means by that expression *)
Theorem parse_sound_den ts a : parse_tokens ts = Ok a ->
  exists e, toks 0 e = ts /\ psem e = Ok a /\
    (nonzero e = true -> forall cd sg, aden cd sg a = mden cd sg e).
Proof.
  intros H. destruct (parse_sound ts a H) as (e & Et & Ep). exists e. repeat split; auto.
  intros Hn cd sg.
  assert (Hacc : accepted e = true) by (apply psem_ok_iff; eauto).
  assert (Hadm : admissible e = true).
  { unfold admissible. unfold accepted in Hacc. now rewrite Hacc, Hn. }
  destruct (parse_print_tokens e Hadm) as (a' & Ep' & _ & D).
  rewrite parse_toks_psem, Ep in Ep'. injection Ep' as <-. apply D.
Qed.

Theorem get_ast_sound s a : get_ast s = Ok a ->
  exists e, tokens_of s = toks 0 e /\ psem e = Ok a /\
    (nonzero e = true -> forall cd sg, aden cd sg a = mden cd sg e).
Proof.
  unfold get_ast. intros H. destruct (parse_sound_den _ a H) as (e & Et & Ep & D).
  exists e. repeat split; auto.
Qed.
