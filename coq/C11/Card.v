(* C11 — cellcard.split on well-formed cell cards: the geometry part is the
   expression (with its leading blanks) and it parses like the expression. *)
From Coq Require Import List NArith ZArith Bool Lia String Ascii.
From T4V Require Import Base.Str C11.Model C11.Spec C11.LexProofs C11.Layout C11.Proofs.
Import ListNotations.
Open Scope string_scope.

(* ---- scanning lemmas ---- *)
Fixpoint str_forall (p : ascii -> bool) (s : string) : bool :=
  match s with EmptyString => true | String c r => p c && str_forall p r end.

Lemma str_forall_app p s t : str_forall p (s ++ t) = str_forall p s && str_forall p t.
Proof. induction s as [|c s IH]; cbn; [reflexivity|]. now rewrite IH, andb_assoc. Qed.

Definition head_sat (p : ascii -> bool) (s : string) : bool :=
  match s with String c _ => p c | EmptyString => false end.

Lemma span_while_app p s t : str_forall p s = true -> head_sat p t = false ->
  span_while p (s ++ t) = (s, t).
Proof.
  induction s as [|c s IH]; cbn [append str_forall span_while]; intros Hs Ht.
  - destruct t as [|d t]; [reflexivity|]. cbn in Ht. cbn [span_while]. now rewrite Ht.
  - apply andb_prop in Hs. destruct Hs as [Hc Hs]. rewrite Hc, (IH Hs Ht). reflexivity.
Qed.

(* no character that could start the options *)
Definition quiet_char (c : ascii) : bool := negb (opt_start c).

(* pair-quiet: nowhere a ')' or blank followed by a letter or '*' *)
Fixpoint pq (s : string) : bool :=
  match s with
  | String c rest =>
      match rest with
      | String d _ => negb (opt_before c && opt_start d) && pq rest
      | EmptyString => true
      end
  | EmptyString => true
  end.

Lemma pq_step c d r : pq (String c (String d r)) = negb (opt_before c && opt_start d) && pq (String d r).
Proof. reflexivity. Qed.

Lemma find_options_step c d r : find_options (String c (String d r)) =
  if opt_before c && opt_start d then (String c "", String d r)
  else let '(a, b) := find_options (String d r) in (String c a, b).
Proof. reflexivity. Qed.

Lemma find_options_quiet s : pq s = true -> find_options s = (s, "").
Proof.
  induction s as [|c s IH]; [reflexivity|]. destruct s as [|d r]; [reflexivity|].
  rewrite pq_step. intros H. apply andb_prop in H. destruct H as [Hc Hs]. apply negb_true_iff in Hc.
  rewrite find_options_step, Hc, (IH Hs). reflexivity.
Qed.

Lemma find_options_at s c d r : pq (s ++ String c "") = true ->
  opt_before c = true -> opt_start d = true ->
  find_options (s ++ String c (String d r)) = (s ++ String c "", String d r).
Proof.
  induction s as [|c0 s IH]; intros Hq Hb Hd.
  - cbn [append]. rewrite find_options_step. now rewrite Hb, Hd.
  - destruct s as [|c1 s1].
    + cbn [append] in *. rewrite pq_step in Hq. apply andb_prop in Hq. destruct Hq as [Hc Hq].
      apply negb_true_iff in Hc. rewrite find_options_step, Hc.
      specialize (IH Hq Hb Hd). cbn [append] in IH. rewrite IH. reflexivity.
    + cbn [append] in Hq. rewrite pq_step in Hq. apply andb_prop in Hq. destruct Hq as [Hc Hq].
      apply negb_true_iff in Hc. cbn [append]. rewrite find_options_step, Hc.
      change (String c1 (s1 ++ String c (String d r))) with (String c1 s1 ++ String c (String d r)).
      rewrite (IH Hq Hb Hd). reflexivity.
Qed.

Lemma pq_app s t : pq s = true -> pq t = true -> head_sat opt_start t = false -> pq (s ++ t) = true.
Proof.
  induction s as [|c s IH]; intros Hs Ht Hh; [exact Ht|].
  destruct s as [|d r].
  - cbn [append]. destruct t as [|e t']; [reflexivity|]. rewrite pq_step. cbn in Hh. rewrite Hh, andb_false_r. exact Ht.
  - rewrite pq_step in Hs. apply andb_prop in Hs. destruct Hs as [Hc Hs].
    change ((String c (String d r)) ++ t) with (String c (String d (r ++ t))). rewrite pq_step, Hc.
    change (String d (r ++ t)) with (String d r ++ t). now rewrite IH.
Qed.

Lemma pq_of_forall (p : ascii -> bool) s : (forall c, p c = true -> opt_start c = false) ->
  str_forall p s = true -> pq s = true.
Proof.
  intros Hp. induction s as [|c s IH]; [reflexivity|]. intros H. cbn [str_forall] in H. apply andb_prop in H.
  destruct H as [_ Hs]. destruct s as [|d r]; [reflexivity|]. rewrite pq_step, (IH Hs).
  cbn [str_forall] in Hs. apply andb_prop in Hs. destruct Hs as [Hd _]. now rewrite (Hp d Hd), andb_false_r.
Qed.

Lemma pq_no_before s : str_forall (fun c => negb (opt_before c)) s = true -> pq s = true.
Proof.
  induction s as [|c s IH]; [reflexivity|]. intros H. cbn [str_forall] in H. apply andb_prop in H.
  destruct H as [Hc Hs]. destruct s as [|d r]; [reflexivity|]. rewrite pq_step, (IH Hs).
  apply negb_true_iff in Hc. now rewrite Hc.
Qed.

(* ---- characters ---- *)
Definition expr_char (c : ascii) : bool :=
  is_digit c || is_blank c || Ascii.eqb c "+" || Ascii.eqb c "-" || Ascii.eqb c "." ||
  Ascii.eqb c "#" || Ascii.eqb c "(" || Ascii.eqb c ")" || Ascii.eqb c ":".
(* a density token: anything but blanks and parentheses ("-2.7", "1.0E-3", "6.02e-2") *)
Definition rho_char (c : ascii) : bool := density_char c && negb (Ascii.eqb c ")").

Lemma expr_char_quiet c : expr_char c = true -> quiet_char c = true.
Proof. destruct c as [[] [] [] [] [] [] [] []]; intros H; try discriminate H; reflexivity. Qed.
Lemma rho_char_facts c : rho_char c = true -> negb (opt_before c) = true /\ density_char c = true /\ nonblank c = true.
Proof.
  unfold rho_char, density_char, opt_before, nonblank. intros H. apply andb_prop in H. destruct H as [H Hp].
  apply andb_prop in H. destruct H as [Hb Ho]. rewrite Hb, Ho. apply negb_true_iff in Hp. rewrite Hp.
  apply negb_true_iff in Hb. rewrite Hb. auto.
Qed.
Lemma digit_facts c : is_digit c = true -> quiet_char c = true /\ nonblank c = true /\ is_blank c = false.
Proof. destruct c as [[] [] [] [] [] [] [] []]; intros H; try discriminate H; repeat split; reflexivity. Qed.

Lemma str_forall_impl (p q : ascii -> bool) s : (forall c, p c = true -> q c = true) ->
  str_forall p s = true -> str_forall q s = true.
Proof.
  intros H. induction s as [|c s IH]; cbn; [reflexivity|]. intros Hs. apply andb_prop in Hs.
  destruct Hs as [Hc Hs]. now rewrite (H c Hc), IH.
Qed.

Lemma all_digits_forall s : all_digits s = str_forall is_digit s.
Proof. induction s as [|c s IH]; cbn; [reflexivity|now rewrite IH]. Qed.

Lemma blanks_quiet g : str_forall quiet_char (blanks g) = true.
Proof. induction g; cbn; auto. Qed.

Lemma blanks_S_head g s : blank_head (blanks (S g) ++ s) = true.
Proof. reflexivity. Qed.

Lemma fields_lemma s t n : str_forall nonblank s = true -> s <> "" -> head_sat nonblank t = false ->
  fields (S n) (s ++ t) = S (fields n t).
Proof.
  intros Hs Hne Ht. cbn [fields]. destruct s as [|c s']; [congruence|].
  cbn [append str_forall] in *. apply andb_prop in Hs. destruct Hs as [Hc Hs'].
  cbn [skip_blanks]. unfold nonblank in Hc. apply negb_true_iff in Hc. rewrite Hc.
  change (String c (s' ++ t)) with (String c s' ++ t).
  rewrite span_while_app; [reflexivity| |exact Ht].
  cbn [str_forall]. rewrite Hs'. unfold nonblank. rewrite Hc. reflexivity.
Qed.

Lemma fields_blanks n g s : fields n (blanks g ++ s) = fields n s.
Proof. destruct n; [reflexivity|]. cbn [fields]. now rewrite skip_blanks_blanks. Qed.

(* ---- well-formed cell cards ---- *)
(* material part after the name: "0" (void), or a material number and a density *)
Definition mat_ok (mat : string) (rho : option (nat * string)) : Prop :=
  digits_ok mat = true /\
  match rho with
  | None => all_zero mat = true
  | Some (_, r) => all_zero mat = false /\ str_forall rho_char r = true /\ r <> "" /\
                   head_sat opt_start r = false
  end.

Definition rho_text (rho : option (nat * string)) : string :=
  match rho with None => "" | Some (g2, r) => blanks (S g2) ++ r end.

(* the options, if any, start with a letter or '*' right after a ')' or a blank *)
Definition opts_ok (E opts : string) : Prop :=
  opts = "" \/
  exists E0 c d r, E = E0 ++ String c "" /\ opt_before c = true /\ opts = String d r /\ opt_start d = true.

Definition card_body (name : string) (g1 : nat) (mat : string) (rho : option (nat * string))
  (g3 : nat) (E : string) : string :=
  name ++ blanks (S g1) ++ mat ++ rho_text rho ++ blanks g3 ++ E.

(* a blank separates the material part from the expression, except that an
   opening parenthesis may follow a density directly ("3 -2.7(1:2)") *)
Definition sep_ok (rho : option (nat * string)) (g3 : nat) (E : string) : Prop :=
  g3 <> 0 \/ (rho <> None /\ head_sat (fun c => Ascii.eqb c "(") E = true).

Lemma digits_ok_forall ds : digits_ok ds = true -> str_forall is_digit ds = true /\ ds <> "".
Proof.
  intros H. destruct (digits_ok_inv ds H) as (Ha & c & r & -> & _). rewrite <- all_digits_forall.
  split; [exact Ha|discriminate].
Qed.

Lemma skip_blanks_nonblank_head s : head_sat nonblank s = true -> skip_blanks s = s.
Proof.
  destruct s as [|c s]; [discriminate|]. cbn. unfold nonblank. intros H. apply negb_true_iff in H. now rewrite H.
Qed.

Lemma head_sat_app p s t : s <> "" -> head_sat p (s ++ t) = head_sat p s.
Proof. destruct s; [congruence|reflexivity]. Qed.

Lemma head_forall p s : str_forall p s = true -> s <> "" -> head_sat p s = true.
Proof. destruct s as [|c s]; [congruence|]. cbn. intros H _. apply andb_prop in H. now destruct H. Qed.

Lemma second_field_card name g1 mat rest :
  str_forall nonblank name = true -> name <> "" -> str_forall nonblank mat = true -> mat <> "" ->
  head_sat nonblank rest = false ->
  second_field (name ++ blanks (S g1) ++ mat ++ rest) = mat.
Proof.
  intros Fn Nn Fm Nm Hr. unfold second_field.
  rewrite (skip_blanks_nonblank_head (name ++ _)) by (rewrite head_sat_app by assumption; now apply head_forall).
  rewrite (span_while_app nonblank name _ Fn) by reflexivity. cbn [snd].
  rewrite skip_blanks_blanks.
  rewrite (skip_blanks_nonblank_head (mat ++ rest)) by (rewrite head_sat_app by assumption; now apply head_forall).
  now rewrite (span_while_app nonblank mat rest Fm Hr).
Qed.

Lemma mat_class_digits mat : digits_ok mat = true -> mat_class mat = Some (all_zero mat).
Proof.
  intros H. destruct (digits_ok_inv mat H) as (Ha & c & r & E & Hc).
  unfold mat_class.
  assert (Hss : strip_sign mat = mat).
  { rewrite E. cbn. destruct (digit_not_punct c Hc) as (_ & _ & _ & _ & _ & P5 & P6 & _). now rewrite P5, P6. }
  rewrite Hss. rewrite <- (str_app_nil_r mat) at 1. rewrite all_digits_forall in Ha.
  rewrite (span_while_app is_digit mat "" Ha eq_refl). rewrite E. reflexivity.
Qed.

Theorem split_card_wellformed name g1 mat rho g3 E opts :
  digits_ok name = true -> mat_ok mat rho ->
  str_forall expr_char E = true -> head_sat nonblank E = true -> sep_ok rho g3 E -> opts_ok E opts ->
  split_card (card_body name g1 mat rho g3 E ++ opts) = Ok (blanks g3 ++ E, opts).
Proof.
  intros Hname [Hmat Hrho] HE HEhd Hsep Hopts.
  destruct (digits_ok_forall name Hname) as [Fname Nname].
  destruct (digits_ok_forall mat Hmat) as [Fmat Nmat].
  set (G := blanks g3 ++ E).
  assert (HGden : head_sat density_char G = false).
  { unfold G. destruct g3 as [|g3']; [|reflexivity]. destruct Hsep as [Hs|[_ Hs]]; [congruence|].
    cbn [blanks append]. destruct E as [|c E']; [discriminate|]. cbn in Hs. apply Ascii.eqb_eq in Hs. now subst c. }
  assert (HGvoid : rho = None -> head_sat nonblank G = false).
  { intros ->. unfold G. destruct g3 as [|g3']; [|reflexivity]. destruct Hsep as [Hs|[Hs _]]; congruence. }
  assert (ENe : E <> "") by (destruct E; [discriminate|discriminate]).
  (* nowhere before the options a ')' or blank is followed by a letter or '*' *)
  assert (Qf : forall (p : ascii -> bool) t, (forall c, p c = true -> opt_start c = false) ->
               str_forall p t = true -> pq t = true /\ head_sat opt_start t = false).
  { intros p t Hp Ht. split; [now apply (pq_of_forall p)|].
    destruct t as [|c t']; [reflexivity|]. cbn in Ht. apply andb_prop in Ht. destruct Ht as [Hc _]. cbn. now apply Hp. }
  assert (Qq : forall c, quiet_char c = true -> opt_start c = false) by (intros c Hc; now apply negb_true_iff in Hc).
  assert (Qd : forall c, is_digit c = true -> opt_start c = false) by (intros c Hc; apply Qq; now destruct (digit_facts c Hc)).
  assert (Qe : forall c, expr_char c = true -> opt_start c = false) by (intros c Hc; apply Qq; now apply expr_char_quiet).
  destruct (Qf _ E Qe HE) as [PE HhE].
  assert (PG : pq G = true /\ head_sat opt_start G = false).
  { unfold G. destruct g3 as [|g3']; [cbn [blanks append]; auto|]. split; [|reflexivity].
    apply pq_app; auto. exact (proj1 (Qf _ _ Qq (blanks_quiet (S g3')))). }
  destruct PG as [PG HhG].
  assert (PR2 : pq (rho_text rho ++ G) = true /\ head_sat opt_start (rho_text rho ++ G) = false).
  { destruct rho as [[g2 r]|]; [|cbn [rho_text append]; auto]. destruct Hrho as (_ & Hr & Hrne & Hrhd).
    cbn [rho_text]. rewrite str_app_assoc. split; [|reflexivity].
    apply pq_app; [exact (proj1 (Qf _ _ Qq (blanks_quiet (S g2))))| |now rewrite head_sat_app].
    apply pq_app; auto. apply pq_no_before. apply (str_forall_impl rho_char); [|exact Hr].
    intros c Hc. now destruct (rho_char_facts c Hc). }
  destruct PR2 as [PR2 HhR2].
  assert (Qbody : pq (card_body name g1 mat rho g3 E) = true).
  { unfold card_body. fold G.
    apply pq_app; [exact (proj1 (Qf _ _ Qd Fname))| |reflexivity].
    apply pq_app; [exact (proj1 (Qf _ _ Qq (blanks_quiet (S g1))))| |].
    - apply pq_app; [exact (proj1 (Qf _ _ Qd Fmat))|exact PR2|exact HhR2].
    - rewrite head_sat_app by exact Nmat. exact (proj2 (Qf _ _ Qd Fmat)). }
  (* options found where they are *)
  assert (Hfind : find_options (card_body name g1 mat rho g3 E ++ opts) = (card_body name g1 mat rho g3 E, opts)).
  { destruct Hopts as [->|(E0 & c & d & r & -> & Hb & -> & Hd)].
    - rewrite str_app_nil_r. now apply find_options_quiet.
    - unfold card_body in *. 
      replace ((name ++ blanks (S g1) ++ mat ++ rho_text rho ++ blanks g3 ++ E0 ++ String c "") ++ String d r)
        with ((name ++ blanks (S g1) ++ mat ++ rho_text rho ++ blanks g3 ++ E0) ++ String c (String d r)).
      + rewrite find_options_at; auto.
        * now rewrite ?str_app_assoc.
        * rewrite ?str_app_assoc. exact Qbody.
      + rewrite ?str_app_assoc. reflexivity. }
  (* the material tokens *)
  set (R2 := rho_text rho ++ G).
  assert (HR2hd : head_sat nonblank R2 = false).
  { unfold R2. destruct rho as [[g2 r]|]; [reflexivity|]. cbn [rho_text append]. now apply HGvoid. }
  assert (Hbody : card_body name g1 mat rho g3 E = name ++ blanks (S g1) ++ mat ++ R2).
  { unfold card_body, R2, G. rewrite ?str_app_assoc. reflexivity. }
  assert (Fnb_name : str_forall nonblank name = true).
  { apply (str_forall_impl is_digit); [|exact Fname]. intros c Hc. now destruct (digit_facts c Hc) as (_ & ? & _). }
  assert (Fnb_mat : str_forall nonblank mat = true).
  { apply (str_forall_impl is_digit); [|exact Fmat]. intros c Hc. now destruct (digit_facts c Hc) as (_ & ? & _). }
  assert (HR2ne : R2 <> "").
  { unfold R2, G. destruct rho as [[g2 r]|]; [discriminate|]. cbn [rho_text append].
    destruct g3; [|discriminate]. exact ENe. }
  unfold split_card.
  (* three fields *)
  assert (Hfields : fields 3 (card_body name g1 mat rho g3 E ++ opts) = 3).
  { rewrite Hbody. rewrite ?str_app_assoc.
    rewrite fields_lemma by (auto; reflexivity).
    rewrite fields_blanks. rewrite fields_lemma; auto.
    - f_equal. f_equal. unfold R2. cbn [fields].
      destruct rho as [[g2 r]|]; cbn [rho_text].
      + rewrite ?str_app_assoc, skip_blanks_blanks. destruct Hrho as (_ & Hr & Hrne & _).
        destruct r as [|c r']; [congruence|]. cbn [append str_forall] in *. apply andb_prop in Hr.
        destruct Hr as [Hc _]. destruct (rho_char_facts c Hc) as (_ & _ & Hnb). unfold nonblank in Hnb.
        apply negb_true_iff in Hnb. cbn [skip_blanks]. rewrite Hnb. reflexivity.
      + cbn [append]. unfold G. rewrite ?str_app_assoc, skip_blanks_blanks.
        destruct E as [|c E']; [congruence|]. cbn in HEhd. unfold nonblank in HEhd. apply negb_true_iff in HEhd.
        cbn [append skip_blanks]. rewrite HEhd. reflexivity.
    - rewrite head_sat_app by exact HR2ne. exact HR2hd. }
  assert (Hsf : second_field (card_body name g1 mat rho g3 E ++ opts) = mat).
  { rewrite Hbody, ?str_app_assoc. apply second_field_card; auto.
    rewrite head_sat_app by exact HR2ne. exact HR2hd. }
  rewrite Hfields. cbn [Nat.ltb Nat.leb]. rewrite Hsf, (mat_class_digits mat Hmat). rewrite Hfind. rewrite Hbody.
  rewrite (skip_blanks_nonblank_head (name ++ _)) by (rewrite head_sat_app by assumption; now apply head_forall).
  rewrite <- all_digits_forall in Fname.
  rewrite (span_digits_app name _ 0%N 0 Fname) by reflexivity.
  destruct (0 + String.length name) eqn:Elen.
  { destruct name; [congruence|discriminate]. }
  cbn [blank_head blanks append negb].
  change (String " " (blanks g1 ++ mat ++ R2)) with (blanks (S g1) ++ mat ++ R2).
  rewrite skip_blanks_blanks.
  rewrite (skip_blanks_nonblank_head (mat ++ R2)) by (rewrite head_sat_app by assumption; now apply head_forall).
  rewrite (span_while_app nonblank mat R2 Fnb_mat HR2hd).
  destruct mat as [|cm mat'] eqn:Emat; [congruence|]. rewrite <- Emat in *.
  replace (match mat with "" => Err EIndex | String _ _ => _ end) with
    (if all_zero mat then Ok (R2, opts)
     else if negb (blank_head R2) then Err EIndex
     else let '(rho0, s3) := span_while density_char (skip_blanks R2) in
          match rho0 with "" => Err EIndex | String _ _ => Ok (s3, opts) end)
    by (rewrite Emat; reflexivity).
  destruct rho as [[g2 r]|].
  - destruct Hrho as (Hz & Hr & Hrne & _). rewrite Hz.
    unfold R2. cbn [rho_text]. rewrite ?str_app_assoc. cbn [blank_head blanks append negb].
    change (String " " (blanks g2 ++ r ++ G)) with (blanks (S g2) ++ r ++ G). rewrite skip_blanks_blanks.
    assert (Fr_nb : head_sat nonblank (r ++ G) = true).
    { rewrite head_sat_app by assumption. apply head_forall; [|assumption].
      apply (str_forall_impl rho_char); [|exact Hr]. intros c Hc. now destruct (rho_char_facts c Hc) as (_ & _ & ?). }
    rewrite (skip_blanks_nonblank_head _ Fr_nb).
    rewrite (span_while_app density_char r G); [|
      apply (str_forall_impl rho_char); [|exact Hr]; intros c Hc; now destruct (rho_char_facts c Hc) as (_ & ? & _)|exact HGden].
    destruct r; [congruence|reflexivity].
  - rewrite Hrho. unfold R2. reflexivity.
Qed.

(* ---- from the card to the tree ---- *)
Lemma blanks_add g h : blanks g ++ blanks h = blanks (g + h).
Proof. induction g; cbn; [reflexivity|now rewrite IHg]. Qed.

Lemma get_ast_lead g ws trail : wf_written ws = true ->
  get_ast (blanks g ++ render ws trail) = get_ast (render ws trail).
Proof.
  intros Hw. unfold get_ast. rewrite (tokens_of_render ws trail Hw).
  destruct ws as [|[g0 w] r].
  - cbn [render]. rewrite blanks_add. change (blanks (g + trail)) with (render [] (g + trail)).
    now rewrite (tokens_of_render [] (g + trail)).
  - cbn [render]. rewrite <- str_app_assoc, blanks_add.
    change (blanks (g + g0) ++ wtext w ++ render r trail) with (render ((g + g0, w) :: r) trail).
    rewrite tokens_of_render; [reflexivity|exact Hw].
Qed.

Lemma digit_expr_char c : is_digit c = true -> expr_char c = true.
Proof. unfold expr_char. intros ->. reflexivity. Qed.

Lemma blanks_expr g : str_forall expr_char (blanks g) = true.
Proof. induction g; cbn; auto. Qed.

Lemma wtext_expr w : wf_tok w = true -> str_forall expr_char (wtext w) = true.
Proof.
  destruct w as [neg plus ds sub|gap ds|gap| | |]; cbn [wf_tok wtext]; intros H; try reflexivity.
  - apply andb_prop in H. destruct H as [Hds Hsub]. destruct (digits_ok_forall ds Hds) as [Fd _].
    rewrite !str_forall_app. rewrite (str_forall_impl is_digit expr_char ds digit_expr_char Fd).
    assert (Hs : str_forall expr_char (sign_text neg plus) = true) by (destruct neg, plus; reflexivity).
    rewrite Hs. destruct sub as [d|]; [|reflexivity]. cbn. now rewrite (digit_expr_char d Hsub).
  - destruct (digits_ok_forall ds H) as [Fd _]. cbn [str_forall]. rewrite str_forall_app, blanks_expr.
    now rewrite (str_forall_impl is_digit expr_char ds digit_expr_char Fd).
  - cbn [str_forall]. rewrite str_forall_app, blanks_expr. reflexivity.
Qed.

Lemma render_expr ws trail : wf_written ws = true -> str_forall expr_char (render ws trail) = true.
Proof.
  induction ws as [|[g w] r IH]; cbn [render wf_written]; intros H; [apply blanks_expr|].
  apply andb_prop in H. destruct H as [H Hr]. apply andb_prop in H. destruct H as [Hw _].
  now rewrite !str_forall_app, blanks_expr, (wtext_expr w Hw), (IH Hr).
Qed.

Lemma render_head w r trail : wf_tok w = true -> head_sat nonblank (render ((0, w) :: r) trail) = true.
Proof.
  intros Hw. cbn [render blanks append].
  destruct w as [neg plus ds sub|gap ds|gap| | |]; try reflexivity.
  cbn [wf_tok] in Hw. apply andb_prop in Hw. destruct Hw as [Hds _].
  destruct (digits_ok_inv ds Hds) as (_ & c & ds' & -> & Hc). cbn [wtext]. unfold sign_text.
  destruct neg; [reflexivity|]. destruct plus; [reflexivity|]. cbn [append head_sat].
  now destruct (digit_facts c Hc) as (_ & ? & _).
Qed.

(* A well-formed cell card  name mat [rho] E options, where E is ANY layout of
   ANY expression e: split() isolates the geometry, and parsing it gives
   exactly what parsing E gives, i.e. [psem e]. *)
Theorem card_geometry name g1 mat rho g3 (e : mexpr) w r trail opts :
  let ws := (0, w) :: r in
  digits_ok name = true -> mat_ok mat rho ->
  wf_written ws = true -> tokens_written ws = toks 0 e ->
  sep_ok rho g3 (render ws trail) -> opts_ok (render ws trail) opts ->
  exists geom, split_card (card_body name g1 mat rho g3 (render ws trail) ++ opts) = Ok (geom, opts) /\
               get_ast geom = psem e.
Proof.
  cbv zeta. intros Hname Hmat Hw Ht Hsep Hopts.
  assert (Hwt : wf_tok w = true).
  { cbn [wf_written] in Hw. apply andb_prop in Hw. destruct Hw as [Hw _]. apply andb_prop in Hw. now destruct Hw. }
  exists (blanks g3 ++ render ((0, w) :: r) trail). split.
  - apply split_card_wellformed; auto.
    + now apply render_expr.
    + now apply render_head.
  - rewrite get_ast_lead by exact Hw. now apply get_ast_render_psem.
Qed.
