(* C11 — model of cell-expression parsing and complement elimination:
     MIP/geom/parsegeom.py normalize + get_ast (regex rewriting, then the PEG of
       MIP/geom/grammars/geom.ebnf)           [lex, p_union/p_isect/p_operand]
     MIP/geom/semantics.py GeomSemantics, GeomExpression.inverse, Surface.inverse
                                              [ast, inverse]
     Kernel/Volume/CellConversion.py pot_complement     [pot_complement]
   The implementation rewrites the text with eight re.sub calls and runs a
   character-level PEG; the model is a lexer + precedence parser that is
   behaviourally equal (tied exhaustively on short strings, see props/c11.py). *)
From Coq Require Import List NArith ZArith Bool String Ascii.
From T4V Require Import Base.Str.
Import ListNotations.
Open Scope string_scope.

(* ---- what get_ast returns ---- *)
Inductive ast :=
| ASurf (z : Z) (sub : option N)        (* Surface(z, sub) *)
| AAnd (l r : ast)                      (* ('*', l, r) *)
| AOr (l r : ast)                       (* (':', l, r) *)
| ACompl (cell : N)                     (* ('^', Cell(n)) *)
| ARawAnd (l r : ast).                  (* ['*', l, r] as a plain Python list: what
                                           pot_complement builds for the complement of a
                                           lattice cell; it has no .inverse() *)

Inductive err := EParse | EAttribute | EKey | EFuel | EAssert | EIndex | EValue.
Inductive res (A : Type) := Ok (a : A) | Err (e : err).
Arguments Ok {A}. Arguments Err {A}.

(* GeomExpression.inverse / Surface.inverse: De Morgan; a cell complement has
   no inverse ('^'.inverse() raises AttributeError) *)
Fixpoint inverse (a : ast) : res ast :=
  match a with
  | ASurf z sub => Ok (ASurf (- z) sub)
  | AAnd l r =>
      match inverse l with
      | Err e => Err e
      | Ok l' => match inverse r with Err e => Err e | Ok r' => Ok (AOr l' r') end
      end
  | AOr l r =>
      match inverse l with
      | Err e => Err e
      | Ok l' => match inverse r with Err e => Err e | Ok r' => Ok (AAnd l' r') end
      end
  | ACompl _ => Err EAttribute
  | ARawAnd _ _ => Err EAttribute
  end.

(* ---- lexer: the effect of normalize() seen as a token stream ---- *)
Inductive token :=
| TLit (z : Z) (sub : option N)
| THashN (n : N)       (* #n      ->  ^(n)  *)
| THashP               (* #(      ->  _(    *)
| TLP | TRP | TColon
| TBad.                (* anything the PEG cannot continue across *)

Definition is_blank (c : ascii) : bool := Ascii.eqb c " ".

Fixpoint skip_blanks (s : string) : string :=
  match s with
  | String c r => if is_blank c then skip_blanks r else s
  | EmptyString => s
  end.

Definition tail_str (s : string) : string :=
  match s with String _ r => r | EmptyString => EmptyString end.

(* longest prefix of digits: (value, number of digits, rest) *)
Fixpoint span_digits (s : string) (acc : N) (cnt : nat) : N * nat * string :=
  match s with
  | String c r => if is_digit c then span_digits r (acc * 10 + digit_val c)%N (S cnt) else (acc, cnt, s)
  | EmptyString => (acc, cnt, s)
  end.

(* characters that may not follow a literal directly *)
Definition glues_to_literal (c : ascii) : bool :=
  is_digit c || Ascii.eqb c "+" || Ascii.eqb c "-" || Ascii.eqb c ".".

(* after the sign: digits, optional ".d", then a separator *)
Definition lex_literal (neg : bool) (s : string) : option (token * string) :=
  match span_digits s 0%N 0 with
  | (_, O, _) => None
  | (v, _, rest) =>
      let z := if neg then (- Z.of_N v)%Z else Z.of_N v in
      let '(sub, rest') :=
        match rest with
        | String c1 (String d r2) =>
            if Ascii.eqb c1 "." && is_digit d then (Some (digit_val d), r2) else (None, rest)
        | _ => (None, rest)
        end in
      match rest' with
      | String c _ => if glues_to_literal c then None else Some (TLit z sub, rest')
      | EmptyString => Some (TLit z sub, rest')
      end
  end.

Fixpoint lex (fuel : nat) (s : string) : list token :=
  match fuel with
  | O => [TBad]
  | S f =>
      match skip_blanks s with
      | EmptyString => []
      | String c r =>
          if Ascii.eqb c "(" then TLP :: lex f r
          else if Ascii.eqb c ")" then TRP :: lex f r
          else if Ascii.eqb c ":" then TColon :: lex f r
          else if Ascii.eqb c "#" then
            if starts_with_char "(" (skip_blanks r) then THashP :: lex f (tail_str (skip_blanks r))
            else match span_digits (skip_blanks r) 0%N 0 with
                 | (_, O, _) => [TBad]
                 | (n, _, r2) => THashN n :: lex f r2
                 end
          else if Ascii.eqb c "-" then
            match lex_literal true r with Some (t, r2) => t :: lex f r2 | None => [TBad] end
          else if Ascii.eqb c "+" then
            match lex_literal false r with Some (t, r2) => t :: lex f r2 | None => [TBad] end
          else if is_digit c then
            match lex_literal false (String c r) with Some (t, r2) => t :: lex f r2 | None => [TBad] end
          else [TBad]
      end
  end.

Definition tokens_of (s : string) : list token := lex (S (String.length s)) s.

(* ---- parser: geom.ebnf read as a precedence grammar over tokens ----
     union   := isect (':' isect)*       left associative
     isect   := operand operand*         left associative (implicit '*')
     operand := lit | #n | #( union ) | ( union )
   written as a deterministic pushdown automaton that consumes one token per
   step (so it is structurally recursive and total).  GeomSemantics is applied
   on the fly: '#(' frames are De-Morgan-inverted when they close (so
   AttributeError surfaces at the closing parenthesis, as in the PEG's
   semantic action).
   A frame is one open parenthesis level: the union built so far and the
   intersection being built.  (Since /repo d73f13e normalize() removes the
   blanks around ':' AFTER giving the complement operators their leading
   blank, so "1:#2" is "1:^(2)" and a complement may follow ':' directly.) *)
Inductive fkind := KTop | KParen | KHash.
Record frame := mkFrame { fk : fkind; fu : option ast; fi : option ast }.

Definition new_frame (k : fkind) : frame := mkFrame k None None.

Definition push_operand (e : ast) (fr : frame) : frame :=
  mkFrame (fk fr) (fu fr) (Some (match fi fr with None => e | Some a => AAnd a e end)).

Definition close_frame (fr : frame) : option ast :=
  match fi fr with
  | None => None
  | Some i => Some (match fu fr with None => i | Some u => AOr u i end)
  end.

Fixpoint run (ts : list token) (cur : frame) (stk : list frame) : res ast :=
  match ts with
  | [] =>
      match stk, fk cur, close_frame cur with
      | [], KTop, Some a => Ok a
      | _, _, _ => Err EParse
      end
  | t :: r =>
      match t with
      | TLit z sub => run r (push_operand (ASurf z sub) cur) stk
      | THashN n => run r (push_operand (ACompl n) cur) stk
      | THashP => run r (new_frame KHash) (cur :: stk)
      | TLP => run r (new_frame KParen) (cur :: stk)
      | TColon =>
          match close_frame cur with
          | None => Err EParse
          | Some u => run r (mkFrame (fk cur) (Some u) None) stk
          end
      | TRP =>
          match fk cur, close_frame cur, stk with
          | KTop, _, _ => Err EParse
          | _, None, _ => Err EParse
          | _, _, [] => Err EParse
          | k, Some v, parent :: stk' =>
              match (match k with KHash => inverse v | _ => Ok v end) with
              | Ok v' => run r (push_operand v' parent) stk'
              | Err e => Err e
              end
          end
      | TBad => Err EParse
      end
  end.

Definition parse_tokens (ts : list token) : res ast := run ts (new_frame KTop) [].

(* get_ast *)
Definition get_ast (s : string) : res ast := parse_tokens (tokens_of s).

(* ---- pot_complement ---- *)
Record cell := mkCell { c_geom : ast; c_lattice : bool }.

(* first surface of extract_surfaces_list (the tree is traversed left to
   right, '^' nodes contribute nothing) *)
Fixpoint first_surface (a : ast) : option ast :=
  match a with
  | ASurf z sub => Some (ASurf z sub)
  | AAnd l r | AOr l r =>
      match first_surface l with Some s => Some s | None => first_surface r end
  | ACompl _ => None
  | ARawAnd l r =>
      match first_surface l with Some s => Some s | None => first_surface r end
  end.

Fixpoint pot_complement (fuel : nat) (cells : N -> option cell) (a : ast) : res ast :=
  match fuel with
  | O => Err EFuel
  | S f =>
      match a with
      | ASurf z sub => Ok (ASurf z sub)
      | AAnd l r =>
          match pot_complement f cells l with
          | Err e => Err e
          | Ok l' => match pot_complement f cells r with Err e => Err e | Ok r' => Ok (AAnd l' r') end
          end
      | AOr l r =>
          match pot_complement f cells l with
          | Err e => Err e
          | Ok l' => match pot_complement f cells r with Err e => Err e | Ok r' => Ok (AOr l' r') end
          end
      | ARawAnd l r =>
          match pot_complement f cells l with
          | Err e => Err e
          | Ok l' => match pot_complement f cells r with Err e => Err e | Ok r' => Ok (AAnd l' r') end
          end
      | ACompl n =>
          match cells n with
          | None => Err EKey
          | Some c =>
              if c_lattice c then
                match first_surface (c_geom c) with
                | Some (ASurf z sub) => Ok (ARawAnd (ASurf z sub) (ASurf (- z) sub))
                | _ => Err EAssert      (* the code asserts len(surfaces) >= 1 *)
                end
              else
                match pot_complement f cells (c_geom c) with
                | Err e => Err e
                | Ok g => inverse g
                end
          end
      end
  end.

(* ---- the loop of ConstructVolumeT4.construct_volume ("treat complements"):
   every cell of the dictionary in its order, geometry replaced in place; an
   exception aborts the conversion ---- *)
Definition table := list (N * cell).

Definition lookup (tbl : table) (n : N) : option cell :=
  match find (fun p => N.eqb (fst p) n) tbl with Some p => Some (snd p) | None => None end.

Definition update (tbl : table) (n : N) (g : ast) : table :=
  map (fun p => if N.eqb (fst p) n then (fst p, mkCell g (c_lattice (snd p))) else p) tbl.

Fixpoint eliminate_loop (fuel : nat) (order : list N) (tbl : table) : res table :=
  match order with
  | [] => Ok tbl
  | n :: rest =>
      match lookup tbl n with
      | None => Err EKey
      | Some c =>
          match pot_complement fuel (lookup tbl) (c_geom c) with
          | Err e => Err e
          | Ok g => eliminate_loop fuel rest (update tbl n g)
          end
      end
  end.

Definition eliminate_all (fuel : nat) (tbl : table) : res table :=
  eliminate_loop fuel (map fst tbl) tbl.

(* ---- MIP/mip/cellcard.py split(): where the geometry of a cell card ends and
   the options begin (cards without LIKE; material numbers written as digits).
     re_options : leftmost ')' or blank that is followed by '*' or a letter; the
                  options start at that letter
     re_void    : blanks, name digits, blanks, one non-blank token, rest = geometry
     re_nonvoid : the same with a second token (blanks, then characters other
                  than blank and '(') before the geometry
   The regexes are read as greedy scans (no input makes them backtrack into a
   different split, see notes).  Result: (geometry, options). ---- *)
Definition is_alpha (c : ascii) : bool :=
  let n := N_of_ascii c in ((65 <=? n)%N && (n <=? 90)%N) || ((97 <=? n)%N && (n <=? 122)%N).
Definition opt_start (c : ascii) : bool := is_alpha c || Ascii.eqb c "*".
Definition opt_before (c : ascii) : bool := Ascii.eqb c ")" || is_blank c.

Fixpoint find_options (s : string) : string * string :=
  match s with
  | String c rest =>
      match rest with
      | String d _ =>
          if opt_before c && opt_start d then (String c "", rest)
          else let '(a, b) := find_options rest in (String c a, b)
      | EmptyString => (s, "")
      end
  | EmptyString => ("", "")
  end.

(* maximal prefix of characters satisfying p *)
Fixpoint span_while (p : ascii -> bool) (s : string) : string * string :=
  match s with
  | String c r => if p c then let '(a, b) := span_while p r in (String c a, b) else ("", s)
  | EmptyString => ("", "")
  end.

Definition nonblank (c : ascii) : bool := negb (is_blank c).
Definition density_char (c : ascii) : bool := negb (is_blank c) && negb (Ascii.eqb c "(").

Definition blank_head (s : string) : bool :=
  match s with String c _ => is_blank c | EmptyString => false end.

Fixpoint all_zero (s : string) : bool :=
  match s with
  | EmptyString => true
  | String c r => Ascii.eqb c "0" && all_zero r
  end.

(* number of blank-separated fields, up to 3: txt.split(None, 2) must give 3 *)
Fixpoint fields (n : nat) (s : string) : nat :=
  match n with
  | O => O
  | S k =>
      match skip_blanks s with
      | EmptyString => O
      | s' => S (fields k (snd (span_while nonblank s')))
      end
  end.

(* float(t2) == 0 for the material field t2, read as a decimal number without
   exponent: [+-]digits[.digits] or [+-].digits.  Some true = zero, Some false =
   non-zero, None = float() raises ValueError (exponents, inf, nan, underscores
   are outside the model) *)
Definition strip_sign (s : string) : string :=
  match s with
  | String c r => if Ascii.eqb c "-" || Ascii.eqb c "+" then r else s
  | EmptyString => s
  end.

Definition is_empty (s : string) : bool := match s with EmptyString => true | _ => false end.

Definition mat_class (t : string) : option bool :=
  let '(ip, r) := span_while is_digit (strip_sign t) in
  match r with
  | EmptyString => if is_empty ip then None else Some (all_zero ip)
  | String c fp =>
      if Ascii.eqb c "." then
        let '(fd, r2) := span_while is_digit fp in
        if is_empty r2 && negb (is_empty ip && is_empty fd) then Some (all_zero ip && all_zero fd) else None
      else None
  end.

(* t2 of  name, t2, _ = txt.split(None, 2) *)
Definition second_field (txt : string) : string :=
  fst (span_while nonblank (skip_blanks (snd (span_while nonblank (skip_blanks txt))))).

(* float(t2) is evaluated on the second field of the WHOLE card, before the
   void / non-void regex runs on the card without its options *)
Definition split_card (txt : string) : res (string * string) :=
  if Nat.ltb (fields 3 txt) 3 then Err EValue else
  match mat_class (second_field txt) with
  | None => Err EValue
  | Some void =>
      let '(body, opts) := find_options txt in
      match span_digits (skip_blanks body) 0%N 0 with
      | (_, O, _) => Err EIndex
      | (_, _, s1) =>
          if negb (blank_head s1) then Err EIndex else
          let '(mat, s2) := span_while nonblank (skip_blanks s1) in
          match mat with
          | EmptyString => Err EIndex
          | _ =>
              if void then Ok (s2, opts)
              else if negb (blank_head s2) then Err EIndex
              else let '(rho, s3) := span_while density_char (skip_blanks s2) in
                   match rho with EmptyString => Err EIndex | _ => Ok (s3, opts) end
          end
      end
  end.
