(* C11 — model of cell-expression parsing and complement elimination:
     MIP/geom/parsegeom.py normalize + get_ast (regex rewriting, then the PEG of
       MIP/geom/grammars/geom.ebnf)           [lex, p_union/p_isect/p_operand]
     MIP/geom/semantics.py GeomSemantics, GeomExpression.inverse, Surface.inverse
                                              [ast, inverse]
     Kernel/Volume/CellConversion.py pot_complement     [pot_complement]
   The implementation rewrites the text with eight re.sub calls and runs a
   character-level PEG; the model is a lexer + precedence parser that is
   behaviourally equal (tied exhaustively on short strings, see props/c11.py). *)
From Coq Require Import List NArith ZArith Bool String Ascii.
From T4V Require Import Base.Str.
Import ListNotations.
Open Scope string_scope.

(* ---- what get_ast returns ---- *)
Inductive ast :=
| ASurf (z : Z) (sub : option N)        (* Surface(z, sub) *)
| AAnd (l r : ast)                      (* ('*', l, r) *)
| AOr (l r : ast)                       (* (':', l, r) *)
| ACompl (cell : N)                     (* ('^', Cell(n)) *)
| ARawAnd (l r : ast).                  (* ['*', l, r] as a plain Python list: what
                                           pot_complement builds for the complement of a
                                           lattice cell; it has no .inverse() *)

Inductive err := EParse | EAttribute | EKey | EFuel | EAssert.
Inductive res (A : Type) := Ok (a : A) | Err (e : err).
Arguments Ok {A}. Arguments Err {A}.

(* GeomExpression.inverse / Surface.inverse: De Morgan; a cell complement has
   no inverse ('^'.inverse() raises AttributeError) *)
Fixpoint inverse (a : ast) : res ast :=
  match a with
  | ASurf z sub => Ok (ASurf (- z) sub)
  | AAnd l r =>
      match inverse l with
      | Err e => Err e
      | Ok l' => match inverse r with Err e => Err e | Ok r' => Ok (AOr l' r') end
      end
  | AOr l r =>
      match inverse l with
      | Err e => Err e
      | Ok l' => match inverse r with Err e => Err e | Ok r' => Ok (AAnd l' r') end
      end
  | ACompl _ => Err EAttribute
  | ARawAnd _ _ => Err EAttribute
  end.

(* ---- lexer: the effect of normalize() seen as a token stream ---- *)
Inductive token :=
| TLit (z : Z) (sub : option N)
| THashN (n : N)       (* #n      ->  ^(n)  *)
| THashP               (* #(      ->  _(    *)
| TLP | TRP | TColon
| TBad.                (* anything the PEG cannot continue across *)

Definition is_blank (c : ascii) : bool := Ascii.eqb c " ".

Fixpoint skip_blanks (s : string) : string :=
  match s with
  | String c r => if is_blank c then skip_blanks r else s
  | EmptyString => s
  end.

(* longest prefix of digits: (value, number of digits, rest) *)
Fixpoint span_digits (s : string) (acc : N) (cnt : nat) : N * nat * string :=
  match s with
  | String c r => if is_digit c then span_digits r (acc * 10 + digit_val c)%N (S cnt) else (acc, cnt, s)
  | EmptyString => (acc, cnt, s)
  end.

(* characters that may not follow a literal directly *)
Definition glues_to_literal (c : ascii) : bool :=
  is_digit c || Ascii.eqb c "+" || Ascii.eqb c "-" || Ascii.eqb c ".".

(* after the sign: digits, optional ".d", then a separator *)
Definition lex_literal (neg : bool) (s : string) : option (token * string) :=
  match span_digits s 0%N 0 with
  | (_, O, _) => None
  | (v, _, rest) =>
      let z := if neg then (- Z.of_N v)%Z else Z.of_N v in
      let '(sub, rest') :=
        match rest with
        | String "." (String d r2) => if is_digit d then (Some (digit_val d), r2) else (None, rest)
        | _ => (None, rest)
        end in
      match rest' with
      | String c _ => if glues_to_literal c then None else Some (TLit z sub, rest')
      | EmptyString => Some (TLit z sub, rest')
      end
  end.

Fixpoint lex (fuel : nat) (s : string) : list token :=
  match fuel with
  | O => [TBad]
  | S f =>
      match skip_blanks s with
      | EmptyString => []
      | String c r =>
          if Ascii.eqb c "(" then TLP :: lex f r
          else if Ascii.eqb c ")" then TRP :: lex f r
          else if Ascii.eqb c ":" then TColon :: lex f r
          else if Ascii.eqb c "#" then
            match skip_blanks r with
            | String "(" r2 => THashP :: lex f r2
            | r1 => match span_digits r1 0%N 0 with
                    | (_, O, _) => [TBad]
                    | (n, _, r2) => THashN n :: lex f r2
                    end
            end
          else if Ascii.eqb c "-" then
            match lex_literal true r with Some (t, r2) => t :: lex f r2 | None => [TBad] end
          else if Ascii.eqb c "+" then
            match lex_literal false r with Some (t, r2) => t :: lex f r2 | None => [TBad] end
          else if is_digit c then
            match lex_literal false (String c r) with Some (t, r2) => t :: lex f r2 | None => [TBad] end
          else [TBad]
      end
  end.

Definition tokens_of (s : string) : list token := lex (S (String.length s)) s.

(* ---- parser: geom.ebnf read as a precedence grammar over tokens ----
     union   := isect (':' isect)*       left associative
     isect   := operand operand*         left associative (implicit '*')
     operand := lit | #n | #( union ) | ( union )
   written as a deterministic pushdown automaton that consumes one token per
   step (so it is structurally recursive and total).  A frame is one open
   parenthesis level: the union built so far, the intersection being built, and
   whether the last token was ':'.  GeomSemantics is applied on the fly: '#('
   frames are De-Morgan-inverted when they close (so AttributeError surfaces at
   the closing parenthesis, as in the PEG's semantic action).
   A complement directly after ':' is rejected: normalize() turns "1:#2" into
   "1:*^(2)" (it re-inserts a blank before the complement after having removed
   the blanks around ':'). *)
Inductive fkind := KTop | KParen | KHash.
Record frame := mkFrame { fk : fkind; fu : option ast; fi : option ast; fc : bool }.

Definition new_frame (k : fkind) : frame := mkFrame k None None false.

Definition push_operand (e : ast) (fr : frame) : frame :=
  mkFrame (fk fr) (fu fr) (Some (match fi fr with None => e | Some a => AAnd a e end)) false.

Definition close_frame (fr : frame) : option ast :=
  match fi fr with
  | None => None
  | Some i => Some (match fu fr with None => i | Some u => AOr u i end)
  end.

Fixpoint run (ts : list token) (cur : frame) (stk : list frame) : res ast :=
  match ts with
  | [] =>
      match stk, fk cur, close_frame cur with
      | [], KTop, Some a => Ok a
      | _, _, _ => Err EParse
      end
  | t :: r =>
      match t with
      | TLit z sub => run r (push_operand (ASurf z sub) cur) stk
      | THashN n => if fc cur then Err EParse else run r (push_operand (ACompl n) cur) stk
      | THashP => if fc cur then Err EParse else run r (new_frame KHash) (cur :: stk)
      | TLP => run r (new_frame KParen) (cur :: stk)
      | TColon =>
          match close_frame cur with
          | None => Err EParse
          | Some u => run r (mkFrame (fk cur) (Some u) None true) stk
          end
      | TRP =>
          match fk cur, close_frame cur, stk with
          | KTop, _, _ => Err EParse
          | _, None, _ => Err EParse
          | _, _, [] => Err EParse
          | k, Some v, parent :: stk' =>
              match (match k with KHash => inverse v | _ => Ok v end) with
              | Ok v' => run r (push_operand v' parent) stk'
              | Err e => Err e
              end
          end
      | TBad => Err EParse
      end
  end.

Definition parse_tokens (ts : list token) : res ast := run ts (new_frame KTop) [].

(* get_ast *)
Definition get_ast (s : string) : res ast := parse_tokens (tokens_of s).

(* ---- pot_complement ---- *)
Record cell := mkCell { c_geom : ast; c_lattice : bool }.

(* first surface of extract_surfaces_list (the tree is traversed left to
   right, '^' nodes contribute nothing) *)
Fixpoint first_surface (a : ast) : option ast :=
  match a with
  | ASurf z sub => Some (ASurf z sub)
  | AAnd l r | AOr l r =>
      match first_surface l with Some s => Some s | None => first_surface r end
  | ACompl _ => None
  | ARawAnd l r =>
      match first_surface l with Some s => Some s | None => first_surface r end
  end.

Fixpoint pot_complement (fuel : nat) (cells : N -> option cell) (a : ast) : res ast :=
  match fuel with
  | O => Err EFuel
  | S f =>
      match a with
      | ASurf z sub => Ok (ASurf z sub)
      | AAnd l r =>
          match pot_complement f cells l with
          | Err e => Err e
          | Ok l' => match pot_complement f cells r with Err e => Err e | Ok r' => Ok (AAnd l' r') end
          end
      | AOr l r =>
          match pot_complement f cells l with
          | Err e => Err e
          | Ok l' => match pot_complement f cells r with Err e => Err e | Ok r' => Ok (AOr l' r') end
          end
      | ARawAnd l r =>
          match pot_complement f cells l with
          | Err e => Err e
          | Ok l' => match pot_complement f cells r with Err e => Err e | Ok r' => Ok (AAnd l' r') end
          end
      | ACompl n =>
          match cells n with
          | None => Err EKey
          | Some c =>
              if c_lattice c then
                match first_surface (c_geom c) with
                | Some (ASurf z sub) => Ok (ARawAnd (ASurf z sub) (ASurf (- z) sub))
                | _ => Err EAssert      (* the code asserts len(surfaces) >= 1 *)
                end
              else
                match pot_complement f cells (c_geom c) with
                | Err e => Err e
                | Ok g => inverse g
                end
          end
      end
  end.
