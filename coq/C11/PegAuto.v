(* C11 — the character-level PEG on the normal form of ANY token sequence equals
   the pushdown automaton on the tokens (results and exceptions): a simulation of
   [run] by the fuel-free PEG equations of PegProofs.v.  With NormalForm.v and
   LexSound.v: get_ast2 s = get_ast s for every string the lexer can tokenize. *)
From Coq Require Import List NArith ZArith Bool Lia String Ascii.
From T4V Require Import Base.Str C11.Model C11.Spec C11.Proofs C11.LexProofs C11.LexSound C11.Layout
  C11.Regex C11.Card C11.NormalForm C11.PegProofs.
Import ListNotations.
Open Scope string_scope.

(* ---- operands in front of an arbitrary rest ---- *)
Lemma POp_open inner : POp ("(" ++ inner) =
  match PU inner with
  | POk v r => if starts_with_char ")" r then POk v (tail_str r) else PFail
  | PFail => PFail
  | PExc e => PExc e
  end.
Proof.
  unfold POp, p_operand. cbn [append]. rewrite p_surface_open.
  destruct inner as [|d r].
  - cbn. reflexivity.
  - cbn [is_c Ascii.eqb Bool.eqb andb]. unfold p_closed. destruct (PU (String d r)); reflexivity.
Qed.

Lemma POp_not inner : POp ("_(" ++ inner) =
  match PU inner with
  | POk v r => if starts_with_char ")" r
               then match inverse v with Ok v' => POk v' (tail_str r) | Err e => PExc e end
               else PFail
  | PFail => PFail
  | PExc e => PExc e
  end.
Proof.
  unfold POp, p_operand. cbn [append]. rewrite p_surface_us.
  cbn [is_c Ascii.eqb Bool.eqb andb]. unfold p_closed. destruct (PU inner); reflexivity.
Qed.

Lemma POp_rp r : POp (")" ++ r) = PFail.
Proof. unfold POp, p_operand. cbn [append]. destruct r; reflexivity. Qed.
Lemma POp_colon r : POp (":" ++ r) = PFail.
Proof. unfold POp, p_operand. cbn [append]. destruct r; reflexivity. Qed.
Lemma POp_nil : POp "" = PFail.
Proof. reflexivity. Qed.

(* ---- the PEG computation that corresponds to an automaton state ---- *)
Definition uni (fu : option ast) (i : ast) : ast := match fu with None => i | Some u => AOr u i end.

(* finishing the union of the frame [cur], reading [s] *)
Definition frame_res (cur : frame) (s : string) : pres :=
  match fi cur with
  | Some i => match IL i s with POk i' r => UL (uni (fu cur) i') r | x => x end
  | None =>
      match fu cur with
      | None => PU s
      | Some u => match PI s with POk b r => UL (AOr u b) r | PFail => PFail | PExc e => PExc e end
      end
  end.

Definition close_val (k : fkind) (v : ast) : res ast := match k with KHash => inverse v | _ => Ok v end.

Fixpoint C (cur : frame) (stk : list frame) (s : string) : res ast :=
  match stk with
  | [] =>
      match frame_res cur s with
      | POk v EmptyString => Ok v
      | POk _ _ => Err EParse
      | PFail => Err EParse
      | PExc e => Err e
      end
  | parent :: stk' =>
      match frame_res cur s with
      | POk v r =>
          if starts_with_char ")" r then
            match close_val (fk cur) v with
            | Ok v' => C (push_operand v' parent) stk' (tail_str r)
            | Err e => Err e
            end
          else Err EParse
      | PFail => Err EParse
      | PExc e => Err e
      end
  end.

Lemma C_congr c1 c2 stk s1 s2 : frame_res c1 s1 = frame_res c2 s2 -> fk c1 = fk c2 -> C c1 stk s1 = C c2 stk s2.
Proof. intros H K. destruct stk; cbn [C]; rewrite H; [reflexivity|now rewrite K]. Qed.

(* a result after which no closing parenthesis / end of text can follow *)
Definition bad_res (x : pres) : Prop :=
  x = PFail \/ exists v c r, x = POk v (String c r) /\ Ascii.eqb ")" c = false.

Lemma C_bad cur stk s : bad_res (frame_res cur s) -> C cur stk s = Err EParse.
Proof.
  intros [H|(v & c & r & H & Hc)]; destruct stk; cbn [C]; rewrite H; try reflexivity.
  cbn [starts_with_char]. now rewrite Hc.
Qed.

Lemma C_exc cur stk s e : frame_res cur s = PExc e -> C cur stk s = Err e.
Proof. intros H. destruct stk; cbn [C]; now rewrite H. Qed.

Definition sepf (cur : frame) : string := match fi cur with Some _ => "*" | None => "" end.

(* an operand read at the head of the frame's text *)
Lemma frame_res_operand cur s v rest : POp s = POk v rest ->
  frame_res cur (sepf cur ++ s) = frame_res (push_operand v cur) rest.
Proof.
  intros H. unfold frame_res, sepf, push_operand. cbn [fi fu].
  destruct (fi cur) as [i|].
  - rewrite IL_eq. cbn [append starts_with_char Ascii.eqb Bool.eqb andb tail_str]. now rewrite H.
  - cbn [append]. destruct (fu cur) as [u|].
    + rewrite PI_eq, H. destruct (IL v rest); reflexivity.
    + rewrite PU_eq, PI_eq, H. cbn [uni]. reflexivity.
Qed.

Lemma frame_res_operand_exc cur s e : POp s = PExc e -> frame_res cur (sepf cur ++ s) = PExc e.
Proof.
  intros H. unfold frame_res, sepf. destruct (fi cur) as [i|].
  - rewrite IL_eq. cbn [append starts_with_char Ascii.eqb Bool.eqb andb tail_str]. now rewrite H.
  - cbn [append]. destruct (fu cur) as [u|].
    + now rewrite PI_eq, H.
    + now rewrite PU_eq, PI_eq, H.
Qed.

Lemma frame_res_operand_fail cur s : POp s = PFail -> bad_res (frame_res cur (sepf cur ++ s)).
Proof.
  intros H. unfold frame_res, sepf. destruct (fi cur) as [i|].
  - right. rewrite IL_eq. cbn [append starts_with_char Ascii.eqb Bool.eqb andb tail_str]. rewrite H.
    rewrite UL_stop by reflexivity. eexists; eexists; eexists. split; reflexivity.
  - left. cbn [append]. destruct (fu cur) as [u|].
    + now rewrite PI_eq, H.
    + now rewrite PU_eq, PI_eq, H.
Qed.

(* ---- the simulation ---- *)
Fixpoint kinds_ok (k : fkind) (stk : list frame) : Prop :=
  match stk with
  | [] => k = KTop
  | p :: r => k <> KTop /\ kinds_ok (fk p) r
  end.

Definition has_i (cur : frame) : bool := match fi cur with Some _ => true | None => false end.

Lemma nfr_delim p A : ends_operand p = true -> delim (nfr (Some p) A) = true.
Proof.
  intros Hp. destruct A as [|a A']; [reflexivity|]. cbn [nfr]. unfold boundary. cbn [opt_is]. rewrite Hp. cbn [andb].
  destruct a; reflexivity.
Qed.

Lemma nfr_head prev cur a A : opt_is ends_operand prev = has_i cur -> starts_operand a = true ->
  nfr prev (a :: A) = sepf cur ++ atext a ++ nfr (Some a) A.
Proof.
  intros Hi Hs. cbn [nfr]. unfold boundary, sepf. rewrite Hi, Hs. unfold has_i. destruct (fi cur); reflexivity.
Qed.

Lemma nfr_head_no prev a A : starts_operand a = false -> nfr prev (a :: A) = atext a ++ nfr (Some a) A.
Proof. intros Hs. cbn [nfr]. unfold boundary. now rewrite Hs, andb_false_r. Qed.

Lemma frame_res_nooperand cur s : has_i cur = false -> POp s = PFail -> frame_res cur s = PFail.
Proof.
  unfold has_i, frame_res. destruct (fi cur); [discriminate|]. intros _ H. destruct (fu cur).
  - now rewrite PI_eq, H.
  - now rewrite PU_eq, PI_eq, H.
Qed.

Lemma frame_res_stop cur i s : fi cur = Some i -> delim1 s = true ->
  starts_with_char ":" s = false -> frame_res cur s = POk (uni (fu cur) i) s.
Proof. intros Hi Hd Hc. unfold frame_res. rewrite Hi, (IL_stop i s Hd). now apply UL_stop. Qed.

Lemma close_frame_uni cur : close_frame cur = match fi cur with Some i => Some (uni (fu cur) i) | None => None end.
Proof. reflexivity. Qed.

Lemma simulate : forall A ts, Forall2 atom_tok A ts -> forall prev cur stk,
  opt_is ends_operand prev = has_i cur -> kinds_ok (fk cur) stk ->
  run ts cur stk = C cur stk (nfr prev A).
Proof.
  induction 1 as [|a t A ts Hat HF IH]; intros prev cur stk Hi Hk.
  - (* end of input *)
    cbn [run nfr]. rewrite close_frame_uni. unfold has_i in Hi.
    destruct stk as [|p stk']; cbn [kinds_ok] in Hk.
    + rewrite Hk. cbn [C]. unfold frame_res. destruct (fi cur) as [i|].
      * rewrite IL_stop by reflexivity. rewrite UL_stop by reflexivity. reflexivity.
      * destruct (fu cur); [now rewrite PI_eq|now rewrite PU_eq, PI_eq].
    + cbn [C]. unfold frame_res. destruct (fi cur) as [i|].
      * rewrite IL_stop by reflexivity. rewrite UL_stop by reflexivity. reflexivity.
      * destruct (fu cur); [now rewrite PI_eq|now rewrite PU_eq, PI_eq].
  - destruct a as [txt|ds| | | |]; destruct t; cbn [atom_tok] in Hat; try contradiction.
    + (* literal *)
      cbn [run]. rewrite (nfr_head prev cur (ALit txt) A Hi eq_refl). cbn [atext].
      assert (Hop : POp (txt ++ nfr (Some (ALit txt)) A) = POk (ASurf z sub) (nfr (Some (ALit txt)) A)).
      { unfold POp, p_operand. now rewrite (Hat _ (nfr_delim (ALit txt) A eq_refl)). }
      rewrite (C_congr cur (push_operand (ASurf z sub) cur) stk _ _ (frame_res_operand cur _ _ _ Hop) eq_refl).
      apply IH; [reflexivity|exact Hk].
    + (* #n *)
      destruct Hat as (Hd & Hne & ->). cbn [run]. rewrite (nfr_head prev cur (ACell ds) A Hi eq_refl). cbn [atext].
      pose proof (cell_operand ds (nfr (Some (ACell ds)) A) Hd Hne) as Hop.
      rewrite (C_congr cur (push_operand (ACompl (parse_digits ds 0)) cur) stk _ _ (frame_res_operand cur _ _ _ Hop) eq_refl).
      apply IH; [reflexivity|exact Hk].
    + (* #( *)
      cbn [run]. rewrite (nfr_head prev cur ANot A Hi eq_refl). cbn [atext].
      rewrite (IH (Some ANot) (new_frame KHash) (cur :: stk) eq_refl) by (cbn; split; [discriminate|exact Hk]).
      set (inner := nfr (Some ANot) A). cbn [C]. unfold frame_res at 1. cbn [fi fu new_frame].
      pose proof (POp_not inner) as Hop. destruct (PU inner) as [v r| |e].
      * destruct (starts_with_char ")" r).
        -- cbn [fk new_frame close_val]. destruct (inverse v) as [v'|e].
           ++ now rewrite (C_congr cur (push_operand v' cur) stk _ _ (frame_res_operand cur _ _ _ Hop) eq_refl).
           ++ now rewrite (C_exc cur stk _ e (frame_res_operand_exc cur _ e Hop)).
        -- now rewrite (C_bad cur stk _ (frame_res_operand_fail cur _ Hop)).
      * now rewrite (C_bad cur stk _ (frame_res_operand_fail cur _ Hop)).
      * now rewrite (C_exc cur stk _ e (frame_res_operand_exc cur _ e Hop)).
    + (* ( *)
      cbn [run]. rewrite (nfr_head prev cur ALP A Hi eq_refl). cbn [atext].
      rewrite (IH (Some ALP) (new_frame KParen) (cur :: stk) eq_refl) by (cbn; split; [discriminate|exact Hk]).
      set (inner := nfr (Some ALP) A). cbn [C]. unfold frame_res at 1. cbn [fi fu new_frame].
      pose proof (POp_open inner) as Hop. destruct (PU inner) as [v r| |e].
      * destruct (starts_with_char ")" r).
        -- cbn [fk new_frame close_val].
           now rewrite (C_congr cur (push_operand v cur) stk _ _ (frame_res_operand cur _ _ _ Hop) eq_refl).
        -- now rewrite (C_bad cur stk _ (frame_res_operand_fail cur _ Hop)).
      * now rewrite (C_bad cur stk _ (frame_res_operand_fail cur _ Hop)).
      * now rewrite (C_exc cur stk _ e (frame_res_operand_exc cur _ e Hop)).
    + (* ) *)
      rewrite (nfr_head_no prev ARP A eq_refl). cbn [atext run]. rewrite close_frame_uni.
      unfold has_i in Hi. destruct (fi cur) as [i|] eqn:Efi.
      * assert (Hfr : frame_res cur (")" ++ nfr (Some ARP) A) = POk (uni (fu cur) i) (")" ++ nfr (Some ARP) A))
          by (now apply frame_res_stop).
        destruct stk as [|parent stk']; cbn [kinds_ok] in Hk.
        -- rewrite Hk. cbn [C]. now rewrite Hfr.
        -- destruct Hk as [Hk1 Hk2]. cbn [C]. rewrite Hfr. cbn [append starts_with_char Ascii.eqb Bool.eqb andb tail_str].
           destruct (fk cur) eqn:Ek; [congruence| |]; cbn [close_val].
           ++ apply IH; [reflexivity|exact Hk2].
           ++ destruct (inverse (uni (fu cur) i)) as [v'|e]; [|reflexivity]. apply IH; [reflexivity|exact Hk2].
      * assert (Hfr : frame_res cur (")" ++ nfr (Some ARP) A) = PFail).
        { apply frame_res_nooperand; [unfold has_i; now rewrite Efi|apply POp_rp]. }
        rewrite (C_bad cur stk _ (or_introl Hfr)).
        destruct (fk cur); try reflexivity; destruct stk; reflexivity.
    + (* : *)
      rewrite (nfr_head_no prev AColon A eq_refl). cbn [atext run]. rewrite close_frame_uni.
      unfold has_i in Hi. destruct (fi cur) as [i|] eqn:Efi.
      * rewrite (IH (Some AColon) (mkFrame (fk cur) (Some (uni (fu cur) i)) None) stk eq_refl Hk).
        set (rest := nfr (Some AColon) A).
        assert (Hl : frame_res cur (":" ++ rest) =
                     match PI rest with
                     | POk b r => UL (AOr (uni (fu cur) i) b) r
                     | PFail => POk (uni (fu cur) i) (":" ++ rest)
                     | PExc e => PExc e
                     end).
        { unfold frame_res. rewrite Efi, (IL_stop i (":" ++ rest) eq_refl). rewrite UL_eq.
          cbn [append starts_with_char Ascii.eqb Bool.eqb andb tail_str]. reflexivity. }
        assert (Hr : frame_res (mkFrame (fk cur) (Some (uni (fu cur) i)) None) rest =
                     match PI rest with
                     | POk b r => UL (AOr (uni (fu cur) i) b) r
                     | PFail => PFail
                     | PExc e => PExc e
                     end) by reflexivity.
        destruct (PI rest) as [b r| |e].
        -- apply C_congr; [now rewrite Hl, Hr|reflexivity].
        -- rewrite (C_bad _ stk rest (or_introl Hr)).
           symmetry. apply C_bad. right. rewrite Hl. eexists; eexists; eexists. split; reflexivity.
        -- now rewrite (C_exc _ stk _ e Hl), (C_exc _ stk _ e Hr).
      * symmetry. apply C_bad. left. apply frame_res_nooperand; [unfold has_i; now rewrite Efi|apply POp_colon].
Qed.

(* the PEG on the normal form of ANY written token sequence = the automaton on the tokens *)
Theorem peg_any_tokens ws : wf_written ws = true ->
  peg_start (normal_form ws) = parse_tokens (tokens_written ws).
Proof.
  intros Hwf. unfold parse_tokens, normal_form.
  rewrite (simulate _ _ (written_atoms ws Hwf) None (new_frame KTop) [] eq_refl eq_refl).
  cbn [C]. unfold frame_res. cbn [fi fu new_frame]. now rewrite peg_start_PU.
Qed.

Lemma strip_blanks t : strip (blanks t) = "".
Proof.
  unfold strip. replace (skip_blanks (blanks t)) with ""; [reflexivity|].
  rewrite <- (str_app_nil_r (blanks t)). now rewrite skip_blanks_blanks.
Qed.

(* UNBOUNDED: the two models agree on every string the lexer can tokenize *)
Theorem get_ast2_eq_lexable s : ~ In TBad (tokens_of s) -> get_ast2 s = get_ast s.
Proof.
  intros Hb. destruct (tokens_of_sound s Hb) as (ws & trail & Er & Hw & Ht). subst s.
  destruct ws as [|p ws'].
  - unfold get_ast. rewrite (tokens_of_render [] trail eq_refl).
    cbn [render]. unfold get_ast2, normalize2. rewrite strip_blanks. reflexivity.
  - rewrite (get_ast2_normal_form _ trail Hw) by discriminate.
    rewrite (peg_any_tokens _ Hw). unfold get_ast. now rewrite (tokens_of_render _ trail Hw).
Qed.
