(* C11 — parsing every admissible writing of an expression (string level):
   lexer round trip (LexProofs) + precedence printer/parser round trip (Proofs). *)
From Coq Require Import List NArith ZArith Bool Lia String Ascii.
From T4V Require Import Base.Str C11.Model C11.Spec C11.Proofs C11.LexProofs.
Import ListNotations.

(* every writing [ws] (any number of blanks in front of each token and at the
   end, any spelling of the numbers, optional '+', blanks after '#', no blank
   needed except between two literals and between #n and an unsigned literal)
   of the canonical token sequence of an admissible expression [e] is accepted
   and yields a tree denoting MCNP's meaning of [e] *)
Theorem parse_print_layout e ws trail :
  admissible e = true -> wf_written ws = true -> tokens_written ws = toks 0 e ->
  exists a, get_ast (render ws trail) = Ok a /\ sem e = Ok a /\
            forall cd sg, aden cd sg a = mden cd sg e.
Proof.
  intros Ha Hw Ht. destruct (parse_print e Ha) as (a & Ep & Es).
  destruct (parse_print_den e Ha) as (a' & Ep' & Da). rewrite Ep in Ep'. injection Ep' as <-.
  exists a. unfold get_ast. rewrite (tokens_of_render ws trail Hw), Ht. auto.
Qed.

(* the canonical writing *)
Theorem parse_print_canonical e :
  admissible e = true -> facets_ok e = true ->
  exists a, get_ast (print e) = Ok a /\ sem e = Ok a /\
            forall cd sg, aden cd sg a = mden cd sg e.
Proof.
  intros Ha Hf. unfold print.
  destruct (canon_written_ok (toks 0 e) (toks_printable e Hf 0)) as [W T].
  exact (parse_print_layout e _ 0 Ha W T).
Qed.

(* the layout family is inhabited for every expression with one-digit facets *)
Lemma layout_exists e : facets_ok e = true ->
  exists ws, wf_written ws = true /\ tokens_written ws = toks 0 e.
Proof.
  intros Hf. exists (canon_written (toks 0 e)). exact (canon_written_ok _ (toks_printable e Hf 0)).
Qed.

(* every writing of ANY expression: the result is [psem e], errors included *)
Theorem get_ast_render_psem e ws trail :
  wf_written ws = true -> tokens_written ws = toks 0 e -> get_ast (render ws trail) = psem e.
Proof.
  intros Hw Ht. unfold get_ast. rewrite (tokens_of_render ws trail Hw), Ht. apply parse_toks_psem.
Qed.

(* the written expressions the parser accepts are exactly those without a cell
   complement below #( ) *)
Theorem accepted_written_iff e ws trail :
  wf_written ws = true -> tokens_written ws = toks 0 e ->
  ((exists a, get_ast (render ws trail) = Ok a) <-> accepted e = true).
Proof. intros Hw Ht. rewrite (get_ast_render_psem e ws trail Hw Ht). apply psem_ok_iff. Qed.

Theorem nested_rejected_written e ws trail :
  wf_written ws = true -> tokens_written ws = toks 0 e ->
  no_cell_under_not e = false ->
  get_ast (render ws trail) = Err EAttribute.
Proof.
  intros Hw Ht Hc. unfold get_ast. rewrite (tokens_of_render ws trail Hw), Ht.
  now apply nested_rejected.
Qed.
