(* C11 — what MCNP means by a cell expression (manual, cell cards), written
   without looking at the converter. *)
From Coq Require Import List NArith ZArith Bool.
From T4V Require Import C11.Model.
Import ListNotations.

(* E ::= +-s | +-s.k | E E | E : E | #( E ) | #n | ( E ) *)
Inductive mexpr :=
| MLit (z : Z) (sub : option N)
| MAnd (a b : mexpr)
| MOr (a b : mexpr)
| MNot (e : mexpr)
| MNotCell (n : N)
| MParen (e : mexpr).             (* redundant parentheses *)

(* a point off the surfaces is, for the Boolean layer, its sense assignment:
   [sg s k = true] iff the point has positive sense w.r.t. surface s (facet k) *)
Definition sense := N -> option N -> bool.

Definition lit_den (sg : sense) (z : Z) (sub : option N) : bool :=
  if (0 <? z)%Z then sg (Z.abs_N z) sub else negb (sg (Z.abs_N z) sub).

(* cd n = "the point is in cell n" *)
Fixpoint mden (cd : N -> bool) (sg : sense) (e : mexpr) : bool :=
  match e with
  | MLit z sub => lit_den sg z sub
  | MAnd a b => mden cd sg a && mden cd sg b
  | MOr a b => mden cd sg a || mden cd sg b
  | MNot e => negb (mden cd sg e)
  | MNotCell n => negb (cd n)
  | MParen e => mden cd sg e
  end.

(* denotation of what the parser returns / what complement elimination returns *)
Fixpoint aden (cd : N -> bool) (sg : sense) (a : ast) : bool :=
  match a with
  | ASurf z sub => lit_den sg z sub
  | AAnd l r | ARawAnd l r => aden cd sg l && aden cd sg r
  | AOr l r => aden cd sg l || aden cd sg r
  | ACompl n => negb (cd n)
  end.

(* ---- token-level printer: the canonical way to write E ----
   level 0 = union, 1 = intersection, 2 = operand *)
Definition paren (b : bool) (ts : list token) : list token :=
  if b then TLP :: ts ++ [TRP] else ts.

Fixpoint toks (lvl : nat) (e : mexpr) : list token :=
  match e with
  | MLit z sub => [TLit z sub]
  | MNotCell n => [THashN n]
  | MNot e => THashP :: toks 0 e ++ [TRP]
  | MParen e => TLP :: toks 0 e ++ [TRP]
  | MAnd a b => paren (Nat.ltb 1 lvl) (toks 1 a ++ toks 2 b)
  | MOr a b => paren (Nat.ltb 0 lvl) (toks 0 a ++ TColon :: toks 1 b)
  end.

(* ---- guards (the defect class, see Proofs.v for the refutation) ---- *)
(* no #n anywhere below a #( ... ) *)
Fixpoint cell_free (e : mexpr) : bool :=
  match e with
  | MLit _ _ => true
  | MAnd a b | MOr a b => cell_free a && cell_free b
  | MNot e | MParen e => cell_free e
  | MNotCell _ => false
  end.
Fixpoint no_cell_under_not (e : mexpr) : bool :=
  match e with
  | MLit _ _ | MNotCell _ => true
  | MAnd a b | MOr a b => no_cell_under_not a && no_cell_under_not b
  | MNot e => cell_free e
  | MParen e => no_cell_under_not e
  end.

Fixpoint nonzero (e : mexpr) : bool :=
  match e with
  | MLit z _ => negb (z =? 0)%Z
  | MAnd a b | MOr a b => nonzero a && nonzero b
  | MNot e | MParen e => nonzero e
  | MNotCell _ => true
  end.

Definition admissible (e : mexpr) : bool := no_cell_under_not e && nonzero e.

(* ================================================================== *)
(* Written forms: "any spacing MCNP accepts".                          *)
(* A written expression is a sequence of written tokens, each with the *)
(* number of blanks in front of it; a written token fixes the spelling *)
(* (digit string incl. leading zeros, optional '+', blanks after '#'). *)
(* ================================================================== *)
From Coq Require Import String Ascii.
From T4V Require Import Base.Str.
Open Scope string_scope.

Inductive wtok :=
| WLit (neg plus : bool) (ds : string) (sub : option ascii)   (* [-|+]digits[.d] *)
| WHashN (gap : nat) (ds : string)                            (* # blanks digits *)
| WHashP (gap : nat)                                          (* # blanks (      *)
| WLP | WRP | WColon.

Fixpoint blanks (n : nat) : string :=
  match n with O => "" | S k => String " " (blanks k) end.

Definition sign_text (neg plus : bool) : string :=
  if neg then "-" else if plus then "+" else "".

Definition sub_text (sub : option ascii) : string :=
  match sub with Some d => String "." (String d "") | None => "" end.

Definition wtext (w : wtok) : string :=
  match w with
  | WLit neg plus ds sub => sign_text neg plus ++ ds ++ sub_text sub
  | WHashN g ds => String "#" (blanks g ++ ds)
  | WHashP g => String "#" (blanks g ++ "(")
  | WLP => "(" | WRP => ")" | WColon => ":"
  end.

Definition number (ds : string) : N := parse_digits ds 0%N.

(* the token a written token stands for *)
Definition tok_of (w : wtok) : token :=
  match w with
  | WLit neg _ ds sub =>
      TLit (if neg then (- Z.of_N (number ds))%Z else Z.of_N (number ds)) (option_map digit_val sub)
  | WHashN _ ds => THashN (number ds)
  | WHashP _ => THashP
  | WLP => TLP | WRP => TRP | WColon => TColon
  end.

Definition digits_ok (ds : string) : bool :=
  all_digits ds && match ds with EmptyString => false | _ => true end.

Definition wf_tok (w : wtok) : bool :=
  match w with
  | WLit _ _ ds sub => digits_ok ds && match sub with Some d => is_digit d | None => true end
  | WHashN _ ds => digits_ok ds
  | _ => true
  end.

Definition written := list (nat * wtok).

Fixpoint render (ws : written) (trail : nat) : string :=
  match ws with
  | [] => blanks trail
  | (g, w) :: r => blanks g ++ wtext w ++ render r trail
  end.

Definition tokens_written (ws : written) : list token := map (fun p => tok_of (snd p)) ws.

(* the only places where MCNP needs a blank: between two literals, and between
   #n and an unsigned literal (the digits would run together) *)
Definition next_is_lit (r : written) : bool :=
  match r with (O, WLit _ _ _ _) :: _ => true | _ => false end.
Definition next_is_bare_digit (r : written) : bool :=
  match r with (O, WLit false false _ _) :: _ => true | _ => false end.

Fixpoint wf_written (ws : written) : bool :=
  match ws with
  | [] => true
  | (_, w) :: r =>
      wf_tok w &&
      match w with
      | WLit _ _ _ _ => negb (next_is_lit r)
      | WHashN _ _ => negb (next_is_bare_digit r)
      | _ => true
      end && wf_written r
  end.

(* ---- the canonical writing of a token sequence: decimal numbers without
   leading zeros or '+', '#' glued to what follows, one blank between tokens ---- *)
Definition canon_tok (t : token) : wtok :=
  match t with
  | TLit z sub => WLit (z <? 0)%Z false (dec (Z.abs_N z)) (option_map digit_char sub)
  | THashN n => WHashN 0 (dec n)
  | THashP => WHashP 0
  | TLP => WLP | TRP => WRP | TColon => WColon
  | TBad => WColon
  end.

Definition canon_written (ts : list token) : written :=
  match ts with
  | [] => []
  | t :: r => (0, canon_tok t) :: map (fun t => (1, canon_tok t)) r
  end.

Definition print (e : mexpr) : string := render (canon_written (toks 0 e)) 0.

(* facet suffixes are one digit *)
Fixpoint facets_ok (e : mexpr) : bool :=
  match e with
  | MLit _ sub => match sub with Some k => (k <? 10)%N | None => true end
  | MAnd a b | MOr a b => facets_ok a && facets_ok b
  | MNot e | MParen e => facets_ok e
  | MNotCell _ => true
  end.
