(* C11 — what MCNP means by a cell expression (manual, cell cards), written
   without looking at the converter. *)
From Coq Require Import List NArith ZArith Bool.
From T4V Require Import C11.Model.
Import ListNotations.

(* E ::= +-s | +-s.k | E E | E : E | #( E ) | #n *)
Inductive mexpr :=
| MLit (z : Z) (sub : option N)
| MAnd (a b : mexpr)
| MOr (a b : mexpr)
| MNot (e : mexpr)
| MNotCell (n : N).

(* a point off the surfaces is, for the Boolean layer, its sense assignment:
   [sg s k = true] iff the point has positive sense w.r.t. surface s (facet k) *)
Definition sense := N -> option N -> bool.

Definition lit_den (sg : sense) (z : Z) (sub : option N) : bool :=
  if (0 <? z)%Z then sg (Z.abs_N z) sub else negb (sg (Z.abs_N z) sub).

(* cd n = "the point is in cell n" *)
Fixpoint mden (cd : N -> bool) (sg : sense) (e : mexpr) : bool :=
  match e with
  | MLit z sub => lit_den sg z sub
  | MAnd a b => mden cd sg a && mden cd sg b
  | MOr a b => mden cd sg a || mden cd sg b
  | MNot e => negb (mden cd sg e)
  | MNotCell n => negb (cd n)
  end.

(* denotation of what the parser returns / what complement elimination returns *)
Fixpoint aden (cd : N -> bool) (sg : sense) (a : ast) : bool :=
  match a with
  | ASurf z sub => lit_den sg z sub
  | AAnd l r | ARawAnd l r => aden cd sg l && aden cd sg r
  | AOr l r => aden cd sg l || aden cd sg r
  | ACompl n => negb (cd n)
  end.

(* ---- token-level printer: the canonical way to write E ----
   level 0 = union, 1 = intersection, 2 = operand *)
Definition paren (b : bool) (ts : list token) : list token :=
  if b then TLP :: ts ++ [TRP] else ts.

Fixpoint toks (lvl : nat) (e : mexpr) : list token :=
  match e with
  | MLit z sub => [TLit z sub]
  | MNotCell n => [THashN n]
  | MNot e => THashP :: toks 0 e ++ [TRP]
  | MAnd a b => paren (Nat.ltb 1 lvl) (toks 1 a ++ toks 2 b)
  | MOr a b => paren (Nat.ltb 0 lvl) (toks 0 a ++ TColon :: toks 1 b)
  end.

(* ---- guards (the two defect classes, see Proofs.v for the refutations) ---- *)
(* no #n anywhere below a #( ... ) *)
Fixpoint cell_free (e : mexpr) : bool :=
  match e with
  | MLit _ _ => true
  | MAnd a b | MOr a b => cell_free a && cell_free b
  | MNot e => cell_free e
  | MNotCell _ => false
  end.
Fixpoint no_cell_under_not (e : mexpr) : bool :=
  match e with
  | MLit _ _ | MNotCell _ => true
  | MAnd a b | MOr a b => no_cell_under_not a && no_cell_under_not b
  | MNot e => cell_free e
  end.

(* first token, at intersection level, is a complement *)
Fixpoint starts_hash (e : mexpr) : bool :=
  match e with
  | MLit _ _ => false
  | MNot _ | MNotCell _ => true
  | MAnd a _ => match a with MOr _ _ => false | _ => starts_hash a end
  | MOr _ _ => false     (* parenthesised at this level *)
  end.
(* no right operand of a ':' starts with a complement *)
Fixpoint no_colon_hash (e : mexpr) : bool :=
  match e with
  | MLit _ _ | MNotCell _ => true
  | MAnd a b => no_colon_hash a && no_colon_hash b
  | MOr a b => no_colon_hash a && no_colon_hash b && negb (starts_hash b)
  | MNot e => no_colon_hash e
  end.

Fixpoint nonzero (e : mexpr) : bool :=
  match e with
  | MLit z _ => negb (z =? 0)%Z
  | MAnd a b | MOr a b => nonzero a && nonzero b
  | MNot e => nonzero e
  | MNotCell _ => true
  end.

Definition admissible (e : mexpr) : bool := no_cell_under_not e && no_colon_hash e && nonzero e.
