(* C11 — comparison function for cellcard.split on all cards (LIKE branch through
   C15's model); kept apart from Exec.v so that the other generated files do not
   load C15 and the Reals library *)
From Coq Require Import List NArith ZArith Bool String Ascii.
From T4V Require Import Base.Str Base.Cases C11.Model C11.Exec.
From T4V Require C11.LinkC15.

Definition check_split_full (c : string * res (string * string)) : bool :=
  match LinkC15.split_card_full (fst c), snd c with
  | Ok (g, o), Ok (g', o') => String.eqb g g' && String.eqb o o'
  | Err x, Err y => err_eqb x y
  | _, _ => false
  end.
