(* C11 -> C01 hand-over: what complement elimination passes on to pot_flag.
   C01's model starts from trees made of ('*', l, r) / (':', l, r) nodes with
   Surface leaves (non-zero surface numbers); in this model's vocabulary:
     ASurf z sub  = leaf Surface(z, sub)        AAnd l r = ('*', l, r)
     AOr l r      = (':', l, r)                 ARawAnd l r = ['*', l, r] (a Python
   list instead of a tuple, built only for the complement of a lattice cell;
   isLeaf/pot_flag treat tuple and list alike)   ACompl n = ('^', Cell(n)). *)
From Coq Require Import List NArith ZArith Bool Lia.
From T4V Require Import C11.Model C11.Spec C11.Proofs C11.Pipeline C11.Loop.
Import ListNotations.

(* no '^' node anywhere *)
Fixpoint no_compl (a : ast) : bool :=
  match a with
  | ASurf _ _ => true
  | AAnd l r | AOr l r | ARawAnd l r => no_compl l && no_compl r
  | ACompl _ => false
  end.

Lemma plain_no_compl a : a_plain a = true -> no_compl a = true.
Proof.
  induction a as [z sub|l IHl r IHr|l IHl r IHr|n|l IHl r IHr]; cbn; intros H; try discriminate; auto;
    apply andb_prop in H; destruct H as [Hl Hr]; now rewrite IHl, IHr.
Qed.

Lemma inverse_ok_plain a t : inverse a = Ok t -> a_plain t = true.
Proof.
  intros H. destruct (a_plain a) eqn:P.
  - destruct (inverse_plain a P) as (t' & E & Pt & _). rewrite E in H. now injection H as <-.
  - rewrite (inverse_not_plain a P) in H. discriminate.
Qed.

(* UNCONDITIONAL: whatever the table (cyclic, dangling, lattice cells ...) and
   the fuel, when pot_complement returns a tree, the tree has no '^' node *)
Theorem pot_complement_no_compl cells : forall f a t,
  pot_complement f cells a = Ok t -> no_compl t = true.
Proof.
  induction f as [|f IH]; intros a t H; [discriminate|].
  destruct a as [z sub|l r|l r|n|l r]; cbn [pot_complement] in H.
  - now injection H as <-.
  - destruct (pot_complement f cells l) as [l'|] eqn:El; [|discriminate].
    destruct (pot_complement f cells r) as [r'|] eqn:Er; [|discriminate]. injection H as <-.
    cbn. now rewrite (IH _ _ El), (IH _ _ Er).
  - destruct (pot_complement f cells l) as [l'|] eqn:El; [|discriminate].
    destruct (pot_complement f cells r) as [r'|] eqn:Er; [|discriminate]. injection H as <-.
    cbn. now rewrite (IH _ _ El), (IH _ _ Er).
  - destruct (cells n) as [c|]; [|discriminate]. destruct (c_lattice c).
    + destruct (first_surface (c_geom c)) as [[z sub| | | |]|]; try discriminate. now injection H as <-.
    + destruct (pot_complement f cells (c_geom c)) as [g|]; [|discriminate].
      apply plain_no_compl. exact (inverse_ok_plain g t H).
  - destruct (pot_complement f cells l) as [l'|] eqn:El; [|discriminate].
    destruct (pot_complement f cells r) as [r'|] eqn:Er; [|discriminate]. injection H as <-.
    cbn. now rewrite (IH _ _ El), (IH _ _ Er).
Qed.

(* the loop: when it completes, no cell of the dictionary has a '^' left *)
Lemma eliminate_loop_no_compl f : forall order tbl tbl' (done : N -> Prop),
  eliminate_loop f order tbl = Ok tbl' ->
  (forall n c, done n -> lookup tbl n = Some c -> no_compl (c_geom c) = true) ->
  forall n c', done n \/ In n order -> lookup tbl' n = Some c' -> no_compl (c_geom c') = true.
Proof.
  induction order as [|k rest IH]; intros tbl tbl' done H Hdone n c' Hn Hc'.
  - cbn in H. injection H as <-. destruct Hn as [Hn|[]]. exact (Hdone n c' Hn Hc').
  - cbn [eliminate_loop] in H. destruct (lookup tbl k) as [c|] eqn:Ek; [|discriminate].
    destruct (pot_complement f (lookup tbl) (c_geom c)) as [g|] eqn:Eg; [|discriminate].
    refine (IH (update tbl k g) tbl' (fun m => done m \/ m = k) H _ n c' _ Hc').
    + intros m cm Hm Hcm. destruct (N.eq_dec m k) as [->|Hne].
      * rewrite (lookup_update_same tbl k g c Ek) in Hcm. injection Hcm as <-. cbn [c_geom].
        exact (pot_complement_no_compl _ _ _ _ Eg).
      * rewrite lookup_update_other in Hcm by assumption. destruct Hm as [Hm|Hm]; [|contradiction].
        exact (Hdone m cm Hm Hcm).
    + cbn [In] in Hn. destruct Hn as [Hn|[Hn|Hn]]; auto.
Qed.

Lemma lookup_update_some tbl k g n c' : lookup (update tbl k g) n = Some c' -> exists c, lookup tbl n = Some c.
Proof.
  intros H. destruct (lookup tbl n) as [c|] eqn:E; [eauto|].
  rewrite (lookup_update_none tbl k g n E) in H. discriminate.
Qed.

Lemma eliminate_loop_keys f : forall order tbl tbl' n c',
  eliminate_loop f order tbl = Ok tbl' -> lookup tbl' n = Some c' -> exists c, lookup tbl n = Some c.
Proof.
  induction order as [|k rest IH]; intros tbl tbl' n c' H Hc'.
  - cbn in H. injection H as <-. eauto.
  - cbn [eliminate_loop] in H. destruct (lookup tbl k) as [c|] eqn:Ek; [|discriminate].
    destruct (pot_complement f (lookup tbl) (c_geom c)) as [g|] eqn:Eg; [|discriminate].
    destruct (IH _ _ _ _ H Hc') as [c1 E1]. exact (lookup_update_some tbl k g n c1 E1).
Qed.

Theorem eliminate_all_no_compl f tbl tbl' : eliminate_all f tbl = Ok tbl' ->
  forall n c', lookup tbl' n = Some c' -> no_compl (c_geom c') = true.
Proof.
  intros H n c' Hc'. unfold eliminate_all in H.
  destruct (eliminate_loop_keys f _ _ _ n c' H Hc') as [c Ec].
  refine (eliminate_loop_no_compl f (map fst tbl) tbl tbl' (fun _ => False) H _ n c' _ Hc').
  - intros m cm [].
  - right. exact (lookup_in tbl n c Ec).
Qed.
