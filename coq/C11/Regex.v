(* C11 — a second, code-shaped model of get_ast:
     normalize2 : string -> string   the eight re.sub calls of
                  MIP/geom/parsegeom.py normalize(), one explicit rewriting
                  function per regular expression, in the code's order;
     peg_start  : string -> res ast  the character-level PEG of geom.ebnf with
                  GeomSemantics as semantic actions;
     get_ast2 s = peg_start (normalize2 s).
   Every step is tied to its regex / to the PEG on all short strings (incl. the
   private characters ^ _ * that only occur between the steps); RegexProofs.v
   proves get_ast2 = get_ast (the lexer + automaton model) on a bounded domain.
   Whitespace is the blank only (cellcard content() collapses all whitespace). *)
From Coq Require Import List NArith ZArith Bool String Ascii.
From T4V Require Import Base.Str C11.Model.
Import ListNotations.
Open Scope string_scope.

Definition is_c (x : ascii) (c : ascii) : bool := Ascii.eqb c x.

Fixpoint all_blank (s : string) : bool :=
  match s with EmptyString => true | String c r => is_blank c && all_blank r end.

Fixpoint rstrip (s : string) : string :=
  match s with
  | EmptyString => EmptyString
  | String c r => if all_blank s then EmptyString else String c (rstrip r)
  end.

Definition strip (s : string) : string := rstrip (skip_blanks s).

(* longest prefix of digits as a string *)
Fixpoint span_ds (s : string) : string * string :=
  match s with
  | String c r => if is_digit c then let '(a, b) := span_ds r in (String c a, b) else ("", s)
  | EmptyString => ("", "")
  end.

(* re_compl_cell = '#\s*(\d+)'  ->  ' ^(\1)' *)
Fixpoint sub_compl_cell (f : nat) (s : string) : string :=
  match f, s with
  | O, _ => s
  | _, EmptyString => EmptyString
  | S f', String c r =>
      if is_c "#" c then
        match span_ds (skip_blanks r) with
        | (EmptyString, _) => String c (sub_compl_cell f' r)
        | (ds, rest) => " ^(" ++ ds ++ ")" ++ sub_compl_cell f' rest
        end
      else String c (sub_compl_cell f' r)
  end.

(* re_compl_surf = '#\s*\('  ->  ' _(' *)
Fixpoint sub_compl_surf (f : nat) (s : string) : string :=
  match f, s with
  | O, _ => s
  | _, EmptyString => EmptyString
  | S f', String c r =>
      if is_c "#" c && starts_with_char "(" (skip_blanks r)
      then " _(" ++ sub_compl_surf f' (tail_str (skip_blanks r))
      else String c (sub_compl_surf f' r)
  end.

(* re_union = '\s*:\s*'  ->  ':' *)
Fixpoint sub_union (f : nat) (s : string) : string :=
  match f, s with
  | O, _ => s
  | _, EmptyString => EmptyString
  | S f', String c r =>
      if starts_with_char ":" (skip_blanks s)
      then String ":" (sub_union f' (skip_blanks (tail_str (skip_blanks s))))
      else String c (sub_union f' r)
  end.

(* re_pareno = '\(\s*'  ->  '(' *)
Fixpoint sub_pareno (f : nat) (s : string) : string :=
  match f, s with
  | O, _ => s
  | _, EmptyString => EmptyString
  | S f', String c r =>
      if is_c "(" c then String c (sub_pareno f' (skip_blanks r)) else String c (sub_pareno f' r)
  end.

(* re_parenc = '\s*\)'  ->  ')' *)
Fixpoint sub_parenc (f : nat) (s : string) : string :=
  match f, s with
  | O, _ => s
  | _, EmptyString => EmptyString
  | S f', String c r =>
      if starts_with_char ")" (skip_blanks s)
      then String ")" (sub_parenc f' (tail_str (skip_blanks s)))
      else String c (sub_parenc f' r)
  end.

(* the character classes [^\(:^_] and [^\):^_] *)
Definition not_in4 (a b c d x : ascii) : bool :=
  negb (Ascii.eqb x a || Ascii.eqb x b || Ascii.eqb x c || Ascii.eqb x d).

(* re_pareno_before = '([^\(:^_])\('  ->  '\1 (' *)
Fixpoint sub_pareno_before (s : string) : string :=
  match s with
  | EmptyString => EmptyString
  | String c r =>
      match r with
      | String d r2 =>
          if not_in4 "(" ":" "^" "_" c && is_c "(" d
          then String c (String " " (String "(" (sub_pareno_before r2)))
          else String c (sub_pareno_before r)
      | EmptyString => s
      end
  end.

(* re_parenc_after = '\)([^\):^_])'  ->  ') \1' *)
Fixpoint sub_parenc_after (s : string) : string :=
  match s with
  | EmptyString => EmptyString
  | String c r =>
      match r with
      | String d r2 =>
          if is_c ")" c && not_in4 ")" ":" "^" "_" d
          then String ")" (String " " (String d (sub_parenc_after r2)))
          else String c (sub_parenc_after r)
      | EmptyString => s
      end
  end.

(* re_spaces = '\s+'  ->  '*' *)
Fixpoint sub_spaces (f : nat) (s : string) : string :=
  match f, s with
  | O, _ => s
  | _, EmptyString => EmptyString
  | S f', String c r =>
      if is_blank c then String "*" (sub_spaces f' (skip_blanks r)) else String c (sub_spaces f' r)
  end.

Definition fl (s : string) : nat := S (String.length s).

Definition normalize2 (geom : string) : string :=
  let g := strip geom in
  let g := sub_compl_cell (fl g) g in
  let g := sub_compl_surf (fl g) g in
  let g := sub_union (fl g) g in
  let g := sub_pareno (fl g) g in
  let g := sub_parenc (fl g) g in
  let g := sub_pareno_before g in
  let g := sub_parenc_after g in
  let g := strip g in
  sub_spaces (fl g) g.

(* ---- the PEG of geom.ebnf, character level ---- *)
Inductive pres := POk (a : ast) (rest : string) | PFail | PExc (e : err).

(* surface = /[-+]{0,1}\d+(?:\.\d)?/  with GeomSemantics.surface *)
Definition p_surface (s : string) : option (ast * string) :=
  let '(neg, body) :=
    match s with
    | String c r => if is_c "-" c then (true, r) else if is_c "+" c then (false, r) else (false, s)
    | EmptyString => (false, s)
    end in
  match span_ds body with
  | (EmptyString, _) => None
  | (ds, rest) =>
      let v := Z.of_N (parse_digits ds 0%N) in
      let z := if neg then (- v)%Z else v in
      match rest with
      | String c1 (String d r2) =>
          if is_c "." c1 && is_digit d then Some (ASurf z (Some (digit_val d)), r2)
          else Some (ASurf z None, rest)
      | _ => Some (ASurf z None, rest)
      end
  end.

Section Operand.
  Variable rec : string -> pres.     (* the union parser with less fuel *)

  (* expects ')' after what [rec] parsed *)
  Definition p_closed (s : string) (k : ast -> string -> pres) : pres :=
    match rec s with
    | POk v r => if starts_with_char ")" r then k v (tail_str r) else PFail
    | PFail => PFail
    | PExc e => PExc e
    end.

  (* operand = cell | surface | '_(' compl ')' | '(' union ')' | '^(' complcell ')'
     (the [cell] alternative /_\d+/ needs the private character '_' in the
     input and is left out: normalize never produces '_' before a digit) *)
  Definition p_operand (s : string) : pres :=
    match p_surface s with
    | Some (a, r) => POk a r
    | None =>
        match s with
        | String c (String d r) =>
            if is_c "_" c && is_c "(" d then
              p_closed r (fun v r' => match inverse v with Ok v' => POk v' r' | Err e => PExc e end)
            else if is_c "(" c then p_closed (String d r) (fun v r' => POk v r')
            else if is_c "^" c && is_c "(" d then
              match span_ds r with
              | (EmptyString, _) => PFail
              | (ds, r') => if starts_with_char ")" r' then POk (ACompl (parse_digits ds 0%N)) (tail_str r')
                            else PFail
              end
            else PFail
        | _ => PFail
        end
    end.

  (* isect = isect '*' operand | operand  (left recursion = iteration) *)
  Fixpoint isect_loop (n : nat) (a : ast) (s : string) : pres :=
    match n with
    | O => POk a s
    | S n' =>
        if starts_with_char "*" s then
          match p_operand (tail_str s) with
          | POk b r => isect_loop n' (AAnd a b) r
          | PFail => POk a s
          | PExc e => PExc e
          end
        else POk a s
    end.

  Definition p_isect (n : nat) (s : string) : pres :=
    match p_operand s with POk a r => isect_loop n a r | x => x end.

  (* union = union ':' isect | isect *)
  Fixpoint union_loop (n : nat) (a : ast) (s : string) : pres :=
    match n with
    | O => POk a s
    | S n' =>
        if starts_with_char ":" s then
          match p_isect n (tail_str s) with
          | POk b r => union_loop n' (AOr a b) r
          | PFail => POk a s
          | PExc e => PExc e
          end
        else POk a s
    end.

  Definition p_union_body (n : nat) (s : string) : pres :=
    match p_isect n s with POk a r => union_loop n a r | x => x end.
End Operand.

Fixpoint p_union (f : nat) (s : string) : pres :=
  match f with
  | O => PExc EFuel
  | S f' => p_union_body (p_union f') (String.length s) s
  end.

(* start = union $ *)
Definition peg_start (s : string) : res ast :=
  match p_union (fl s) s with
  | POk a EmptyString => Ok a
  | POk _ _ => Err EParse
  | PFail => Err EParse
  | PExc e => Err e
  end.

Definition get_ast2 (s : string) : res ast := peg_start (normalize2 s).
