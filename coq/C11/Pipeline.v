(* C11 — parsing followed by complement elimination, against MCNP's meaning of
   a whole table of cells (the property end to end, at model level). *)
From Coq Require Import List NArith ZArith Bool Lia String Ascii.
From T4V Require Import Base.Str C11.Model C11.Spec C11.Proofs C11.LexProofs C11.Layout.
Import ListNotations.

(* every #m of [e] satisfies P *)
Fixpoint mrefs (P : N -> Prop) (e : mexpr) : Prop :=
  match e with
  | MLit _ _ => True
  | MAnd a b | MOr a b => mrefs P a /\ mrefs P b
  | MNot e | MParen e => mrefs P e
  | MNotCell m => P m
  end.

Lemma plain_refs_below cells rk k a : a_plain a = true -> refs_below cells rk k a.
Proof.
  induction a as [z sub|l IHl r IHr|l IHl r IHr|n|l IHl r IHr]; cbn [a_plain refs_below]; intros H;
    try discriminate; auto; apply andb_prop in H; destruct H; split; auto.
Qed.

(* what GeomSemantics returns for an admissible expression: non-zero literals,
   the same cell references, MCNP's denotation *)
Lemma sem_facts e : no_cell_under_not e = true -> nonzero e = true ->
  exists v, sem e = Ok v /\ a_nonzero v = true /\
    (forall cd sg, aden cd sg v = mden cd sg e) /\
    (forall cells rk k,
       mrefs (fun m => exists c, cells m = Some c /\ c_lattice c = false /\ rk m < k) e ->
       refs_below cells rk k v).
Proof.
  induction e as [z sub|a IHa b IHb|a IHa b IHb|e IHe|n|p IHp]; cbn [no_cell_under_not nonzero]; intros Hc Hn.
  - exists (ASurf z sub). repeat split; auto.
  - apply andb_prop in Hc. destruct Hc as [Ca Cb]. apply andb_prop in Hn. destruct Hn as [Na Nb].
    destruct (IHa Ca Na) as (va & Ea & Za & Da & Ra). destruct (IHb Cb Nb) as (vb & Eb & Zb & Db & Rb).
    exists (AAnd va vb). cbn [sem]. rewrite Ea, Eb. split; [reflexivity|split; [|split]].
    + cbn. now rewrite Za, Zb.
    + intros cd sg. cbn. now rewrite Da, Db.
    + intros cells rk k [Ha Hb]. cbn. split; [apply Ra|apply Rb]; assumption.
  - apply andb_prop in Hc. destruct Hc as [Ca Cb]. apply andb_prop in Hn. destruct Hn as [Na Nb].
    destruct (IHa Ca Na) as (va & Ea & Za & Da & Ra). destruct (IHb Cb Nb) as (vb & Eb & Zb & Db & Rb).
    exists (AOr va vb). cbn [sem]. rewrite Ea, Eb. split; [reflexivity|split; [|split]].
    + cbn. now rewrite Za, Zb.
    + intros cd sg. cbn. now rewrite Da, Db.
    + intros cells rk k [Ha Hb]. cbn. split; [apply Ra|apply Rb]; assumption.
  - destruct (sem_cell_free e Hc Hn) as (ve & Ee & Pe & Ze & De).
    destruct (inverse_plain ve Pe) as (v & Ei & Pi & Di). destruct (Di Ze) as [Zi Deni].
    exists v. cbn [sem]. rewrite Ee. repeat split; auto.
    + intros cd sg. cbn [mden]. now rewrite Deni, De.
    + intros cells rk k _. now apply plain_refs_below.
  - exists (ACompl n). repeat split; auto.
  - destruct (IHp Hc Hn) as (v & Ev & Zv & Dv & Rv). exists v. cbn [sem mden mrefs]. auto.
Qed.

(* A table of MCNP cells: number -> expression.  [cells] is what the
   converter holds after parsing them (none is a lattice cell). *)
Definition parsed_table (mc : N -> option mexpr) (cells : N -> option cell) : Prop :=
  forall n, match mc n with
            | Some e => admissible e = true /\
                        exists a, sem e = Ok a /\ cells n = Some (mkCell a false)
            | None => cells n = None
            end.

(* each cell only complements cells of smaller rank *)
Definition table_ranked (mc : N -> option mexpr) (rk : N -> nat) : Prop :=
  forall n e, mc n = Some e -> mrefs (fun m => (exists e', mc m = Some e') /\ rk m < rk n) e.

(* MCNP: the point (sense assignment sg) is in cell n iff its expression holds *)
Definition mcnp_meaning (mc : N -> option mexpr) (sg : sense) (cd : N -> bool) : Prop :=
  forall n e, mc n = Some e -> cd n = mden cd sg e.

Lemma mrefs_impl (P Q : N -> Prop) e : (forall m, P m -> Q m) -> mrefs P e -> mrefs Q e.
Proof.
  intros H. induction e as [z sub|a IHa b IHb|a IHa b IHb|e IHe|n|p IHp]; cbn [mrefs]; auto; intros [? ?]; split; auto.
Qed.

Lemma admissible_parts e : admissible e = true ->
  no_cell_under_not e = true /\ True /\ nonzero e = true.
Proof.
  unfold admissible. intros H. apply andb_prop in H. destruct H as [Hc Hn]. auto.
Qed.

Lemma parsed_table_ok mc cells rk : parsed_table mc cells -> table_ranked mc rk -> table_ok cells rk.
Proof.
  intros Hp Hr n c Hc. pose proof (Hp n) as Hpn. destruct (mc n) as [e|] eqn:En; [|congruence].
  destruct Hpn as (Ha & a & Es & Ec). rewrite Ec in Hc. injection Hc as <-. cbn [c_geom].
  destruct (admissible_parts e Ha) as (H1 & _ & H3).
  destruct (sem_facts e H1 H3) as (v & Ev & Zv & _ & Rv). rewrite Ev in Es. injection Es as <-.
  split; [|exact Zv]. apply Rv. eapply mrefs_impl; [|exact (Hr n e En)].
  intros m [[e' Em] Hlt]. pose proof (Hp m) as Hpm. rewrite Em in Hpm. destruct Hpm as (_ & a' & _ & Ec').
  exists (mkCell a' false). auto.
Qed.

Lemma parsed_table_meaning mc cells sg cd :
  parsed_table mc cells -> mcnp_meaning mc sg cd -> cells_meaning cells sg cd.
Proof.
  intros Hp Hm n c Hc. specialize (Hp n). destruct (mc n) as [e|] eqn:En; [|congruence].
  destruct Hp as (Ha & a & Es & Ec). rewrite Ec in Hc. injection Hc as <-. cbn [c_geom].
  destruct (admissible_parts e Ha) as (H1 & _ & H3).
  destruct (sem_facts e H1 H3) as (v & Ev & _ & Dv & _). rewrite Ev in Es. injection Es as <-.
  rewrite Dv. apply Hm. exact En.
Qed.

(* The property, end to end on the model: take any table of admissible MCNP
   cells whose complements are well founded, and any admissible expression [e]
   referring to cells of the table, written in any layout of the family.  The
   text is accepted; complement elimination terminates (for every fuel above
   some bound) with a complement-free tree; and for EVERY sense assignment that
   tree holds exactly where MCNP says the expression holds. *)
Theorem pipeline mc cells rk e ws trail k :
  parsed_table mc cells -> table_ranked mc rk ->
  admissible e = true -> mrefs (fun m => (exists e', mc m = Some e') /\ rk m < k) e ->
  wf_written ws = true -> tokens_written ws = toks 0 e ->
  exists a F t, get_ast (render ws trail) = Ok a /\
    (forall f, F <= f -> pot_complement f cells a = Ok t) /\ a_plain t = true /\
    forall sg cd, mcnp_meaning mc sg cd -> aden cd sg t = mden cd sg e.
Proof.
  intros Hp Hr Ha Hrefs Hw Ht.
  destruct (parse_print_layout e ws trail Ha Hw Ht) as (a & Eg & Es & Da).
  destruct (admissible_parts e Ha) as (H1 & _ & H3).
  destruct (sem_facts e H1 H3) as (v & Ev & Zv & _ & Rv). rewrite Ev in Es. injection Es as <-.
  assert (Hrb : refs_below cells rk k v).
  { apply Rv. eapply mrefs_impl; [|exact Hrefs].
    intros m [[e' Em] Hlt]. pose proof (Hp m) as Hpm. rewrite Em in Hpm. destruct Hpm as (_ & a' & _ & Ec').
    exists (mkCell a' false). auto. }
  destruct (pot_complement_sound cells rk (parsed_table_ok mc cells rk Hp Hr) k v Hrb Zv)
    as (F & t & Ef & Pt & _ & Dt).
  exists v, F, t. repeat split; auto.
  intros sg cd Hm. rewrite (Dt sg cd (parsed_table_meaning mc cells sg cd Hp Hm)). apply Da.
Qed.
