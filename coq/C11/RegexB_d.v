(* C11 — shard of the bounded equality get_ast2 = get_ast: all strings of length <= 6
   over "123-#(): ." that start with "." (111 111 strings, by computation) *)
From Coq Require Import List String Ascii Bool.
From T4V Require Import C11.Model C11.Exec C11.Regex C11.RegexProofs.
Import ListNotations.
Lemma shard : forallb (fun t => models_agree (String "."%char t)) (strings_upto alpha3 5) = true.
Proof. vm_compute. reflexivity. Qed.
