(* C11 — the in-place complement elimination loop over the whole cell table *)
From Coq Require Import List NArith ZArith Bool Lia.
From T4V Require Import C11.Model C11.Spec C11.Proofs C11.Pipeline.
Import ListNotations.

Lemma lookup_update_same tbl n g c : lookup tbl n = Some c ->
  lookup (update tbl n g) n = Some (mkCell g (c_lattice c)).
Proof.
  unfold lookup, update. induction tbl as [|[k ck] tbl IH]; cbn [find map fst snd]; [discriminate|].
  destruct (N.eqb k n) eqn:E.
  - intros H. injection H as <-. cbn [find fst snd]. now rewrite E.
  - intros H. cbn [find fst snd]. rewrite E. now apply IH.
Qed.

Lemma lookup_update_other tbl n g m : m <> n -> lookup (update tbl n g) m = lookup tbl m.
Proof.
  intros Hne. unfold lookup, update. induction tbl as [|[k ck] tbl IH]; cbn [find map fst snd]; [reflexivity|].
  destruct (N.eqb k n) eqn:E.
  - cbn [find fst snd]. destruct (N.eqb k m) eqn:E2.
    + apply N.eqb_eq in E. apply N.eqb_eq in E2. congruence.
    + exact IH.
  - cbn [find fst snd]. destruct (N.eqb k m); [reflexivity|exact IH].
Qed.

Lemma lookup_update_none tbl n g m : lookup tbl m = None -> lookup (update tbl n g) m = None.
Proof.
  intros H. destruct (N.eq_dec m n) as [->|Hne].
  - unfold lookup, update in *. induction tbl as [|[k ck] tbl IH]; cbn [find map fst snd] in *; [reflexivity|].
    destruct (N.eqb k n) eqn:E; [discriminate|]. cbn [find fst snd]. rewrite E. now apply IH.
  - now rewrite lookup_update_other.
Qed.

Lemma lookup_in tbl n c : lookup tbl n = Some c -> In n (map fst tbl).
Proof.
  unfold lookup. induction tbl as [|[k ck] tbl IH]; cbn [find map fst snd]; [discriminate|].
  destruct (N.eqb k n) eqn:E; [apply N.eqb_eq in E; now left|]. intros H. right. now apply IH.
Qed.

Lemma refs_below_update tbl rk n g k a :
  refs_below (lookup tbl) rk k a -> refs_below (lookup (update tbl n g)) rk k a.
Proof.
  induction a as [z sub|l IHl r IHr|l IHl r IHr|m|l IHl r IHr]; cbn [refs_below]; auto;
    try (intros [? ?]; split; auto).
  intros (c & Hc & Hl & Hlt). destruct (N.eq_dec m n) as [->|Hne].
  - exists (mkCell g (c_lattice c)). rewrite (lookup_update_same tbl n g c Hc). auto.
  - exists c. rewrite lookup_update_other by assumption. auto.
Qed.

Lemma table_ok_update tbl rk n g : table_ok (lookup tbl) rk ->
  a_plain g = true -> a_nonzero g = true -> table_ok (lookup (update tbl n g)) rk.
Proof.
  intros Hok Hp Hz m c Hc. destruct (N.eq_dec m n) as [->|Hne].
  - destruct (lookup tbl n) as [c0|] eqn:E0.
    + rewrite (lookup_update_same tbl n g c0 E0) in Hc. injection Hc as <-. cbn [c_geom].
      split; [now apply plain_refs_below|exact Hz].
    + rewrite (lookup_update_none tbl n g n E0) in Hc. discriminate.
  - rewrite lookup_update_other in Hc by assumption. destruct (Hok m c Hc) as [Hr Hn].
    split; [now apply refs_below_update|exact Hn].
Qed.

Lemma meaning_update tbl n g c sg cd : cells_meaning (lookup tbl) sg cd ->
  lookup tbl n = Some c -> aden cd sg g = aden cd sg (c_geom c) ->
  cells_meaning (lookup (update tbl n g)) sg cd.
Proof.
  intros Hm Hc Hg m c' Hc'. destruct (N.eq_dec m n) as [->|Hne].
  - rewrite (lookup_update_same tbl n g c Hc) in Hc'. injection Hc' as <-. cbn [c_geom].
    rewrite Hg. now apply Hm.
  - rewrite lookup_update_other in Hc' by assumption. now apply Hm.
Qed.

(* [done]: cells whose geometry is already complement-free *)
Lemma eliminate_loop_sound rk : forall order tbl (done : N -> Prop),
  table_ok (lookup tbl) rk ->
  (forall n, In n order -> lookup tbl n <> None) ->
  (forall n, done n -> exists c, lookup tbl n = Some c /\ a_plain (c_geom c) = true) ->
  exists F tbl', (forall f, F <= f -> eliminate_loop f order tbl = Ok tbl') /\
    (forall sg cd, cells_meaning (lookup tbl) sg cd -> cells_meaning (lookup tbl') sg cd) /\
    (forall n, lookup tbl n <> None -> lookup tbl' n <> None) /\
    (forall n, done n \/ In n order ->
       exists c', lookup tbl' n = Some c' /\ a_plain (c_geom c') = true) /\
    table_ok (lookup tbl') rk.
Proof.
  induction order as [|n rest IH]; intros tbl done Hok Hin Hdone.
  - exists 0, tbl. split; [reflexivity|]. split; [auto|]. split; [auto|]. split; [|exact Hok].
    intros n [H|[]]. now apply Hdone.
  - destruct (lookup tbl n) as [c|] eqn:Ec; [|exfalso; apply (Hin n); [now left|exact Ec]].
    destruct (Hok n c Ec) as [Hrefs Hnz].
    destruct (pot_complement_sound (lookup tbl) rk Hok (rk n) (c_geom c) Hrefs Hnz)
      as (F1 & g & Eg & Pg & Zg & Dg).
    set (tbl1 := update tbl n g).
    assert (Hok1 : table_ok (lookup tbl1) rk) by (now apply table_ok_update).
    assert (Hin1 : forall m, In m rest -> lookup tbl1 m <> None).
    { intros m Hm. destruct (N.eq_dec m n) as [->|Hne].
      - unfold tbl1. rewrite (lookup_update_same tbl n g c Ec). discriminate.
      - unfold tbl1. rewrite lookup_update_other by assumption. apply Hin. now right. }
    assert (Hdone1 : forall m, (done m \/ m = n) ->
                     exists c1, lookup tbl1 m = Some c1 /\ a_plain (c_geom c1) = true).
    { intros m Hm. destruct (N.eq_dec m n) as [->|Hne].
      - exists (mkCell g (c_lattice c)). unfold tbl1. rewrite (lookup_update_same tbl n g c Ec). auto.
      - destruct Hm as [Hm|Hm]; [|contradiction]. destruct (Hdone m Hm) as (c1 & E1 & P1).
        exists c1. unfold tbl1. rewrite lookup_update_other by assumption. auto. }
    destruct (IH tbl1 (fun m => done m \/ m = n) Hok1 Hin1 Hdone1) as (F2 & tbl' & E2 & M2 & K2 & P2 & T2).
    exists (Nat.max F1 F2), tbl'. split; [|split; [|split; [|split; [|exact T2]]]].
    + intros f Hf. cbn [eliminate_loop]. rewrite Ec. rewrite Eg by lia. apply E2. lia.
    + intros sg cd Hm. apply M2. apply (meaning_update tbl n g c sg cd Hm Ec). now apply Dg.
    + intros m Hm. apply K2. destruct (N.eq_dec m n) as [->|Hne].
      * unfold tbl1. rewrite (lookup_update_same tbl n g c Ec). discriminate.
      * unfold tbl1. now rewrite lookup_update_other.
    + intros m [Hm|[Hm|Hm]]; apply P2; auto.
Qed.

(* the loop over the whole dictionary: terminates (every fuel above a bound),
   leaves every cell complement-free, and each new geometry holds exactly where
   the cell's MCNP expression holds, for every sense assignment *)
Theorem eliminate_all_den tbl rk : table_ok (lookup tbl) rk ->
  exists F tbl', (forall f, F <= f -> eliminate_all f tbl = Ok tbl') /\
    forall n c, lookup tbl n = Some c ->
      exists c', lookup tbl' n = Some c' /\ a_plain (c_geom c') = true /\
        a_nonzero (c_geom c') = true /\
        forall sg cd, cells_meaning (lookup tbl) sg cd ->
          aden cd sg (c_geom c') = aden cd sg (c_geom c).
Proof.
  intros Hok.
  destruct (eliminate_loop_sound rk (map fst tbl) tbl (fun _ => False) Hok) as (F & tbl' & E & M & K & P & T).
  - intros n Hn Hnone. unfold lookup in Hnone.
    destruct (find (fun p => N.eqb (fst p) n) tbl) as [p|] eqn:Ef; [discriminate|].
    apply in_map_iff in Hn. destruct Hn as ([k ck] & Hk & Hin). cbn in Hk. subst k.
    pose proof (find_none _ _ Ef _ Hin) as Hc. cbn in Hc. rewrite N.eqb_refl in Hc. discriminate.
  - intros n [].
  - exists F, tbl'. split; [exact E|]. intros n c Hc.
    destruct (P n (or_intror (lookup_in tbl n c Hc))) as (c' & Ec' & Pc').
    exists c'. split; [exact Ec'|]. split; [exact Pc'|]. split; [exact (proj2 (T n c' Ec'))|]. intros sg cd Hm.
    rewrite <- (M sg cd Hm n c' Ec'). exact (Hm n c Hc).
Qed.
