(* C11 — the lexer reads every admissible writing of a token sequence back to
   that sequence: [tokens_of (render ws trail) = tokens_written ws]. *)
From Coq Require Import List NArith ZArith Bool Lia String Ascii.
From T4V Require Import Base.Str C11.Model C11.Spec.
Import ListNotations.
Open Scope string_scope.

(* ---- strings ---- *)
Lemma str_length_app (s t : string) : String.length (s ++ t) = String.length s + String.length t.
Proof. induction s as [|c s IH]; cbn; [reflexivity|now rewrite IH]. Qed.

Lemma str_app_assoc (s t u : string) : (s ++ t) ++ u = s ++ (t ++ u).
Proof. induction s as [|c s IH]; cbn; [reflexivity|now rewrite IH]. Qed.

Lemma str_app_nil_r (s : string) : s ++ "" = s.
Proof. induction s as [|c s IH]; cbn; [reflexivity|now rewrite IH]. Qed.

Lemma skip_blanks_blanks g s : skip_blanks (blanks g ++ s) = skip_blanks s.
Proof. induction g as [|g IH]; cbn; [reflexivity|exact IH]. Qed.

(* ---- characters: a digit is none of the punctuation characters ---- *)
Lemma digit_not_punct c : is_digit c = true ->
  is_blank c = false /\ Ascii.eqb c "(" = false /\ Ascii.eqb c ")" = false /\
  Ascii.eqb c ":" = false /\ Ascii.eqb c "#" = false /\ Ascii.eqb c "-" = false /\
  Ascii.eqb c "+" = false /\ Ascii.eqb c "." = false.
Proof.
  destruct c as [[] [] [] [] [] [] [] []]; intros H; try discriminate H; repeat split; reflexivity.
Qed.

Definition glue_head (s : string) : bool :=
  match s with String c _ => glues_to_literal c | EmptyString => false end.
Definition digit_head (s : string) : bool :=
  match s with String c _ => is_digit c | EmptyString => false end.

Lemma glue_head_digit_head s : glue_head s = false -> digit_head s = false.
Proof.
  destruct s as [|c s]; [reflexivity|]. cbn. unfold glues_to_literal. intros H.
  apply orb_false_iff in H. destruct H as [H _]. apply orb_false_iff in H. destruct H as [H _].
  apply orb_false_iff in H. now destruct H as [H _].
Qed.

(* ---- digits ---- *)
Lemma span_digits_app ds : forall rest acc cnt, all_digits ds = true -> digit_head rest = false ->
  span_digits (ds ++ rest) acc cnt = (parse_digits ds acc, cnt + String.length ds, rest).
Proof.
  induction ds as [|c ds IH]; intros rest acc cnt Hd Hr.
  - cbn [append parse_digits String.length]. rewrite Nat.add_0_r.
    destruct rest as [|c r]; [reflexivity|]. cbn in Hr. cbn [span_digits]. now rewrite Hr.
  - cbn [all_digits] in Hd. apply andb_prop in Hd. destruct Hd as [Hc Hd].
    cbn [append span_digits parse_digits String.length]. rewrite Hc. rewrite IH by assumption.
    f_equal. f_equal. lia.
Qed.

Lemma digits_ok_inv ds : digits_ok ds = true ->
  all_digits ds = true /\ exists c r, ds = String c r /\ is_digit c = true.
Proof.
  unfold digits_ok. intros H. apply andb_prop in H. destruct H as [Ha Hn]. split; [exact Ha|].
  destruct ds as [|c r]; [discriminate|]. exists c, r. split; [reflexivity|].
  cbn in Ha. apply andb_prop in Ha. now destruct Ha.
Qed.

(* ---- one literal ---- *)
Lemma lex_literal_written neg ds sub rest :
  digits_ok ds = true -> match sub with Some d => is_digit d | None => true end = true ->
  glue_head rest = false ->
  lex_literal neg (ds ++ sub_text sub ++ rest) =
  Some (TLit (if neg then (- Z.of_N (number ds))%Z else Z.of_N (number ds)) (option_map digit_val sub), rest).
Proof.
  intros Hds Hsub Hrest. destruct (digits_ok_inv ds Hds) as (Hall & c & r & -> & Hc).
  unfold lex_literal.
  assert (Hhead : digit_head (sub_text sub ++ rest) = false).
  { destruct sub as [d|]; [reflexivity|]. cbn [sub_text append]. now apply glue_head_digit_head. }
  rewrite (span_digits_app (String c r) _ 0%N 0 Hall Hhead).
  cbn [String.length Nat.add]. fold (number (String c r)).
  destruct sub as [d|].
  - cbn [sub_text append option_map]. cbn [Ascii.eqb Bool.eqb andb]. rewrite Hsub.
    destruct rest as [|c1 rest]; [reflexivity|]. cbn in Hrest. now rewrite Hrest.
  - cbn [sub_text append option_map].
    assert (E : match rest with
                | String c1 (String d r2) =>
                    if Ascii.eqb c1 "." && is_digit d then (Some (digit_val d), r2) else (None, rest)
                | _ => (None, rest)
                end = (@None N, rest)).
    { destruct rest as [|c1 [|d r2]]; try reflexivity.
      cbn in Hrest. unfold glues_to_literal in Hrest. apply orb_false_iff in Hrest.
      destruct Hrest as [_ Hdot]. now rewrite Hdot. }
    rewrite E. destruct rest as [|c1 rest]; [reflexivity|]. cbn in Hrest. now rewrite Hrest.
Qed.

(* ---- what the text after a token starts with ---- *)
Lemma glue_head_render r trail : next_is_lit r = false -> glue_head (render r trail) = false.
Proof.
  destruct r as [|[g w] r]; cbn [render].
  - intros _. destruct trail; reflexivity.
  - destruct g as [|g]; [|reflexivity]. cbn [blanks append].
    destruct w; cbn [next_is_lit]; intros H; try discriminate H; reflexivity.
Qed.

Lemma digit_head_render r trail : next_is_bare_digit r = false -> digit_head (render r trail) = false.
Proof.
  destruct r as [|[g w] r]; cbn [render].
  - intros _. destruct trail; reflexivity.
  - destruct g as [|g]; [|reflexivity]. cbn [blanks append].
    destruct w as [neg plus ds sub|gap ds|gap| | |]; cbn [next_is_bare_digit]; intros H; try reflexivity.
    destruct neg; [reflexivity|]. destruct plus; [reflexivity|discriminate H].
Qed.

(* ---- the lexer on a written sequence ---- *)
Lemma lex_render : forall ws trail f, wf_written ws = true ->
  String.length (render ws trail) < f -> lex f (render ws trail) = tokens_written ws.
Proof.
  induction ws as [|[g w] r IH]; intros trail f Hwf Hlen.
  - destruct f as [|f]; [lia|]. cbn [render lex tokens_written map].
    replace (skip_blanks (blanks trail)) with "".
    + reflexivity.
    + rewrite <- (str_app_nil_r (blanks trail)). now rewrite skip_blanks_blanks.
  - destruct f as [|f]; [lia|].
    cbn [wf_written] in Hwf. apply andb_prop in Hwf. destruct Hwf as [Hwf Hr].
    apply andb_prop in Hwf. destruct Hwf as [Hw Hsep].
    cbn [render] in *. rewrite str_length_app, str_length_app in Hlen.
    cbn [tokens_written map snd]. fold (tokens_written r).
    cbn [lex]. rewrite skip_blanks_blanks.
    set (R := render r trail) in *.
    assert (IHR : String.length R < f -> lex f R = tokens_written r) by (exact (IH trail f Hr)).
    destruct w as [neg plus ds sub|gap ds|gap| | |].
    + (* literal *)
      cbn [wf_tok] in Hw. apply andb_prop in Hw. destruct Hw as [Hds Hsub].
      apply negb_true_iff in Hsep. pose proof (glue_head_render r trail Hsep) as HR. fold R in HR.
      pose proof (lex_literal_written neg ds sub R Hds Hsub HR) as HL.
      destruct (digits_ok_inv ds Hds) as (Hall & c & ds' & Eds & Hc).
      assert (Hlen' : String.length R < f).
      { cbn [wtext] in Hlen. rewrite !str_length_app in Hlen. subst ds. cbn [String.length] in Hlen. lia. }
      cbn [wtext tok_of]. unfold sign_text. rewrite !str_app_assoc.
      destruct neg.
      * cbn [append skip_blanks is_blank Ascii.eqb Bool.eqb andb].
        rewrite HL. now rewrite (IHR Hlen').
      * destruct plus.
        -- cbn [append skip_blanks is_blank Ascii.eqb Bool.eqb andb].
           rewrite HL. now rewrite (IHR Hlen').
        -- cbn [append]. rewrite Eds in *. cbn [append skip_blanks].
           destruct (digit_not_punct c Hc) as (B & P1 & P2 & P3 & P4 & P5 & P6 & _).
           rewrite B, P1, P2, P3, P4, P5, P6, Hc.
           change (String c (ds' ++ sub_text sub ++ R)) with (String c ds' ++ sub_text sub ++ R).
           rewrite HL. now rewrite (IHR Hlen').
    + (* #n *)
      cbn [wf_tok] in Hw. apply negb_true_iff in Hsep.
      pose proof (digit_head_render r trail Hsep) as HR. fold R in HR.
      destruct (digits_ok_inv ds Hw) as (Hall & c & ds' & Eds & Hc).
      assert (Hlen' : String.length R < f).
      { cbn [wtext String.length] in Hlen. rewrite !str_length_app in Hlen. lia. }
      cbn [wtext tok_of append skip_blanks is_blank Ascii.eqb Bool.eqb andb].
      rewrite str_app_assoc, skip_blanks_blanks.
      destruct (digit_not_punct c Hc) as (B & P1 & _).
      assert (Esk : skip_blanks (ds ++ R) = ds ++ R).
      { rewrite Eds. cbn [append skip_blanks]. now rewrite B. }
      rewrite Esk.
      assert (Esw : starts_with_char "(" (ds ++ R) = false).
      { rewrite Eds. cbn [append starts_with_char]. now rewrite Ascii.eqb_sym. }
      rewrite Esw. rewrite (span_digits_app ds R 0%N 0 Hall HR).
      cbn [Nat.add]. replace (String.length ds) with (S (String.length ds')) by (rewrite Eds; reflexivity).
      fold (number ds).
      now rewrite (IHR Hlen').
    + (* #( *)
      assert (Hlen' : String.length R < f).
      { cbn [wtext String.length] in Hlen. rewrite !str_length_app in Hlen. lia. }
      cbn [wtext tok_of append skip_blanks is_blank Ascii.eqb Bool.eqb andb].
      rewrite str_app_assoc, skip_blanks_blanks.
      cbn [append skip_blanks is_blank Ascii.eqb Bool.eqb andb starts_with_char tail_str].
      now rewrite (IHR Hlen').
    + assert (Hlen' : String.length R < f) by (cbn [wtext String.length] in Hlen; lia).
      cbn [wtext tok_of append skip_blanks is_blank Ascii.eqb Bool.eqb andb].
      now rewrite (IHR Hlen').
    + assert (Hlen' : String.length R < f) by (cbn [wtext String.length] in Hlen; lia).
      cbn [wtext tok_of append skip_blanks is_blank Ascii.eqb Bool.eqb andb].
      now rewrite (IHR Hlen').
    + assert (Hlen' : String.length R < f) by (cbn [wtext String.length] in Hlen; lia).
      cbn [wtext tok_of append skip_blanks is_blank Ascii.eqb Bool.eqb andb].
      now rewrite (IHR Hlen').
Qed.

Theorem tokens_of_render ws trail : wf_written ws = true ->
  tokens_of (render ws trail) = tokens_written ws.
Proof. intros H. unfold tokens_of. apply lex_render; [exact H|lia]. Qed.

(* ================================================================== *)
(* the canonical writing                                               *)
(* ================================================================== *)
Lemma digit_char_ok k : (k < 10)%N ->
  is_digit (digit_char k) = true /\ digit_val (digit_char k) = k.
Proof.
  intros H.
  assert (E : (k = 0 \/ k = 1 \/ k = 2 \/ k = 3 \/ k = 4 \/ k = 5 \/ k = 6 \/ k = 7 \/ k = 8 \/ k = 9)%N) by lia.
  repeat (destruct E as [->|E]; [split; reflexivity|]). subst k. split; reflexivity.
Qed.

Lemma parse_digits_app s : forall t a, parse_digits (s ++ t) a = parse_digits t (parse_digits s a).
Proof. induction s as [|c s IH]; intros t a; cbn; [reflexivity|apply IH]. Qed.

Lemma all_digits_app s t : all_digits (s ++ t) = all_digits s && all_digits t.
Proof. induction s as [|c s IH]; cbn; [reflexivity|]. now rewrite IH, andb_assoc. Qed.

Lemma dec_fuel_spec : forall f n acc, (n < 10 ^ N.of_nat f)%N -> f <> O ->
  exists s, dec_fuel f n acc = s ++ acc /\ all_digits s = true /\ s <> "" /\ parse_digits s 0%N = n.
Proof.
  induction f as [|f IH]; intros n acc Hn Hf; [congruence|].
  cbn [dec_fuel]. assert (Hm : (n mod 10 < 10)%N) by (apply N.mod_lt; lia).
  destruct (digit_char_ok _ Hm) as [Hd Hv].
  destruct (n <? 10)%N eqn:E.
  - apply N.ltb_lt in E. exists (String (digit_char (n mod 10)) ""). repeat split.
    + cbn. now rewrite Hd.
    + discriminate.
    + cbn. rewrite Hv. apply N.mod_small. exact E.
  - apply N.ltb_ge in E.
    assert (Hf' : f <> O).
    { intros ->. cbn in Hn. lia. }
    assert (Hq : (n / 10 < 10 ^ N.of_nat f)%N).
    { apply N.div_lt_upper_bound; [lia|]. rewrite Nat2N.inj_succ, N.pow_succ_r' in Hn. exact Hn. }
    destruct (IH (n / 10)%N (String (digit_char (n mod 10)) acc) Hq Hf') as (s & Es & Ha & Hne & Hp).
    exists (s ++ String (digit_char (n mod 10)) ""). repeat split.
    + rewrite Es. now rewrite str_app_assoc.
    + rewrite all_digits_app, Ha. cbn. now rewrite Hd.
    + destruct s; [congruence|discriminate].
    + rewrite parse_digits_app, Hp. cbn. rewrite Hv.
      rewrite N.mul_comm. symmetry. apply N.div_mod. lia.
Qed.

Lemma dec_spec n : digits_ok (dec n) = true /\ number (dec n) = n.
Proof.
  unfold dec.
  assert (Hn : (n < 10 ^ N.of_nat (S (N.to_nat (N.log2 n))))%N).
  { rewrite Nat2N.inj_succ, N2Nat.id.
    destruct n as [|p]; [cbn; lia|].
    apply N.lt_le_trans with (2 ^ N.succ (N.log2 (N.pos p)))%N.
    - apply N.log2_spec. lia.
    - apply N.pow_le_mono_l. lia. }
  destruct (dec_fuel_spec _ n "" Hn) as (s & Es & Ha & Hne & Hp); [discriminate|].
  rewrite Es, str_app_nil_r. unfold digits_ok, number. rewrite Ha, Hp. split; [|reflexivity].
  destruct s; [congruence|reflexivity].
Qed.

(* tokens that have a canonical writing *)
Definition tok_printable (t : token) : bool :=
  match t with
  | TLit _ (Some k) => (k <? 10)%N
  | TBad => false
  | _ => true
  end.

Lemma tok_of_canon t : tok_printable t = true -> wf_tok (canon_tok t) = true /\ tok_of (canon_tok t) = t.
Proof.
  destruct t as [z sub|n| | | | |]; cbn [tok_printable canon_tok wf_tok tok_of]; intros H;
    try discriminate H; try (split; reflexivity).
  - destruct (dec_spec (Z.abs_N z)) as [Hd Hn]. rewrite Hd, Hn. split.
    + destruct sub as [k|]; [|reflexivity]. apply N.ltb_lt in H. cbn. now destruct (digit_char_ok k H).
    + f_equal.
      * destruct (z <? 0)%Z eqn:E; [apply Z.ltb_lt in E|apply Z.ltb_ge in E]; rewrite N2Z.inj_abs_N; lia.
      * destruct sub as [k|]; [|reflexivity]. apply N.ltb_lt in H. cbn. now destruct (digit_char_ok k H) as [_ ->].
  - destruct (dec_spec n) as [Hd Hn]. now rewrite Hd, Hn.
Qed.

Lemma canon_rest_ok ts : forallb tok_printable ts = true ->
  wf_written (map (fun t => (1, canon_tok t)) ts) = true /\
  tokens_written (map (fun t => (1, canon_tok t)) ts) = ts.
Proof.
  induction ts as [|t r IH]; cbn [forallb map wf_written tokens_written snd]; intros H; [split; reflexivity|].
  apply andb_prop in H. destruct H as [Ht Hr]. destruct (IH Hr) as [W T].
  destruct (tok_of_canon t Ht) as [Wt Tt]. rewrite Wt, W. fold (tokens_written (map (fun t => (1, canon_tok t)) r)).
  rewrite T, Tt. split; [|reflexivity].
  destruct (canon_tok t); destruct r; reflexivity.
Qed.

Lemma canon_written_ok ts : forallb tok_printable ts = true ->
  wf_written (canon_written ts) = true /\ tokens_written (canon_written ts) = ts.
Proof.
  destruct ts as [|t r]; cbn [forallb canon_written wf_written tokens_written map snd]; intros H; [split; reflexivity|].
  apply andb_prop in H. destruct H as [Ht Hr]. destruct (canon_rest_ok r Hr) as [W T].
  destruct (tok_of_canon t Ht) as [Wt Tt]. rewrite Wt, W.
  fold (tokens_written (map (fun t => (1, canon_tok t)) r)). rewrite T, Tt. split; [|reflexivity].
  destruct (canon_tok t); destruct r; reflexivity.
Qed.

Lemma forallb_app {A} (f : A -> bool) l1 l2 : forallb f (l1 ++ l2) = forallb f l1 && forallb f l2.
Proof. induction l1 as [|x l IH]; cbn; [reflexivity|]. now rewrite IH, andb_assoc. Qed.

Lemma toks_printable e : facets_ok e = true -> forall lvl, forallb tok_printable (toks lvl e) = true.
Proof.
  induction e as [z sub|a IHa b IHb|a IHa b IHb|e IHe|n|p IHp]; cbn [facets_ok]; intros H lvl; cbn [toks].
  - cbn. destruct sub; [now rewrite H|reflexivity].
  - apply andb_prop in H. destruct H as [Ha Hb]. unfold paren.
    destruct (Nat.ltb 1 lvl); cbn [forallb tok_printable]; rewrite ?forallb_app, ?forallb_app, IHa, IHb by assumption; reflexivity.
  - apply andb_prop in H. destruct H as [Ha Hb]. unfold paren.
    destruct (Nat.ltb 0 lvl); cbn [forallb tok_printable]; rewrite ?forallb_app; cbn [forallb tok_printable];
      rewrite ?forallb_app; cbn [forallb tok_printable]; rewrite IHa, IHb by assumption; reflexivity.
  - cbn [forallb tok_printable]. rewrite forallb_app, IHe by assumption. reflexivity.
  - reflexivity.
  - cbn [forallb tok_printable]. rewrite forallb_app, IHp by assumption. reflexivity.
Qed.
