(* C11 — the character-level PEG of Regex.v on normal forms: for every
   expression e and every spelling of its canonical tokens,
   peg_start (normal form) = psem e.  With NormalForm.v this gives
   get_ast2 = get_ast on the whole layout family, for strings of any length. *)
From Coq Require Import List NArith ZArith Bool Lia String Ascii.
From T4V Require Import Base.Str C11.Model C11.Spec C11.Proofs C11.LexProofs C11.Layout
  C11.Regex C11.Card C11.NormalForm.
From T4V Require C11.Complete.
Import ListNotations.
Open Scope string_scope.

(* ---- parsers only consume ---- *)
Definition consumes (P : string -> pres) : Prop :=
  forall s a r, P s = POk a r -> String.length r <= String.length s.

Lemma span_ds_len2 s : String.length (snd (span_ds s)) <= String.length s.
Proof. apply span_ds_len. Qed.

Lemma p_surface_consume s a r : p_surface s = Some (a, r) -> String.length r < String.length s.
Proof.
  unfold p_surface.
  set (nb := match s with
             | String c r0 => if is_c "-" c then (true, r0) else if is_c "+" c then (false, r0) else (false, s)
             | EmptyString => (false, s) end).
  assert (Hb : String.length (snd nb) <= String.length s).
  { subst nb. destruct s as [|c r0]; [cbn; lia|]. destruct (is_c "-" c); [cbn; lia|]. destruct (is_c "+" c); cbn; lia. }
  destruct nb as [neg body]. cbn [snd] in Hb.
  pose proof (span_ds_len body) as H1. destruct (span_ds body) as [ds rest] eqn:Es. cbn [snd] in H1.
  destruct ds as [|d ds']; [discriminate|].
  assert (Hlt : String.length rest < String.length body).
  { clear - Es. revert rest Es. induction body as [|c b IH]; intros rest Es; [discriminate|].
    cbn [span_ds] in Es. destruct (is_digit c); [|discriminate].
    pose proof (span_ds_len b) as H. destruct (span_ds b) as [a0 b0]. injection Es as _ _ <-. cbn in *. lia. }
  intros H. destruct rest as [|c1 [|d1 r2]].
  - injection H as _ <-. cbn in *. lia.
  - injection H as _ <-. cbn in *. lia.
  - destruct (is_c "." c1 && is_digit d1); injection H as _ <-; cbn in *; lia.
Qed.

Section Consume.
  Variable rec : string -> pres.
  Hypothesis Hrec : consumes rec.

  Lemma p_closed_consume s k a r :
    (forall v r' a' r'', k v r' = POk a' r'' -> String.length r'' <= String.length r') ->
    p_closed rec s k = POk a r -> String.length r < String.length s.
  Proof.
    intros Hk. unfold p_closed. destruct (rec s) as [v r0| |] eqn:E; try discriminate.
    pose proof (Hrec _ _ _ E) as H0. destruct r0 as [|c r1]; [discriminate|]. cbn [starts_with_char tail_str].
    destruct (Ascii.eqb ")" c); [|discriminate]. intros H. apply Hk in H. cbn in *. lia.
  Qed.

  Lemma p_operand_consume s a r : p_operand rec s = POk a r -> String.length r < String.length s.
  Proof.
    unfold p_operand. destruct (p_surface s) as [[a0 r0]|] eqn:Es.
    - intros H. injection H as <- <-. exact (p_surface_consume _ _ _ Es).
    - destruct s as [|c [|d r0]]; try discriminate.
      destruct (is_c "_" c && is_c "(" d).
      + intros H. apply p_closed_consume in H; [cbn in *; lia|].
        intros v r' a' r'' Hk. destruct (inverse v); [injection Hk as _ <-; lia|discriminate].
      + destruct (is_c "(" c).
        * intros H. apply p_closed_consume in H; [cbn in *; lia|].
          intros v r' a' r'' Hk. injection Hk as _ <-. lia.
        * destruct (is_c "^" c && is_c "(" d); [|discriminate].
          pose proof (span_ds_len r0) as H1. destruct (span_ds r0) as [ds r']. cbn [snd] in H1.
          destruct ds; [discriminate|]. destruct r' as [|c2 r2]; [discriminate|]. cbn [starts_with_char tail_str].
          destruct (Ascii.eqb ")" c2); [|discriminate]. intros H. injection H as _ <-. cbn in *. lia.
  Qed.

  Lemma isect_loop_consume : forall n a s a' r, isect_loop rec n a s = POk a' r ->
    String.length r <= String.length s.
  Proof.
    induction n as [|n IH]; intros a s a' r H; cbn [isect_loop] in H.
    - injection H as _ <-. lia.
    - destruct (starts_with_char "*" s) eqn:Es; [|injection H as _ <-; lia].
      destruct (p_operand rec (tail_str s)) as [b r0| |] eqn:Eo.
      + apply p_operand_consume in Eo. apply IH in H. pose proof (tail_len s). lia.
      + injection H as _ <-. lia.
      + discriminate.
  Qed.

  Lemma p_isect_consume n s a r : p_isect rec n s = POk a r -> String.length r < String.length s.
  Proof.
    unfold p_isect. destruct (p_operand rec s) as [a0 r0| |] eqn:Eo; try discriminate.
    intros H. apply p_operand_consume in Eo. apply isect_loop_consume in H. lia.
  Qed.

  Lemma union_loop_consume : forall n a s a' r, union_loop rec n a s = POk a' r ->
    String.length r <= String.length s.
  Proof.
    induction n as [|n IH]; intros a s a' r H; cbn [union_loop] in H.
    - injection H as _ <-. lia.
    - destruct (starts_with_char ":" s) eqn:Es; [|injection H as _ <-; lia].
      destruct (p_isect rec (S n) (tail_str s)) as [b r0| |] eqn:Eo.
      + apply p_isect_consume in Eo. apply IH in H. pose proof (tail_len s). lia.
      + injection H as _ <-. lia.
      + discriminate.
  Qed.

  Lemma p_union_body_consume n s a r : p_union_body rec n s = POk a r -> String.length r < String.length s.
  Proof.
    unfold p_union_body. destruct (p_isect rec n s) as [a0 r0| |] eqn:Eo; try discriminate.
    intros H. apply p_isect_consume in Eo. apply union_loop_consume in H. lia.
  Qed.
End Consume.

Lemma p_union_consume : forall f, consumes (p_union f).
Proof.
  induction f as [|f IH]; intros s a r H; [discriminate|]. cbn [p_union] in H.
  apply (p_union_body_consume _ IH) in H. lia.
Qed.

(* ---- the result does not depend on the fuel / the loop counters ---- *)
Definition agree_below (L : nat) (r1 r2 : string -> pres) : Prop :=
  forall s, String.length s < L -> r1 s = r2 s.

Section Agree.
  Variables r1 r2 : string -> pres.
  Hypothesis H1 : consumes r1.

  Lemma p_operand_agree s : agree_below (String.length s) r1 r2 -> p_operand r1 s = p_operand r2 s.
  Proof.
    intros Ha. unfold p_operand. destruct (p_surface s); [reflexivity|].
    destruct s as [|c [|d r]]; try reflexivity. unfold p_closed.
    rewrite (Ha r) by (cbn; lia). rewrite (Ha (String d r)) by (cbn; lia). reflexivity.
  Qed.

  Lemma isect_loop_agree : forall n a s, agree_below (String.length s) r1 r2 ->
    isect_loop r1 n a s = isect_loop r2 n a s.
  Proof.
    induction n as [|n IH]; intros a s Ha; [reflexivity|]. cbn [isect_loop].
    destruct (starts_with_char "*" s); [|reflexivity].
    pose proof (tail_len s) as Ht.
    rewrite <- (p_operand_agree (tail_str s)) by (intros t Hl; apply Ha; lia).
    destruct (p_operand r1 (tail_str s)) as [b r| |] eqn:Eo; try reflexivity.
    apply (p_operand_consume _ H1) in Eo. apply IH. intros t Hl. apply Ha. lia.
  Qed.

  Lemma p_isect_agree n s : agree_below (String.length s) r1 r2 -> p_isect r1 n s = p_isect r2 n s.
  Proof.
    intros Ha. unfold p_isect. rewrite <- (p_operand_agree s Ha).
    destruct (p_operand r1 s) as [a r| |] eqn:Eo; try reflexivity.
    apply (p_operand_consume _ H1) in Eo. apply isect_loop_agree. intros t Hl. apply Ha. lia.
  Qed.

  Lemma union_loop_agree : forall n a s, agree_below (String.length s) r1 r2 ->
    union_loop r1 n a s = union_loop r2 n a s.
  Proof.
    induction n as [|n IH]; intros a s Ha; [reflexivity|]. cbn [union_loop].
    destruct (starts_with_char ":" s); [|reflexivity].
    pose proof (tail_len s) as Ht.
    rewrite <- (p_isect_agree (S n) (tail_str s)) by (intros t Hl; apply Ha; lia).
    destruct (p_isect r1 (S n) (tail_str s)) as [b r| |] eqn:Eo; try reflexivity.
    apply (p_isect_consume _ H1) in Eo. apply IH. intros t Hl. apply Ha. lia.
  Qed.

  Lemma p_union_body_agree n s : agree_below (String.length s) r1 r2 ->
    p_union_body r1 n s = p_union_body r2 n s.
  Proof.
    intros Ha. unfold p_union_body. rewrite <- (p_isect_agree n s Ha).
    destruct (p_isect r1 n s) as [a r| |] eqn:Eo; try reflexivity.
    apply (p_isect_consume _ H1) in Eo. apply union_loop_agree. intros t Hl. apply Ha. lia.
  Qed.
End Agree.

Lemma p_union_fuel : forall f f' s, String.length s < f -> String.length s < f' -> p_union f s = p_union f' s.
Proof.
  induction f as [|f IH]; intros f' s Hf Hf'; [lia|]. destruct f' as [|f']; [lia|]. cbn [p_union].
  apply p_union_body_agree; [apply p_union_consume|]. intros t Ht. apply IH; lia.
Qed.

(* loop counters: anything at least the length of the string will do *)
Section Enough.
  Variable rec : string -> pres.
  Hypothesis Hrec : consumes rec.

  Lemma isect_loop_enough : forall n n' a s, String.length s <= n -> String.length s <= n' ->
    isect_loop rec n a s = isect_loop rec n' a s.
  Proof.
    induction n as [|n IH]; intros n' a s Hn Hn'.
    - destruct s; [|cbn in Hn; lia]. destruct n'; reflexivity.
    - destruct n' as [|n'].
      + destruct s; [reflexivity|cbn in Hn'; lia].
      + cbn [isect_loop]. destruct (starts_with_char "*" s) eqn:Es; [|reflexivity].
        destruct s as [|c s']; [discriminate|]. cbn [tail_str String.length] in *.
        destruct (p_operand rec s') as [b r| |] eqn:Eo; try reflexivity.
        apply (p_operand_consume _ Hrec) in Eo. apply IH; lia.
  Qed.

  Lemma p_isect_enough n n' s : String.length s <= n -> String.length s <= n' ->
    p_isect rec n s = p_isect rec n' s.
  Proof.
    intros Hn Hn'. unfold p_isect. destruct (p_operand rec s) as [a r| |] eqn:Eo; try reflexivity.
    apply (p_operand_consume _ Hrec) in Eo. apply isect_loop_enough; lia.
  Qed.

  Lemma union_loop_enough : forall n n' a s, String.length s <= n -> String.length s <= n' ->
    union_loop rec n a s = union_loop rec n' a s.
  Proof.
    induction n as [|n IH]; intros n' a s Hn Hn'.
    - destruct s; [|cbn in Hn; lia]. destruct n'; reflexivity.
    - destruct n' as [|n'].
      + destruct s; [reflexivity|cbn in Hn'; lia].
      + cbn [union_loop]. destruct (starts_with_char ":" s) eqn:Es; [|reflexivity].
        destruct s as [|c s']; [discriminate|]. cbn [tail_str String.length] in *.
        rewrite (p_isect_enough (S n) (S n') s') by lia.
        destruct (p_isect rec (S n') s') as [b r| |] eqn:Eo; try reflexivity.
        apply (p_isect_consume _ Hrec) in Eo. apply IH; lia.
  Qed.
End Enough.

(* ---- the fuel-free parser and its unfolding equations ---- *)
Definition PU (s : string) : pres := p_union (fl s) s.
Definition POp (s : string) : pres := p_operand PU s.
Definition IL (a : ast) (s : string) : pres := isect_loop PU (String.length s) a s.
Definition PI (s : string) : pres := p_isect PU (String.length s) s.
Definition UL (a : ast) (s : string) : pres := union_loop PU (String.length s) a s.

Lemma PU_consumes : consumes PU.
Proof. intros s a r H. exact (p_union_consume _ _ _ _ H). Qed.

Lemma IL_eq a s : IL a s =
  if starts_with_char "*" s then
    match POp (tail_str s) with
    | POk b r => IL (AAnd a b) r
    | PFail => POk a s
    | PExc e => PExc e
    end
  else POk a s.
Proof.
  unfold IL. destruct s as [|c s']; [reflexivity|]. cbn [String.length isect_loop].
  destruct (starts_with_char "*" (String c s')); [|reflexivity]. cbn [tail_str]. fold (POp s').
  destruct (POp s') as [b r| |] eqn:Eo; try reflexivity.
  apply (p_operand_consume _ PU_consumes) in Eo. apply isect_loop_enough; [exact PU_consumes| |]; lia.
Qed.

Lemma PI_eq s : PI s = match POp s with POk a r => IL a r | x => x end.
Proof.
  unfold PI, p_isect. fold (POp s). destruct (POp s) as [a r| |] eqn:Eo; try reflexivity.
  apply (p_operand_consume _ PU_consumes) in Eo. apply isect_loop_enough; [exact PU_consumes| |]; lia.
Qed.

Lemma UL_eq a s : UL a s =
  if starts_with_char ":" s then
    match PI (tail_str s) with
    | POk b r => UL (AOr a b) r
    | PFail => POk a s
    | PExc e => PExc e
    end
  else POk a s.
Proof.
  unfold UL. destruct s as [|c s']; [reflexivity|]. cbn [String.length union_loop].
  destruct (starts_with_char ":" (String c s')); [|reflexivity]. cbn [tail_str].
  rewrite (p_isect_enough _ PU_consumes (S (String.length s')) (String.length s') s') by lia. fold (PI s').
  destruct (PI s') as [b r| |] eqn:Eo; try reflexivity.
  apply (p_isect_consume _ PU_consumes) in Eo. apply union_loop_enough; [exact PU_consumes| |]; lia.
Qed.

Lemma PU_eq s : PU s = match PI s with POk a r => UL a r | x => x end.
Proof.
  unfold PU, fl. cbn [p_union].
  rewrite (p_union_body_agree (p_union (String.length s)) PU (p_union_consume _)).
  - unfold p_union_body. fold (PI s). destruct (PI s) as [a r| |] eqn:Eo; try reflexivity.
    apply (p_isect_consume _ PU_consumes) in Eo. apply union_loop_enough; [exact PU_consumes| |]; lia.
  - intros t Ht. unfold PU, fl. apply p_union_fuel; lia.
Qed.

Lemma peg_start_PU s : peg_start s =
  match PU s with
  | POk a EmptyString => Ok a
  | POk _ _ => Err EParse
  | PFail => Err EParse
  | PExc e => Err e
  end.
Proof. reflexivity. Qed.

(* ================================================================== *)
(* normal forms of expressions                                          *)
(* ================================================================== *)
Definition bindP (x : res ast) (k : ast -> pres) : pres :=
  match x with Ok v => k v | Err e => PExc e end.

(* what may follow an operand in a normal form *)
Definition delim (s : string) : bool :=
  match s with
  | EmptyString => true
  | String c _ => is_c "*" c || is_c ":" c || is_c ")" c
  end.
Definition delim1 (s : string) : bool :=
  match s with
  | EmptyString => true
  | String c _ => is_c ":" c || is_c ")" c
  end.

Lemma delim1_delim s : delim1 s = true -> delim s = true.
Proof. destruct s as [|c r]; [reflexivity|]. cbn. intros H. destruct (is_c "*" c); [reflexivity|exact H]. Qed.

(* an atom is a spelling of a token *)
Definition atom_tok (a : atom) (t : token) : Prop :=
  match a, t with
  | ALit txt, TLit z sub =>
      forall rest, delim rest = true -> p_surface (txt ++ rest) = Some (ASurf z sub, rest)
  | ACell ds, THashN n => str_forall is_digit ds = true /\ ds <> "" /\ n = parse_digits ds 0%N
  | ANot, THashP | ALP, TLP | ARP, TRP | AColon, TColon => True
  | _, _ => False
  end.

Definition nfr0 (A : list atom) : string :=
  match A with [] => "" | a :: r => atext a ++ nfr (Some a) r end.

Lemma nfr_sep p a A : nfr p (a :: A) = (if boundary p a then "*" else "") ++ nfr0 (a :: A).
Proof. reflexivity. Qed.

Lemma nfr_noend p A : opt_is ends_operand p = false -> nfr p A = nfr0 A.
Proof. intros H. destruct A as [|a A]; [reflexivity|]. rewrite nfr_sep. unfold boundary. now rewrite H. Qed.

Definition lasto (p : option atom) (A : list atom) : option atom :=
  match A with [] => p | _ => Some (last A ALP) end.

Lemma nfr_app : forall A p B, nfr p (A ++ B) = nfr p A ++ nfr (lasto p A) B.
Proof.
  induction A as [|a A IH]; intros p B; [reflexivity|].
  cbn [app nfr]. rewrite IH, !str_app_assoc. do 3 f_equal.
  destruct A as [|a' A']; reflexivity.
Qed.

Lemma nfr0_app a A B : nfr0 ((a :: A) ++ B) = nfr0 (a :: A) ++ nfr (Some (last (a :: A) ALP)) B.
Proof.
  cbn [app nfr0]. rewrite nfr_app, str_app_assoc. do 2 f_equal. destruct A; reflexivity.
Qed.

Lemma nfr_snoc_rp : forall A p, nfr p (A ++ [ARP]) = nfr p A ++ ")".
Proof. intros A p. rewrite nfr_app. cbn [nfr]. unfold boundary. cbn [starts_operand]. now rewrite andb_false_r. Qed.

(* first / last atoms of the canonical token sequences *)
Definition tok_starts (t : token) : bool :=
  match t with TLit _ _ | THashN _ | THashP | TLP => true | _ => false end.
Definition tok_ends (t : token) : bool :=
  match t with TLit _ _ | THashN _ | TRP => true | _ => false end.

Lemma atom_tok_starts a t : atom_tok a t -> starts_operand a = tok_starts t.
Proof. destruct a, t; cbn; intros H; try contradiction; reflexivity. Qed.
Lemma atom_tok_ends a t : atom_tok a t -> ends_operand a = tok_ends t.
Proof. destruct a, t; cbn; intros H; try contradiction; reflexivity. Qed.

Lemma last_snoc {X} (l : list X) (x d : X) : last (l ++ [x]) d = x.
Proof. induction l as [|y l IH]; [reflexivity|]. cbn [app]. destruct (l ++ [x])%list eqn:E; [destruct l; discriminate|]. cbn [last]. exact IH. Qed.

Lemma last_app_ne {X} (l1 l2 : list X) d : l2 <> [] -> last (l1 ++ l2) d = last l2 d.
Proof.
  intros H. induction l1 as [|y l IH]; [reflexivity|]. cbn [app].
  destruct (l ++ l2)%list eqn:E; [destruct l; [cbn in E; congruence|discriminate]|]. cbn [last]. exact IH.
Qed.

Lemma toks_first_last e : forall lvl, exists t ts, toks lvl e = t :: ts /\ tok_starts t = true /\
  tok_ends (last (t :: ts) TLP) = true.
Proof.
  induction e as [z sub|a IHa b IHb|a IHa b IHb|e IHe|n|p IHp]; intros lvl; cbn [toks].
  - eexists; eexists; repeat split.
  - destruct (IHa 1) as (ta & tsa & Ea & Sa & _). destruct (IHb 2) as (tb & tsb & Eb & _ & Lb).
    unfold paren. destruct (Nat.ltb 1 lvl).
    + eexists; eexists; split; [reflexivity|]. split; [reflexivity|].
      rewrite app_comm_cons. now rewrite last_snoc.
    + rewrite Ea, Eb. cbn [app]. eexists; eexists; split; [reflexivity|]. split; [exact Sa|].
      change (ta :: tsa ++ tb :: tsb)%list with ((ta :: tsa) ++ tb :: tsb)%list. rewrite last_app_ne by discriminate. exact Lb.
  - destruct (IHa 0) as (ta & tsa & Ea & Sa & _). destruct (IHb 1) as (tb & tsb & Eb & _ & Lb).
    unfold paren. destruct (Nat.ltb 0 lvl).
    + eexists; eexists; split; [reflexivity|]. split; [reflexivity|].
      rewrite app_comm_cons. now rewrite last_snoc.
    + rewrite Ea, Eb. cbn [app]. eexists; eexists; split; [reflexivity|]. split; [exact Sa|].
      replace (ta :: tsa ++ TColon :: tb :: tsb)%list with ((ta :: tsa ++ [TColon]) ++ tb :: tsb)%list
        by (cbn [app]; rewrite <- app_assoc; reflexivity).
      rewrite last_app_ne by discriminate. exact Lb.
  - eexists; eexists; split; [reflexivity|]. split; [reflexivity|].
    rewrite app_comm_cons. now rewrite last_snoc.
  - eexists; eexists; repeat split.
  - eexists; eexists; split; [reflexivity|]. split; [reflexivity|].
    rewrite app_comm_cons. now rewrite last_snoc.
Qed.

Lemma Forall2_last (A : list atom) (ts : list token) : Forall2 atom_tok A ts -> A <> [] ->
  atom_tok (last A ALP) (last ts TLP).
Proof.
  induction 1 as [|a t A ts Hat HF IH]; intros Hne; [congruence|].
  destruct A as [|a' A']; [inversion HF; subst; exact Hat|].
  inversion HF; subst. cbn [last]. apply IH. discriminate.
Qed.

Lemma atoms_first_last A lvl e : Forall2 atom_tok A (toks lvl e) ->
  exists a A', A = a :: A' /\ starts_operand a = true /\ ends_operand (last A ALP) = true.
Proof.
  intros H. destruct (toks_first_last e lvl) as (t & ts & E & S & L). rewrite E in H.
  inversion H as [|a t' A' ts' Hat HF]; subst. exists a, A'. split; [reflexivity|]. split.
  - now rewrite (atom_tok_starts a t Hat).
  - pose proof (Forall2_last (a :: A') (t :: ts) H ltac:(discriminate)) as HL.
    now rewrite (atom_tok_ends _ _ HL).
Qed.

(* ---- parser lemmas on concrete heads ---- *)
Lemma IL_stop v rest : delim1 rest = true -> IL v rest = POk v rest.
Proof.
  intros H. rewrite IL_eq. destruct rest as [|c r]; [reflexivity|]. cbn [starts_with_char].
  cbn in H. destruct (Ascii.eqb "*" c) eqn:E; [|reflexivity]. apply Ascii.eqb_eq in E. subst c. discriminate H.
Qed.

Lemma UL_stop v rest : starts_with_char ":" rest = false -> UL v rest = POk v rest.
Proof. intros H. now rewrite UL_eq, H. Qed.

Lemma p_surface_open r : p_surface (String "(" r) = None. Proof. reflexivity. Qed.
Lemma p_surface_us r : p_surface (String "_" r) = None. Proof. reflexivity. Qed.
Lemma p_surface_hat r : p_surface (String "^" r) = None. Proof. reflexivity. Qed.

(* parenthesised operands: "(" inner ")" and "_(" inner ")" *)
Lemma paren_operand inner sem rest :
  PU (inner ++ ")" ++ rest) = bindP sem (fun v => UL v (")" ++ rest)) ->
  POp ("(" ++ inner ++ ")" ++ rest) = bindP sem (fun v => POk v rest).
Proof.
  intros H. unfold POp, p_operand. cbn [append]. rewrite p_surface_open.
  destruct (inner ++ String ")" rest) as [|d r] eqn:E; [destruct inner; discriminate|].
  cbn [is_c Ascii.eqb Bool.eqb andb]. unfold p_closed. rewrite <- E.
  change (inner ++ String ")" rest) with (inner ++ ")" ++ rest). rewrite H.
  destruct sem as [v|x]; cbn [bindP]; [|reflexivity].
  rewrite UL_stop by reflexivity. reflexivity.
Qed.

Lemma not_operand inner sem rest :
  PU (inner ++ ")" ++ rest) = bindP sem (fun v => UL v (")" ++ rest)) ->
  POp ("_(" ++ inner ++ ")" ++ rest) = bindP (bind sem inverse) (fun v => POk v rest).
Proof.
  intros H. unfold POp, p_operand. cbn [append]. rewrite p_surface_us.
  cbn [is_c Ascii.eqb Bool.eqb andb]. unfold p_closed.
  change (inner ++ String ")" rest) with (inner ++ ")" ++ rest). rewrite H.
  destruct sem as [v|x]; cbn [bindP bind]; [|reflexivity].
  rewrite UL_stop by reflexivity. cbn [starts_with_char Ascii.eqb Bool.eqb andb tail_str append].
  destruct (inverse v); reflexivity.
Qed.

Lemma cell_operand ds rest : str_forall is_digit ds = true -> ds <> "" ->
  POp (("^(" ++ ds ++ ")") ++ rest) = POk (ACompl (parse_digits ds 0%N)) rest.
Proof.
  intros Hd Hne. unfold POp, p_operand. cbn [append]. rewrite p_surface_hat.
  cbn [is_c Ascii.eqb Bool.eqb andb].
  rewrite str_app_assoc. rewrite (span_ds_app ds (")" ++ rest) Hd eq_refl).
  destruct ds; [congruence|]. reflexivity.
Qed.

(* level changes *)
Lemma lvl2_to_1 s sem rest : POp s = bindP sem (fun v => POk v rest) ->
  PI s = bindP sem (fun v => IL v rest).
Proof. intros H. rewrite PI_eq, H. destruct sem; reflexivity. Qed.

Lemma lvl1_to_0 s sem rest : delim1 rest = true -> PI s = bindP sem (fun v => IL v rest) ->
  PU s = bindP sem (fun v => UL v rest).
Proof.
  intros Hd H. rewrite PU_eq, H. destruct sem as [v|x]; cbn [bindP]; [|reflexivity].
  now rewrite (IL_stop v rest Hd).
Qed.

Definition L2 (ts : list token) (sem : res ast) : Prop :=
  forall A, Forall2 atom_tok A ts -> forall rest, delim rest = true ->
    POp (nfr0 A ++ rest) = bindP sem (fun v => POk v rest).
Definition L1 (ts : list token) (sem : res ast) : Prop :=
  forall A, Forall2 atom_tok A ts -> forall rest, delim rest = true ->
    PI (nfr0 A ++ rest) = bindP sem (fun v => IL v rest).
Definition L0 (ts : list token) (sem : res ast) : Prop :=
  forall A, Forall2 atom_tok A ts -> forall rest, delim1 rest = true ->
    PU (nfr0 A ++ rest) = bindP sem (fun v => UL v rest).

Lemma L2_L1 ts sem : L2 ts sem -> L1 ts sem.
Proof. intros H A HA rest Hr. apply lvl2_to_1. now apply H. Qed.
Lemma L1_L0 ts sem : L1 ts sem -> L0 ts sem.
Proof. intros H A HA rest Hr. apply lvl1_to_0; [exact Hr|]. apply H; [exact HA|now apply delim1_delim]. Qed.

Lemma paren_L2 ts sem : L0 ts sem -> L2 (TLP :: ts ++ [TRP]) sem.
Proof.
  intros H A HA rest Hr. inversion HA as [|a t A' ts' Hat HF]; subst.
  apply Forall2_app_inv_r in HF. destruct HF as (Ai & Ar & Hi & Hr' & ->).
  inversion Hr' as [|ar tr Ar' tsr Har HFr]; subst. inversion HFr; subst.
  destruct a; try contradiction. destruct ar; try contradiction.
  cbn [nfr0 atext]. rewrite (nfr_noend (Some ALP)) by reflexivity.
  assert (E : nfr0 (Ai ++ [ARP]) = nfr0 Ai ++ ")").
  { destruct Ai as [|a0 Ai']; [reflexivity|]. rewrite nfr0_app. cbn [nfr]. unfold boundary. cbn [starts_operand].
    now rewrite andb_false_r. }
  rewrite E, !str_app_assoc. apply paren_operand. apply H; [exact Hi|reflexivity].
Qed.

Lemma not_L2 ts sem : L0 ts sem -> L2 (THashP :: ts ++ [TRP]) (bind sem inverse).
Proof.
  intros H A HA rest Hr. inversion HA as [|a t A' ts' Hat HF]; subst.
  apply Forall2_app_inv_r in HF. destruct HF as (Ai & Ar & Hi & Hr' & ->).
  inversion Hr' as [|ar tr Ar' tsr Har HFr]; subst. inversion HFr; subst.
  destruct a; try contradiction. destruct ar; try contradiction.
  cbn [nfr0 atext]. rewrite (nfr_noend (Some ANot)) by reflexivity.
  assert (E : nfr0 (Ai ++ [ARP]) = nfr0 Ai ++ ")").
  { destruct Ai as [|a0 Ai']; [reflexivity|]. rewrite nfr0_app. cbn [nfr]. unfold boundary. cbn [starts_operand].
    now rewrite andb_false_r. }
  rewrite E, !str_app_assoc. apply not_operand. apply H; [exact Hi|reflexivity].
Qed.

Theorem peg_toks e : L2 (toks 2 e) (psem e) /\ L1 (toks 1 e) (psem e) /\ L0 (toks 0 e) (psem e).
Proof.
  induction e as [z sub|a IHa b IHb|a IHa b IHb|e IHe|n|p IHp].
  - (* literal *)
    assert (H2 : L2 [TLit z sub] (Ok (ASurf z sub))).
    { intros A HA rest Hr. inversion HA as [|a t A' ts' Hat HF]; subst. inversion HF; subst.
      destruct a; try contradiction. cbn [nfr0 atext nfr]. rewrite str_app_nil_r.
      unfold POp, p_operand. now rewrite (Hat rest Hr). }
    split; [exact H2|]. split; [exact (L2_L1 _ _ H2)|exact (L1_L0 _ _ (L2_L1 _ _ H2))].
  - (* intersection *)
    destruct IHa as (_ & A1 & _). destruct IHb as (B2 & _ & _).
    assert (H1 : L1 (toks 1 (MAnd a b)) (psem (MAnd a b))).
    { intros A HA rest Hr. cbn [toks paren Nat.ltb Nat.leb] in HA.
      apply Forall2_app_inv_r in HA. destruct HA as (Aa & Ab & Ha & Hb & ->).
      destruct (atoms_first_last Aa 1 a Ha) as (a0 & Aa' & -> & _ & La).
      destruct (atoms_first_last Ab 2 b Hb) as (b0 & Ab' & -> & Sb & _).
      rewrite nfr0_app. rewrite nfr_sep. unfold boundary. cbn [opt_is]. rewrite La, Sb. cbn [andb].
      rewrite !str_app_assoc.
      rewrite (A1 _ Ha ("*" ++ nfr0 (b0 :: Ab') ++ rest) eq_refl). cbn [psem].
      destruct (psem a) as [va|x]; cbn [bindP bind]; [|reflexivity].
      rewrite IL_eq. cbn [append starts_with_char Ascii.eqb Bool.eqb andb tail_str].
      rewrite (B2 _ Hb rest Hr). destruct (psem b) as [vb|x]; reflexivity. }
    pose proof (L1_L0 _ _ H1) as H0.
    split; [|split; [exact H1|exact H0]].
    change (toks 2 (MAnd a b)) with (TLP :: toks 0 (MAnd a b) ++ [TRP])%list. now apply paren_L2.
  - (* union *)
    destruct IHa as (_ & _ & A0). destruct IHb as (_ & B1 & _).
    assert (H0 : L0 (toks 0 (MOr a b)) (psem (MOr a b))).
    { intros A HA rest Hr. cbn [toks paren Nat.ltb Nat.leb] in HA.
      apply Forall2_app_inv_r in HA. destruct HA as (Aa & Ab & Ha & Hb & ->).
      inversion Hb as [|c tc Ab' tsb Hc HFb]; subst. destruct c; try contradiction.
      destruct (atoms_first_last Aa 0 a Ha) as (a0 & Aa' & -> & _ & _).
      rewrite nfr0_app. rewrite nfr_sep. unfold boundary. cbn [starts_operand]. rewrite andb_false_r.
      change (nfr0 (AColon :: Ab')) with (":" ++ nfr (Some AColon) Ab').
      rewrite (nfr_noend (Some AColon)) by reflexivity. rewrite !str_app_assoc. cbn [append].
      rewrite (A0 _ Ha (String ":" (nfr0 Ab' ++ rest)) eq_refl). cbn [psem].
      destruct (psem a) as [va|x]; cbn [bindP bind]; [|reflexivity].
      rewrite UL_eq. cbn [starts_with_char Ascii.eqb Bool.eqb andb tail_str].
      rewrite (B1 _ HFb rest (delim1_delim _ Hr)). destruct (psem b) as [vb|x]; cbn [bindP bind]; [|reflexivity].
      now rewrite (IL_stop vb rest Hr). }
    assert (H2 : L2 (toks 2 (MOr a b)) (psem (MOr a b))).
    { change (toks 2 (MOr a b)) with (TLP :: toks 0 (MOr a b) ++ [TRP])%list. now apply paren_L2. }
    split; [exact H2|]. split; [|exact H0].
    change (toks 1 (MOr a b)) with (toks 2 (MOr a b)). exact (L2_L1 _ _ H2).
  - (* #( e ) *)
    destruct IHe as (_ & _ & E0).
    assert (H2 : L2 (toks 2 (MNot e)) (psem (MNot e))).
    { change (toks 2 (MNot e)) with (THashP :: toks 0 e ++ [TRP])%list. cbn [psem]. now apply not_L2. }
    split; [exact H2|]. split; [exact (L2_L1 _ _ H2)|exact (L1_L0 _ _ (L2_L1 _ _ H2))].
  - (* #n *)
    assert (H2 : L2 [THashN n] (Ok (ACompl n))).
    { intros A HA rest Hr. inversion HA as [|a t A' ts' Hat HF]; subst. inversion HF; subst.
      destruct a; try contradiction. destruct Hat as (Hd & Hne & ->). cbn [nfr0 nfr atext]. rewrite str_app_nil_r.
      now rewrite cell_operand. }
    split; [exact H2|]. split; [exact (L2_L1 _ _ H2)|exact (L1_L0 _ _ (L2_L1 _ _ H2))].
  - (* ( e ) *)
    destruct IHp as (_ & _ & P0).
    assert (H2 : L2 (toks 2 (MParen p)) (psem (MParen p))).
    { change (toks 2 (MParen p)) with (TLP :: toks 0 p ++ [TRP])%list. cbn [psem]. now apply paren_L2. }
    split; [exact H2|]. split; [exact (L2_L1 _ _ H2)|exact (L1_L0 _ _ (L2_L1 _ _ H2))].
Qed.

(* ---- written tokens are spellings of their tokens ---- *)
Lemma delim_facts rest : delim rest = true ->
  digit_head rest = false /\
  match rest with String c1 (String d r2) => is_c "." c1 && is_digit d = false | _ => True end.
Proof.
  destruct rest as [|c r]; [split; [reflexivity|exact I]|]. cbn [delim]. intros H.
  assert (Hc : is_digit c = false /\ is_c "." c = false).
  { destruct c as [[] [] [] [] [] [] [] []]; try discriminate H; split; reflexivity. }
  destruct Hc as [H1 H2]. split; [exact H1|]. destruct r; [exact I|]. now rewrite H2.
Qed.

Lemma p_surface_written neg plus ds sub rest :
  wf_tok (WLit neg plus ds sub) = true -> delim rest = true ->
  p_surface ((sign_text neg plus ++ ds ++ sub_text sub) ++ rest) =
  Some (ASurf (if neg then (- Z.of_N (number ds))%Z else Z.of_N (number ds)) (option_map digit_val sub), rest).
Proof.
  intros Hw Hr. cbn [wf_tok] in Hw. apply andb_prop in Hw. destruct Hw as [Hds Hsub].
  destruct (digits_ok_forall ds Hds) as [Fd Nd]. destruct (delim_facts rest Hr) as [Hdh Hdot].
  rewrite !str_app_assoc.
  assert (Hbody : forall ng : bool,
    match span_ds (ds ++ sub_text sub ++ rest) with
    | (EmptyString, _) => @None (ast * string)
    | (ds0, rest0) =>
        let v := Z.of_N (parse_digits ds0 0%N) in
        let z := if ng then (- v)%Z else v in
        match rest0 with
        | String c1 (String d r2) =>
            if is_c "." c1 && is_digit d then Some (ASurf z (Some (digit_val d)), r2)
            else Some (ASurf z None, rest0)
        | _ => Some (ASurf z None, rest0)
        end
    end = Some (ASurf (if ng then (- Z.of_N (number ds))%Z else Z.of_N (number ds)) (option_map digit_val sub), rest)).
  { intros ng. rewrite (span_ds_app ds (sub_text sub ++ rest) Fd).
    - destruct ds as [|d0 ds']; [congruence|]. cbv zeta. fold (number (String d0 ds')).
      destruct sub as [d|]; cbn [sub_text append option_map].
      + cbn [is_c Ascii.eqb Bool.eqb andb]. now rewrite Hsub.
      + destruct rest as [|c1 [|d1 r2]]; try reflexivity. now rewrite Hdot.
    - destruct sub; [reflexivity|exact Hdh]. }
  unfold p_surface. unfold sign_text. destruct neg.
  - cbn [append is_c Ascii.eqb Bool.eqb andb]. exact (Hbody true).
  - destruct plus.
    + cbn [append is_c Ascii.eqb Bool.eqb andb]. exact (Hbody false).
    + cbn [append]. destruct ds as [|d0 ds'] eqn:Eds; [congruence|]. cbn [append].
      assert (Hd0 : is_digit d0 = true) by (cbn in Fd; apply andb_prop in Fd; now destruct Fd).
      destruct (digit_not_punct d0 Hd0) as (_ & _ & _ & _ & _ & P5 & P6 & _).
      unfold is_c. rewrite P5, P6. rewrite <- Eds in *.
      change (String d0 (ds' ++ sub_text sub ++ rest)) with (String d0 ds' ++ sub_text sub ++ rest).
      rewrite <- Eds. exact (Hbody false).
Qed.

Lemma watom_tok w : wf_tok w = true -> atom_tok (watom w) (tok_of w).
Proof.
  destruct w as [neg plus ds sub|g ds|g| | |]; cbn [watom tok_of atom_tok]; intros Hw; auto.
  - intros rest Hr. now apply p_surface_written.
  - cbn [wf_tok] in Hw. destruct (digits_ok_forall ds Hw) as [Fd Nd]. auto.
Qed.

Lemma written_atoms ws : wf_written ws = true ->
  Forall2 atom_tok (map (fun p => watom (snd p)) ws) (tokens_written ws).
Proof.
  induction ws as [|[g w] r IH]; intros Hwf; [constructor|].
  cbn [wf_written] in Hwf. apply andb_prop in Hwf. destruct Hwf as [Hwf Hr].
  apply andb_prop in Hwf. destruct Hwf as [Hw _]. cbn [map tokens_written snd]. constructor.
  - now apply watom_tok.
  - exact (IH Hr).
Qed.

(* the PEG on the normal form of any writing of any expression *)
Theorem peg_normal_form e ws : wf_written ws = true -> tokens_written ws = toks 0 e ->
  peg_start (normal_form ws) = psem e.
Proof.
  intros Hwf Ht. destruct (peg_toks e) as (_ & _ & H0).
  pose proof (written_atoms ws Hwf) as HA. rewrite Ht in HA.
  specialize (H0 _ HA "" eq_refl). rewrite str_app_nil_r in H0.
  unfold normal_form. rewrite (nfr_noend None) by reflexivity.
  rewrite peg_start_PU, H0. destruct (psem e) as [v|x]; cbn [bindP]; [|reflexivity].
  rewrite UL_stop by reflexivity. reflexivity.
Qed.

(* UNBOUNDED: the code-shaped model and the lexer + automaton model agree on
   every writing of every expression (accepted or rejected), whatever its length *)
Theorem get_ast2_eq_written e ws trail : wf_written ws = true -> tokens_written ws = toks 0 e ->
  get_ast2 (render ws trail) = get_ast (render ws trail).
Proof.
  intros Hwf Ht.
  assert (Hne : ws <> []).
  { intros ->. cbn in Ht. symmetry in Ht. exact (toks_nonempty 0 e Ht). }
  rewrite (get_ast2_normal_form ws trail Hwf Hne), (peg_normal_form e ws Hwf Ht).
  symmetry. exact (get_ast_render_psem e ws trail Hwf Ht).
Qed.

(* whatever the lexer + automaton model accepts, the code-shaped model accepts with the same tree *)
Theorem get_ast2_eq_accepted s a : get_ast s = Ok a -> get_ast2 s = Ok a.
Proof.
  intros H. destruct (C11.Complete.get_ast_sound_written s a H) as (e & ws & trail & Er & Hw & Ht & _).
  rewrite <- Er in *. now rewrite (get_ast2_eq_written e ws trail Hw Ht).
Qed.
