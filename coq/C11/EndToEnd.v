(* C11 — end to end on the model: from the TEXT of the cell cards of a deck to
   the complement-free trees handed to pot_flag.
     card text --split_card--> geometry text --get_ast--> tree      (per card)
     table of trees --eliminate_all--> complement-free trees        (whole deck) *)
From Coq Require Import List NArith ZArith Bool Lia String Ascii.
From T4V Require Import Base.Str C11.Model C11.Spec C11.Proofs C11.LexProofs C11.Layout
  C11.Pipeline C11.Loop C11.Card.
Import ListNotations.
Open Scope string_scope.

(* one cell card: its number, the way it is written, and the MCNP expression it carries *)
Record card := mkCard {
  k_id : N; k_name : string; k_g1 : nat; k_mat : string; k_rho : option (nat * string);
  k_g3 : nat; k_e : mexpr; k_w : wtok; k_r : written; k_trail : nat; k_opts : string }.

Definition k_ws (c : card) : written := (0, k_w c) :: k_r c.
Definition k_expr_text (c : card) : string := render (k_ws c) (k_trail c).
Definition card_text (c : card) : string :=
  card_body (k_name c) (k_g1 c) (k_mat c) (k_rho c) (k_g3 c) (k_expr_text c) ++ k_opts c.

Definition card_ok (c : card) : Prop :=
  digits_ok (k_name c) = true /\ mat_ok (k_mat c) (k_rho c) /\
  wf_written (k_ws c) = true /\ tokens_written (k_ws c) = toks 0 (k_e c) /\
  sep_ok (k_rho c) (k_g3 c) (k_expr_text c) /\ opts_ok (k_expr_text c) (k_opts c) /\
  admissible (k_e c) = true.

(* what the converter does with one card (ParseMCNPCell: split, then get_ast) *)
Definition parse_card (txt : string) : res ast :=
  match split_card txt with
  | Ok (geom, _) => get_ast geom
  | Err x => Err x
  end.

Fixpoint build_table (cards : list (N * string)) : res table :=
  match cards with
  | [] => Ok []
  | (n, txt) :: rest =>
      match parse_card txt with
      | Err x => Err x
      | Ok a => match build_table rest with
                | Err x => Err x
                | Ok t => Ok ((n, mkCell a false) :: t)
                end
      end
  end.

Lemma parse_card_ok c : card_ok c -> exists a, parse_card (card_text c) = Ok a /\ sem (k_e c) = Ok a.
Proof.
  intros (Hn & Hm & Hw & Ht & Hs & Ho & Ha).
  destruct (card_geometry (k_name c) (k_g1 c) (k_mat c) (k_rho c) (k_g3 c) (k_e c) (k_w c) (k_r c)
              (k_trail c) (k_opts c) Hn Hm Hw Ht Hs Ho) as (geom & Es & Eg).
  destruct (parse_print (k_e c) Ha) as (a & _ & Esem).
  exists a. unfold parse_card, card_text, k_expr_text, k_ws. rewrite Es, Eg, psem_eq_sem. auto.
Qed.

(* the MCNP cells of the deck *)
Definition deck_mc (cs : list card) (n : N) : option mexpr :=
  match find (fun c => N.eqb (k_id c) n) cs with Some c => Some (k_e c) | None => None end.

Definition deck_cards (cs : list card) : list (N * string) := map (fun c => (k_id c, card_text c)) cs.

Lemma build_table_ok cs : Forall card_ok cs ->
  exists tbl, build_table (deck_cards cs) = Ok tbl /\ parsed_table (deck_mc cs) (lookup tbl).
Proof.
  induction cs as [|c cs IH]; intros H.
  - exists []. split; [reflexivity|]. intros n. reflexivity.
  - inversion H as [|c' cs' Hc Hcs]; subst. destruct (IH Hcs) as (tbl & Eb & Hp).
    destruct (parse_card_ok c Hc) as (a & Ep & Es).
    exists ((k_id c, mkCell a false) :: tbl). split.
    + cbn [deck_cards map build_table]. fold (deck_cards cs). now rewrite Ep, Eb.
    + intros n. unfold deck_mc, lookup. cbn [find fst snd].
      destruct (N.eqb (k_id c) n) eqn:E.
      * split; [now destruct Hc as (_ & _ & _ & _ & _ & _ & ?)|]. exists a. auto.
      * exact (Hp n).
Qed.

(* The property for a whole deck, from card text to the trees passed on:
   every card well formed (any layout of an admissible expression, any
   spelling of name / material / density / options), complements well founded.
   Then every card is split and parsed, the complement loop terminates, and each
   cell ends with a tree of '*' / ':' nodes over non-zero Surface leaves that,
   for every sense assignment, holds exactly where MCNP says the cell's
   expression holds. *)
Theorem deck_end_to_end cs rk :
  Forall card_ok cs -> table_ranked (deck_mc cs) rk ->
  exists tbl F tbl',
    build_table (deck_cards cs) = Ok tbl /\
    (forall f, F <= f -> eliminate_all f tbl = Ok tbl') /\
    forall n e, deck_mc cs n = Some e ->
      exists c', lookup tbl' n = Some c' /\ a_plain (c_geom c') = true /\
        a_nonzero (c_geom c') = true /\
        forall sg cd, mcnp_meaning (deck_mc cs) sg cd -> aden cd sg (c_geom c') = mden cd sg e.
Proof.
  intros Hcs Hrk. destruct (build_table_ok cs Hcs) as (tbl & Eb & Hp).
  pose proof (parsed_table_ok (deck_mc cs) (lookup tbl) rk Hp Hrk) as Hok.
  destruct (eliminate_all_den tbl rk Hok) as (F & tbl' & Ef & Hall).
  exists tbl, F, tbl'. split; [exact Eb|]. split; [exact Ef|].
  intros n e En. pose proof (Hp n) as Hpn. rewrite En in Hpn. destruct Hpn as (Ha & a & Es & Ec).
  destruct (Hall n _ Ec) as (c' & Ec' & Pc & Zc & Dc).
  exists c'. split; [exact Ec'|]. split; [exact Pc|]. split; [exact Zc|].
  intros sg cd Hm. rewrite (Dc sg cd (parsed_table_meaning _ _ sg cd Hp Hm)). cbn [c_geom].
  destruct (admissible_parts e Ha) as (H1 & _ & H3).
  destruct (sem_facts e H1 H3) as (v & Ev & _ & Dv & _). rewrite Ev in Es. injection Es as <-. apply Dv.
Qed.
