(* C11 — converse of the layout lemma: every text the lexer reads without
   error IS a writing of the layout family (of the token sequence it returns). *)
From Coq Require Import List NArith ZArith Bool Lia String Ascii.
From T4V Require Import Base.Str C11.Model C11.Spec C11.LexProofs.
Import ListNotations.
Open Scope string_scope.

Lemma skip_blanks_inv s : exists g, s = blanks g ++ skip_blanks s.
Proof.
  induction s as [|c s IH].
  - exists 0. reflexivity.
  - cbn [skip_blanks]. destruct (is_blank c) eqn:B.
    + destruct IH as [g E]. exists (S g). unfold is_blank in B. apply Ascii.eqb_eq in B. subst c.
      cbn [blanks append]. now rewrite <- E.
    + exists 0. reflexivity.
Qed.

Lemma span_digits_inv s : forall acc cnt v n rest, span_digits s acc cnt = (v, n, rest) ->
  exists ds, s = ds ++ rest /\ all_digits ds = true /\ v = parse_digits ds acc /\
             n = cnt + String.length ds /\ digit_head rest = false.
Proof.
  induction s as [|c s IH]; intros acc cnt v n rest H; cbn [span_digits] in H.
  - injection H as <- <- <-. exists "". repeat split; auto.
  - destruct (is_digit c) eqn:D.
    + destruct (IH _ _ _ _ _ H) as (ds & -> & Ha & -> & -> & Hr).
      exists (String c ds). cbn [append all_digits parse_digits String.length]. rewrite D, Ha.
      repeat split; auto. lia.
    + injection H as <- <- <-. exists "". cbn. rewrite D. repeat split; auto.
Qed.

Lemma lex_literal_inv neg s t rest : lex_literal neg s = Some (t, rest) ->
  exists ds sub, s = ds ++ sub_text sub ++ rest /\ digits_ok ds = true /\
    match sub with Some d => is_digit d | None => true end = true /\
    glue_head rest = false /\
    t = TLit (if neg then (- Z.of_N (number ds))%Z else Z.of_N (number ds)) (option_map digit_val sub).
Proof.
  unfold lex_literal. destruct (span_digits s 0%N 0) as [[v n] rest0] eqn:Es.
  destruct (span_digits_inv s _ _ _ _ _ Es) as (ds & -> & Ha & -> & -> & Hr0).
  destruct (0 + String.length ds) eqn:En; [discriminate|].
  assert (Hds : digits_ok ds = true).
  { unfold digits_ok. rewrite Ha. destruct ds; [cbn in En; discriminate|reflexivity]. }
  set (P := match rest0 with
            | String c1 (String d r2) =>
                if Ascii.eqb c1 "." && is_digit d then (Some (digit_val d), r2) else (None, rest0)
            | _ => (None, rest0)
            end).
  assert (HP : exists sub, rest0 = sub_text sub ++ snd P /\ fst P = option_map digit_val sub /\
                           match sub with Some d => is_digit d | None => true end = true).
  { subst P. destruct rest0 as [|c1 [|d r2]]; try (exists None; repeat split; reflexivity).
    destruct (Ascii.eqb c1 "." && is_digit d) eqn:E.
    - apply andb_prop in E. destruct E as [E1 E2]. apply Ascii.eqb_eq in E1. subst c1.
      exists (Some d). repeat split; auto.
    - exists None. repeat split; reflexivity. }
  destruct HP as (sub & E0 & Ef & Hsub). destruct P as [sv rest'] eqn:EP. cbn [fst snd] in *.
  intros H.
  assert (Hg : glue_head rest' = false /\ Some (TLit (if neg then (- Z.of_N (parse_digits ds 0))%Z
                                                      else Z.of_N (parse_digits ds 0)) sv, rest') = Some (t, rest)).
  { destruct rest' as [|c r']; [split; [reflexivity|exact H]|].
    cbn [glue_head]. destruct (glues_to_literal c); [discriminate|]. split; [reflexivity|exact H]. }
  destruct Hg as [Hg E]. injection E as <- <-.
  exists ds, sub. rewrite E0. repeat split; auto. now rewrite Ef.
Qed.

(* what a written sequence starts with *)
Lemma next_is_lit_glue r trail : wf_written r = true -> next_is_lit r = true ->
  glue_head (render r trail) = true.
Proof.
  destruct r as [|[g w] r]; cbn [next_is_lit]; [discriminate|].
  destruct g; [|discriminate]. destruct w as [neg plus ds sub| | | | |]; try discriminate.
  intros Hwf _. cbn [wf_written wf_tok] in Hwf. apply andb_prop in Hwf. destruct Hwf as [Hwf _].
  apply andb_prop in Hwf. destruct Hwf as [Hw _]. apply andb_prop in Hw. destruct Hw as [Hds _].
  destruct (digits_ok_inv ds Hds) as (_ & c & ds' & -> & Hc).
  cbn [render blanks append wtext]. unfold sign_text.
  destruct neg; [reflexivity|]. destruct plus; [reflexivity|].
  cbn [append glue_head]. unfold glues_to_literal. now rewrite Hc.
Qed.

Lemma next_is_bare_digit_head r trail : wf_written r = true -> next_is_bare_digit r = true ->
  digit_head (render r trail) = true.
Proof.
  destruct r as [|[g w] r]; cbn [next_is_bare_digit]; [discriminate|].
  destruct g; [|discriminate]. destruct w as [neg plus ds sub| | | | |]; try discriminate.
  destruct neg; [discriminate|]. destruct plus; [discriminate|].
  intros Hwf _. cbn [wf_written wf_tok] in Hwf. apply andb_prop in Hwf. destruct Hwf as [Hwf _].
  apply andb_prop in Hwf. destruct Hwf as [Hw _]. apply andb_prop in Hw. destruct Hw as [Hds _].
  destruct (digits_ok_inv ds Hds) as (_ & c & ds' & -> & Hc).
  cbn [render blanks append wtext sign_text digit_head]. exact Hc.
Qed.

Lemma sep_lit r trail : wf_written r = true -> glue_head (render r trail) = false -> next_is_lit r = false.
Proof.
  intros Hwf Hg. destruct (next_is_lit r) eqn:E; [|reflexivity].
  rewrite (next_is_lit_glue r trail Hwf E) in Hg. discriminate.
Qed.

Lemma sep_digit r trail : wf_written r = true -> digit_head (render r trail) = false ->
  next_is_bare_digit r = false.
Proof.
  intros Hwf Hg. destruct (next_is_bare_digit r) eqn:E; [|reflexivity].
  rewrite (next_is_bare_digit_head r trail Hwf E) in Hg. discriminate.
Qed.

Lemma lex_sound : forall f s, ~ In TBad (lex f s) ->
  exists ws trail, render ws trail = s /\ wf_written ws = true /\ tokens_written ws = lex f s.
Proof.
  induction f as [|f IH]; intros s Hbad.
  - exfalso. apply Hbad. left. reflexivity.
  - cbn [lex] in *. destruct (skip_blanks_inv s) as [g Es].
    destruct (skip_blanks s) as [|c r] eqn:Esk.
    + exists [], g. cbn [render]. rewrite Es, str_app_nil_r. auto.
    + destruct (Ascii.eqb c "(") eqn:E1.
      { apply Ascii.eqb_eq in E1. subst c.
        destruct (IH r) as (ws & trail & Er & Hw & Ht); [intros H; apply Hbad; now right|].
        exists ((g, WLP) :: ws), trail. cbn [render wtext wf_written wf_tok tokens_written map snd tok_of].
        fold (tokens_written ws). rewrite Er, Hw, Ht, Es. auto. }
      destruct (Ascii.eqb c ")") eqn:E2.
      { apply Ascii.eqb_eq in E2. subst c.
        destruct (IH r) as (ws & trail & Er & Hw & Ht); [intros H; apply Hbad; now right|].
        exists ((g, WRP) :: ws), trail. cbn [render wtext wf_written wf_tok tokens_written map snd tok_of].
        fold (tokens_written ws). rewrite Er, Hw, Ht, Es. auto. }
      destruct (Ascii.eqb c ":") eqn:E3.
      { apply Ascii.eqb_eq in E3. subst c.
        destruct (IH r) as (ws & trail & Er & Hw & Ht); [intros H; apply Hbad; now right|].
        exists ((g, WColon) :: ws), trail. cbn [render wtext wf_written wf_tok tokens_written map snd tok_of].
        fold (tokens_written ws). rewrite Er, Hw, Ht, Es. auto. }
      destruct (Ascii.eqb c "#") eqn:E4.
      { apply Ascii.eqb_eq in E4. subst c. destruct (skip_blanks_inv r) as [g2 Er2].
        destruct (starts_with_char "(" (skip_blanks r)) eqn:Esw.
        - destruct (skip_blanks r) as [|c2 r2] eqn:Esk2; [discriminate|].
          cbn [starts_with_char] in Esw. apply Ascii.eqb_eq in Esw. subst c2. cbn [tail_str] in *.
          destruct (IH r2) as (ws & trail & Er & Hw & Ht); [intros H; apply Hbad; now right|].
          exists ((g, WHashP g2) :: ws), trail.
          cbn [render wtext wf_written wf_tok tokens_written map snd tok_of].
          fold (tokens_written ws). rewrite Er, Hw, Ht, Es, Er2. cbn [append]. rewrite str_app_assoc. auto.
        - destruct (span_digits (skip_blanks r) 0%N 0) as [[n cnt] r2] eqn:Esp.
          destruct (span_digits_inv _ _ _ _ _ _ Esp) as (ds & Eds & Ha & -> & -> & Hr2).
          destruct (0 + String.length ds) eqn:En.
          { exfalso. apply Hbad. left. reflexivity. }
          assert (Hds : digits_ok ds = true).
          { unfold digits_ok. rewrite Ha. destruct ds; [cbn in En; discriminate|reflexivity]. }
          destruct (IH r2) as (ws & trail & Er & Hw & Ht); [intros H; apply Hbad; now right|].
          exists ((g, WHashN g2 ds) :: ws), trail.
          cbn [render wtext wf_written wf_tok tokens_written map snd tok_of].
          fold (tokens_written ws). rewrite Hds, Hw, Ht. rewrite <- Er in Hr2.
          rewrite (sep_digit ws trail Hw Hr2). rewrite Er. repeat split; auto.
          rewrite Es, Er2, Eds. cbn [append]. now rewrite !str_app_assoc. }
      destruct (Ascii.eqb c "-") eqn:E5.
      { apply Ascii.eqb_eq in E5. subst c.
        destruct (lex_literal true r) as [[t r2]|] eqn:El; [|exfalso; apply Hbad; left; reflexivity].
        destruct (lex_literal_inv _ _ _ _ El) as (ds & sub & Er0 & Hds & Hsub & Hg & ->).
        destruct (IH r2) as (ws & trail & Er & Hw & Ht); [intros H; apply Hbad; now right|].
        exists ((g, WLit true false ds sub) :: ws), trail.
        cbn [render wtext wf_written wf_tok tokens_written map snd tok_of sign_text].
        fold (tokens_written ws). rewrite Hds, Hsub, Hw, Ht. rewrite <- Er in Hg.
        rewrite (sep_lit ws trail Hw Hg). rewrite Er. repeat split; auto.
        rewrite Es, Er0. cbn [append]. now rewrite !str_app_assoc. }
      destruct (Ascii.eqb c "+") eqn:E6.
      { apply Ascii.eqb_eq in E6. subst c.
        destruct (lex_literal false r) as [[t r2]|] eqn:El; [|exfalso; apply Hbad; left; reflexivity].
        destruct (lex_literal_inv _ _ _ _ El) as (ds & sub & Er0 & Hds & Hsub & Hg & ->).
        destruct (IH r2) as (ws & trail & Er & Hw & Ht); [intros H; apply Hbad; now right|].
        exists ((g, WLit false true ds sub) :: ws), trail.
        cbn [render wtext wf_written wf_tok tokens_written map snd tok_of sign_text].
        fold (tokens_written ws). rewrite Hds, Hsub, Hw, Ht. rewrite <- Er in Hg.
        rewrite (sep_lit ws trail Hw Hg). rewrite Er. repeat split; auto.
        rewrite Es, Er0. cbn [append]. now rewrite !str_app_assoc. }
      destruct (is_digit c) eqn:E7; [|exfalso; apply Hbad; left; reflexivity].
      destruct (lex_literal false (String c r)) as [[t r2]|] eqn:El; [|exfalso; apply Hbad; left; reflexivity].
      destruct (lex_literal_inv _ _ _ _ El) as (ds & sub & Er0 & Hds & Hsub & Hg & ->).
      destruct (IH r2) as (ws & trail & Er & Hw & Ht); [intros H; apply Hbad; now right|].
      exists ((g, WLit false false ds sub) :: ws), trail.
      cbn [render wtext wf_written wf_tok tokens_written map snd tok_of sign_text].
      fold (tokens_written ws). rewrite Hds, Hsub, Hw, Ht. rewrite <- Er in Hg.
      rewrite (sep_lit ws trail Hw Hg). rewrite Er. repeat split; auto.
      rewrite Es, Er0. cbn [append]. now rewrite !str_app_assoc.
Qed.

Theorem tokens_of_sound s : ~ In TBad (tokens_of s) ->
  exists ws trail, render ws trail = s /\ wf_written ws = true /\ tokens_written ws = tokens_of s.
Proof. apply lex_sound. Qed.
