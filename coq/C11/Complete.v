(* C11 — the model's get_ast accepts exactly the writings (layout family) of
   the accepted expressions, with MCNP's meaning. *)
From Coq Require Import List NArith ZArith Bool Lia String Ascii.
From T4V Require Import Base.Str C11.Model C11.Spec C11.Proofs C11.LexProofs C11.LexSound C11.Layout C11.Sound.
Import ListNotations.

Lemma toks_no_bad e : forall lvl, ~ In TBad (toks lvl e).
Proof.
  induction e as [z sub|a IHa b IHb|a IHa b IHb|e IHe|n|p IHp]; intros lvl H; cbn [toks] in H.
  - destruct H as [H|[]]. discriminate.
  - unfold paren in H. destruct (Nat.ltb 1 lvl).
    + destruct H as [H|H]; [discriminate|]. rewrite !in_app_iff in H.
      destruct H as [[H|H]|[H|[]]]; [exact (IHa _ H)|exact (IHb _ H)|discriminate].
    + rewrite in_app_iff in H. destruct H as [H|H]; [exact (IHa _ H)|exact (IHb _ H)].
  - unfold paren in H. destruct (Nat.ltb 0 lvl).
    + destruct H as [H|H]; [discriminate|]. rewrite !in_app_iff in H.
      destruct H as [[H|[H|H]]|[H|[]]]; [exact (IHa _ H)|discriminate|exact (IHb _ H)|discriminate].
    + rewrite in_app_iff in H. destruct H as [H|[H|H]]; [exact (IHa _ H)|discriminate|exact (IHb _ H)].
  - destruct H as [H|H]; [discriminate|]. rewrite in_app_iff in H.
    destruct H as [H|[H|[]]]; [exact (IHe _ H)|discriminate].
  - destruct H as [H|[]]. discriminate.
  - destruct H as [H|H]; [discriminate|]. rewrite in_app_iff in H.
    destruct H as [H|[H|[]]]; [exact (IHp _ H)|discriminate].
Qed.

(* soundness of acceptance, string level *)
Theorem get_ast_sound_written s a : get_ast s = Ok a ->
  exists e ws trail, render ws trail = s /\ wf_written ws = true /\
    tokens_written ws = toks 0 e /\ psem e = Ok a /\
    (nonzero e = true -> forall cd sg, aden cd sg a = mden cd sg e).
Proof.
  intros H. destruct (get_ast_sound s a H) as (e & Et & Ep & D).
  assert (Hb : ~ In TBad (tokens_of s)) by (rewrite Et; apply toks_no_bad).
  destruct (tokens_of_sound s Hb) as (ws & trail & Er & Hw & Htw).
  exists e, ws, trail. rewrite Htw, Et. repeat split; auto.
Qed.

(* characterisation: a text is accepted iff it is a writing of an accepted expression *)
Theorem get_ast_accepts_iff s :
  (exists a, get_ast s = Ok a) <->
  (exists e ws trail, render ws trail = s /\ wf_written ws = true /\
     tokens_written ws = toks 0 e /\ accepted e = true).
Proof.
  split.
  - intros [a H]. destruct (get_ast_sound_written s a H) as (e & ws & trail & Er & Hw & Ht & Ep & _).
    exists e, ws, trail. repeat split; auto. apply psem_ok_iff. eauto.
  - intros (e & ws & trail & <- & Hw & Ht & Hacc).
    rewrite (get_ast_render_psem e ws trail Hw Ht). now apply psem_ok_iff.
Qed.

(* ---- the open finding, exactly ----
   every written MCNP expression falls in exactly one of two cases: it has no
   #n below a #( ) and is accepted with MCNP's meaning, or it has one and
   get_ast raises AttributeError.  So the class nested_complement_of_cellref
   ([no_cell_under_not e = false]) is precisely the complement of the accepted
   set inside the well-formed expressions; MCNP's meaning of the rejected ones
   is [mden cd sg e] like for any other expression (Spec.v). *)
Theorem written_dichotomy e ws trail :
  wf_written ws = true -> tokens_written ws = toks 0 e ->
  (no_cell_under_not e = true /\
   exists a, get_ast (render ws trail) = Ok a /\
             (nonzero e = true -> forall cd sg, aden cd sg a = mden cd sg e)) \/
  (no_cell_under_not e = false /\ get_ast (render ws trail) = Err EAttribute).
Proof.
  intros Hw Ht. destruct (no_cell_under_not e) eqn:Hc.
  - left. split; [reflexivity|].
    destruct (proj2 (accepted_written_iff e ws trail Hw Ht) Hc) as [a Ea].
    exists a. split; [exact Ea|]. intros Hn cd sg.
    assert (Hadm : admissible e = true) by (unfold admissible; now rewrite Hc, Hn).
    destruct (parse_print_layout e ws trail Hadm Hw Ht) as (a' & Ea' & _ & D).
    rewrite Ea in Ea'. injection Ea' as <-. apply D.
  - right. split; [reflexivity|]. exact (nested_rejected_written e ws trail Hw Ht Hc).
Qed.

Theorem rejected_iff_nested e ws trail :
  wf_written ws = true -> tokens_written ws = toks 0 e ->
  ((exists x, get_ast (render ws trail) = Err x) <-> no_cell_under_not e = false).
Proof.
  intros Hw Ht. destruct (written_dichotomy e ws trail Hw Ht) as [(Hc & a & Ea & _)|(Hc & Ee)].
  - rewrite Ea, Hc. split; [intros [x H]; discriminate|discriminate].
  - rewrite Ee, Hc. split; [reflexivity|eauto].
Qed.
