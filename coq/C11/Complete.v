(* C11 — the model's get_ast accepts exactly the writings (layout family) of
   the accepted expressions, with MCNP's meaning. *)
From Coq Require Import List NArith ZArith Bool Lia String Ascii.
From T4V Require Import Base.Str C11.Model C11.Spec C11.Proofs C11.LexProofs C11.LexSound C11.Layout C11.Sound.
Import ListNotations.

Lemma toks_no_bad e : forall lvl, ~ In TBad (toks lvl e).
Proof.
  induction e as [z sub|a IHa b IHb|a IHa b IHb|e IHe|n|p IHp]; intros lvl H; cbn [toks] in H.
  - destruct H as [H|[]]. discriminate.
  - unfold paren in H. destruct (Nat.ltb 1 lvl).
    + destruct H as [H|H]; [discriminate|]. rewrite !in_app_iff in H.
      destruct H as [[H|H]|[H|[]]]; [exact (IHa _ H)|exact (IHb _ H)|discriminate].
    + rewrite in_app_iff in H. destruct H as [H|H]; [exact (IHa _ H)|exact (IHb _ H)].
  - unfold paren in H. destruct (Nat.ltb 0 lvl).
    + destruct H as [H|H]; [discriminate|]. rewrite !in_app_iff in H.
      destruct H as [[H|[H|H]]|[H|[]]]; [exact (IHa _ H)|discriminate|exact (IHb _ H)|discriminate].
    + rewrite in_app_iff in H. destruct H as [H|[H|H]]; [exact (IHa _ H)|discriminate|exact (IHb _ H)].
  - destruct H as [H|H]; [discriminate|]. rewrite in_app_iff in H.
    destruct H as [H|[H|[]]]; [exact (IHe _ H)|discriminate].
  - destruct H as [H|[]]. discriminate.
  - destruct H as [H|H]; [discriminate|]. rewrite in_app_iff in H.
    destruct H as [H|[H|[]]]; [exact (IHp _ H)|discriminate].
Qed.

(* soundness of acceptance, string level *)
Theorem get_ast_sound_written s a : get_ast s = Ok a ->
  exists e ws trail, render ws trail = s /\ wf_written ws = true /\
    tokens_written ws = toks 0 e /\ psem e = Ok a /\
    (nonzero e = true -> forall cd sg, aden cd sg a = mden cd sg e).
Proof.
  intros H. destruct (get_ast_sound s a H) as (e & Et & Ep & D).
  assert (Hb : ~ In TBad (tokens_of s)) by (rewrite Et; apply toks_no_bad).
  destruct (tokens_of_sound s Hb) as (ws & trail & Er & Hw & Htw).
  exists e, ws, trail. rewrite Htw, Et. repeat split; auto.
Qed.

(* characterisation: a text is accepted iff it is a writing of an accepted expression *)
Theorem get_ast_accepts_iff s :
  (exists a, get_ast s = Ok a) <->
  (exists e ws trail, render ws trail = s /\ wf_written ws = true /\
     tokens_written ws = toks 0 e /\ accepted e = true).
Proof.
  split.
  - intros [a H]. destruct (get_ast_sound_written s a H) as (e & ws & trail & Er & Hw & Ht & Ep & _).
    exists e, ws, trail. repeat split; auto. apply psem_ok_iff. eauto.
  - intros (e & ws & trail & <- & Hw & Ht & Hacc).
    rewrite (get_ast_render_psem e ws trail Hw Ht). now apply psem_ok_iff.
Qed.
