(* C11 — get_ast2 = get_ast on every string of length <= 6 over "123-#(): ."
   (1 111 111 strings): ten shards by first character, each checked by computation
   (RegexB_*.v, compiled in parallel), combined here. *)
From Coq Require Import List NArith Bool String Ascii Lia.
From T4V Require Import Base.Str C11.Model C11.Exec C11.Regex C11.RegexProofs.
From T4V Require C11.RegexB_1 C11.RegexB_2 C11.RegexB_3 C11.RegexB_m C11.RegexB_h C11.RegexB_o
  C11.RegexB_c C11.RegexB_u C11.RegexB_b C11.RegexB_d.
Import ListNotations.
Local Open Scope nat_scope.

Lemma in_upto al n s : String.length s <= n ->
  (forall c, In c (list_ascii_of_string s) -> In c al) -> In s (strings_upto al n).
Proof.
  intros Hl Ha. unfold strings_upto. apply in_flat_map.
  exists (String.length s). split; [apply in_seq; lia|]. apply in_strings_len. auto.
Qed.

Theorem get_ast2_eq_len6 : forall s, String.length s <= 6 ->
  (forall c, In c (list_ascii_of_string s) -> In c alpha3) -> get_ast2 s = get_ast s.
Proof.
  intros s Hl Ha. destruct s as [|c t].
  - apply get_ast2_eq_short; [cbn; lia|exact Ha].
  - assert (Ht : In t (strings_upto alpha3 5)).
    { apply in_upto; [cbn in Hl; lia|]. intros d Hd. apply Ha. now right. }
    assert (Hc : In c alpha3) by (apply Ha; now left).
    apply res_eqb_eq. change (models_agree (String c t) = true).
    cbn [alpha3 In] in Hc.
    destruct Hc as [<-|[<-|[<-|[<-|[<-|[<-|[<-|[<-|[<-|[<-|[]]]]]]]]]]].
    + exact (proj1 (forallb_forall _ _) RegexB_1.shard t Ht).
    + exact (proj1 (forallb_forall _ _) RegexB_2.shard t Ht).
    + exact (proj1 (forallb_forall _ _) RegexB_3.shard t Ht).
    + exact (proj1 (forallb_forall _ _) RegexB_m.shard t Ht).
    + exact (proj1 (forallb_forall _ _) RegexB_h.shard t Ht).
    + exact (proj1 (forallb_forall _ _) RegexB_o.shard t Ht).
    + exact (proj1 (forallb_forall _ _) RegexB_c.shard t Ht).
    + exact (proj1 (forallb_forall _ _) RegexB_u.shard t Ht).
    + exact (proj1 (forallb_forall _ _) RegexB_b.shard t Ht).
    + exact (proj1 (forallb_forall _ _) RegexB_d.shard t Ht).
Qed.
