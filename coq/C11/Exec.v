(* C11 — comparison functions for the generated correspondence files *)
From Coq Require Import List NArith ZArith Bool String Ascii.
From T4V Require Import Base.Str Base.Cases C11.Model.
Import ListNotations.

Fixpoint ast_eqb (a b : ast) : bool :=
  match a, b with
  | ASurf z1 s1, ASurf z2 s2 => Z.eqb z1 z2 && option_eqb N.eqb s1 s2
  | AAnd l1 r1, AAnd l2 r2 => ast_eqb l1 l2 && ast_eqb r1 r2
  | AOr l1 r1, AOr l2 r2 => ast_eqb l1 l2 && ast_eqb r1 r2
  | ACompl n1, ACompl n2 => N.eqb n1 n2
  | ARawAnd l1 r1, ARawAnd l2 r2 => ast_eqb l1 l2 && ast_eqb r1 r2
  | _, _ => false
  end.

Definition err_eqb (a b : err) : bool :=
  match a, b with
  | EParse, EParse | EAttribute, EAttribute | EKey, EKey | EFuel, EFuel | EAssert, EAssert => true
  | _, _ => false
  end.

Definition res_eqb (a b : res ast) : bool :=
  match a, b with
  | Ok x, Ok y => ast_eqb x y
  | Err x, Err y => err_eqb x y
  | _, _ => false
  end.

(* (text, what get_ast returned) *)
Definition check_parse (c : string * res ast) : bool := res_eqb (get_ast (fst c)) (snd c).

(* cell table as an association list; (table, cell whose geometry is converted, expected) *)
Definition lookup (tbl : list (N * cell)) (n : N) : option cell :=
  match find (fun p => N.eqb (fst p) n) tbl with Some p => Some (snd p) | None => None end.

Definition check_complement (c : list (N * cell) * ast * res ast) : bool :=
  let '(tbl, a, expected) := c in
  res_eqb (pot_complement 64 (lookup tbl) a) expected.
