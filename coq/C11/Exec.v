(* C11 — comparison functions for the generated correspondence files *)
From Coq Require Import List NArith ZArith Bool String Ascii.
From T4V Require Import Base.Str Base.Cases C11.Model C11.Regex.
Import ListNotations.

Fixpoint ast_eqb (a b : ast) : bool :=
  match a, b with
  | ASurf z1 s1, ASurf z2 s2 => Z.eqb z1 z2 && option_eqb N.eqb s1 s2
  | AAnd l1 r1, AAnd l2 r2 => ast_eqb l1 l2 && ast_eqb r1 r2
  | AOr l1 r1, AOr l2 r2 => ast_eqb l1 l2 && ast_eqb r1 r2
  | ACompl n1, ACompl n2 => N.eqb n1 n2
  | ARawAnd l1 r1, ARawAnd l2 r2 => ast_eqb l1 l2 && ast_eqb r1 r2
  | _, _ => false
  end.

Definition err_eqb (a b : err) : bool :=
  match a, b with
  | EParse, EParse | EAttribute, EAttribute | EKey, EKey | EFuel, EFuel | EAssert, EAssert
  | EIndex, EIndex | EValue, EValue => true
  | _, _ => false
  end.

Definition res_eqb (a b : res ast) : bool :=
  match a, b with
  | Ok x, Ok y => ast_eqb x y
  | Err x, Err y => err_eqb x y
  | _, _ => false
  end.

(* (text, what get_ast returned) *)
Definition check_parse (c : string * res ast) : bool := res_eqb (get_ast (fst c)) (snd c).

(* cell table as an association list; (table, cell whose geometry is converted, expected) *)
Definition check_complement (c : list (N * cell) * ast * res ast) : bool :=
  let '(tbl, a, expected) := c in
  res_eqb (pot_complement 64 (lookup tbl) a) expected.

(* the whole loop: (table in dictionary order, expected final geometries or the exception) *)
Definition geoms (tbl : table) : list (N * ast) := map (fun p => (fst p, c_geom (snd p))) tbl.

Definition check_loop (c : list (N * cell) * res (list (N * ast))) : bool :=
  match eliminate_all 64 (fst c), snd c with
  | Ok t, Ok expected => list_eqb (pair_eqb N.eqb ast_eqb) (geoms t) expected
  | Err x, Err y => err_eqb x y
  | _, _ => false
  end.

(* cellcard.split: (card text, (geometry, options) or the exception) *)
Definition check_split (c : string * res (string * string)) : bool :=
  match split_card (fst c), snd c with
  | Ok (g, o), Ok (g', o') => String.eqb g g' && String.eqb o o'
  | Err x, Err y => err_eqb x y
  | _, _ => false
  end.

(* ---- exhaustive tie by bucketed fingerprints ----
   The harness enumerates every string over [alpha] up to a length, runs the
   implementation and computes, per bucket (a prefix), the number of accepted
   strings and a weighted sum of result hashes; the same numbers are computed
   here from the model. A bucket that differs is re-run case by case. *)
Open Scope N_scope.
Definition fpP : N := 2147483647.

Fixpoint h_ast (a : ast) : N :=
  match a with
  | ASurf z sub => (1 + 3 * Z.to_N (z mod Z.of_N fpP) + 7 * match sub with None => 0 | Some k => k + 1 end) mod fpP
  | AAnd l r => (11 + 31 * h_ast l + 37 * h_ast r) mod fpP
  | AOr l r => (13 + 41 * h_ast l + 43 * h_ast r) mod fpP
  | ACompl n => (17 + 47 * n) mod fpP
  | ARawAnd l r => (19 + 53 * h_ast l + 59 * h_ast r) mod fpP
  end.

Definition h_res (r : res ast) : N :=
  match r with
  | Ok a => (1000 + h_ast a) mod fpP
  | Err EParse => 1 | Err EAttribute => 2 | Err EKey => 3 | Err EFuel => 4 | Err EAssert => 5
  | Err EIndex => 6 | Err EValue => 7
  end.

Fixpoint h_str (s : string) (acc : N) : N :=
  match s with
  | EmptyString => acc
  | String c r => h_str r ((acc * 131 + N_of_ascii c) mod fpP)
  end.

Definition alpha : list ascii := ["1"; "2"; "-"; "#"; "("; ")"; ":"; " "; "."]%char.
Definition alpha3 : list ascii := ["1"; "2"; "3"; "-"; "#"; "("; ")"; ":"; " "; "."]%char.

(* all strings of length exactly n over the alphabet al *)
Fixpoint strings_len (al : list ascii) (n : nat) : list string :=
  match n with
  | O => [EmptyString]
  | S k => flat_map (fun s => map (fun c => String c s) al) (strings_len al k)
  end.

Definition fp_step (acc : N * N) (s : string) : N * N :=
  let r := get_ast s in
  (match r with Ok _ => fst acc + 1 | Err _ => fst acc end,
   (snd acc + h_str s 7 * h_res r) mod fpP).

(* (accepted, weighted hash) over prefix ++ s for all s of length exactly n *)
Definition fp_exact (al : list ascii) (prefix : string) (n : nat) (acc : N * N) : N * N :=
  fold_left (fun a s => fp_step a (prefix ++ s)%string) (strings_len al n) acc.

(* ... for all s of length <= n *)
Fixpoint fp_upto (al : list ascii) (prefix : string) (n : nat) (acc : N * N) : N * N :=
  let acc' := fp_exact al prefix n acc in
  match n with O => acc' | S k => fp_upto al prefix k acc' end.

Definition bucket_fp (al : list ascii) (prefix : string) (n : nat) : N * N := fp_upto al prefix n (0, 0).
Definition bucket_fp_exact (al : list ascii) (prefix : string) (n : nat) : N * N := fp_exact al prefix n (0, 0).

(* ---- ties of the code-shaped model (Regex.v), step by step ----
   weighted sums over all strings prefix ++ s, |s| <= n, of a hash of what one
   function returns; the harness computes the same sums from the regexes / the
   PEG of the repository *)
Definition alphaX : list ascii := ["1"; "2"; "-"; "#"; "("; ")"; ":"; " "; "."; "^"; "_"; "*"]%char.
Definition alphaP : list ascii := ["1"; "2"; "-"; "+"; "."; "("; ")"; ":"; "*"; "^"; "_"]%char.

Definition fp_gen_exact (g : string -> N) (al : list ascii) (prefix : string) (n : nat) (acc : N) : N :=
  fold_left (fun a s => let t := (prefix ++ s)%string in (a + h_str t 7 * g t) mod fpP) (strings_len al n) acc.

Fixpoint fp_gen (g : string -> N) (al : list ascii) (prefix : string) (n : nat) (acc : N) : N :=
  let acc' := fp_gen_exact g al prefix n acc in
  match n with O => acc' | S k => fp_gen g al prefix k acc' end.

Definition regex_step (k : nat) (s : string) : string :=
  match k with
  | 0%nat => strip s
  | 1%nat => sub_compl_cell (fl s) s
  | 2%nat => sub_compl_surf (fl s) s
  | 3%nat => sub_union (fl s) s
  | 4%nat => sub_pareno (fl s) s
  | 5%nat => sub_parenc (fl s) s
  | 6%nat => sub_pareno_before s
  | 7%nat => sub_parenc_after s
  | 8%nat => sub_spaces (fl s) s
  | _ => normalize2 s
  end.

Definition alphaXq : list ascii := ["1"; "-"; "#"; "("; ")"; ":"; " "; "^"; "_"; "*"]%char.
Definition step_fp_on (al : list ascii) (k : nat) (prefix : string) (n : nat) : N :=
  fp_gen (fun t => h_str (regex_step k t) 11) al prefix n 0.
Definition step_fp (k : nat) (prefix : string) (n : nat) : N := step_fp_on alphaX k prefix n.

(* '_' directly followed by a digit: the grammar's [cell] alternative (private syntax) *)
Fixpoint has_cell_syntax (s : string) : bool :=
  match s with
  | String c r =>
      match r with
      | String d _ => (Ascii.eqb c "_" && is_digit d) || has_cell_syntax r
      | EmptyString => false
      end
  | EmptyString => false
  end.

Definition peg_fp (prefix : string) (n : nat) : N :=
  fp_gen (fun t => if has_cell_syntax t then 0 else h_res (peg_start t)) alphaP prefix n 0.

(* get_ast2 against the implementation, same fingerprint as bucket_fp *)
Definition fp_step2 (acc : N * N) (s : string) : N * N :=
  let r := get_ast2 s in
  (match r with Ok _ => fst acc + 1 | Err _ => fst acc end,
   (snd acc + h_str s 7 * h_res r) mod fpP).
Definition bucket_fp2_exact (al : list ascii) (prefix : string) (n : nat) : N * N :=
  fold_left (fun a s => fp_step2 a (prefix ++ s)%string) (strings_len al n) (0, 0).
(* the two models agree on a bucket (thorough tier: beyond the bound proved in RegexProofs.v) *)
Definition models_agree_exact (al : list ascii) (prefix : string) (n : nat) : bool :=
  forallb (fun s => let t := (prefix ++ s)%string in res_eqb (get_ast2 t) (get_ast t)) (strings_len al n).
Definition models_agree_upto (al : list ascii) (prefix : string) (n : nat) : bool :=
  forallb (fun k => models_agree_exact al prefix k) (seq 0 (S n)).
