(* C11 — proofs about C11/Model.v against C11/Spec.v *)
From Coq Require Import List NArith ZArith Bool Lia String Ascii.
From T4V Require Import Base.Str C11.Model C11.Spec.
Import ListNotations.
Close Scope string_scope.
Open Scope list_scope.

(* ================================================================== *)
(* 1. De Morgan inversion                                              *)
(* ================================================================== *)
Fixpoint a_plain (a : ast) : bool :=        (* no '^' node, no raw list node *)
  match a with
  | ASurf _ _ => true
  | AAnd l r | AOr l r => a_plain l && a_plain r
  | ACompl _ | ARawAnd _ _ => false
  end.

Fixpoint a_nonzero (a : ast) : bool :=
  match a with
  | ASurf z _ => negb (z =? 0)%Z
  | AAnd l r | AOr l r | ARawAnd l r => a_nonzero l && a_nonzero r
  | ACompl _ => true
  end.

Lemma lit_den_opp sg z sub : z <> 0%Z -> lit_den sg (- z) sub = negb (lit_den sg z sub).
Proof.
  intros Hz. unfold lit_den. rewrite Zabs2N.inj_opp.
  destruct (0 <? z)%Z eqn:E1; destruct (0 <? - z)%Z eqn:E2;
    try apply Z.ltb_lt in E1; try apply Z.ltb_lt in E2;
    try apply Z.ltb_ge in E1; try apply Z.ltb_ge in E2; try lia;
    [reflexivity | now rewrite negb_involutive].
Qed.

Lemma inverse_plain a : a_plain a = true ->
  exists a', inverse a = Ok a' /\ a_plain a' = true /\
    (a_nonzero a = true -> a_nonzero a' = true /\
       forall cd sg, aden cd sg a' = negb (aden cd sg a)).
Proof.
  induction a as [z sub|l IHl r IHr|l IHl r IHr|n|l IHl r IHr]; cbn [a_plain]; intros Hp;
    try discriminate.
  - exists (ASurf (- z) sub). cbn [inverse a_plain a_nonzero aden]. repeat split.
    + apply negb_true_iff in H. apply Z.eqb_neq in H. apply negb_true_iff. apply Z.eqb_neq. lia.
    + intros cd sg. apply lit_den_opp. apply negb_true_iff in H. now apply Z.eqb_neq in H.
  - apply andb_prop in Hp. destruct Hp as [Hl Hr].
    destruct (IHl Hl) as (l' & El & Pl & Dl). destruct (IHr Hr) as (r' & Er & Pr & Dr).
    exists (AOr l' r'). cbn [inverse]. rewrite El, Er. cbn [a_plain a_nonzero aden].
    rewrite Pl, Pr. repeat split; auto.
    + apply andb_prop in H. destruct H as [Nl Nr]. destruct (Dl Nl) as [-> _]. now destruct (Dr Nr) as [-> _].
    + intros cd sg. apply andb_prop in H. destruct H as [Nl Nr].
      destruct (Dl Nl) as [_ ->]. destruct (Dr Nr) as [_ ->]. now rewrite negb_andb.
  - apply andb_prop in Hp. destruct Hp as [Hl Hr].
    destruct (IHl Hl) as (l' & El & Pl & Dl). destruct (IHr Hr) as (r' & Er & Pr & Dr).
    exists (AAnd l' r'). cbn [inverse]. rewrite El, Er. cbn [a_plain a_nonzero aden].
    rewrite Pl, Pr. repeat split; auto.
    + apply andb_prop in H. destruct H as [Nl Nr]. destruct (Dl Nl) as [-> _]. now destruct (Dr Nr) as [-> _].
    + intros cd sg. apply andb_prop in H. destruct H as [Nl Nr].
      destruct (Dl Nl) as [_ ->]. destruct (Dr Nr) as [_ ->]. now rewrite negb_orb.
Qed.

Lemma inverse_not_plain a : a_plain a = false -> inverse a = Err EAttribute.
Proof.
  induction a as [z sub|l IHl r IHr|l IHl r IHr|n|l IHl r IHr]; cbn [a_plain inverse]; intros Hp;
    try discriminate; try reflexivity.
  - apply andb_false_iff in Hp. destruct (a_plain l) eqn:Pl.
    + destruct Hp as [Hp|Hp]; [discriminate|]. destruct (inverse_plain l Pl) as (l' & -> & _).
      now rewrite (IHr Hp).
    + now rewrite (IHl eq_refl).
  - apply andb_false_iff in Hp. destruct (a_plain l) eqn:Pl.
    + destruct Hp as [Hp|Hp]; [discriminate|]. destruct (inverse_plain l Pl) as (l' & -> & _).
      now rewrite (IHr Hp).
    + now rewrite (IHl eq_refl).
Qed.

(* ================================================================== *)
(* 2. Complement elimination                                           *)
(* ================================================================== *)
(* fuel monotonicity: a result other than EFuel is stable under more fuel *)
Lemma pot_complement_more_fuel cells : forall f a t,
  pot_complement f cells a = Ok t -> forall f', f <= f' -> pot_complement f' cells a = Ok t.
Proof.
  induction f as [|f IH]; intros a t H f' Hle; [discriminate|].
  destruct f' as [|f']; [lia|]. assert (f <= f') as Hle' by lia.
  destruct a as [z sub|l r|l r|n|l r]; cbn [pot_complement] in *.
  - exact H.
  - destruct (pot_complement f cells l) as [l'|] eqn:El; [|discriminate].
    destruct (pot_complement f cells r) as [r'|] eqn:Er; [|discriminate].
    now rewrite (IH _ _ El _ Hle'), (IH _ _ Er _ Hle').
  - destruct (pot_complement f cells l) as [l'|] eqn:El; [|discriminate].
    destruct (pot_complement f cells r) as [r'|] eqn:Er; [|discriminate].
    now rewrite (IH _ _ El _ Hle'), (IH _ _ Er _ Hle').
  - destruct (cells n) as [c|]; [|discriminate]. destruct (c_lattice c); [exact H|].
    destruct (pot_complement f cells (c_geom c)) as [g|] eqn:Eg; [|discriminate].
    now rewrite (IH _ _ Eg _ Hle').
  - destruct (pot_complement f cells l) as [l'|] eqn:El; [|discriminate].
    destruct (pot_complement f cells r) as [r'|] eqn:Er; [|discriminate].
    now rewrite (IH _ _ El _ Hle'), (IH _ _ Er _ Hle').
Qed.

(* every #m below [a] refers to a defined, non-lattice cell of rank < k *)
Fixpoint refs_below (cells : N -> option cell) (rk : N -> nat) (k : nat) (a : ast) : Prop :=
  match a with
  | ASurf _ _ => True
  | AAnd l r | AOr l r | ARawAnd l r => refs_below cells rk k l /\ refs_below cells rk k r
  | ACompl m => exists c, cells m = Some c /\ c_lattice c = false /\ rk m < k
  end.

(* a table is well founded when each cell only refers to cells of smaller rank *)
Definition table_ok (cells : N -> option cell) (rk : N -> nat) : Prop :=
  forall n c, cells n = Some c ->
    refs_below cells rk (rk n) (c_geom c) /\ a_nonzero (c_geom c) = true.

(* "cd" is MCNP's meaning of the cells under the assignment sg: cell n contains
   the point iff its expression is true there *)
Definition cells_meaning (cells : N -> option cell) (sg : sense) (cd : N -> bool) : Prop :=
  forall n c, cells n = Some c -> cd n = aden cd sg (c_geom c).

Lemma pot_complement_sound cells rk : table_ok cells rk ->
  forall k a, refs_below cells rk k a -> a_nonzero a = true ->
  exists F t, (forall f, F <= f -> pot_complement f cells a = Ok t) /\
    a_plain t = true /\ a_nonzero t = true /\
    forall sg cd, cells_meaning cells sg cd -> aden cd sg t = aden cd sg a.
Proof.
  intros Htab. induction k as [|k IHk].
  - (* no cell reference possible *)
    induction a as [z sub|l IHl r IHr|l IHl r IHr|n|l IHl r IHr]; cbn [refs_below a_nonzero]; intros Hr Hn.
    + exists 1, (ASurf z sub). repeat split; auto. intros [|f] Hf; [lia|reflexivity].
    + destruct Hr as [Hl Hr]. apply andb_prop in Hn. destruct Hn as [Nl Nr].
      destruct (IHl Hl Nl) as (F1 & l' & E1 & P1 & Z1 & D1). destruct (IHr Hr Nr) as (F2 & r' & E2 & P2 & Z2 & D2).
      exists (S (Nat.max F1 F2)), (AAnd l' r'). repeat split.
      * intros [|f] Hf; [lia|]. cbn [pot_complement]. rewrite E1, E2 by lia. reflexivity.
      * cbn. now rewrite P1, P2.
      * cbn. now rewrite Z1, Z2.
      * intros sg cd Hm. cbn [aden]. now rewrite (D1 sg cd Hm), (D2 sg cd Hm).
    + destruct Hr as [Hl Hr]. apply andb_prop in Hn. destruct Hn as [Nl Nr].
      destruct (IHl Hl Nl) as (F1 & l' & E1 & P1 & Z1 & D1). destruct (IHr Hr Nr) as (F2 & r' & E2 & P2 & Z2 & D2).
      exists (S (Nat.max F1 F2)), (AOr l' r'). repeat split.
      * intros [|f] Hf; [lia|]. cbn [pot_complement]. rewrite E1, E2 by lia. reflexivity.
      * cbn. now rewrite P1, P2.
      * cbn. now rewrite Z1, Z2.
      * intros sg cd Hm. cbn [aden]. now rewrite (D1 sg cd Hm), (D2 sg cd Hm).
    + destruct Hr as (c & _ & _ & Hlt). lia.
    + destruct Hr as [Hl Hr]. apply andb_prop in Hn. destruct Hn as [Nl Nr].
      destruct (IHl Hl Nl) as (F1 & l' & E1 & P1 & Z1 & D1). destruct (IHr Hr Nr) as (F2 & r' & E2 & P2 & Z2 & D2).
      exists (S (Nat.max F1 F2)), (AAnd l' r'). repeat split.
      * intros [|f] Hf; [lia|]. cbn [pot_complement]. rewrite E1, E2 by lia. reflexivity.
      * cbn. now rewrite P1, P2.
      * cbn. now rewrite Z1, Z2.
      * intros sg cd Hm. cbn [aden]. now rewrite (D1 sg cd Hm), (D2 sg cd Hm).
  - induction a as [z sub|l IHl r IHr|l IHl r IHr|n|l IHl r IHr]; cbn [refs_below a_nonzero]; intros Hr Hn.
    + exists 1, (ASurf z sub). repeat split; auto. intros [|f] Hf; [lia|reflexivity].
    + destruct Hr as [Hl Hr]. apply andb_prop in Hn. destruct Hn as [Nl Nr].
      destruct (IHl Hl Nl) as (F1 & l' & E1 & P1 & Z1 & D1). destruct (IHr Hr Nr) as (F2 & r' & E2 & P2 & Z2 & D2).
      exists (S (Nat.max F1 F2)), (AAnd l' r'). repeat split.
      * intros [|f] Hf; [lia|]. cbn [pot_complement]. rewrite E1, E2 by lia. reflexivity.
      * cbn. now rewrite P1, P2.
      * cbn. now rewrite Z1, Z2.
      * intros sg cd Hm. cbn [aden]. now rewrite (D1 sg cd Hm), (D2 sg cd Hm).
    + destruct Hr as [Hl Hr]. apply andb_prop in Hn. destruct Hn as [Nl Nr].
      destruct (IHl Hl Nl) as (F1 & l' & E1 & P1 & Z1 & D1). destruct (IHr Hr Nr) as (F2 & r' & E2 & P2 & Z2 & D2).
      exists (S (Nat.max F1 F2)), (AOr l' r'). repeat split.
      * intros [|f] Hf; [lia|]. cbn [pot_complement]. rewrite E1, E2 by lia. reflexivity.
      * cbn. now rewrite P1, P2.
      * cbn. now rewrite Z1, Z2.
      * intros sg cd Hm. cbn [aden]. now rewrite (D1 sg cd Hm), (D2 sg cd Hm).
    + destruct Hr as (c & Hc & Hlat & Hlt).
      destruct (Htab n c Hc) as [Hrefs Hnz].
      assert (refs_below cells rk k (c_geom c)) as Hrefs'.
      { clear - Hrefs Hlt. revert Hrefs. generalize (c_geom c).
        induction a as [z sub|l IHl r IHr|l IHl r IHr|m|l IHl r IHr]; cbn [refs_below]; intros H; auto;
          try (destruct H; split; auto).
        destruct H as (c' & ? & ? & ?). exists c'. repeat split; auto. lia. }
      destruct (IHk (c_geom c) Hrefs' Hnz) as (F & g & Eg & Pg & Zg & Dg).
      destruct (inverse_plain g Pg) as (g' & Ei & Pi & Di). destruct (Di Zg) as [Zi Deni].
      exists (S F), g'. repeat split; auto.
      * intros [|f] Hf; [lia|]. cbn [pot_complement]. rewrite Hc, Hlat, Eg by lia. exact Ei.
      * intros sg cd Hm. cbn [aden]. rewrite Deni, (Dg sg cd Hm). now rewrite (Hm n c Hc).
    + destruct Hr as [Hl Hr]. apply andb_prop in Hn. destruct Hn as [Nl Nr].
      destruct (IHl Hl Nl) as (F1 & l' & E1 & P1 & Z1 & D1). destruct (IHr Hr Nr) as (F2 & r' & E2 & P2 & Z2 & D2).
      exists (S (Nat.max F1 F2)), (AAnd l' r'). repeat split.
      * intros [|f] Hf; [lia|]. cbn [pot_complement]. rewrite E1, E2 by lia. reflexivity.
      * cbn. now rewrite P1, P2.
      * cbn. now rewrite Z1, Z2.
      * intros sg cd Hm. cbn [aden]. now rewrite (D1 sg cd Hm), (D2 sg cd Hm).
Qed.

(* the complement of a lattice cell becomes a patently empty intersection *)
Lemma pot_complement_lattice cells n c z sub f :
  cells n = Some c -> c_lattice c = true -> first_surface (c_geom c) = Some (ASurf z sub) -> z <> 0%Z ->
  pot_complement (S f) cells (ACompl n) = Ok (ARawAnd (ASurf z sub) (ASurf (- z) sub)) /\
  forall cd sg, aden cd sg (ARawAnd (ASurf z sub) (ASurf (- z) sub)) = false.
Proof.
  intros Hc Hl Hs Hz. split.
  - cbn [pot_complement]. now rewrite Hc, Hl, Hs.
  - intros cd sg. cbn [aden]. rewrite (lit_den_opp sg z sub Hz). apply andb_negb_r.
Qed.

(* ================================================================== *)
(* 3. Parsing the canonical rendering of an expression                 *)
(* ================================================================== *)
(* GeomSemantics on the abstract expression *)
Fixpoint sem (e : mexpr) : res ast :=
  match e with
  | MLit z sub => Ok (ASurf z sub)
  | MNotCell n => Ok (ACompl n)
  | MAnd a b =>
      match sem a with Err x => Err x | Ok a' =>
      match sem b with Err x => Err x | Ok b' => Ok (AAnd a' b') end end
  | MOr a b =>
      match sem a with Err x => Err x | Ok a' =>
      match sem b with Err x => Err x | Ok b' => Ok (AOr a' b') end end
  | MNot e => match sem e with Err x => Err x | Ok e' => inverse e' end
  end.

Definition hd_hash (ts : list token) : bool :=
  match ts with t :: _ => match t with THashN _ | THashP => true | _ => false end | [] => false end.

Lemma toks_nonempty lvl e : toks lvl e <> [].
Proof.
  revert lvl. induction e as [z sub|a IHa b IHb|a IHa b IHb|e IHe|n]; intros lvl; cbn [toks]; try discriminate.
  - unfold paren. destruct (Nat.ltb 1 lvl); [discriminate|].
    specialize (IHa 1). destruct (toks 1 a); [congruence|discriminate].
  - unfold paren. destruct (Nat.ltb 0 lvl); [discriminate|].
    specialize (IHa 0). destruct (toks 0 a); [congruence|discriminate].
Qed.

Lemma hd_hash_app ts r : ts <> [] -> hd_hash (ts ++ r) = hd_hash ts.
Proof. destruct ts; [congruence|reflexivity]. Qed.

Lemma toks1_hd e : hd_hash (toks 1 e) = starts_hash e.
Proof.
  induction e as [z sub|a IHa b IHb|a IHa b IHb|e IHe|n]; cbn [toks starts_hash paren Nat.ltb Nat.leb]; try reflexivity.
  rewrite hd_hash_app by apply toks_nonempty.
  destruct a; exact IHa.
Qed.

Lemma toks_level_1_2 e : (forall a b, e <> MAnd a b) -> toks 1 e = toks 2 e.
Proof. destruct e; intros H; try reflexivity. exfalso. eapply H. reflexivity. Qed.

Lemma toks_level_0_1 e : (forall a b, e <> MOr a b) -> toks 0 e = toks 1 e.
Proof. destruct e; intros H; try reflexivity. exfalso. eapply H. reflexivity. Qed.

Definition closed_as (fr : frame) (v : ast) : Prop := close_frame fr = Some v.

Lemma run_toks e : forall v, sem e = Ok v -> no_colon_hash e = true ->
  (forall r cur stk, (fc cur = true -> hd_hash (toks 2 e) = false) ->
     run (toks 2 e ++ r) cur stk = run r (push_operand v cur) stk) /\
  (forall r cur stk, fi cur = None -> (fc cur = true -> hd_hash (toks 1 e) = false) ->
     run (toks 1 e ++ r) cur stk = run r (push_operand v cur) stk) /\
  (forall r cur stk, fi cur = None -> fu cur = None -> fc cur = false ->
     exists u i, run (toks 0 e ++ r) cur stk = run r (mkFrame (fk cur) u (Some i) false) stk /\
                 closed_as (mkFrame (fk cur) u (Some i) false) v).
Proof.
  induction e as [z sub|a IHa b IHb|a IHa b IHb|e IHe|n]; intros v Hsem Hg.
  - (* literal *)
    cbn in Hsem. injection Hsem as <-. split; [|split].
    + intros r cur stk _. reflexivity.
    + intros r cur stk _ _. reflexivity.
    + intros r cur stk Hi Hu Hc. exists None, (ASurf z sub). cbn [toks app run].
      unfold push_operand. rewrite Hi, Hu. split; reflexivity.
  - (* intersection *)
    cbn [sem] in Hsem. destruct (sem a) as [va|] eqn:Ea; [|discriminate].
    destruct (sem b) as [vb|] eqn:Eb; [|discriminate]. injection Hsem as <-.
    cbn [no_colon_hash] in Hg. apply andb_prop in Hg. destruct Hg as [Ga Gb].
    destruct (IHa va eq_refl Ga) as (_ & A1 & _). destruct (IHb vb eq_refl Gb) as (B2 & _ & _).
    assert (L1 : forall r cur stk, fi cur = None -> (fc cur = true -> hd_hash (toks 1 (MAnd a b)) = false) ->
               run (toks 1 (MAnd a b) ++ r) cur stk = run r (push_operand (AAnd va vb) cur) stk).
    { intros r cur stk Hi Hh. cbn [toks paren Nat.ltb Nat.leb]. rewrite <- app_assoc.
      rewrite A1; auto.
      - rewrite B2 by (cbn; discriminate). unfold push_operand. cbn. now rewrite Hi.
      - intros Hc. specialize (Hh Hc). cbn [toks paren Nat.ltb Nat.leb] in Hh.
        now rewrite hd_hash_app in Hh by apply toks_nonempty. }
    assert (L2 : forall r cur stk, run (toks 2 (MAnd a b) ++ r) cur stk = run r (push_operand (AAnd va vb) cur) stk).
    { intros r cur stk. cbn [toks paren Nat.ltb Nat.leb]. cbn [app run].
      rewrite <- app_assoc. rewrite <- app_assoc. fold (toks 1 (MAnd a b)).
      change (toks 1 a ++ toks 2 b ++ [TRP] ++ r) with (toks 1 a ++ toks 2 b ++ TRP :: r).
      rewrite app_assoc. change (toks 1 a ++ toks 2 b) with (toks 1 (MAnd a b)).
      rewrite L1 by (cbn; auto; discriminate). cbn. reflexivity. }
    split; [|split].
    + intros r cur stk _. apply L2.
    + exact L1.
    + intros r cur stk Hi Hu Hc. exists None, (AAnd va vb). rewrite toks_level_0_1 by discriminate.
      rewrite L1 by (auto; rewrite Hc; discriminate). unfold push_operand. rewrite Hi, Hu. split; reflexivity.
  - (* union *)
    cbn [sem] in Hsem. destruct (sem a) as [va|] eqn:Ea; [|discriminate].
    destruct (sem b) as [vb|] eqn:Eb; [|discriminate]. injection Hsem as <-.
    cbn [no_colon_hash] in Hg. apply andb_prop in Hg. destruct Hg as [Hg Gh].
    apply andb_prop in Hg. destruct Hg as [Ga Gb]. apply negb_true_iff in Gh.
    destruct (IHa va eq_refl Ga) as (_ & _ & A0). destruct (IHb vb eq_refl Gb) as (_ & B1 & _).
    assert (L0 : forall r cur stk, fi cur = None -> fu cur = None -> fc cur = false ->
               exists u i, run (toks 0 (MOr a b) ++ r) cur stk = run r (mkFrame (fk cur) u (Some i) false) stk /\
                           closed_as (mkFrame (fk cur) u (Some i) false) (AOr va vb)).
    { intros r cur stk Hi Hu Hc. cbn [toks paren Nat.ltb Nat.leb]. rewrite <- app_assoc.
      destruct (A0 (TColon :: toks 1 b ++ r) cur stk Hi Hu Hc) as (u & i & Erun & Hcl).
      exists (Some va), vb. cbn [app]. rewrite Erun. cbn [run]. unfold closed_as in Hcl. rewrite Hcl.
      rewrite B1; [|reflexivity|intros _; now rewrite toks1_hd]. split; reflexivity. }
    assert (L2 : forall r cur stk, run (toks 2 (MOr a b) ++ r) cur stk = run r (push_operand (AOr va vb) cur) stk).
    { intros r cur stk. cbn [toks paren Nat.ltb Nat.leb]. cbn [app run]. rewrite <- app_assoc.
      change (toks 0 a ++ TColon :: toks 1 b) with (toks 0 (MOr a b)).
      destruct (L0 ([TRP] ++ r) (new_frame KParen) (cur :: stk) eq_refl eq_refl eq_refl) as (u & i & Erun & Hcl).
      rewrite Erun. cbn [app run fk]. unfold closed_as in Hcl. rewrite Hcl. reflexivity. }
    split; [|split].
    + intros r cur stk _. apply L2.
    + intros r cur stk _ _. change (toks 1 (MOr a b)) with (toks 2 (MOr a b)). apply L2.
    + exact L0.
  - (* #( e ) *)
    cbn [sem] in Hsem. destruct (sem e) as [ve|] eqn:Ee; [|discriminate].
    cbn [no_colon_hash] in Hg. destruct (IHe ve eq_refl Hg) as (_ & _ & E0).
    assert (L2 : forall r cur stk, fc cur = false ->
               run (toks 2 (MNot e) ++ r) cur stk = run r (push_operand v cur) stk).
    { intros r cur stk Hc. cbn [toks app run]. rewrite Hc. rewrite <- app_assoc.
      destruct (E0 ([TRP] ++ r) (new_frame KHash) (cur :: stk) eq_refl eq_refl eq_refl) as (u & i & Erun & Hcl).
      rewrite Erun. cbn [app run fk]. unfold closed_as in Hcl. rewrite Hcl, Hsem. reflexivity. }
    split; [|split].
    + intros r cur stk Hh. apply L2. destruct (fc cur); [|reflexivity]. specialize (Hh eq_refl). discriminate.
    + intros r cur stk _ Hh. apply L2. destruct (fc cur); [|reflexivity]. specialize (Hh eq_refl). discriminate.
    + intros r cur stk Hi Hu Hc. exists None, v. change (toks 0 (MNot e)) with (toks 2 (MNot e)).
      rewrite L2 by exact Hc. unfold push_operand. rewrite Hi, Hu. split; reflexivity.
  - (* #n *)
    cbn in Hsem. injection Hsem as <-.
    assert (L2 : forall r cur stk, fc cur = false ->
               run (toks 2 (MNotCell n) ++ r) cur stk = run r (push_operand (ACompl n) cur) stk).
    { intros r cur stk Hc. cbn [toks app run]. now rewrite Hc. }
    split; [|split].
    + intros r cur stk Hh. apply L2. destruct (fc cur); [|reflexivity]. specialize (Hh eq_refl). discriminate.
    + intros r cur stk _ Hh. apply L2. destruct (fc cur); [|reflexivity]. specialize (Hh eq_refl). discriminate.
    + intros r cur stk Hi Hu Hc. exists None, (ACompl n). change (toks 0 (MNotCell n)) with (toks 2 (MNotCell n)).
      rewrite L2 by exact Hc. unfold push_operand. rewrite Hi, Hu. split; reflexivity.
Qed.

(* sem is defined on every expression without #n below #( ), and denotes mden *)
Lemma sem_cell_free e : cell_free e = true -> nonzero e = true ->
  exists v, sem e = Ok v /\ a_plain v = true /\ a_nonzero v = true /\
            forall cd sg, aden cd sg v = mden cd sg e.
Proof.
  induction e as [z sub|a IHa b IHb|a IHa b IHb|e IHe|n]; cbn [cell_free nonzero]; intros Hc Hn; try discriminate.
  - exists (ASurf z sub). repeat split; auto.
  - apply andb_prop in Hc. destruct Hc as [Ca Cb]. apply andb_prop in Hn. destruct Hn as [Na Nb].
    destruct (IHa Ca Na) as (va & Ea & Pa & Za & Da). destruct (IHb Cb Nb) as (vb & Eb & Pb & Zb & Db).
    exists (AAnd va vb). cbn [sem]. rewrite Ea, Eb. cbn. rewrite Pa, Pb, Za, Zb. repeat split; auto.
    intros cd sg. now rewrite Da, Db.
  - apply andb_prop in Hc. destruct Hc as [Ca Cb]. apply andb_prop in Hn. destruct Hn as [Na Nb].
    destruct (IHa Ca Na) as (va & Ea & Pa & Za & Da). destruct (IHb Cb Nb) as (vb & Eb & Pb & Zb & Db).
    exists (AOr va vb). cbn [sem]. rewrite Ea, Eb. cbn. rewrite Pa, Pb, Za, Zb. repeat split; auto.
    intros cd sg. now rewrite Da, Db.
  - destruct (IHe Hc Hn) as (ve & Ee & Pe & Ze & De).
    destruct (inverse_plain ve Pe) as (v & Ei & Pi & Di). destruct (Di Ze) as [Zi Deni].
    exists v. cbn [sem]. rewrite Ee. repeat split; auto.
    intros cd sg. cbn [mden]. now rewrite Deni, De.
Qed.

Lemma sem_admissible e : no_cell_under_not e = true -> nonzero e = true ->
  exists v, sem e = Ok v /\ forall cd sg, aden cd sg v = mden cd sg e.
Proof.
  induction e as [z sub|a IHa b IHb|a IHa b IHb|e IHe|n]; cbn [no_cell_under_not nonzero]; intros Hc Hn.
  - exists (ASurf z sub). split; auto.
  - apply andb_prop in Hc. destruct Hc as [Ca Cb]. apply andb_prop in Hn. destruct Hn as [Na Nb].
    destruct (IHa Ca Na) as (va & Ea & Da). destruct (IHb Cb Nb) as (vb & Eb & Db).
    exists (AAnd va vb). cbn [sem]. rewrite Ea, Eb. split; auto. intros cd sg. cbn. now rewrite Da, Db.
  - apply andb_prop in Hc. destruct Hc as [Ca Cb]. apply andb_prop in Hn. destruct Hn as [Na Nb].
    destruct (IHa Ca Na) as (va & Ea & Da). destruct (IHb Cb Nb) as (vb & Eb & Db).
    exists (AOr va vb). cbn [sem]. rewrite Ea, Eb. split; auto. intros cd sg. cbn. now rewrite Da, Db.
  - destruct (sem_cell_free e Hc Hn) as (ve & Ee & Pe & Ze & De).
    destruct (inverse_plain ve Pe) as (v & Ei & Pi & Di). destruct (Di Ze) as [Zi Deni].
    exists v. cbn [sem]. rewrite Ee. split; auto. intros cd sg. cbn [mden]. now rewrite Deni, De.
  - exists (ACompl n). split; auto.
Qed.

Theorem parse_print e : admissible e = true ->
  exists a, parse_tokens (toks 0 e) = Ok a /\ sem e = Ok a.
Proof.
  unfold admissible. intros H. apply andb_prop in H. destruct H as [H Hn].
  apply andb_prop in H. destruct H as [Hc Hg].
  destruct (sem_admissible e Hc Hn) as (v & Ev & _). exists v. split; [|exact Ev].
  destruct (run_toks e v Ev Hg) as (_ & _ & L0).
  destruct (L0 [] (new_frame KTop) [] eq_refl eq_refl eq_refl) as (u & i & Erun & Hcl).
  unfold parse_tokens. rewrite <- (app_nil_r (toks 0 e)). rewrite Erun. cbn [run fk new_frame].
  unfold closed_as in Hcl. cbn [fk new_frame] in Hcl. now rewrite Hcl.
Qed.

Theorem parse_print_den e : admissible e = true ->
  exists a, parse_tokens (toks 0 e) = Ok a /\ forall cd sg, aden cd sg a = mden cd sg e.
Proof.
  intros H. destruct (parse_print e H) as (a & Ep & Es). exists a. split; [exact Ep|].
  unfold admissible in H. apply andb_prop in H. destruct H as [H Hn].
  apply andb_prop in H. destruct H as [Hc _].
  destruct (sem_admissible e Hc Hn) as (v & Ev & Dv). rewrite Ev in Es. injection Es as <-. exact Dv.
Qed.

(* ================================================================== *)
(* 4. The two defect classes, as refutations of the unguarded statement *)
(* ================================================================== *)
(* #( -2 #1 ) : a complement of a cell below #( ... ) raises AttributeError *)
Theorem nested_refuted :
  exists e s, nonzero e = true /\ no_colon_hash e = true /\
    tokens_of s = toks 0 e /\ get_ast s = Err EAttribute.
Proof.
  exists (MNot (MAnd (MLit (-2) None) (MNotCell 1))), "#(-2 #1)"%string.
  repeat split; vm_compute; reflexivity.
Qed.

(* 1:#2 : a complement directly after the colon is a parse error *)
Theorem colon_hash_refuted :
  exists e s, nonzero e = true /\ no_cell_under_not e = true /\
    tokens_of s = toks 0 e /\ get_ast s = Err EParse.
Proof.
  exists (MOr (MLit 1 None) (MNotCell 2)), "1:#2"%string.
  repeat split; vm_compute; reflexivity.
Qed.
