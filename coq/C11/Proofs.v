(* C11 — proofs about C11/Model.v against C11/Spec.v *)
From Coq Require Import List NArith ZArith Bool Lia String Ascii.
From T4V Require Import Base.Str C11.Model C11.Spec.
Import ListNotations.
Close Scope string_scope.
Open Scope list_scope.

(* ================================================================== *)
(* 1. De Morgan inversion                                              *)
(* ================================================================== *)
Fixpoint a_plain (a : ast) : bool :=        (* no '^' node, no raw list node *)
  match a with
  | ASurf _ _ => true
  | AAnd l r | AOr l r => a_plain l && a_plain r
  | ACompl _ | ARawAnd _ _ => false
  end.

Fixpoint a_nonzero (a : ast) : bool :=
  match a with
  | ASurf z _ => negb (z =? 0)%Z
  | AAnd l r | AOr l r | ARawAnd l r => a_nonzero l && a_nonzero r
  | ACompl _ => true
  end.

Lemma lit_den_opp sg z sub : z <> 0%Z -> lit_den sg (- z) sub = negb (lit_den sg z sub).
Proof.
  intros Hz. unfold lit_den. rewrite Zabs2N.inj_opp.
  destruct (0 <? z)%Z eqn:E1; destruct (0 <? - z)%Z eqn:E2;
    try apply Z.ltb_lt in E1; try apply Z.ltb_lt in E2;
    try apply Z.ltb_ge in E1; try apply Z.ltb_ge in E2; try lia;
    [reflexivity | now rewrite negb_involutive].
Qed.

Lemma inverse_plain a : a_plain a = true ->
  exists a', inverse a = Ok a' /\ a_plain a' = true /\
    (a_nonzero a = true -> a_nonzero a' = true /\
       forall cd sg, aden cd sg a' = negb (aden cd sg a)).
Proof.
  induction a as [z sub|l IHl r IHr|l IHl r IHr|n|l IHl r IHr]; cbn [a_plain]; intros Hp;
    try discriminate.
  - exists (ASurf (- z) sub). cbn [inverse a_plain a_nonzero aden]. repeat split.
    + apply negb_true_iff in H. apply Z.eqb_neq in H. apply negb_true_iff. apply Z.eqb_neq. lia.
    + intros cd sg. apply lit_den_opp. apply negb_true_iff in H. now apply Z.eqb_neq in H.
  - apply andb_prop in Hp. destruct Hp as [Hl Hr].
    destruct (IHl Hl) as (l' & El & Pl & Dl). destruct (IHr Hr) as (r' & Er & Pr & Dr).
    exists (AOr l' r'). cbn [inverse]. rewrite El, Er. cbn [a_plain a_nonzero aden].
    rewrite Pl, Pr. repeat split; auto.
    + apply andb_prop in H. destruct H as [Nl Nr]. destruct (Dl Nl) as [-> _]. now destruct (Dr Nr) as [-> _].
    + intros cd sg. apply andb_prop in H. destruct H as [Nl Nr].
      destruct (Dl Nl) as [_ ->]. destruct (Dr Nr) as [_ ->]. now rewrite negb_andb.
  - apply andb_prop in Hp. destruct Hp as [Hl Hr].
    destruct (IHl Hl) as (l' & El & Pl & Dl). destruct (IHr Hr) as (r' & Er & Pr & Dr).
    exists (AAnd l' r'). cbn [inverse]. rewrite El, Er. cbn [a_plain a_nonzero aden].
    rewrite Pl, Pr. repeat split; auto.
    + apply andb_prop in H. destruct H as [Nl Nr]. destruct (Dl Nl) as [-> _]. now destruct (Dr Nr) as [-> _].
    + intros cd sg. apply andb_prop in H. destruct H as [Nl Nr].
      destruct (Dl Nl) as [_ ->]. destruct (Dr Nr) as [_ ->]. now rewrite negb_orb.
Qed.

Lemma inverse_not_plain a : a_plain a = false -> inverse a = Err EAttribute.
Proof.
  induction a as [z sub|l IHl r IHr|l IHl r IHr|n|l IHl r IHr]; cbn [a_plain inverse]; intros Hp;
    try discriminate; try reflexivity.
  - apply andb_false_iff in Hp. destruct (a_plain l) eqn:Pl.
    + destruct Hp as [Hp|Hp]; [discriminate|]. destruct (inverse_plain l Pl) as (l' & -> & _).
      now rewrite (IHr Hp).
    + now rewrite (IHl eq_refl).
  - apply andb_false_iff in Hp. destruct (a_plain l) eqn:Pl.
    + destruct Hp as [Hp|Hp]; [discriminate|]. destruct (inverse_plain l Pl) as (l' & -> & _).
      now rewrite (IHr Hp).
    + now rewrite (IHl eq_refl).
Qed.

(* ================================================================== *)
(* 2. Complement elimination                                           *)
(* ================================================================== *)
(* fuel monotonicity: a result other than EFuel is stable under more fuel *)
Lemma pot_complement_more_fuel cells : forall f a t,
  pot_complement f cells a = Ok t -> forall f', f <= f' -> pot_complement f' cells a = Ok t.
Proof.
  induction f as [|f IH]; intros a t H f' Hle; [discriminate|].
  destruct f' as [|f']; [lia|]. assert (f <= f') as Hle' by lia.
  destruct a as [z sub|l r|l r|n|l r]; cbn [pot_complement] in *.
  - exact H.
  - destruct (pot_complement f cells l) as [l'|] eqn:El; [|discriminate].
    destruct (pot_complement f cells r) as [r'|] eqn:Er; [|discriminate].
    now rewrite (IH _ _ El _ Hle'), (IH _ _ Er _ Hle').
  - destruct (pot_complement f cells l) as [l'|] eqn:El; [|discriminate].
    destruct (pot_complement f cells r) as [r'|] eqn:Er; [|discriminate].
    now rewrite (IH _ _ El _ Hle'), (IH _ _ Er _ Hle').
  - destruct (cells n) as [c|]; [|discriminate]. destruct (c_lattice c); [exact H|].
    destruct (pot_complement f cells (c_geom c)) as [g|] eqn:Eg; [|discriminate].
    now rewrite (IH _ _ Eg _ Hle').
  - destruct (pot_complement f cells l) as [l'|] eqn:El; [|discriminate].
    destruct (pot_complement f cells r) as [r'|] eqn:Er; [|discriminate].
    now rewrite (IH _ _ El _ Hle'), (IH _ _ Er _ Hle').
Qed.

(* every #m below [a] refers to a defined, non-lattice cell of rank < k *)
Fixpoint refs_below (cells : N -> option cell) (rk : N -> nat) (k : nat) (a : ast) : Prop :=
  match a with
  | ASurf _ _ => True
  | AAnd l r | AOr l r | ARawAnd l r => refs_below cells rk k l /\ refs_below cells rk k r
  | ACompl m => exists c, cells m = Some c /\ c_lattice c = false /\ rk m < k
  end.

(* a table is well founded when each cell only refers to cells of smaller rank *)
Definition table_ok (cells : N -> option cell) (rk : N -> nat) : Prop :=
  forall n c, cells n = Some c ->
    refs_below cells rk (rk n) (c_geom c) /\ a_nonzero (c_geom c) = true.

(* "cd" is MCNP's meaning of the cells under the assignment sg: cell n contains
   the point iff its expression is true there *)
Definition cells_meaning (cells : N -> option cell) (sg : sense) (cd : N -> bool) : Prop :=
  forall n c, cells n = Some c -> cd n = aden cd sg (c_geom c).

Lemma pot_complement_sound cells rk : table_ok cells rk ->
  forall k a, refs_below cells rk k a -> a_nonzero a = true ->
  exists F t, (forall f, F <= f -> pot_complement f cells a = Ok t) /\
    a_plain t = true /\ a_nonzero t = true /\
    forall sg cd, cells_meaning cells sg cd -> aden cd sg t = aden cd sg a.
Proof.
  intros Htab. induction k as [|k IHk].
  - (* no cell reference possible *)
    induction a as [z sub|l IHl r IHr|l IHl r IHr|n|l IHl r IHr]; cbn [refs_below a_nonzero]; intros Hr Hn.
    + exists 1, (ASurf z sub). repeat split; auto. intros [|f] Hf; [lia|reflexivity].
    + destruct Hr as [Hl Hr]. apply andb_prop in Hn. destruct Hn as [Nl Nr].
      destruct (IHl Hl Nl) as (F1 & l' & E1 & P1 & Z1 & D1). destruct (IHr Hr Nr) as (F2 & r' & E2 & P2 & Z2 & D2).
      exists (S (Nat.max F1 F2)), (AAnd l' r'). repeat split.
      * intros [|f] Hf; [lia|]. cbn [pot_complement]. rewrite E1, E2 by lia. reflexivity.
      * cbn. now rewrite P1, P2.
      * cbn. now rewrite Z1, Z2.
      * intros sg cd Hm. cbn [aden]. now rewrite (D1 sg cd Hm), (D2 sg cd Hm).
    + destruct Hr as [Hl Hr]. apply andb_prop in Hn. destruct Hn as [Nl Nr].
      destruct (IHl Hl Nl) as (F1 & l' & E1 & P1 & Z1 & D1). destruct (IHr Hr Nr) as (F2 & r' & E2 & P2 & Z2 & D2).
      exists (S (Nat.max F1 F2)), (AOr l' r'). repeat split.
      * intros [|f] Hf; [lia|]. cbn [pot_complement]. rewrite E1, E2 by lia. reflexivity.
      * cbn. now rewrite P1, P2.
      * cbn. now rewrite Z1, Z2.
      * intros sg cd Hm. cbn [aden]. now rewrite (D1 sg cd Hm), (D2 sg cd Hm).
    + destruct Hr as (c & _ & _ & Hlt). lia.
    + destruct Hr as [Hl Hr]. apply andb_prop in Hn. destruct Hn as [Nl Nr].
      destruct (IHl Hl Nl) as (F1 & l' & E1 & P1 & Z1 & D1). destruct (IHr Hr Nr) as (F2 & r' & E2 & P2 & Z2 & D2).
      exists (S (Nat.max F1 F2)), (AAnd l' r'). repeat split.
      * intros [|f] Hf; [lia|]. cbn [pot_complement]. rewrite E1, E2 by lia. reflexivity.
      * cbn. now rewrite P1, P2.
      * cbn. now rewrite Z1, Z2.
      * intros sg cd Hm. cbn [aden]. now rewrite (D1 sg cd Hm), (D2 sg cd Hm).
  - induction a as [z sub|l IHl r IHr|l IHl r IHr|n|l IHl r IHr]; cbn [refs_below a_nonzero]; intros Hr Hn.
    + exists 1, (ASurf z sub). repeat split; auto. intros [|f] Hf; [lia|reflexivity].
    + destruct Hr as [Hl Hr]. apply andb_prop in Hn. destruct Hn as [Nl Nr].
      destruct (IHl Hl Nl) as (F1 & l' & E1 & P1 & Z1 & D1). destruct (IHr Hr Nr) as (F2 & r' & E2 & P2 & Z2 & D2).
      exists (S (Nat.max F1 F2)), (AAnd l' r'). repeat split.
      * intros [|f] Hf; [lia|]. cbn [pot_complement]. rewrite E1, E2 by lia. reflexivity.
      * cbn. now rewrite P1, P2.
      * cbn. now rewrite Z1, Z2.
      * intros sg cd Hm. cbn [aden]. now rewrite (D1 sg cd Hm), (D2 sg cd Hm).
    + destruct Hr as [Hl Hr]. apply andb_prop in Hn. destruct Hn as [Nl Nr].
      destruct (IHl Hl Nl) as (F1 & l' & E1 & P1 & Z1 & D1). destruct (IHr Hr Nr) as (F2 & r' & E2 & P2 & Z2 & D2).
      exists (S (Nat.max F1 F2)), (AOr l' r'). repeat split.
      * intros [|f] Hf; [lia|]. cbn [pot_complement]. rewrite E1, E2 by lia. reflexivity.
      * cbn. now rewrite P1, P2.
      * cbn. now rewrite Z1, Z2.
      * intros sg cd Hm. cbn [aden]. now rewrite (D1 sg cd Hm), (D2 sg cd Hm).
    + destruct Hr as (c & Hc & Hlat & Hlt).
      destruct (Htab n c Hc) as [Hrefs Hnz].
      assert (refs_below cells rk k (c_geom c)) as Hrefs'.
      { clear - Hrefs Hlt. revert Hrefs. generalize (c_geom c).
        induction a as [z sub|l IHl r IHr|l IHl r IHr|m|l IHl r IHr]; cbn [refs_below]; intros H; auto;
          try (destruct H; split; auto).
        destruct H as (c' & ? & ? & ?). exists c'. repeat split; auto. lia. }
      destruct (IHk (c_geom c) Hrefs' Hnz) as (F & g & Eg & Pg & Zg & Dg).
      destruct (inverse_plain g Pg) as (g' & Ei & Pi & Di). destruct (Di Zg) as [Zi Deni].
      exists (S F), g'. repeat split; auto.
      * intros [|f] Hf; [lia|]. cbn [pot_complement]. rewrite Hc, Hlat, Eg by lia. exact Ei.
      * intros sg cd Hm. cbn [aden]. rewrite Deni, (Dg sg cd Hm). now rewrite (Hm n c Hc).
    + destruct Hr as [Hl Hr]. apply andb_prop in Hn. destruct Hn as [Nl Nr].
      destruct (IHl Hl Nl) as (F1 & l' & E1 & P1 & Z1 & D1). destruct (IHr Hr Nr) as (F2 & r' & E2 & P2 & Z2 & D2).
      exists (S (Nat.max F1 F2)), (AAnd l' r'). repeat split.
      * intros [|f] Hf; [lia|]. cbn [pot_complement]. rewrite E1, E2 by lia. reflexivity.
      * cbn. now rewrite P1, P2.
      * cbn. now rewrite Z1, Z2.
      * intros sg cd Hm. cbn [aden]. now rewrite (D1 sg cd Hm), (D2 sg cd Hm).
Qed.

(* the complement of a lattice cell becomes a patently empty intersection *)
Lemma pot_complement_lattice cells n c z sub f :
  cells n = Some c -> c_lattice c = true -> first_surface (c_geom c) = Some (ASurf z sub) -> z <> 0%Z ->
  pot_complement (S f) cells (ACompl n) = Ok (ARawAnd (ASurf z sub) (ASurf (- z) sub)) /\
  forall cd sg, aden cd sg (ARawAnd (ASurf z sub) (ASurf (- z) sub)) = false.
Proof.
  intros Hc Hl Hs Hz. split.
  - cbn [pot_complement]. now rewrite Hc, Hl, Hs.
  - intros cd sg. cbn [aden]. rewrite (lit_den_opp sg z sub Hz). apply andb_negb_r.
Qed.

(* ================================================================== *)
(* 3. Parsing the canonical rendering of an expression                 *)
(* ================================================================== *)
(* GeomSemantics on the abstract expression *)
Fixpoint sem (e : mexpr) : res ast :=
  match e with
  | MLit z sub => Ok (ASurf z sub)
  | MNotCell n => Ok (ACompl n)
  | MAnd a b =>
      match sem a with Err x => Err x | Ok a' =>
      match sem b with Err x => Err x | Ok b' => Ok (AAnd a' b') end end
  | MOr a b =>
      match sem a with Err x => Err x | Ok a' =>
      match sem b with Err x => Err x | Ok b' => Ok (AOr a' b') end end
  | MNot e => match sem e with Err x => Err x | Ok e' => inverse e' end
  | MParen e => sem e
  end.

Lemma toks_nonempty lvl e : toks lvl e <> [].
Proof.
  revert lvl. induction e as [z sub|a IHa b IHb|a IHa b IHb|e IHe|n|p IHp]; intros lvl; cbn [toks]; try discriminate.
  - unfold paren. destruct (Nat.ltb 1 lvl); [discriminate|].
    specialize (IHa 1). destruct (toks 1 a); [congruence|discriminate].
  - unfold paren. destruct (Nat.ltb 0 lvl); [discriminate|].
    specialize (IHa 0). destruct (toks 0 a); [congruence|discriminate].
Qed.

Lemma toks_level_1_2 e : (forall a b, e <> MAnd a b) -> toks 1 e = toks 2 e.
Proof. destruct e; intros H; try reflexivity. exfalso. eapply H. reflexivity. Qed.

Lemma toks_level_0_1 e : (forall a b, e <> MOr a b) -> toks 0 e = toks 1 e.
Proof. destruct e; intros H; try reflexivity. exfalso. eapply H. reflexivity. Qed.

Definition closed_as (fr : frame) (v : ast) : Prop := close_frame fr = Some v.

(* sem is defined on every expression without #n below #( ), and denotes mden *)
Lemma sem_cell_free e : cell_free e = true -> nonzero e = true ->
  exists v, sem e = Ok v /\ a_plain v = true /\ a_nonzero v = true /\
            forall cd sg, aden cd sg v = mden cd sg e.
Proof.
  induction e as [z sub|a IHa b IHb|a IHa b IHb|e IHe|n|p IHp]; cbn [cell_free nonzero]; intros Hc Hn; try discriminate.
  - exists (ASurf z sub). repeat split; auto.
  - apply andb_prop in Hc. destruct Hc as [Ca Cb]. apply andb_prop in Hn. destruct Hn as [Na Nb].
    destruct (IHa Ca Na) as (va & Ea & Pa & Za & Da). destruct (IHb Cb Nb) as (vb & Eb & Pb & Zb & Db).
    exists (AAnd va vb). cbn [sem]. rewrite Ea, Eb. cbn. rewrite Pa, Pb, Za, Zb. repeat split; auto.
    intros cd sg. now rewrite Da, Db.
  - apply andb_prop in Hc. destruct Hc as [Ca Cb]. apply andb_prop in Hn. destruct Hn as [Na Nb].
    destruct (IHa Ca Na) as (va & Ea & Pa & Za & Da). destruct (IHb Cb Nb) as (vb & Eb & Pb & Zb & Db).
    exists (AOr va vb). cbn [sem]. rewrite Ea, Eb. cbn. rewrite Pa, Pb, Za, Zb. repeat split; auto.
    intros cd sg. now rewrite Da, Db.
  - destruct (IHe Hc Hn) as (ve & Ee & Pe & Ze & De).
    destruct (inverse_plain ve Pe) as (v & Ei & Pi & Di). destruct (Di Ze) as [Zi Deni].
    exists v. cbn [sem]. rewrite Ee. repeat split; auto.
    intros cd sg. cbn [mden]. now rewrite Deni, De.
  - destruct (IHp Hc Hn) as (v & Ev & Pv & Zv & Dv). exists v. cbn [sem mden]. auto.
Qed.

Lemma sem_admissible e : no_cell_under_not e = true -> nonzero e = true ->
  exists v, sem e = Ok v /\ forall cd sg, aden cd sg v = mden cd sg e.
Proof.
  induction e as [z sub|a IHa b IHb|a IHa b IHb|e IHe|n|p IHp]; cbn [no_cell_under_not nonzero]; intros Hc Hn.
  - exists (ASurf z sub). split; auto.
  - apply andb_prop in Hc. destruct Hc as [Ca Cb]. apply andb_prop in Hn. destruct Hn as [Na Nb].
    destruct (IHa Ca Na) as (va & Ea & Da). destruct (IHb Cb Nb) as (vb & Eb & Db).
    exists (AAnd va vb). cbn [sem]. rewrite Ea, Eb. split; auto. intros cd sg. cbn. now rewrite Da, Db.
  - apply andb_prop in Hc. destruct Hc as [Ca Cb]. apply andb_prop in Hn. destruct Hn as [Na Nb].
    destruct (IHa Ca Na) as (va & Ea & Da). destruct (IHb Cb Nb) as (vb & Eb & Db).
    exists (AOr va vb). cbn [sem]. rewrite Ea, Eb. split; auto. intros cd sg. cbn. now rewrite Da, Db.
  - destruct (sem_cell_free e Hc Hn) as (ve & Ee & Pe & Ze & De).
    destruct (inverse_plain ve Pe) as (v & Ei & Pi & Di). destruct (Di Ze) as [Zi Deni].
    exists v. cbn [sem]. rewrite Ee. split; auto. intros cd sg. cbn [mden]. now rewrite Deni, De.
  - exists (ACompl n). split; auto.
  - destruct (IHp Hc Hn) as (v & Ev & Dv). exists v. cbn [sem mden]. auto.
Qed.

(* ================================================================== *)
(* 4. The parser on the canonical tokens of ANY expression             *)
(* ================================================================== *)
(* [psem e] is what parsing the tokens of [e] gives, errors included, in the
   order in which the parser meets them (it is GeomSemantics on the abstract
   expression: [psem_eq_sem]) *)
Definition bind (x : res ast) (k : ast -> res ast) : res ast :=
  match x with Ok v => k v | Err e => Err e end.

Fixpoint psem (e : mexpr) : res ast :=
  match e with
  | MLit z sub => Ok (ASurf z sub)
  | MNotCell n => Ok (ACompl n)
  | MAnd a b => bind (psem a) (fun a' => bind (psem b) (fun b' => Ok (AAnd a' b')))
  | MOr a b => bind (psem a) (fun a' => bind (psem b) (fun b' => Ok (AOr a' b')))
  | MNot e => bind (psem e) inverse
  | MParen e => psem e
  end.

Lemma psem_eq_sem e : psem e = sem e.
Proof.
  induction e as [z sub|a IHa b IHb|a IHa b IHb|e IHe|n|p IHp]; cbn [psem sem]; reflexivity.
Qed.

Lemma run_toks_full e :
  (forall r cur stk,
     run (toks 2 e ++ r) cur stk = bind (psem e) (fun v => run r (push_operand v cur) stk)) /\
  (forall r cur stk, fi cur = None ->
     run (toks 1 e ++ r) cur stk = bind (psem e) (fun v => run r (push_operand v cur) stk)) /\
  (forall r cur stk, fi cur = None -> fu cur = None ->
     exists u i, run (toks 0 e ++ r) cur stk =
                 bind (psem e) (fun _ => run r (mkFrame (fk cur) u (Some i)) stk) /\
                 forall v, psem e = Ok v -> closed_as (mkFrame (fk cur) u (Some i)) v).
Proof.
  induction e as [z sub|a IHa b IHb|a IHa b IHb|e IHe|n|p IHp].
  - (* literal *)
    split; [|split].
    + intros r cur stk. reflexivity.
    + intros r cur stk _. reflexivity.
    + intros r cur stk Hi Hu. exists None, (ASurf z sub). cbn [toks app run psem bind].
      unfold push_operand. rewrite Hi, Hu. split; [reflexivity|]. intros v Hv. now injection Hv as <-.
  - (* intersection *)
    destruct IHa as (_ & A1 & _). destruct IHb as (B2 & _ & _).
    assert (L1 : forall r cur stk, fi cur = None ->
               run (toks 1 (MAnd a b) ++ r) cur stk =
               bind (psem (MAnd a b)) (fun v => run r (push_operand v cur) stk)).
    { intros r cur stk Hi. cbn [toks paren Nat.ltb Nat.leb psem]. rewrite <- app_assoc.
      rewrite A1 by exact Hi.
      destruct (psem a) as [va|x]; cbn [bind]; [|reflexivity].
      rewrite B2.
      destruct (psem b) as [vb|x]; cbn [bind]; [|reflexivity].
      unfold push_operand. cbn. now rewrite Hi. }
    assert (L2 : forall r cur stk, run (toks 2 (MAnd a b) ++ r) cur stk =
                                   bind (psem (MAnd a b)) (fun v => run r (push_operand v cur) stk)).
    { intros r cur stk. cbn [toks paren Nat.ltb Nat.leb]. cbn [app run].
      rewrite <- app_assoc. rewrite <- app_assoc. fold (toks 1 (MAnd a b)).
      change (toks 1 a ++ toks 2 b ++ [TRP] ++ r) with (toks 1 a ++ toks 2 b ++ TRP :: r).
      rewrite app_assoc. change (toks 1 a ++ toks 2 b) with (toks 1 (MAnd a b)).
      rewrite L1 by reflexivity.
      destruct (psem (MAnd a b)) as [v|x]; cbn [bind]; reflexivity. }
    split; [|split].
    + exact L2.
    + exact L1.
    + intros r cur stk Hi Hu. rewrite toks_level_0_1 by discriminate.
      rewrite L1 by exact Hi.
      destruct (psem (MAnd a b)) as [v|x] eqn:Ep; cbn [bind].
      * exists None, v. unfold push_operand. rewrite Hi, Hu. split; [reflexivity|].
        intros v' Hv'. now injection Hv' as <-.
      * exists None, (ASurf 0 None). split; [reflexivity|]. discriminate.
  - (* union *)
    destruct IHa as (_ & _ & A0). destruct IHb as (_ & B1 & _).
    assert (L0 : forall r cur stk, fi cur = None -> fu cur = None ->
               exists u i, run (toks 0 (MOr a b) ++ r) cur stk =
                           bind (psem (MOr a b)) (fun _ => run r (mkFrame (fk cur) u (Some i)) stk) /\
                           forall v, psem (MOr a b) = Ok v -> closed_as (mkFrame (fk cur) u (Some i)) v).
    { intros r cur stk Hi Hu. cbn [toks paren Nat.ltb Nat.leb psem]. rewrite <- app_assoc.
      destruct (A0 (TColon :: toks 1 b ++ r) cur stk Hi Hu) as (u & i & Erun & Hcl).
      cbn [app]. rewrite Erun.
      destruct (psem a) as [va|x]; cbn [bind].
      - specialize (Hcl va eq_refl). cbn [run]. unfold closed_as in Hcl. rewrite Hcl.
        rewrite B1 by reflexivity.
        destruct (psem b) as [vb|x]; cbn [bind].
        + exists (Some va), vb. split; [reflexivity|]. intros v Hv. now injection Hv as <-.
        + exists None, (ASurf 0 None). split; [reflexivity|discriminate].
      - exists None, (ASurf 0 None). split; [reflexivity|discriminate]. }
    assert (L2 : forall r cur stk, run (toks 2 (MOr a b) ++ r) cur stk =
                                   bind (psem (MOr a b)) (fun v => run r (push_operand v cur) stk)).
    { intros r cur stk. cbn [toks paren Nat.ltb Nat.leb]. cbn [app run]. rewrite <- app_assoc.
      change (toks 0 a ++ TColon :: toks 1 b) with (toks 0 (MOr a b)).
      destruct (L0 ([TRP] ++ r) (new_frame KParen) (cur :: stk) eq_refl eq_refl) as (u & i & Erun & Hcl).
      rewrite Erun. destruct (psem (MOr a b)) as [v|x]; cbn [bind]; [|reflexivity].
      specialize (Hcl v eq_refl). cbn [app run fk]. unfold closed_as in Hcl. rewrite Hcl. reflexivity. }
    split; [|split].
    + exact L2.
    + intros r cur stk _. change (toks 1 (MOr a b)) with (toks 2 (MOr a b)). apply L2.
    + exact L0.
  - (* #( e ) *)
    destruct IHe as (_ & _ & E0).
    assert (L2 : forall r cur stk,
               run (toks 2 (MNot e) ++ r) cur stk =
               bind (psem (MNot e)) (fun v => run r (push_operand v cur) stk)).
    { intros r cur stk. cbn [toks app run psem]. rewrite <- app_assoc.
      destruct (E0 ([TRP] ++ r) (new_frame KHash) (cur :: stk) eq_refl eq_refl) as (u & i & Erun & Hcl).
      rewrite Erun. destruct (psem e) as [ve|x]; cbn [bind]; [|reflexivity].
      specialize (Hcl ve eq_refl). cbn [app run fk]. unfold closed_as in Hcl. rewrite Hcl.
      destruct (inverse ve); reflexivity. }
    split; [|split].
    + exact L2.
    + intros r cur stk _. apply L2.
    + intros r cur stk Hi Hu. change (toks 0 (MNot e)) with (toks 2 (MNot e)).
      rewrite L2.
      destruct (psem (MNot e)) as [v|x]; cbn [bind].
      * exists None, v. unfold push_operand. rewrite Hi, Hu. split; [reflexivity|].
        intros v' Hv'. now injection Hv' as <-.
      * exists None, (ASurf 0 None). split; [reflexivity|discriminate].
  - (* #n *)
    split; [|split].
    + intros r cur stk. reflexivity.
    + intros r cur stk _. reflexivity.
    + intros r cur stk Hi Hu. exists None, (ACompl n). cbn [toks app run psem bind].
      unfold push_operand. rewrite Hi, Hu. split; [reflexivity|].
      intros v Hv. now injection Hv as <-.
  - (* ( e ) *)
    destruct IHp as (_ & _ & E0).
    assert (L2 : forall r cur stk, run (toks 2 (MParen p) ++ r) cur stk =
                                   bind (psem (MParen p)) (fun v => run r (push_operand v cur) stk)).
    { intros r cur stk. cbn [toks app run psem]. rewrite <- app_assoc.
      destruct (E0 ([TRP] ++ r) (new_frame KParen) (cur :: stk) eq_refl eq_refl) as (u & i & Erun & Hcl).
      rewrite Erun. destruct (psem p) as [v|x]; cbn [bind]; [|reflexivity].
      specialize (Hcl v eq_refl). cbn [app run fk]. unfold closed_as in Hcl. rewrite Hcl. reflexivity. }
    split; [|split].
    + exact L2.
    + intros r cur stk _. change (toks 1 (MParen p)) with (toks 2 (MParen p)). apply L2.
    + intros r cur stk Hi Hu. change (toks 0 (MParen p)) with (toks 2 (MParen p)). rewrite L2.
      destruct (psem (MParen p)) as [v|x]; cbn [bind].
      * exists None, v. unfold push_operand. rewrite Hi, Hu. split; [reflexivity|].
        intros v' Hv'. now injection Hv' as <-.
      * exists None, (ASurf 0 None). split; [reflexivity|discriminate].
Qed.

(* parser o printer = psem, for EVERY expression *)
Theorem parse_toks_psem e : parse_tokens (toks 0 e) = psem e.
Proof.
  destruct (run_toks_full e) as (_ & _ & L0).
  destruct (L0 [] (new_frame KTop) [] eq_refl eq_refl) as (u & i & Erun & Hcl).
  unfold parse_tokens. rewrite <- (app_nil_r (toks 0 e)). rewrite Erun.
  destruct (psem e) as [v|x]; cbn [bind]; [|reflexivity].
  specialize (Hcl v eq_refl). cbn [run fk new_frame]. unfold closed_as in Hcl. cbn [fk new_frame] in Hcl.
  now rewrite Hcl.
Qed.

Lemma admissible_split e : admissible e = true -> no_cell_under_not e = true /\ nonzero e = true.
Proof. unfold admissible. intros H. now apply andb_prop in H. Qed.

Theorem parse_print e : admissible e = true ->
  exists a, parse_tokens (toks 0 e) = Ok a /\ sem e = Ok a.
Proof.
  intros H. destruct (admissible_split e H) as [Hc Hn].
  destruct (sem_admissible e Hc Hn) as (v & Ev & _). exists v. split; [|exact Ev].
  now rewrite parse_toks_psem, psem_eq_sem.
Qed.

Theorem parse_print_den e : admissible e = true ->
  exists a, parse_tokens (toks 0 e) = Ok a /\ forall cd sg, aden cd sg a = mden cd sg e.
Proof.
  intros H. destruct (admissible_split e H) as [Hc Hn].
  destruct (sem_admissible e Hc Hn) as (v & Ev & Dv). exists v. split; [|exact Dv].
  now rewrite parse_toks_psem, psem_eq_sem.
Qed.

Theorem parse_print_tokens e : admissible e = true ->
  exists a, parse_tokens (toks 0 e) = Ok a /\ sem e = Ok a /\
            forall cd sg, aden cd sg a = mden cd sg e.
Proof.
  intros H. destruct (parse_print e H) as (a & Ep & Es). exists a. repeat split; auto.
  destruct (parse_print_den e H) as (a' & Ep' & D). rewrite Ep in Ep'. now injection Ep' as <-.
Qed.

(* ================================================================== *)
(* 5. The defect class, as a refutation of the unguarded statement     *)
(* ================================================================== *)
(* #( -2 #1 ) : a complement of a cell below #( ... ) raises AttributeError *)
Theorem nested_refuted :
  exists e s, nonzero e = true /\ tokens_of s = toks 0 e /\ get_ast s = Err EAttribute.
Proof.
  exists (MNot (MAnd (MLit (-2) None) (MNotCell 1))), "#(-2 #1)"%string.
  repeat split; vm_compute; reflexivity.
Qed.

(* ---- which expressions are accepted, and the error otherwise ---- *)
Definition accepted (e : mexpr) : bool := no_cell_under_not e.

Lemma cell_free_ncun e : cell_free e = true -> no_cell_under_not e = true.
Proof.
  induction e as [z sub|a IHa b IHb|a IHa b IHb|e IHe|n|p IHp]; cbn [cell_free no_cell_under_not]; intros H; auto.
  - apply andb_prop in H. destruct H as [Ha Hb]. now rewrite IHa, IHb.
  - apply andb_prop in H. destruct H as [Ha Hb]. now rewrite IHa, IHb.
Qed.

Lemma psem_plain e : forall v, psem e = Ok v -> a_plain v = cell_free e.
Proof.
  induction e as [z sub|a IHa b IHb|a IHa b IHb|e IHe|n|p IHp]; cbn [psem cell_free]; intros v H.
  - now injection H as <-.
  - destruct (psem a) as [va|]; cbn [bind] in H; [|discriminate].
    destruct (psem b) as [vb|]; cbn [bind] in H; [|discriminate]. injection H as <-.
    cbn. now rewrite (IHa va eq_refl), (IHb vb eq_refl).
  - destruct (psem a) as [va|]; cbn [bind] in H; [|discriminate].
    destruct (psem b) as [vb|]; cbn [bind] in H; [|discriminate]. injection H as <-.
    cbn. now rewrite (IHa va eq_refl), (IHb vb eq_refl).
  - destruct (psem e) as [ve|]; cbn [bind] in H; [|discriminate].
    rewrite <- (IHe ve eq_refl). destruct (a_plain ve) eqn:P.
    + destruct (inverse_plain ve P) as (v' & Ei & Pi & _). rewrite Ei in H. now injection H as <-.
    + rewrite (inverse_not_plain ve P) in H. discriminate.
  - now injection H as <-.
  - now apply IHp.
Qed.

Lemma psem_ok_iff e : (exists v, psem e = Ok v) <-> accepted e = true.
Proof.
  unfold accepted.
  induction e as [z sub|a IHa b IHb|a IHa b IHb|e IHe|n|p IHp]; cbn [psem no_cell_under_not].
  - split; [reflexivity|]. intros _. eexists. reflexivity.
  - split.
    + intros [v H]. destruct (psem a) as [va|]; cbn [bind] in H; [|discriminate].
      destruct (psem b) as [vb|]; cbn [bind] in H; [|discriminate].
      destruct IHa as [IHa _]. destruct IHb as [IHb _].
      now rewrite (IHa (ex_intro _ va eq_refl)), (IHb (ex_intro _ vb eq_refl)).
    + intros H. apply andb_prop in H. destruct H as [A1 B1].
      destruct IHa as [_ IHa]. destruct IHb as [_ IHb].
      destruct (IHa A1) as [va Ea]. destruct (IHb B1) as [vb Eb].
      rewrite Ea, Eb. eexists. reflexivity.
  - split.
    + intros [v H]. destruct (psem a) as [va|]; cbn [bind] in H; [|discriminate].
      destruct (psem b) as [vb|]; cbn [bind] in H; [|discriminate].
      destruct IHa as [IHa _]. destruct IHb as [IHb _].
      now rewrite (IHa (ex_intro _ va eq_refl)), (IHb (ex_intro _ vb eq_refl)).
    + intros H. apply andb_prop in H. destruct H as [A1 B1].
      destruct IHa as [_ IHa]. destruct IHb as [_ IHb].
      destruct (IHa A1) as [va Ea]. destruct (IHb B1) as [vb Eb].
      rewrite Ea, Eb. eexists. reflexivity.
  - split.
    + intros [v H]. destruct (psem e) as [ve|] eqn:Ee; cbn [bind] in H; [|discriminate].
      rewrite <- (psem_plain e ve Ee). destruct (a_plain ve) eqn:P; [reflexivity|].
      rewrite (inverse_not_plain ve P) in H. discriminate.
    + intros Hc. destruct IHe as [_ IHe]. destruct (IHe (cell_free_ncun e Hc)) as [ve Ee].
      rewrite Ee. cbn [bind]. assert (P : a_plain ve = true) by (now rewrite (psem_plain e ve Ee)).
      destruct (inverse_plain ve P) as (v' & Ei & _). exists v'. exact Ei.
  - split; [reflexivity|]. intros _. eexists. reflexivity.
  - exact IHp.
Qed.

(* the only error is AttributeError, and only for a #n below a #( ) *)
Lemma psem_err_class e : forall x, psem e = Err x -> x = EAttribute /\ no_cell_under_not e = false.
Proof.
  induction e as [z sub|a IHa b IHb|a IHa b IHb|e IHe|n|p IHp]; cbn [psem no_cell_under_not]; intros x H.
  - discriminate.
  - destruct (psem a) as [va|xa]; cbn [bind] in H.
    + destruct (psem b) as [vb|xb]; cbn [bind] in H; [discriminate|]. injection H as ->.
      destruct (IHb x eq_refl) as [-> Hb]. split; auto. rewrite Hb. apply andb_false_r.
    + injection H as ->. destruct (IHa x eq_refl) as [-> Ha]. split; auto. now rewrite Ha.
  - destruct (psem a) as [va|xa]; cbn [bind] in H.
    + destruct (psem b) as [vb|xb]; cbn [bind] in H; [discriminate|]. injection H as ->.
      destruct (IHb x eq_refl) as [-> Hb]. split; auto. rewrite Hb. apply andb_false_r.
    + injection H as ->. destruct (IHa x eq_refl) as [-> Ha]. split; auto. now rewrite Ha.
  - destruct (psem e) as [ve|xe] eqn:Ee; cbn [bind] in H.
    + destruct (a_plain ve) eqn:P.
      * destruct (inverse_plain ve P) as (v' & Ei & _). rewrite Ei in H. discriminate.
      * rewrite (inverse_not_plain ve P) in H. injection H as <-. split; [reflexivity|].
        now rewrite <- (psem_plain e ve Ee).
    + injection H as ->. destruct (IHe x eq_refl) as [-> He].
      split; [reflexivity|]. destruct (cell_free e) eqn:C; [|reflexivity].
      now rewrite (cell_free_ncun e C) in He.
  - discriminate.
  - now apply IHp.
Qed.

(* the defect class: every such expression raises AttributeError *)
Theorem nested_rejected e : no_cell_under_not e = false ->
  parse_tokens (toks 0 e) = Err EAttribute.
Proof.
  intros Hc. rewrite parse_toks_psem. destruct (psem e) as [v|x] eqn:E.
  - destruct (psem_ok_iff e) as [H _]. specialize (H (ex_intro _ v E)). unfold accepted in H.
    rewrite Hc in H. discriminate.
  - now destruct (psem_err_class e x E) as [-> _].
Qed.

Theorem accepted_iff e : (exists a, parse_tokens (toks 0 e) = Ok a) <-> accepted e = true.
Proof. rewrite parse_toks_psem. apply psem_ok_iff. Qed.
