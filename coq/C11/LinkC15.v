(* C11 — cellcard.split on ALL cell cards: the LIKE branch is C15's model
   (C15.Model.split_like, re_likebut) — used here read-only — the other branch
   is C11's split_card.  split() first unpacks txt.split(None, 2) (ValueError
   with fewer than three fields), then looks at the second field. *)
From Coq Require Import List NArith ZArith Bool String Ascii.
From T4V Require Import Base.Str C11.Model C11.Spec C11.LexProofs C11.Card.
From T4V Require C15.Model C15.Proofs.
Import ListNotations.
Open Scope string_scope.

Definition is_like_card (txt : string) : bool :=
  String.eqb (C15.Model.lower (second_field txt)) "like".

Definition split_card_full (txt : string) : res (string * string) :=
  if Nat.ltb (fields 3 txt) 3 then Err EValue
  else if is_like_card txt then
    match C15.Model.split_like txt with
    | Some (_, geom, opts) => Ok (geom, opts)
    | None => Err EIndex
    end
  else split_card txt.

(* a card whose second field is a digit string is not a LIKE card *)
Lemma lower_digit c : is_digit c = true -> C15.Model.lower_char c = c.
Proof. destruct c as [[] [] [] [] [] [] [] []]; intros H; try discriminate H; reflexivity. Qed.

Lemma digits_not_like mat : digits_ok mat = true -> String.eqb (C15.Model.lower mat) "like" = false.
Proof.
  intros H. destruct (digits_ok_inv mat H) as (_ & c & r & -> & Hc).
  cbn. rewrite (lower_digit c Hc).
  destruct c as [[] [] [] [] [] [] [] []]; try discriminate Hc; reflexivity.
Qed.

Lemma split_card_ok_fields txt g o : split_card txt = Ok (g, o) -> Nat.ltb (fields 3 txt) 3 = false.
Proof. unfold split_card. destruct (Nat.ltb (fields 3 txt) 3); [discriminate|reflexivity]. Qed.

(* branch 1: every well-formed card that is not a LIKE card (C11_split_card) *)
Theorem split_full_wellformed name g1 mat rho g3 E opts :
  digits_ok name = true -> mat_ok mat rho ->
  str_forall expr_char E = true -> head_sat nonblank E = true -> sep_ok rho g3 E -> opts_ok E opts ->
  split_card_full (card_body name g1 mat rho g3 E ++ opts) = Ok (blanks g3 ++ E, opts).
Proof.
  intros Hname Hmat HE HEhd Hsep Hopts.
  pose proof (split_card_wellformed name g1 mat rho g3 E opts Hname Hmat HE HEhd Hsep Hopts) as Hs.
  unfold split_card_full. rewrite (split_card_ok_fields _ _ _ Hs).
  assert (Hnl : is_like_card (card_body name g1 mat rho g3 E ++ opts) = false).
  { destruct Hmat as [Hm Hrho]. unfold is_like_card, card_body. rewrite !str_app_assoc.
    destruct (digits_ok_forall name Hname) as [Fn Nn]. destruct (digits_ok_forall mat Hm) as [Fm Nm].
    rewrite second_field_card; auto.
    - now apply digits_not_like.
    - apply (str_forall_impl is_digit); [|exact Fn]. intros c Hc. now destruct (digit_facts c Hc) as (_ & ? & _).
    - apply (str_forall_impl is_digit); [|exact Fm]. intros c Hc. now destruct (digit_facts c Hc) as (_ & ? & _).
    - destruct rho as [[g2 r]|]; [reflexivity|]. cbn [rho_text append].
      destruct g3 as [|g3']; [|reflexivity]. destruct Hsep as [H|[H _]]; congruence. }
  now rewrite Hnl.
Qed.

(* "like" in any case: four non-blank characters *)
Lemma like_word L : C15.Model.lower L = "like" -> str_forall nonblank L = true /\ L <> "".
Proof.
  destruct L as [|c1 [|c2 [|c3 [|c4 [|c5 r]]]]]; cbn; intros H; try discriminate.
  injection H as H1 H2 H3 H4. split; [|discriminate].
  assert (Hnb : forall c d, C15.Model.lower_char c = d -> is_blank d = false -> nonblank c = true).
  { intros c d <-. destruct c as [[] [] [] [] [] [] [] []]; intros Hb; try discriminate Hb; reflexivity. }
  rewrite (Hnb c1 _ H1 eq_refl), (Hnb c2 _ H2 eq_refl), (Hnb c3 _ H3 eq_refl), (Hnb c4 _ H4 eq_refl). reflexivity.
Qed.

(* branch 2, LINKED with C15: a LIKE card as C15_split_like_card describes it *)
Theorem split_full_like name L ds B rest :
  all_digits name = true -> name <> "" -> C15.Model.lower L = "like" ->
  all_digits ds = true -> ds <> "" -> C15.Model.lower B = "but" ->
  C15.Model.has "but" (C15.Model.lower rest) = false ->
  split_card_full (name ++ " " ++ L ++ " " ++ ds ++ " " ++ B ++ rest) =
  Ok (" " ++ L ++ " " ++ ds ++ " " ++ B, rest).
Proof.
  intros Hn Nn HL Hd Nd HB Hrest.
  destruct (like_word L HL) as [FL NL].
  assert (Fn : str_forall nonblank name = true).
  { rewrite all_digits_forall in Hn. apply (str_forall_impl is_digit); [|exact Hn].
    intros c Hc. now destruct (digit_facts c Hc) as (_ & ? & _). }
  assert (Fd : str_forall nonblank ds = true).
  { rewrite all_digits_forall in Hd. apply (str_forall_impl is_digit); [|exact Hd].
    intros c Hc. now destruct (digit_facts c Hc) as (_ & ? & _). }
  unfold split_card_full.
  assert (Hf : fields 3 (name ++ " " ++ L ++ " " ++ ds ++ " " ++ B ++ rest) = 3).
  { rewrite fields_lemma by (auto; reflexivity).
    change (" " ++ L ++ " " ++ ds ++ " " ++ B ++ rest) with (blanks 1 ++ L ++ " " ++ ds ++ " " ++ B ++ rest).
    rewrite fields_blanks. rewrite fields_lemma by (auto; reflexivity).
    change (" " ++ ds ++ " " ++ B ++ rest) with (blanks 1 ++ ds ++ " " ++ B ++ rest).
    rewrite fields_blanks. rewrite fields_lemma by (auto; reflexivity). reflexivity. }
  rewrite Hf. cbn [Nat.ltb Nat.leb].
  assert (Hlike : is_like_card (name ++ " " ++ L ++ " " ++ ds ++ " " ++ B ++ rest) = true).
  { unfold is_like_card.
    change (name ++ " " ++ L ++ " " ++ ds ++ " " ++ B ++ rest)
      with (name ++ blanks 1 ++ L ++ (" " ++ ds ++ " " ++ B ++ rest)).
    rewrite second_field_card by (auto; reflexivity). rewrite HL. reflexivity. }
  rewrite Hlike.
  now rewrite (C15.Proofs.split_like_card name L ds B rest Hn Nn HL Hd HB Hrest).
Qed.
