(* C11 — the normal form of normalize2 (Regex.v) on the layout family:
   whatever the blanks, normalize2 (render ws trail) is the concatenation of the
   token texts ('#n' as '^(n)', '#(' as '_(') with one '*' exactly between a
   token that ends an operand and a token that starts one. *)
From Coq Require Import List NArith ZArith Bool Lia String Ascii.
From T4V Require Import Base.Str C11.Model C11.Spec C11.LexProofs C11.Regex.
Import ListNotations.
Open Scope string_scope.

(* ---- fuel: each fuelled step function is independent of its fuel once the
   fuel exceeds the length; U_x are the fuel-free unfoldings ---- *)
Lemma skip_blanks_len s : String.length (skip_blanks s) <= String.length s.
Proof. induction s as [|c s IH]; cbn; [lia|]. destruct (is_blank c); cbn; lia. Qed.

Lemma tail_len s : String.length (tail_str s) <= String.length s.
Proof. destruct s; cbn; lia. Qed.

Lemma span_ds_len s : String.length (snd (span_ds s)) <= String.length s.
Proof.
  induction s as [|c s IH]; cbn; [lia|]. destruct (is_digit c); [|cbn; lia].
  destruct (span_ds s) as [a b]. cbn in *. lia.
Qed.

Ltac fuel_ind f IH s :=
  induction f as [|f IH]; intros s f' Hf Hf'; [lia|]; destruct f' as [|f']; [lia|];
  destruct s as [|c r]; [reflexivity|]; cbn [String.length] in Hf, Hf'.

Lemma cell_fuel : forall f s f', String.length s < f -> String.length s < f' ->
  sub_compl_cell f s = sub_compl_cell f' s.
Proof.
  fuel_ind f IH s. cbn [sub_compl_cell]. destruct (is_c "#" c); [|f_equal; apply IH; lia].
  pose proof (span_ds_len (skip_blanks r)) as H1. pose proof (skip_blanks_len r) as H2.
  destruct (span_ds (skip_blanks r)) as [ds rest]. cbn [snd] in H1.
  destruct ds; [f_equal; apply IH; lia|]. do 2 f_equal. f_equal. apply IH; lia.
Qed.

Lemma surf_fuel : forall f s f', String.length s < f -> String.length s < f' ->
  sub_compl_surf f s = sub_compl_surf f' s.
Proof.
  fuel_ind f IH s. cbn [sub_compl_surf].
  pose proof (skip_blanks_len r) as H2. pose proof (tail_len (skip_blanks r)) as H3.
  destruct (is_c "#" c && starts_with_char "(" (skip_blanks r)); f_equal; apply IH; lia.
Qed.

Lemma union_fuel : forall f s f', String.length s < f -> String.length s < f' ->
  sub_union f s = sub_union f' s.
Proof.
  fuel_ind f IH s. cbn [sub_union].
  pose proof (skip_blanks_len (String c r)) as H1. pose proof (tail_len (skip_blanks (String c r))) as H2.
  pose proof (skip_blanks_len (tail_str (skip_blanks (String c r)))) as H3. cbn [String.length] in H1.
  destruct (starts_with_char ":" (skip_blanks (String c r))) eqn:E; f_equal; apply IH; try lia.
  - destruct (skip_blanks (String c r)) as [|d q]; [discriminate|]. cbn [tail_str String.length] in *. lia.
  - destruct (skip_blanks (String c r)) as [|d q]; [discriminate|]. cbn [tail_str String.length] in *. lia.
Qed.

Lemma pareno_fuel : forall f s f', String.length s < f -> String.length s < f' ->
  sub_pareno f s = sub_pareno f' s.
Proof.
  fuel_ind f IH s. cbn [sub_pareno]. pose proof (skip_blanks_len r) as H2.
  destruct (is_c "(" c); f_equal; apply IH; lia.
Qed.

Lemma parenc_fuel : forall f s f', String.length s < f -> String.length s < f' ->
  sub_parenc f s = sub_parenc f' s.
Proof.
  fuel_ind f IH s. cbn [sub_parenc].
  pose proof (skip_blanks_len (String c r)) as H1. cbn [String.length] in H1.
  destruct (starts_with_char ")" (skip_blanks (String c r))) eqn:E; f_equal; apply IH; try lia.
  - destruct (skip_blanks (String c r)) as [|d q]; [discriminate|]. cbn [tail_str String.length] in *. lia.
  - destruct (skip_blanks (String c r)) as [|d q]; [discriminate|]. cbn [tail_str String.length] in *. lia.
Qed.

Lemma spaces_fuel : forall f s f', String.length s < f -> String.length s < f' ->
  sub_spaces f s = sub_spaces f' s.
Proof.
  fuel_ind f IH s. cbn [sub_spaces]. pose proof (skip_blanks_len r) as H2.
  destruct (is_blank c); f_equal; apply IH; lia.
Qed.

Definition Ucell s := sub_compl_cell (fl s) s.
Definition Usurf s := sub_compl_surf (fl s) s.
Definition Uunion s := sub_union (fl s) s.
Definition Uopen s := sub_pareno (fl s) s.
Definition Uclose s := sub_parenc (fl s) s.
Definition Uspaces s := sub_spaces (fl s) s.

Lemma cell_step f c r : sub_compl_cell (S f) (String c r) =
  if is_c "#" c then
    match span_ds (skip_blanks r) with
    | (EmptyString, _) => String c (sub_compl_cell f r)
    | (ds, rest) => " ^(" ++ ds ++ ")" ++ sub_compl_cell f rest
    end
  else String c (sub_compl_cell f r).
Proof. reflexivity. Qed.
Lemma surf_step f c r : sub_compl_surf (S f) (String c r) =
  if is_c "#" c && starts_with_char "(" (skip_blanks r)
  then " _(" ++ sub_compl_surf f (tail_str (skip_blanks r)) else String c (sub_compl_surf f r).
Proof. reflexivity. Qed.
Lemma union_step f c r : sub_union (S f) (String c r) =
  if starts_with_char ":" (skip_blanks (String c r))
  then String ":" (sub_union f (skip_blanks (tail_str (skip_blanks (String c r)))))
  else String c (sub_union f r).
Proof. reflexivity. Qed.
Lemma pareno_step f c r : sub_pareno (S f) (String c r) =
  if is_c "(" c then String c (sub_pareno f (skip_blanks r)) else String c (sub_pareno f r).
Proof. reflexivity. Qed.
Lemma parenc_step f c r : sub_parenc (S f) (String c r) =
  if starts_with_char ")" (skip_blanks (String c r))
  then String ")" (sub_parenc f (tail_str (skip_blanks (String c r)))) else String c (sub_parenc f r).
Proof. reflexivity. Qed.
Lemma spaces_step f c r : sub_spaces (S f) (String c r) =
  if is_blank c then String "*" (sub_spaces f (skip_blanks r)) else String c (sub_spaces f r).
Proof. reflexivity. Qed.

Lemma Ucell_cons c r : Ucell (String c r) =
  if is_c "#" c then
    match span_ds (skip_blanks r) with
    | (EmptyString, _) => String c (Ucell r)
    | (ds, rest) => " ^(" ++ ds ++ ")" ++ Ucell rest
    end
  else String c (Ucell r).
Proof.
  unfold Ucell, fl. cbn [String.length]. rewrite cell_step. destruct (is_c "#" c); [|reflexivity].
  pose proof (span_ds_len (skip_blanks r)) as H1. pose proof (skip_blanks_len r) as H2.
  destruct (span_ds (skip_blanks r)) as [ds rest]. cbn [snd] in H1. destruct ds; [reflexivity|].
  do 3 f_equal. apply cell_fuel; lia.
Qed.

Lemma Usurf_cons c r : Usurf (String c r) =
  if is_c "#" c && starts_with_char "(" (skip_blanks r)
  then " _(" ++ Usurf (tail_str (skip_blanks r)) else String c (Usurf r).
Proof.
  unfold Usurf, fl. cbn [String.length]. rewrite surf_step.
  pose proof (skip_blanks_len r) as H2. pose proof (tail_len (skip_blanks r)) as H3.
  destruct (is_c "#" c && starts_with_char "(" (skip_blanks r)); [|reflexivity].
  f_equal. apply surf_fuel; lia.
Qed.

Lemma Uunion_cons c r : Uunion (String c r) =
  if starts_with_char ":" (skip_blanks (String c r))
  then String ":" (Uunion (skip_blanks (tail_str (skip_blanks (String c r)))))
  else String c (Uunion r).
Proof.
  unfold Uunion, fl. cbn [String.length]. rewrite union_step.
  pose proof (skip_blanks_len (String c r)) as H1. pose proof (tail_len (skip_blanks (String c r))) as H2.
  pose proof (skip_blanks_len (tail_str (skip_blanks (String c r)))) as H3. cbn [String.length] in H1.
  destruct (starts_with_char ":" (skip_blanks (String c r))) eqn:E; [|reflexivity].
  f_equal. destruct (skip_blanks (String c r)) as [|d q]; [discriminate|].
  cbn [tail_str String.length] in *. apply union_fuel; lia.
Qed.

Lemma Uopen_cons c r : Uopen (String c r) =
  if is_c "(" c then String c (Uopen (skip_blanks r)) else String c (Uopen r).
Proof.
  unfold Uopen, fl. cbn [String.length]. rewrite pareno_step. pose proof (skip_blanks_len r) as H2.
  destruct (is_c "(" c); [|reflexivity]. f_equal. apply pareno_fuel; lia.
Qed.

Lemma Uclose_cons c r : Uclose (String c r) =
  if starts_with_char ")" (skip_blanks (String c r))
  then String ")" (Uclose (tail_str (skip_blanks (String c r)))) else String c (Uclose r).
Proof.
  unfold Uclose, fl. cbn [String.length]. rewrite parenc_step.
  pose proof (skip_blanks_len (String c r)) as H1. pose proof (tail_len (skip_blanks (String c r))) as H2.
  cbn [String.length] in H1.
  destruct (starts_with_char ")" (skip_blanks (String c r))) eqn:E; [|reflexivity].
  f_equal. destruct (skip_blanks (String c r)) as [|d q]; [discriminate|].
  cbn [tail_str String.length] in *. apply parenc_fuel; lia.
Qed.

Lemma Uspaces_cons c r : Uspaces (String c r) =
  if is_blank c then String "*" (Uspaces (skip_blanks r)) else String c (Uspaces r).
Proof.
  unfold Uspaces, fl. cbn [String.length]. rewrite spaces_step. pose proof (skip_blanks_len r) as H2.
  destruct (is_blank c); [|reflexivity]. f_equal. apply spaces_fuel; lia.
Qed.

Lemma normalize2_U geom : normalize2 geom =
  Uspaces (strip (sub_parenc_after (sub_pareno_before
    (Uclose (Uopen (Uunion (Usurf (Ucell (strip geom))))))))).
Proof. reflexivity. Qed.

(* ================================================================== *)
(* items: the text between the passes                                  *)
(* ================================================================== *)
From T4V Require Import C11.Card.

Inductive atom := ALit (t : string) | ACell (ds : string) | ANot | ALP | ARP | AColon.

Definition atext (a : atom) : string :=
  match a with
  | ALit t => t
  | ACell ds => "^(" ++ ds ++ ")"
  | ANot => "_("
  | ALP => "(" | ARP => ")" | AColon => ":"
  end.

Definition items := list (nat * atom).

Fixpoint irender (its : items) : string :=
  match its with
  | [] => ""
  | (g, a) :: r => blanks g ++ atext a ++ irender r
  end.

Definition lit_char (c : ascii) : bool :=
  is_digit c || Ascii.eqb c "+" || Ascii.eqb c "-" || Ascii.eqb c ".".

Definition atom_ok (a : atom) : Prop :=
  match a with
  | ALit t => str_forall lit_char t = true /\ t <> ""
  | ACell ds => str_forall is_digit ds = true /\ ds <> ""
  | _ => True
  end.

(* the gap of the first item set to 0 *)
Definition zh (z : bool) (its : items) : items :=
  match its with
  | (g, a) :: r => ((if z then 0 else g), a) :: r
  | [] => []
  end.

(* one pass at item level: the new gap from the previous atom, the gap, the atom *)
Fixpoint imap (f : option atom -> nat -> atom -> nat) (prev : option atom) (its : items) : items :=
  match its with
  | [] => []
  | (g, a) :: r => (f prev g a, a) :: imap f (Some a) r
  end.

Lemma imap_imap f1 f2 : forall prev its,
  imap f2 prev (imap f1 prev its) = imap (fun p g a => f2 p (f1 p g a) a) prev its.
Proof. intros prev its. revert prev. induction its as [|[g a] r IH]; intros prev; cbn; [reflexivity|now rewrite IH]. Qed.

Definition is_colon (a : atom) : bool := match a with AColon => true | _ => false end.
Definition is_open (a : atom) : bool := match a with ALP | ANot => true | _ => false end.
Definition opt_is (p : atom -> bool) (o : option atom) : bool := match o with Some a => p a | None => false end.

(* characters of atom texts *)
Lemma lit_char_facts c : lit_char c = true ->
  is_blank c = false /\ is_c "#" c = false /\ is_c ":" c = false /\ is_c "(" c = false /\ is_c ")" c = false.
Proof. destruct c as [[] [] [] [] [] [] [] []]; intros H; try discriminate H; repeat split; reflexivity. Qed.

Lemma digit_lit c : is_digit c = true -> lit_char c = true.
Proof. unfold lit_char. intros ->. reflexivity. Qed.

(* a generic "inert prefix" principle for a scan [U] that copies characters of class [p] *)
Lemma inert_copy (U : string -> string) (p : ascii -> bool) :
  (forall c r, p c = true -> U (String c r) = String c (U r)) ->
  forall t s, str_forall p t = true -> U (t ++ s) = t ++ U s.
Proof.
  intros HU t. induction t as [|c t IH]; intros s H; [reflexivity|].
  cbn [str_forall] in H. apply andb_prop in H. destruct H as [Hc Ht].
  cbn [append]. rewrite (HU c _ Hc), (IH s Ht). reflexivity.
Qed.

Lemma atext_nonempty a : atom_ok a -> exists c r, atext a = String c r /\ is_blank c = false.
Proof.
  destruct a as [t|ds| | | |]; cbn [atom_ok atext]; intros H; try (eexists; eexists; split; reflexivity).
  destruct H as [Hf Hne]. destruct t as [|c r]; [congruence|]. exists c, r. split; [reflexivity|].
  cbn in Hf. apply andb_prop in Hf. destruct Hf as [Hc _]. now destruct (lit_char_facts c Hc).
Qed.

Lemma irender_head its : Forall (fun p => atom_ok (snd p)) its ->
  irender (zh true its) = "" \/ exists c r, irender (zh true its) = String c r /\ is_blank c = false.
Proof.
  destruct its as [|[g a] R]; [now left|]. intros H. right. inversion H as [|x l Ha Hl]; subst.
  destruct (atext_nonempty a Ha) as (c & r & E & Hb). cbn [zh irender blanks append snd] in *. rewrite E.
  exists c, (r ++ irender R). auto.
Qed.

Lemma atext_forall (p : ascii -> bool) a : atom_ok a ->
  (forall c, lit_char c = true -> p c = true) ->
  match a with
  | ALit _ => true
  | ACell _ => p "^"%char && p "("%char && p ")"%char
  | ANot => p "_"%char && p "("%char
  | ALP => p "("%char | ARP => p ")"%char | AColon => p ":"%char
  end = true -> str_forall p (atext a) = true.
Proof.
  intros Hok Hl Hp. destruct a as [t|ds| | | |]; cbn [atext atom_ok] in *.
  - destruct Hok as [Hf _]. exact (str_forall_impl lit_char p t Hl Hf).
  - destruct Hok as [Hf _]. apply andb_prop in Hp. destruct Hp as [Hp H3]. apply andb_prop in Hp. destruct Hp as [H1 H2].
    cbn [append str_forall]. rewrite H1, H2. cbn [andb]. rewrite str_forall_app.
    rewrite (str_forall_impl is_digit p ds (fun c Hc => Hl c (digit_lit c Hc)) Hf). cbn. now rewrite H3.
  - cbn. apply andb_prop in Hp. destruct Hp as [-> ->]. reflexivity.
  - cbn. now rewrite Hp.
  - cbn. now rewrite Hp.
  - cbn. now rewrite Hp.
Qed.

Lemma skip_nb c r : is_blank c = false -> skip_blanks (String c r) = String c r.
Proof. intros H. cbn. now rewrite H. Qed.

Definition hd_ok (p : ascii -> bool) (s : string) : bool :=
  match s with EmptyString => true | String c _ => p c end.

Lemma irender_split its : exists h, irender its = blanks h ++ irender (zh true its).
Proof. destruct its as [|[g a] R]; [exists 0; reflexivity|]. exists g. reflexivity. Qed.

Lemma zh_false its : zh false its = its.
Proof. destruct its as [|[g a] R]; reflexivity. Qed.

Lemma irender_hd_nb its : Forall (fun p => atom_ok (snd p)) its ->
  hd_ok (fun c => negb (is_blank c)) (irender (zh true its)) = true.
Proof.
  intros H. destruct (irender_head its H) as [->|(c & r & -> & Hb)]; [reflexivity|]. cbn. now rewrite Hb.
Qed.

(* ---------------- pass 3: re_union ---------------- *)
Definition p_union_inert (c : ascii) : bool := negb (is_blank c) && negb (is_c ":" c).

Lemma Uunion_inert c r : p_union_inert c = true -> Uunion (String c r) = String c (Uunion r).
Proof.
  unfold p_union_inert. intros H. apply andb_prop in H. destruct H as [Hb Hc].
  apply negb_true_iff in Hb. apply negb_true_iff in Hc.
  rewrite Uunion_cons, (skip_nb c r Hb). cbn [starts_with_char]. unfold is_c in Hc.
  rewrite Ascii.eqb_sym, Hc. reflexivity.
Qed.

Lemma Uunion_nil : Uunion "" = "".
Proof. reflexivity. Qed.

Lemma Uunion_gap g s : hd_ok p_union_inert s = true -> Uunion (blanks g ++ s) = blanks g ++ Uunion s.
Proof.
  intros Hs. induction g as [|g IH]; [reflexivity|]. cbn [blanks append].
  rewrite Uunion_cons. cbn [skip_blanks is_blank Ascii.eqb Bool.eqb andb]. rewrite skip_blanks_blanks.
  destruct s as [|c r].
  - cbn [skip_blanks starts_with_char]. now rewrite IH.
  - cbn [hd_ok] in Hs. unfold p_union_inert in Hs. apply andb_prop in Hs. destruct Hs as [Hb Hc].
    apply negb_true_iff in Hb. apply negb_true_iff in Hc. rewrite (skip_nb c r Hb). cbn [starts_with_char].
    unfold is_c in Hc. rewrite Ascii.eqb_sym, Hc. now rewrite IH.
Qed.

Lemma Uunion_colon g h s : hd_ok (fun c => negb (is_blank c)) s = true ->
  Uunion (blanks g ++ ":" ++ blanks h ++ s) = ":" ++ Uunion s.
Proof.
  intros Hs.
  assert (Hsk : skip_blanks (blanks h ++ s) = s).
  { rewrite skip_blanks_blanks. destruct s as [|c r]; [reflexivity|]. cbn in Hs. apply negb_true_iff in Hs. now apply skip_nb. }
  destruct g as [|g].
  - cbn [blanks append]. rewrite Uunion_cons. cbn [skip_blanks is_blank Ascii.eqb Bool.eqb andb starts_with_char tail_str].
    now rewrite Hsk.
  - cbn [blanks append]. rewrite Uunion_cons. cbn [skip_blanks is_blank Ascii.eqb Bool.eqb andb].
    rewrite skip_blanks_blanks. cbn [append skip_blanks is_blank Ascii.eqb Bool.eqb andb starts_with_char tail_str].
    now rewrite Hsk.
Qed.

Definition f3 (prev : option atom) (g : nat) (a : atom) : nat :=
  if is_colon a || opt_is is_colon prev then 0 else g.

Definition all_ok (its : items) : Prop := Forall (fun p => atom_ok (snd p)) its.

Lemma pass3 : forall its prev, all_ok its ->
  Uunion (irender (zh (opt_is is_colon prev) its)) = irender (imap f3 prev its).
Proof.
  induction its as [|[g a] R IH]; intros prev Hok; [reflexivity|].
  inversion Hok as [|x l Ha HR]; subst. cbn [snd] in Ha.
  cbn [zh irender imap]. set (z := opt_is is_colon prev). unfold f3. fold z.
  destruct (is_colon a) eqn:Ec.
  - destruct a; try discriminate. cbn [atext orb].
    destruct (irender_split R) as [h Eh]. rewrite Eh.
    rewrite (Uunion_colon _ h _ (irender_hd_nb R HR)).
    specialize (IH (Some AColon) HR). cbn [opt_is is_colon] in IH. rewrite IH. reflexivity.
  - cbn [orb]. assert (Hin : str_forall p_union_inert (atext a) = true).
    { apply atext_forall; [exact Ha| |destruct a; try reflexivity; discriminate].
      intros c Hc. destruct (lit_char_facts c Hc) as (Hb & _ & H2 & _). unfold p_union_inert. now rewrite Hb, H2. }
    rewrite Uunion_gap.
    + rewrite (inert_copy Uunion p_union_inert Uunion_inert _ _ Hin).
      specialize (IH (Some a) HR). cbn [opt_is] in IH. rewrite Ec, zh_false in IH. now rewrite IH.
    + destruct (atext_nonempty a Ha) as (c & r & E & _). rewrite E in *. cbn [append hd_ok].
      cbn [str_forall] in Hin. apply andb_prop in Hin. now destruct Hin.
Qed.

Lemma blanks_forall (p : ascii -> bool) g : p " "%char = true -> str_forall p (blanks g) = true.
Proof. intros H. induction g; cbn; [reflexivity|now rewrite H]. Qed.

(* ---------------- pass 4: re_pareno ---------------- *)
Definition p_open_inert (c : ascii) : bool := negb (is_c "(" c).

Lemma Uopen_inert c r : p_open_inert c = true -> Uopen (String c r) = String c (Uopen r).
Proof. unfold p_open_inert. intros H. apply negb_true_iff in H. now rewrite Uopen_cons, H. Qed.

Lemma Uopen_open h s : hd_ok (fun c => negb (is_blank c)) s = true ->
  Uopen ("(" ++ blanks h ++ s) = "(" ++ Uopen s.
Proof.
  intros Hs. cbn [append]. rewrite Uopen_cons. cbn [is_c Ascii.eqb Bool.eqb andb]. rewrite skip_blanks_blanks.
  destruct s as [|c r]; [reflexivity|]. cbn in Hs. apply negb_true_iff in Hs. now rewrite (skip_nb c r Hs).
Qed.

Definition f4 (prev : option atom) (g : nat) (a : atom) : nat :=
  if opt_is is_open prev then 0 else g.

Lemma pass4 : forall its prev, all_ok its ->
  Uopen (irender (zh (opt_is is_open prev) its)) = irender (imap f4 prev its).
Proof.
  induction its as [|[g a] R IH]; intros prev Hok; [reflexivity|].
  inversion Hok as [|x l Ha HR]; subst. cbn [snd] in Ha.
  cbn [zh irender imap]. unfold f4 at 1. set (g0 := if opt_is is_open prev then 0 else g).
  rewrite (inert_copy Uopen p_open_inert Uopen_inert _ _ (blanks_forall p_open_inert g0 eq_refl)).
  f_equal.
  assert (Hl : forall c, lit_char c = true -> p_open_inert c = true).
  { intros c Hc. destruct (lit_char_facts c Hc) as (_ & _ & _ & H3 & _). unfold p_open_inert. now rewrite H3. }
  assert (Hclosed : is_open a = false -> Uopen (atext a ++ irender R) = atext a ++ irender (imap f4 (Some a) R)).
  { intros Hc. specialize (IH (Some a) HR). cbn [opt_is] in IH. rewrite Hc, zh_false in IH.
    destruct a as [t|ds| | | |]; try discriminate Hc.
    - rewrite (inert_copy Uopen p_open_inert Uopen_inert _ _ (atext_forall p_open_inert _ Ha Hl eq_refl)). now rewrite IH.
    - cbn [atext atom_ok] in *. destruct Ha as [Hf Hne]. cbn [append].
      rewrite Uopen_inert by reflexivity. rewrite Uopen_cons. cbn [is_c Ascii.eqb Bool.eqb andb].
      destruct ds as [|d ds']; [congruence|]. cbn [str_forall] in Hf. apply andb_prop in Hf. destruct Hf as [Hd Hf'].
      destruct (lit_char_facts d (digit_lit d Hd)) as (Hb & _).
      cbn [append]. rewrite (skip_nb d _ Hb).
      change (String d ((ds' ++ ")") ++ irender R)) with ((String d ds' ++ ")") ++ irender R).
      rewrite (inert_copy Uopen p_open_inert Uopen_inert (String d ds' ++ ")")).
      + now rewrite IH.
      + rewrite str_forall_app. cbn [str_forall]. rewrite (Hl d (digit_lit d Hd)).
        rewrite (str_forall_impl is_digit p_open_inert ds' (fun c Hc0 => Hl c (digit_lit c Hc0)) Hf'). reflexivity.
    - cbn [atext append]. rewrite Uopen_inert by reflexivity. now rewrite IH.
    - cbn [atext append]. rewrite Uopen_inert by reflexivity. now rewrite IH. }
  destruct (is_open a) eqn:Eo; [|now apply Hclosed].
  specialize (IH (Some a) HR). cbn [opt_is] in IH. rewrite Eo in IH.
  destruct (irender_split R) as [h Eh]. rewrite Eh.
  destruct a; try discriminate Eo.
  - cbn [atext append]. rewrite Uopen_inert by reflexivity.
    change (String "(" (blanks h ++ irender (zh true R))) with ("(" ++ blanks h ++ irender (zh true R)).
    rewrite (Uopen_open h _ (irender_hd_nb R HR)). now rewrite IH.
  - cbn [atext].
    rewrite (Uopen_open h _ (irender_hd_nb R HR)). now rewrite IH.
Qed.

(* ---------------- pass 5: re_parenc ---------------- *)
Definition p_close_inert (c : ascii) : bool := negb (is_blank c) && negb (is_c ")" c).

Lemma Uclose_inert c r : p_close_inert c = true -> Uclose (String c r) = String c (Uclose r).
Proof.
  unfold p_close_inert. intros H. apply andb_prop in H. destruct H as [Hb Hc].
  apply negb_true_iff in Hb. apply negb_true_iff in Hc.
  rewrite Uclose_cons, (skip_nb c r Hb). cbn [starts_with_char]. unfold is_c in Hc.
  rewrite Ascii.eqb_sym, Hc. reflexivity.
Qed.

Lemma Uclose_rp s : Uclose (")" ++ s) = ")" ++ Uclose s.
Proof. cbn [append]. rewrite Uclose_cons. reflexivity. Qed.

Lemma Uclose_gap g s : hd_ok p_close_inert s = true -> Uclose (blanks g ++ s) = blanks g ++ Uclose s.
Proof.
  intros Hs. induction g as [|g IH]; [reflexivity|]. cbn [blanks append].
  rewrite Uclose_cons. cbn [skip_blanks is_blank Ascii.eqb Bool.eqb andb]. rewrite skip_blanks_blanks.
  destruct s as [|c r].
  - cbn [skip_blanks starts_with_char]. now rewrite IH.
  - cbn [hd_ok] in Hs. unfold p_close_inert in Hs. apply andb_prop in Hs. destruct Hs as [Hb Hc].
    apply negb_true_iff in Hb. apply negb_true_iff in Hc. rewrite (skip_nb c r Hb). cbn [starts_with_char].
    unfold is_c in Hc. rewrite Ascii.eqb_sym, Hc. now rewrite IH.
Qed.

Lemma Uclose_gap_rp g s : Uclose (blanks g ++ ")" ++ s) = ")" ++ Uclose s.
Proof.
  destruct g as [|g]; [apply Uclose_rp|]. cbn [blanks append]. rewrite Uclose_cons.
  cbn [skip_blanks is_blank Ascii.eqb Bool.eqb andb]. rewrite skip_blanks_blanks. reflexivity.
Qed.

Definition is_rp (a : atom) : bool := match a with ARP => true | _ => false end.
Definition f5 (prev : option atom) (g : nat) (a : atom) : nat := if is_rp a then 0 else g.

Lemma pass5 : forall its prev, all_ok its -> Uclose (irender its) = irender (imap f5 prev its).
Proof.
  induction its as [|[g a] R IH]; intros prev Hok; [reflexivity|].
  inversion Hok as [|x l Ha HR]; subst. cbn [snd] in Ha. cbn [irender imap]. unfold f5 at 1.
  assert (Hl : forall c, lit_char c = true -> p_close_inert c = true).
  { intros c Hc. destruct (lit_char_facts c Hc) as (Hb & _ & _ & _ & H4). unfold p_close_inert. now rewrite Hb, H4. }
  destruct a as [t|ds| | | |]; cbn [is_rp].
  - rewrite Uclose_gap.
    + rewrite (inert_copy Uclose p_close_inert Uclose_inert _ _ (atext_forall p_close_inert _ Ha Hl eq_refl)).
      now rewrite (IH (Some (ALit t)) HR).
    + destruct (atext_nonempty _ Ha) as (c & r & E & _). rewrite E. cbn [append hd_ok].
      pose proof (atext_forall p_close_inert _ Ha Hl eq_refl) as Hf. rewrite E in Hf. cbn in Hf.
      apply andb_prop in Hf. now destruct Hf.
  - rewrite Uclose_gap by reflexivity. cbn [atext atom_ok] in *. destruct Ha as [Hf Hne].
    replace (("^(" ++ ds ++ ")") ++ irender R) with (("^(" ++ ds) ++ ")" ++ irender R)
      by (cbn [append]; now rewrite str_app_assoc).
    rewrite (inert_copy Uclose p_close_inert Uclose_inert ("^(" ++ ds)).
    + rewrite Uclose_rp, (IH (Some (ACell ds)) HR). cbn [append]. now rewrite str_app_assoc.
    + cbn [append str_forall]. cbn [p_close_inert is_blank is_c Ascii.eqb Bool.eqb andb negb].
      exact (str_forall_impl is_digit p_close_inert ds (fun c Hc => Hl c (digit_lit c Hc)) Hf).
  - rewrite Uclose_gap by reflexivity. cbn [atext append].
    rewrite Uclose_inert by reflexivity. rewrite Uclose_inert by reflexivity. now rewrite (IH (Some ANot) HR).
  - rewrite Uclose_gap by reflexivity. cbn [atext append].
    rewrite Uclose_inert by reflexivity. now rewrite (IH (Some ALP) HR).
  - cbn [atext]. rewrite Uclose_gap_rp. now rewrite (IH (Some ARP) HR).
  - rewrite Uclose_gap by reflexivity. cbn [atext append].
    rewrite Uclose_inert by reflexivity. now rewrite (IH (Some AColon) HR).
Qed.

(* ---------------- pass 7: re_pareno_before, as a one-state transducer ---------------- *)
Definition ok7 (c : ascii) : bool := not_in4 "(" ":" "^" "_" c.

Fixpoint Q7 (okp : bool) (s : string) : string :=
  match s with
  | EmptyString => EmptyString
  | String c r => (if is_c "(" c && okp then " (" else String c "") ++ Q7 (ok7 c) r
  end.

Lemma P7_Q7 : forall n r, String.length r <= n -> forall c,
  sub_pareno_before (String c r) = String c (Q7 (ok7 c) r).
Proof.
  induction n as [|n IH]; intros r Hn c.
  - destruct r; [reflexivity|cbn in Hn; lia].
  - destruct r as [|d r2]; [reflexivity|]. cbn [String.length] in Hn.
    change (sub_pareno_before (String c (String d r2))) with
      (if not_in4 "(" ":" "^" "_" c && is_c "(" d
       then String c (String " " (String "(" (sub_pareno_before r2)))
       else String c (sub_pareno_before (String d r2))).
    fold (ok7 c). cbn [Q7]. rewrite (andb_comm (is_c "(" d)).
    destruct (ok7 c && is_c "(" d) eqn:E.
    + apply andb_prop in E. destruct E as [_ Ed]. unfold is_c in Ed. apply Ascii.eqb_eq in Ed. subst d.
      cbn [append]. do 3 f_equal. destruct r2 as [|e r3]; [reflexivity|].
      rewrite (IH r3) by (cbn in Hn; lia). cbn [Q7]. change (ok7 "(") with false. rewrite andb_false_r. reflexivity.
    + cbn [append]. f_equal. apply IH. lia.
Qed.

Lemma P7_is_Q7 s : sub_pareno_before s = Q7 false s.
Proof.
  destruct s as [|c r]; [reflexivity|]. rewrite (P7_Q7 (String.length r) r (le_n _) c).
  cbn [Q7]. rewrite andb_false_r. reflexivity.
Qed.

(* a stretch of characters other than '(' whose ok7 value is uniformly k *)
Lemma Q7_uniform k : forall t b s, t <> "" ->
  str_forall (fun c => negb (is_c "(" c) && Bool.eqb (ok7 c) k) t = true ->
  Q7 b (t ++ s) = t ++ Q7 k s.
Proof.
  induction t as [|c t IH]; intros b s Hne H; [congruence|].
  cbn [str_forall] in H. apply andb_prop in H. destruct H as [Hc Ht].
  apply andb_prop in Hc. destruct Hc as [Hc1 Hc2]. apply negb_true_iff in Hc1. apply Bool.eqb_prop in Hc2.
  cbn [append Q7]. rewrite Hc1. cbn [andb append]. f_equal. rewrite Hc2.
  destruct t as [|d t']; [reflexivity|]. apply IH; [discriminate|exact Ht].
Qed.

Lemma Q7_open b s : Q7 b ("(" ++ s) = (if b then " (" else "(") ++ Q7 false s.
Proof. cbn [append Q7 is_c Ascii.eqb Bool.eqb andb]. destruct b; reflexivity. Qed.

Lemma blanks_snoc g x : blanks g ++ String " " x = blanks (S g) ++ x.
Proof. induction g; cbn; [reflexivity|]. cbn in IHg. now rewrite IHg. Qed.

Definition ends_operand (a : atom) : bool := match a with ALit _ | ACell _ | ARP => true | _ => false end.

Definition f7 (prev : option atom) (g : nat) (a : atom) : nat :=
  match a with
  | ALP => if Nat.ltb 0 g then S g else if opt_is ends_operand prev then 1 else 0
  | _ => g
  end.

Lemma Q7_gap g b s : Q7 b (blanks g ++ s) = blanks g ++ Q7 (if Nat.ltb 0 g then true else b) s.
Proof.
  destruct g as [|g]; [reflexivity|]. apply Q7_uniform; [discriminate|].
  apply blanks_forall. reflexivity.
Qed.

Lemma pass7 : forall its prev, all_ok its ->
  Q7 (opt_is ends_operand prev) (irender its) = irender (imap f7 prev its).
Proof.
  induction its as [|[g a] R IH]; intros prev Hok; [reflexivity|].
  inversion Hok as [|x l Ha HR]; subst. cbn [snd] in Ha. cbn [irender imap].
  rewrite Q7_gap. set (b1 := if Nat.ltb 0 g then true else opt_is ends_operand prev).
  assert (Hl : forall k c, lit_char c = true -> k = true -> negb (is_c "(" c) && Bool.eqb (ok7 c) k = true).
  { intros k c Hc ->. destruct c as [[] [] [] [] [] [] [] []]; try discriminate Hc; reflexivity. }
  destruct a as [t|ds| | | |]; cbn [f7 atext].
  - cbn [atom_ok] in Ha. destruct Ha as [Hf Hne].
    rewrite (Q7_uniform true t b1 _ Hne (str_forall_impl lit_char _ t (fun c Hc => Hl true c Hc eq_refl) Hf)).
    now rewrite <- (IH (Some (ALit t)) HR).
  - cbn [atom_ok] in Ha. destruct Ha as [Hf Hne].
    replace (("^(" ++ ds ++ ")") ++ irender R) with ("^" ++ "(" ++ (ds ++ ")") ++ irender R)
      by (cbn [append]; now rewrite str_app_assoc).
    rewrite (Q7_uniform false "^" b1) by (try discriminate; reflexivity).
    rewrite Q7_open. rewrite (Q7_uniform true (ds ++ ")")).
    + rewrite <- (IH (Some (ACell ds)) HR). cbn [append opt_is ends_operand]. now rewrite !str_app_assoc.
    + destruct ds; [congruence|discriminate].
    + rewrite str_forall_app. rewrite (str_forall_impl is_digit _ ds (fun c Hc => Hl true c (digit_lit c Hc) eq_refl) Hf). reflexivity.
  - replace ("_(" ++ irender R) with ("_" ++ "(" ++ irender R) by reflexivity.
    rewrite (Q7_uniform false "_" b1) by (try discriminate; reflexivity).
    rewrite Q7_open. now rewrite <- (IH (Some ANot) HR).
  - rewrite Q7_open. rewrite <- (IH (Some ALP) HR). cbn [opt_is ends_operand]. unfold b1.
    destruct (Nat.ltb 0 g) eqn:Eg.
    + cbn [append]. now rewrite blanks_snoc.
    + destruct g; [|discriminate Eg]. destruct (opt_is ends_operand prev); reflexivity.
  - rewrite (Q7_uniform true ")" b1) by (try discriminate; reflexivity). now rewrite <- (IH (Some ARP) HR).
  - rewrite (Q7_uniform false ":" b1) by (try discriminate; reflexivity). now rewrite <- (IH (Some AColon) HR).
Qed.

(* ---------------- pass 8: re_parenc_after, with one character of lookahead ---------------- *)
Definition ok8 (c : ascii) : bool := not_in4 ")" ":" "^" "_" c.
Definition hd8 (s : string) : bool := match s with String d _ => ok8 d | EmptyString => false end.

Fixpoint Q8 (s : string) : string :=
  match s with
  | EmptyString => EmptyString
  | String c r => (if is_c ")" c && hd8 r then ") " else String c "") ++ Q8 r
  end.

Lemma P8_Q8 : forall n s, String.length s <= n -> sub_parenc_after s = Q8 s.
Proof.
  induction n as [|n IH]; intros s Hn.
  - destruct s; [reflexivity|cbn in Hn; lia].
  - destruct s as [|c r]; [reflexivity|]. destruct r as [|d r2].
    + cbn. rewrite andb_false_r. reflexivity.
    + cbn [String.length] in Hn.
      change (sub_parenc_after (String c (String d r2))) with
        (if is_c ")" c && not_in4 ")" ":" "^" "_" d
         then String ")" (String " " (String d (sub_parenc_after r2)))
         else String c (sub_parenc_after (String d r2))).
      cbn [Q8 hd8]. fold (ok8 d).
      destruct (is_c ")" c && ok8 d) eqn:E.
      * apply andb_prop in E. destruct E as [_ Ed].
        assert (Hd : is_c ")" d = false) by (destruct d as [[] [] [] [] [] [] [] []]; try discriminate Ed; reflexivity).
        rewrite Hd. cbn [andb append]. do 3 f_equal. apply IH. lia.
      * cbn [append]. f_equal. rewrite (IH (String d r2)) by (cbn; lia). reflexivity.
Qed.

Lemma Q8_inert c r : negb (is_c ")" c) = true -> Q8 (String c r) = String c (Q8 r).
Proof. intros H. apply negb_true_iff in H. cbn [Q8]. now rewrite H. Qed.

Lemma Q8_rp s : Q8 (")" ++ s) = ")" ++ (if hd8 s then " " else "") ++ Q8 s.
Proof. cbn [append Q8 is_c Ascii.eqb Bool.eqb andb]. destruct (hd8 s); reflexivity. Qed.

Definition starts_plain (a : atom) : bool := match a with ALit _ | ALP => true | _ => false end.

Definition f8 (prev : option atom) (g : nat) (a : atom) : nat :=
  if opt_is (fun p => match p with ARP | ACell _ => true | _ => false end) prev
  then (if Nat.ltb 0 g then S g else if starts_plain a then 1 else 0)
  else g.

Definition closes (o : option atom) : bool :=
  opt_is (fun p => match p with ARP | ACell _ => true | _ => false end) o.

(* the blank inserted after the ')' of the previous atom belongs to the gap of the next item *)
Definition extra8 (prev : option atom) (its : items) : string :=
  if closes prev && hd8 (irender its) then " " else "".

Lemma hd8_item g a R : atom_ok a ->
  hd8 (irender ((g, a) :: R)) = if Nat.ltb 0 g then true else starts_plain a.
Proof.
  intros Ha. cbn [irender]. destruct g as [|g]; [|reflexivity]. cbn [blanks append Nat.ltb Nat.leb].
  destruct a as [t|ds| | | |]; try reflexivity. cbn [atext atom_ok starts_plain] in *.
  destruct Ha as [Hf Hne]. destruct t as [|c r]; [congruence|]. cbn [append hd8].
  cbn in Hf. apply andb_prop in Hf. destruct Hf as [Hc _].
  destruct c as [[] [] [] [] [] [] [] []]; try discriminate Hc; reflexivity.
Qed.

Lemma pass8 : forall its prev, all_ok its ->
  extra8 prev its ++ Q8 (irender its) = irender (imap f8 prev its).
Proof.
  induction its as [|[g a] R IH]; intros prev Hok.
  - unfold extra8. cbn. rewrite andb_false_r. reflexivity.
  - inversion Hok as [|x l Ha HR]; subst. cbn [snd] in Ha.
    unfold extra8. rewrite (hd8_item g a R Ha). cbn [imap]. unfold f8 at 1. fold (closes prev).
    assert (Hgap : forall s, Q8 (blanks g ++ s) = blanks g ++ Q8 s).
    { intros s. apply (inert_copy Q8 (fun c => negb (is_c ")" c)) Q8_inert). now apply blanks_forall. }
    assert (Hbody : Q8 (atext a ++ irender R) = atext a ++ irender (imap f8 (Some a) R)).
    { assert (Hl : forall c, lit_char c = true -> negb (is_c ")" c) = true).
      { intros c Hc. destruct (lit_char_facts c Hc) as (_ & _ & _ & _ & H4). now rewrite H4. }
      specialize (IH (Some a) HR). unfold extra8 in IH.
      destruct a as [t|ds| | | |]; cbn [atext closes opt_is] in *.
      - rewrite (inert_copy Q8 _ Q8_inert t _ (str_forall_impl lit_char _ t Hl (proj1 Ha))). cbn [andb append] in IH. now rewrite IH.
      - replace (("^(" ++ ds ++ ")") ++ irender R) with (("^(" ++ ds) ++ ")" ++ irender R)
          by (cbn [append]; now rewrite str_app_assoc).
        rewrite (inert_copy Q8 _ Q8_inert ("^(" ++ ds)).
        + rewrite Q8_rp. cbn [andb] in IH. rewrite IH. cbn [append]. now rewrite !str_app_assoc.
        + cbn [append str_forall is_c Ascii.eqb Bool.eqb andb negb].
          exact (str_forall_impl is_digit _ ds (fun c Hc => Hl c (digit_lit c Hc)) (proj1 Ha)).
      - cbn [append]. rewrite !Q8_inert by reflexivity. cbn [andb append] in IH. now rewrite IH.
      - cbn [append]. rewrite !Q8_inert by reflexivity. cbn [andb append] in IH. now rewrite IH.
      - rewrite Q8_rp. cbn [andb] in IH. now rewrite IH.
      - cbn [append]. rewrite !Q8_inert by reflexivity. cbn [andb append] in IH. now rewrite IH. }
    cbn [irender]. rewrite Hgap, Hbody.
    destruct (closes prev); cbn [andb].
    + destruct (Nat.ltb 0 g) eqn:Eg.
      * reflexivity.
      * destruct g; [|discriminate Eg]. destruct (starts_plain a); reflexivity.
    + reflexivity.
Qed.

(* ---------------- strip ---------------- *)
Fixpoint lnb (s : string) : bool :=      (* the last character, if any, is not a blank *)
  match s with
  | EmptyString => true
  | String c r => match r with EmptyString => negb (is_blank c) | _ => lnb r end
  end.

Lemma lnb_not_all_blank s : s <> "" -> lnb s = true -> all_blank s = false.
Proof.
  induction s as [|c r IH]; intros Hne H; [congruence|]. cbn [all_blank]. destruct r as [|d r'].
  - cbn in H. apply negb_true_iff in H. now rewrite H.
  - rewrite (IH ltac:(discriminate) H). apply andb_false_r.
Qed.

Lemma rstrip_lnb s : lnb s = true -> rstrip s = s.
Proof.
  induction s as [|c r IH]; intros H; [reflexivity|].
  cbn [rstrip]. rewrite (lnb_not_all_blank (String c r) ltac:(discriminate) H).
  f_equal. destruct r as [|d r']; [reflexivity|]. now apply IH.
Qed.

Lemma lnb_app_r s t : t <> "" -> lnb t = true -> lnb (s ++ t) = true.
Proof.
  intros Hne Ht. induction s as [|c s IH]; [exact Ht|]. cbn [append lnb].
  destruct (s ++ t) eqn:E; [destruct s; [cbn in E; congruence|discriminate]|exact IH].
Qed.

Lemma lnb_forall t : str_forall (fun c => negb (is_blank c)) t = true -> lnb t = true.
Proof.
  induction t as [|c r IH]; intros H; [reflexivity|]. cbn in H. apply andb_prop in H. destruct H as [Hc Hr].
  cbn [lnb]. destruct r; [exact Hc|now apply IH].
Qed.

Lemma atext_nb a : atom_ok a -> str_forall (fun c => negb (is_blank c)) (atext a) = true.
Proof.
  intros Ha. apply atext_forall; [exact Ha| |destruct a; reflexivity].
  intros c Hc. destruct (lit_char_facts c Hc) as (Hb & _). now rewrite Hb.
Qed.

Lemma irender_lnb its : all_ok its -> lnb (irender its) = true /\ (its <> [] -> irender its <> "").
Proof.
  induction its as [|[g a] R IH]; intros Hok; [split; [reflexivity|congruence]|].
  inversion Hok as [|x l Ha HR]; subst. cbn [snd] in Ha. destruct (IH HR) as [IH1 IH2].
  destruct (atext_nonempty a Ha) as (c & r & E & _).
  assert (Hne : atext a ++ irender R <> "") by (rewrite E; discriminate).
  split; [|intros _; cbn [irender]; destruct (blanks g); [exact Hne|discriminate]].
  cbn [irender]. apply lnb_app_r; [exact Hne|].
  destruct R as [|p R'].
  - cbn [irender]. rewrite str_app_nil_r. apply lnb_forall. now apply atext_nb.
  - apply lnb_app_r; [apply IH2; discriminate|exact IH1].
Qed.

Lemma strip_items its : all_ok its -> strip (irender its) = irender (zh true its).
Proof.
  intros Hok. destruct its as [|[g a] R]; [reflexivity|].
  inversion Hok as [|x l Ha HR]; subst. cbn [snd] in Ha.
  unfold strip. cbn [irender zh blanks append]. rewrite skip_blanks_blanks.
  destruct (atext_nonempty a Ha) as (c & r & E & Hb). rewrite E. cbn [append]. rewrite (skip_nb c _ Hb).
  apply rstrip_lnb. change (String c (r ++ irender R)) with (String c r ++ irender R). rewrite <- E.
  assert (Hok' : all_ok ((0, a) :: R)) by (constructor; assumption).
  exact (proj1 (irender_lnb ((0, a) :: R) Hok')).
Qed.

(* ---------------- pass 9: re_spaces ---------------- *)
Fixpoint srender (its : items) : string :=
  match its with
  | [] => ""
  | (g, a) :: r => (if Nat.ltb 0 g then "*" else "") ++ atext a ++ srender r
  end.

Lemma Uspaces_inert c r : negb (is_blank c) = true -> Uspaces (String c r) = String c (Uspaces r).
Proof. intros H. apply negb_true_iff in H. now rewrite Uspaces_cons, H. Qed.

Lemma pass9 its : all_ok its -> Uspaces (irender its) = srender its.
Proof.
  induction its as [|[g a] R IH]; intros Hok; [reflexivity|].
  inversion Hok as [|x l Ha HR]; subst. cbn [snd] in Ha. cbn [irender srender].
  assert (Hbody : Uspaces (atext a ++ irender R) = atext a ++ srender R).
  { rewrite (inert_copy Uspaces _ Uspaces_inert _ _ (atext_nb a Ha)). now rewrite (IH HR). }
  destruct g as [|g]; [exact Hbody|]. cbn [blanks append Nat.ltb Nat.leb]. rewrite Uspaces_cons.
  cbn [is_blank Ascii.eqb Bool.eqb andb]. rewrite skip_blanks_blanks.
  destruct (atext_nonempty a Ha) as (c & r & E & Hb). rewrite E in *. cbn [append] in *.
  rewrite (skip_nb c _ Hb). now rewrite Hbody.
Qed.

(* ================================================================== *)
(* from written forms to items: strip, re_compl_cell, re_compl_surf   *)
(* ================================================================== *)
Definition watom (w : wtok) : atom :=
  match w with
  | WLit neg plus ds sub => ALit (sign_text neg plus ++ ds ++ sub_text sub)
  | WHashN _ ds => ACell ds
  | WHashP _ => ANot
  | WLP => ALP | WRP => ARP | WColon => AColon
  end.

Definition is_hash (w : wtok) : bool := match w with WHashN _ _ | WHashP _ => true | _ => false end.

Definition conv (p : nat * wtok) : nat * atom :=
  ((if is_hash (snd p) then S (fst p) else fst p), watom (snd p)).

(* texts after re_compl_cell, after re_compl_surf *)
Definition wtext1 (w : wtok) : string :=
  match w with WHashN _ ds => " ^(" ++ ds ++ ")" | _ => wtext w end.
Definition wtext2 (w : wtok) : string :=
  match w with WHashN _ ds => " ^(" ++ ds ++ ")" | WHashP _ => " _(" | _ => wtext w end.

Fixpoint render_with (tx : wtok -> string) (ws : written) : string :=
  match ws with [] => "" | (g, w) :: r => blanks g ++ tx w ++ render_with tx r end.

Lemma render_with_wtext ws : render ws 0 = render_with wtext ws.
Proof. induction ws as [|[g w] r IH]; cbn; [reflexivity|now rewrite IH]. Qed.

Lemma span_ds_app ds R : str_forall is_digit ds = true -> digit_head R = false -> span_ds (ds ++ R) = (ds, R).
Proof.
  induction ds as [|c ds IH]; intros Hd HR.
  - cbn [append]. destruct R as [|d R']; [reflexivity|]. cbn in HR. cbn [span_ds]. now rewrite HR.
  - cbn [str_forall] in Hd. apply andb_prop in Hd. destruct Hd as [Hc Hd]. cbn [append span_ds]. rewrite Hc.
    now rewrite (IH Hd HR).
Qed.

Lemma Ucell_inert c r : negb (is_c "#" c) = true -> Ucell (String c r) = String c (Ucell r).
Proof. intros H. apply negb_true_iff in H. now rewrite Ucell_cons, H. Qed.

Lemma Usurf_inert c r : negb (is_c "#" c) = true -> Usurf (String c r) = String c (Usurf r).
Proof. intros H. apply negb_true_iff in H. rewrite Usurf_cons, H. reflexivity. Qed.

Lemma wlit_text_lit neg plus ds sub : wf_tok (WLit neg plus ds sub) = true ->
  str_forall lit_char (sign_text neg plus ++ ds ++ sub_text sub) = true /\ sign_text neg plus ++ ds ++ sub_text sub <> "".
Proof.
  cbn [wf_tok]. intros H. apply andb_prop in H. destruct H as [Hds Hsub].
  destruct (digits_ok_forall ds Hds) as [Fd Nd]. split.
  - rewrite !str_forall_app. rewrite (str_forall_impl is_digit lit_char ds digit_lit Fd).
    assert (Hs : str_forall lit_char (sign_text neg plus) = true) by (destruct neg, plus; reflexivity).
    rewrite Hs. destruct sub as [d|]; [|reflexivity]. cbn. now rewrite (digit_lit d Hsub).
  - destruct neg; [discriminate|]. destruct plus; [discriminate|]. cbn [sign_text append].
    destruct ds; [congruence|discriminate].
Qed.

Lemma not_hash_lit c : lit_char c = true -> negb (is_c "#" c) = true.
Proof. intros H. destruct (lit_char_facts c H) as (_ & H1 & _). now rewrite H1. Qed.

Lemma pass1 : forall ws, wf_written ws = true -> Ucell (render_with wtext ws) = render_with wtext1 ws.
Proof.
  induction ws as [|[g w] r IH]; intros Hwf; [reflexivity|].
  cbn [wf_written] in Hwf. apply andb_prop in Hwf. destruct Hwf as [Hwf Hr].
  apply andb_prop in Hwf. destruct Hwf as [Hw Hsep]. cbn [render_with].
  rewrite (inert_copy Ucell _ Ucell_inert (blanks g) _ (blanks_forall _ g eq_refl)). f_equal.
  specialize (IH Hr).
  destruct w as [neg plus ds sub|g2 ds|g2| | |]; cbn [wtext wtext1].
  - destruct (wlit_text_lit neg plus ds sub Hw) as [Hf _].
    rewrite (inert_copy Ucell _ Ucell_inert _ _ (str_forall_impl lit_char _ _ not_hash_lit Hf)). now rewrite IH.
  - cbn [wf_tok] in Hw. destruct (digits_ok_forall ds Hw) as [Fd Nd]. apply negb_true_iff in Hsep.
    pose proof (digit_head_render r 0 Hsep) as HR. rewrite render_with_wtext in HR.
    cbn [append]. rewrite Ucell_cons. cbn [is_c Ascii.eqb Bool.eqb andb]. rewrite str_app_assoc, skip_blanks_blanks.
    assert (Hsk : skip_blanks (ds ++ render_with wtext r) = ds ++ render_with wtext r).
    { destruct ds as [|d ds']; [congruence|]. cbn [append]. apply skip_nb.
      cbn in Fd. apply andb_prop in Fd. destruct Fd as [Hd _]. now destruct (lit_char_facts d (digit_lit d Hd)). }
    rewrite Hsk, (span_ds_app ds _ Fd HR). destruct ds as [|d ds']; [congruence|].
    rewrite IH. rewrite !str_app_assoc. reflexivity.
  - cbn [append]. rewrite Ucell_cons. cbn [is_c Ascii.eqb Bool.eqb andb]. rewrite str_app_assoc, skip_blanks_blanks.
    cbn [append skip_blanks is_blank Ascii.eqb Bool.eqb andb span_ds is_digit N_of_ascii N.leb N.compare Pos.compare Pos.compare_cont andb].
    change (is_digit "(") with false. cbn iota. f_equal.
    rewrite (inert_copy Ucell _ Ucell_inert (blanks g2) _ (blanks_forall _ g2 eq_refl)).
    rewrite Ucell_inert by reflexivity. rewrite IH. now rewrite str_app_assoc.
  - cbn [append]. rewrite Ucell_inert by reflexivity. now rewrite IH.
  - cbn [append]. rewrite Ucell_inert by reflexivity. now rewrite IH.
  - cbn [append]. rewrite Ucell_inert by reflexivity. now rewrite IH.
Qed.

Lemma pass2 : forall ws, wf_written ws = true -> Usurf (render_with wtext1 ws) = render_with wtext2 ws.
Proof.
  induction ws as [|[g w] r IH]; intros Hwf; [reflexivity|].
  cbn [wf_written] in Hwf. apply andb_prop in Hwf. destruct Hwf as [Hwf Hr].
  apply andb_prop in Hwf. destruct Hwf as [Hw Hsep]. cbn [render_with].
  rewrite (inert_copy Usurf _ Usurf_inert (blanks g) _ (blanks_forall _ g eq_refl)). f_equal.
  specialize (IH Hr).
  destruct w as [neg plus ds sub|g2 ds|g2| | |]; cbn [wtext wtext1 wtext2].
  - destruct (wlit_text_lit neg plus ds sub Hw) as [Hf _].
    rewrite (inert_copy Usurf _ Usurf_inert _ _ (str_forall_impl lit_char _ _ not_hash_lit Hf)). now rewrite IH.
  - cbn [wf_tok] in Hw. destruct (digits_ok_forall ds Hw) as [Fd Nd].
    rewrite (inert_copy Usurf _ Usurf_inert (" ^(" ++ ds ++ ")")); [now rewrite IH|].
    cbn [append str_forall is_c Ascii.eqb Bool.eqb andb negb]. rewrite str_forall_app.
    rewrite (str_forall_impl is_digit _ ds (fun c Hc => not_hash_lit c (digit_lit c Hc)) Fd). reflexivity.
  - cbn [append]. rewrite Usurf_cons. cbn [is_c Ascii.eqb Bool.eqb andb]. rewrite str_app_assoc, skip_blanks_blanks.
    cbn [append skip_blanks is_blank Ascii.eqb Bool.eqb andb starts_with_char tail_str]. now rewrite IH.
  - cbn [append]. rewrite Usurf_inert by reflexivity. now rewrite IH.
  - cbn [append]. rewrite Usurf_inert by reflexivity. now rewrite IH.
  - cbn [append]. rewrite Usurf_inert by reflexivity. now rewrite IH.
Qed.

Lemma render2_items ws : render_with wtext2 ws = irender (map conv ws).
Proof.
  induction ws as [|[g w] r IH]; [reflexivity|]. cbn [render_with map conv fst snd irender]. rewrite IH.
  destruct w; cbn [is_hash wtext2 watom atext wtext]; try reflexivity.
  - cbn [append]. now rewrite blanks_snoc.
  - cbn [append]. now rewrite blanks_snoc.
Qed.

Lemma conv_ok ws : wf_written ws = true -> all_ok (map conv ws).
Proof.
  induction ws as [|[g w] r IH]; intros Hwf; [constructor|].
  cbn [wf_written] in Hwf. apply andb_prop in Hwf. destruct Hwf as [Hwf Hr].
  apply andb_prop in Hwf. destruct Hwf as [Hw _]. constructor; [|now apply IH].
  cbn [conv snd]. destruct w as [neg plus ds sub|g2 ds|g2| | |]; cbn [watom atom_ok]; auto.
  - exact (wlit_text_lit neg plus ds sub Hw).
  - exact (digits_ok_forall ds Hw).
Qed.

(* ---- the first strip, on written forms ---- *)
Lemma render_trail ws trail : render ws trail = render ws 0 ++ blanks trail.
Proof. induction ws as [|[g w] r IH]; cbn; [reflexivity|]. now rewrite IH, !str_app_assoc. Qed.

Lemma all_blank_blanks t : all_blank (blanks t) = true.
Proof. induction t; cbn; auto. Qed.

Lemma rstrip_all_blank s : all_blank s = true -> rstrip s = "".
Proof. destruct s; intros H; [reflexivity|]. cbn [rstrip]. now rewrite H. Qed.

Lemma all_blank_app s t : all_blank s = false -> all_blank (s ++ t) = false.
Proof.
  induction s as [|c s IH]; intros H; [discriminate|]. cbn in *. destruct (is_blank c); [|reflexivity].
  cbn in *. now apply IH.
Qed.

Lemma rstrip_blanks X t : lnb X = true -> rstrip (X ++ blanks t) = X.
Proof.
  induction X as [|c r IH]; intros H.
  - cbn [append]. apply rstrip_all_blank, all_blank_blanks.
  - cbn [append rstrip].
    change (String c (r ++ blanks t)) with (String c r ++ blanks t).
    rewrite (all_blank_app _ _ (lnb_not_all_blank (String c r) ltac:(discriminate) H)).
    f_equal. destruct r as [|d r']; [apply rstrip_all_blank, all_blank_blanks|]. now apply IH.
Qed.

Lemma wtext_facts w : wf_tok w = true ->
  lnb (wtext w) = true /\ exists c t, wtext w = String c t /\ is_blank c = false.
Proof.
  intros Hw. destruct w as [neg plus ds sub|g2 ds|g2| | |]; cbn [wtext];
    try (split; [reflexivity|eexists; eexists; split; reflexivity]).
  - destruct (wlit_text_lit neg plus ds sub Hw) as [Hf Hne]. split.
    + apply lnb_forall. apply (str_forall_impl lit_char); [|exact Hf]. intros c Hc.
      destruct (lit_char_facts c Hc) as (Hb & _). now rewrite Hb.
    + destruct (sign_text neg plus ++ ds ++ sub_text sub) as [|c t]; [congruence|]. exists c, t. split; [reflexivity|].
      cbn in Hf. apply andb_prop in Hf. destruct Hf as [Hc _]. now destruct (lit_char_facts c Hc).
  - cbn [wf_tok] in Hw. destruct (digits_ok_forall ds Hw) as [Fd Nd]. split.
    + change (String "#" (blanks g2 ++ ds)) with (("#" ++ blanks g2) ++ ds). apply lnb_app_r; [exact Nd|].
      apply lnb_forall. apply (str_forall_impl is_digit); [|exact Fd]. intros c Hc.
      destruct (lit_char_facts c (digit_lit c Hc)) as (Hb & _). now rewrite Hb.
    + eexists; eexists; split; reflexivity.
  - split; [|eexists; eexists; split; reflexivity].
    change (String "#" (blanks g2 ++ "(")) with (("#" ++ blanks g2) ++ "("). apply lnb_app_r; [discriminate|reflexivity].
Qed.

Lemma render_lnb ws : wf_written ws = true ->
  lnb (render ws 0) = true /\ (ws <> [] -> render ws 0 <> "").
Proof.
  induction ws as [|[g w] r IH]; intros Hwf; [split; [reflexivity|congruence]|].
  cbn [wf_written] in Hwf. apply andb_prop in Hwf. destruct Hwf as [Hwf Hr].
  apply andb_prop in Hwf. destruct Hwf as [Hw _]. destruct (IH Hr) as [IH1 IH2].
  destruct (wtext_facts w Hw) as (Hl & c & t & E & Hb).
  assert (Hne : wtext w ++ render r 0 <> "") by (rewrite E; discriminate).
  split; [|intros _; cbn [render]; destruct (blanks g); [exact Hne|discriminate]].
  cbn [render]. apply lnb_app_r; [exact Hne|]. destruct r as [|p r'].
  - cbn [render blanks]. now rewrite str_app_nil_r.
  - apply lnb_app_r; [apply IH2; discriminate|exact IH1].
Qed.

Lemma strip_written g w r trail : wf_written ((g, w) :: r) = true ->
  strip (render ((g, w) :: r) trail) = render ((0, w) :: r) 0.
Proof.
  intros Hwf. rewrite render_trail. unfold strip. cbn [render]. rewrite !str_app_assoc, skip_blanks_blanks.
  assert (Hwf0 : wf_written ((0, w) :: r) = true) by exact Hwf.
  destruct (render_lnb _ Hwf0) as [Hl _]. cbn [render blanks append] in Hl.
  cbn [wf_written] in Hwf. apply andb_prop in Hwf. destruct Hwf as [Hwf _]. apply andb_prop in Hwf. destruct Hwf as [Hw _].
  destruct (wtext_facts w Hw) as (_ & c & t & E & Hb).
  assert (Hsk : skip_blanks (wtext w ++ render r 0 ++ blanks trail) = wtext w ++ render r 0 ++ blanks trail).
  { rewrite E. cbn [append]. now apply skip_nb. }
  rewrite Hsk. rewrite <- str_app_assoc. cbn [blanks append]. now apply rstrip_blanks.
Qed.

(* ================================================================== *)
(* the normal form                                                     *)
(* ================================================================== *)
Definition starts_operand (a : atom) : bool :=
  match a with ALit _ | ALP | ACell _ | ANot => true | _ => false end.
Definition boundary (prev : option atom) (a : atom) : bool := opt_is ends_operand prev && starts_operand a.

(* token texts with '*' exactly between the end of an operand and the start of one *)
Fixpoint nfr (prev : option atom) (atoms : list atom) : string :=
  match atoms with
  | [] => ""
  | a :: r => (if boundary prev a then "*" else "") ++ atext a ++ nfr (Some a) r
  end.

Definition normal_form (ws : written) : string := nfr None (map (fun p => watom (snd p)) ws).

Definition F (p : option atom) (g : nat) (a : atom) : nat :=
  f8 p (f7 p (f5 p (f4 p (f3 p g a) a) a) a) a.

Definition is_lit (a : atom) : bool := match a with ALit _ => true | _ => false end.

Fixpoint gaps_wf (prev : option atom) (its : items) : Prop :=
  match its with
  | [] => True
  | (g, a) :: R =>
      match a with
      | ACell _ | ANot => 0 < g
      | ALit _ => opt_is is_lit prev = true -> 0 < g
      | _ => True
      end /\ gaps_wf (Some a) R
  end.

Lemma sep_char p g a :
  match a with
  | ACell _ | ANot => 0 < g
  | ALit _ => is_lit p = true -> 0 < g
  | _ => True
  end -> Nat.ltb 0 (F (Some p) g a) = boundary (Some p) a.
Proof.
  intros H. unfold F, f3, f4, f5, f7, f8, boundary.
  destruct p, a; cbn in *; try reflexivity;
    destruct g as [|g]; cbn; try reflexivity; try lia;
    try (exfalso; specialize (H eq_refl); lia).
Qed.

Lemma final_items : forall its p, gaps_wf (Some p) its ->
  srender (imap F (Some p) its) = nfr (Some p) (map snd its).
Proof.
  induction its as [|[g a] R IH]; intros p H; [reflexivity|].
  cbn [gaps_wf] in H. destruct H as [Hg HR]. cbn [imap srender map snd nfr].
  rewrite (sep_char p g a); [now rewrite (IH a HR)|].
  destruct a; auto.
Qed.

Lemma all_ok_imap f : forall its prev, all_ok its -> all_ok (imap f prev its).
Proof.
  induction its as [|[g a] R IH]; intros prev H; [constructor|].
  inversion H; subst. constructor; [assumption|now apply IH].
Qed.

Lemma conv_gaps : forall r g w, wf_written ((g, w) :: r) = true -> gaps_wf (Some (watom w)) (map conv r).
Proof.
  induction r as [|[g2 w2] r2 IH]; intros g w Hwf; [exact I|].
  cbn [wf_written] in Hwf. apply andb_prop in Hwf. destruct Hwf as [Hwf Hr].
  apply andb_prop in Hwf. destruct Hwf as [Hw Hsep].
  cbn [map conv fst snd gaps_wf]. split; [|exact (IH g2 w2 Hr)].
  destruct w2 as [neg2 plus2 ds2 sub2|h ds2|h| | |]; cbn [watom is_hash]; try lia; try exact I.
  intros Hp. destruct w; cbn in Hp; try discriminate Hp.
  apply negb_true_iff in Hsep. cbn [next_is_lit] in Hsep. destruct g2; [discriminate|lia].
Qed.

(* normalize2 on every writing of a non-empty token sequence *)
Theorem normalize2_normal_form ws trail : wf_written ws = true -> ws <> [] ->
  normalize2 (render ws trail) = normal_form ws.
Proof.
  intros Hwf Hne. destruct ws as [|[g w] r]; [congruence|].
  assert (Hwf0 : wf_written ((0, w) :: r) = true) by exact Hwf.
  rewrite normalize2_U, (strip_written g w r trail Hwf), render_with_wtext.
  rewrite (pass1 _ Hwf0), (pass2 _ Hwf0), render2_items.
  set (I0 := map conv ((0, w) :: r)).
  assert (H0 : all_ok I0) by exact (conv_ok _ Hwf0).
  pose proof (pass3 I0 None H0) as E3. cbn [opt_is] in E3. rewrite zh_false in E3. rewrite E3.
  pose proof (all_ok_imap f3 I0 None H0) as H3.
  pose proof (pass4 _ None H3) as E4. cbn [opt_is] in E4. rewrite zh_false in E4. rewrite E4.
  pose proof (all_ok_imap f4 _ None H3) as H4.
  rewrite (pass5 _ None H4). pose proof (all_ok_imap f5 _ None H4) as H5.
  rewrite P7_is_Q7. pose proof (pass7 _ None H5) as E7. cbn [opt_is] in E7. rewrite E7.
  pose proof (all_ok_imap f7 _ None H5) as H7.
  rewrite (P8_Q8 _ _ (le_n _)). pose proof (pass8 _ None H7) as E8. unfold extra8 in E8. cbn [closes opt_is andb append] in E8.
  rewrite E8. pose proof (all_ok_imap f8 _ None H7) as H8.
  rewrite (strip_items _ H8).
  rewrite !imap_imap. fold F.
  assert (H9 : all_ok (zh true (imap F None I0))).
  { rewrite !imap_imap in H8. fold F in H8. destruct (imap F None I0) as [|[g9 a9] R9]; [constructor|].
    inversion H8; subst. constructor; assumption. }
  rewrite (pass9 _ H9).
  unfold I0. cbn [map conv fst snd imap zh srender Nat.ltb Nat.leb append].
  unfold normal_form. cbn [map snd nfr boundary opt_is andb append]. f_equal.
  rewrite (final_items (map conv r) (watom w) (conv_gaps r 0 w Hwf0)).
  now rewrite map_map.
Qed.

(* consequence for the code-shaped model: on the layout family get_ast2 only
   depends on the normal form, hence not on the blanks *)
Theorem get_ast2_normal_form ws trail : wf_written ws = true -> ws <> [] ->
  get_ast2 (render ws trail) = peg_start (normal_form ws).
Proof. intros Hwf Hne. unfold get_ast2. now rewrite normalize2_normal_form. Qed.

Theorem get_ast2_layout_invariant ws ws' trail trail' :
  wf_written ws = true -> wf_written ws' = true -> ws <> [] ->
  map (fun p => watom (snd p)) ws = map (fun p => watom (snd p)) ws' ->
  get_ast2 (render ws trail) = get_ast2 (render ws' trail').
Proof.
  intros Hw Hw' Hne E. assert (Hne' : ws' <> []) by (destruct ws, ws'; try congruence; discriminate).
  rewrite !get_ast2_normal_form by assumption. unfold normal_form. now rewrite E.
Qed.
