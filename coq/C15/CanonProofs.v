(* C15 — proofs about the constructed explicit card (C15/Canon.v). *)
From Coq Require Import List NArith ZArith Bool String Ascii Lia.
From T4V Require Import Base.Str Base.Scalar Base.Cases C15.Model C15.Proofs C15.Canon.
Import ListNotations.
Open Scope string_scope.
Local Open Scope list_scope.

Lemma toks_eqb_eq (a b : list string) : toks_eqb a b = true -> a = b.
Proof.
  unfold toks_eqb. revert b. induction a as [|x a IH]; intros [|y b] H; cbn in H;
    try reflexivity; try discriminate.
  apply andb_true_iff in H. destruct H as [H1 H2]. apply String.eqb_eq in H1.
  f_equal; [exact H1|apply IH, H2].
Qed.

Lemma NoDup_app_iff_local {A} (a b : list A) :
  NoDup a -> NoDup b -> (forall x, In x a -> In x b -> False) -> NoDup (a ++ b).
Proof.
  induction a as [|x a IH]; intros Ha Hb H; [exact Hb|].
  inversion Ha as [|? ? Hx Ha']; subst. cbn. constructor.
  - intros Hi. apply in_app_or in Hi. destruct Hi as [Hi|Hi]; [tauto|]. apply (H x); [left; reflexivity|exact Hi].
  - apply IH; [exact Ha'|exact Hb|]. intros y Hy1 Hy2. apply (H y); [right; exact Hy1|exact Hy2].
Qed.

Section CanonProofs.
  Context {T : Type} (SC : Scalar T).
  Notation env := (env (T:=T)).
  Notation kws := (kws (T:=T)).
  Notation group := (group (T:=T)).

  (* a group that reads exactly its own tokens *)
  Definition valid (e : env) (g : group) : Prop :=
    exists elt used, fst g = elt :: used /\ numeric_start elt = false /\
                     step SC e elt used = Ok (snd g, []).

  (* a group as [groups_from] records it: valid, or writing nothing *)
  Definition okg (e : env) (g : group) : Prop :=
    valid e g \/ (kws_empty (snd g) = true /\ exists elt, fst g = [elt]).

  Lemma groups_head (e : env) f toks gs : groups_from SC f e false toks = Ok gs -> kw_head toks.
  Proof.
    destruct toks as [|elt rest]; [intros _; exact I|].
    destruct f as [|f]; [discriminate|]. cbn [groups_from kw_head].
    destruct (step SC e elt rest) as [[d rest']|]; [|discriminate]. cbn [bind].
    destruct (kws_empty d && toks_eqb rest' rest).
    - rewrite orb_false_r. destruct (numeric_start elt); [discriminate|reflexivity].
    - destruct (numeric_start elt); [discriminate|reflexivity].
  Qed.

  Lemma groups_sound (e : env) f : forall toks gs st p,
    groups_from SC f e p toks = Ok gs ->
    parse_from SC f e st toks = Ok (fold_left upd (map snd gs) st) /\ Forall (okg e) gs.
  Proof.
    induction f as [|f IH]; intros toks gs st p H.
    - destruct toks; [|discriminate]. cbn in H. inversion H; subst. split; [reflexivity|constructor].
    - destruct toks as [|elt rest].
      + cbn in H. inversion H; subst. split; [reflexivity|constructor].
      + cbn [groups_from parse_from] in *.
        destruct (step SC e elt rest) as [[d rest']|] eqn:Es; [|discriminate]. cbn [bind] in *.
        destruct (kws_empty d && toks_eqb rest' rest) eqn:Ee.
        * destruct (negb (numeric_start elt) || p); [|discriminate].
          destruct (groups_from SC f e true rest') as [gs'|] eqn:Eg; [|discriminate].
          cbn [bind] in H. inversion H; subst gs. clear H.
          destruct (IH rest' gs' (upd st d) true Eg) as [Hp Hv].
          split; [exact Hp|]. constructor; [|exact Hv].
          right. apply andb_true_iff in Ee. cbn [fst snd]. split; [exact (proj1 Ee)|].
          exists elt. reflexivity.
        * remember (firstn (List.length rest - List.length rest') rest) as used eqn:Eused.
          destruct (negb (numeric_start elt) && toks_eqb (used ++ rest') rest
                    && match step SC e elt used with Ok (_, []) => true | _ => false end) eqn:Ec;
            [|discriminate].
          apply andb_true_iff in Ec. destruct Ec as [Ec E3].
          apply andb_true_iff in Ec. destruct Ec as [E1 E2].
          apply negb_true_iff in E1. apply toks_eqb_eq in E2.
          destruct (groups_from SC f e false rest') as [gs'|] eqn:Eg; [|discriminate].
          cbn [bind] in H. inversion H; subst gs. clear H.
          destruct (IH rest' gs' (upd st d) false Eg) as [Hp Hv].
          split; [exact Hp|].
          constructor; [|exact Hv]. left.
          exists elt, used. cbn [fst snd]. split; [reflexivity|]. split; [exact E1|].
          destruct (step SC e elt used) as [[d' [|? ?]]|] eqn:Eu; try discriminate.
          pose proof (step_app SC e elt used rest' d' [] (groups_head e f rest' gs' Eg) Eu) as Ha.
          cbn [app] in Ha. rewrite E2, Es in Ha. inversion Ha; subst d'. reflexivity.
  Qed.

  Definition gtoks (gs : list group) : list string := List.concat (map fst gs).

  Lemma valid_head (e : env) gs : Forall (valid e) gs -> kw_head (gtoks gs).
  Proof.
    intros H. destruct gs as [|g r]; [exact I|]. inversion H as [|? ? Hg _]; subst.
    destruct Hg as (elt & used & Hf & Hn & _). unfold gtoks. cbn [map List.concat].
    rewrite Hf. cbn. exact Hn.
  Qed.

  (* reading the tokens of valid groups one after the other gives their effects *)
  Lemma parse_valid (e : env) gs : Forall (valid e) gs -> forall st f,
    (List.length (gtoks gs) <= f)%nat ->
    parse_from SC f e st (gtoks gs) = Ok (fold_left upd (map snd gs) st).
  Proof.
    induction 1 as [|g r Hg Hr IH]; intros st f Hf.
    - destruct f; reflexivity.
    - destruct Hg as (elt & used & Hfst & Hn & Hs).
      unfold gtoks in *. cbn [map List.concat fold_left] in *. rewrite Hfst in *.
      cbn [app] in *. destruct f as [|f]; [cbn in Hf; lia|].
      cbn [parse_from].
      rewrite (step_app SC e elt used (List.concat (map fst r)) (snd g) [] (valid_head e r Hr) Hs).
      cbn [bind app]. apply IH. cbn in Hf. rewrite app_length in Hf. lia.
  Qed.

  (* ---- what a list of effects leaves in one entry of the dictionary ---- *)
  Definition lastf {B} (f : kws -> option B) (ds : list kws) : option B :=
    fold_left (fun acc d => match f d with Some t => Some t | None => acc end) ds None.

  Lemma lastf_acc {B} (f : kws -> option B) ds : forall a,
    fold_left (fun acc d => match f d with Some t => Some t | None => acc end) ds a =
    match lastf f ds with Some t => Some t | None => a end.
  Proof.
    unfold lastf. induction ds as [|d r IH]; intros a; cbn [fold_left]; [reflexivity|].
    rewrite IH. rewrite (IH (match f d with Some t => Some t | None => None end)).
    destruct (fold_left _ r None); [reflexivity|]. destruct (f d); reflexivity.
  Qed.

  Lemma lastf_app {B} (f : kws -> option B) a b :
    lastf f (a ++ b) = match lastf f b with Some t => Some t | None => lastf f a end.
  Proof. unfold lastf at 1. rewrite fold_left_app. apply lastf_acc. Qed.

  Lemma fold_upd_gen {B} (g : kws -> B) (f : kws -> option B)
    (Hf : forall st d, g (upd st d) = match f d with Some t => t | None => g st end) :
    forall ds st, g (fold_left upd ds st) = match lastf f ds with Some t => t | None => g st end.
  Proof.
    induction ds as [|d r IH]; intros st; cbn [fold_left]; [reflexivity|].
    rewrite IH, Hf.
    assert (E : lastf f (d :: r) =
      match lastf f r with Some t => Some t | None => match f d with Some t => Some t | None => None end end).
    { unfold lastf. cbn [fold_left]. apply lastf_acc. }
    rewrite E.
    destruct (lastf f r); [reflexivity|]. destruct (f d); reflexivity.
  Qed.

  Lemma lastf_last_with {B} (f : kws -> option B) (sel : kws -> bool)
    (Hsel : forall d, sel d = is_some (f d)) (gs : list group) :
    lastf f (map snd gs) = match last_with sel gs with Some g => f (snd g) | None => None end.
  Proof.
    unfold lastf, last_with.
    assert (H : forall a b,
      a = match b with Some g => f (snd g) | None => None end ->
      (forall g, b = Some g -> sel (snd g) = true) ->
      fold_left (fun acc d => match f d with Some t => Some t | None => acc end) (map snd gs) a =
      match fold_left (fun acc g => if sel (snd g) then Some g else acc) gs b with
      | Some g => f (snd g) | None => None end).
    { induction gs as [|g r IH]; intros a b Ha Hb; cbn [map fold_left]; [exact Ha|].
      apply IH.
      - rewrite Hsel. destruct (f (snd g)) eqn:E; cbn [is_some]; [rewrite E; reflexivity|exact Ha].
      - intros g' Hg'. destruct (sel (snd g)) eqn:E; [inversion Hg'; subst; exact E|apply Hb, Hg']. }
    apply H; [reflexivity|discriminate].
  Qed.

  Lemma fold_sel_inv (sel : kws -> bool) (gs : list group) : forall b g,
    fold_left (fun acc g0 => if sel (snd g0) then Some g0 else acc) gs b = Some g ->
    (sel (snd g) = true /\ In g gs) \/ b = Some g.
  Proof.
    induction gs as [|a r IH]; intros b g H; cbn [fold_left] in H; [right; exact H|].
    destruct (IH _ _ H) as [[Hs Hi]|He]; [left; split; [exact Hs|right; exact Hi]|].
    destruct (sel (snd a)) eqn:E.
    - inversion He; subst. left. split; [exact E|left; reflexivity].
    - right. exact He.
  Qed.

  Lemma last_with_sel (sel : kws -> bool) (gs : list group) g :
    last_with sel gs = Some g -> sel (snd g) = true /\ In g gs.
  Proof.
    intros H. destruct (fold_sel_inv sel gs None g H) as [Hl|He]; [exact Hl|discriminate].
  Qed.

  (* ---- every keyword group writes entries of one kind only ---- *)
  Inductive shape : kws -> Prop :=
  | sh_imp l : shape (mkKws l None None None None None None None None)
  | sh_fill fb fu fp : shape (d_fill fb fu fp)
  | sh_lat n : shape (mkKws [] None None None (Some n) None None None None)
  | sh_trcl v : shape (mkKws [] None None None None (Some v) None None None)
  | sh_u n : shape (mkKws [] None None None None None (Some n) None None)
  | sh_rho v : shape (mkKws [] None None None None None None (Some v) None)
  | sh_mat v : shape (mkKws [] None None None None None None None (Some v)).

  (* an IMP entry as written and as read *)
  Definition imp_rel (e : env) (pv : string * string) (qx : string * T) : Prop :=
    fst pv = fst qx /\ pyfloat e (snd pv) = Some (snd qx).

  Lemma step_shape (e : env) elt rest d rest' :
    step SC e elt rest = Ok (d, rest') -> shape d.
  Proof.
    intros H. unfold step in H.
    destruct (prefix "imp" elt).
    { destruct rest as [|v r]; [discriminate|].
      destruct (pyfloat e v); [|discriminate]. inversion H; subst. constructor. }
    destruct (has "fill" elt).
    { unfold parse_fill in H. destruct rest as [|first r1]; [discriminate|].
      destruct (contains_char ":" first).
      - destruct (span (contains_char ":") r1) as [bs r2].
        destruct (map_opt parse_range (first :: bs)) as [bounds|]; [|discriminate].
        destruct (bounds_size bounds <=? 0)%Z; [destruct (bounds_size bounds <? 0)%Z; discriminate|].
        destruct (expand_ints SC e (Z.to_nat (bounds_size bounds)) r2 []) as [[us r3]|]; [|discriminate].
        cbn [bind] in H. destruct (span numeric_start r3) as [ps r'].
        destruct (map_opt (pyfloat e) ps); [|discriminate].
        destruct (fill_params SC false e elt ps l); cbn in H; [|discriminate].
        inversion H; subst. constructor.
      - destruct (pytrunc e first); [|discriminate]. cbn [bind] in H.
        destruct (span numeric_start r1) as [ps r'].
        destruct (map_opt (pyfloat e) ps); [|discriminate].
        destruct (fill_params SC false e elt ps l); cbn in H; [|discriminate].
        inversion H; subst. constructor. }
    destruct (has "lat" elt).
    { unfold parse_lat in H. destruct rest as [|v r]; [discriminate|].
      destruct (pyint v); [|discriminate].
      destruct ((z =? 1)%Z || (z =? 2)%Z); [|discriminate].
      inversion H; subst. constructor. }
    destruct (has "trcl" elt).
    { unfold parse_trcl in H. destruct (span numeric_start rest) as [ps r].
      destruct (map_opt (pyfloat e) ps); [|discriminate].
      destruct (fill_params SC true e elt ps l); cbn in H; [|discriminate].
      inversion H; subst. constructor. }
    destruct (String.eqb elt "u").
    { destruct rest as [|v r]; [discriminate|].
      destruct (pytrunc e v); [|discriminate]. inversion H; subst. constructor. }
    destruct (has "rho" elt).
    { destruct rest as [|v r]; [discriminate|]. inversion H; subst. constructor. }
    destruct (has "mat" elt).
    { destruct rest as [|v r]; [discriminate|]. inversion H; subst. constructor. }
    inversion H; subst. apply (sh_imp []).
  Qed.

  Lemma step_imp (e : env) elt used d :
    step SC e elt used = Ok (d, []) -> Forall2 (imp_rel e) (imp_tokens (elt :: used, d)) (k_impl d).
  Proof.
    intros H. pose proof (step_shape e elt used d [] H) as Hs.
    unfold imp_tokens. cbn [fst]. unfold step in H.
    destruct (prefix "imp" elt) eqn:Ep.
    - destruct used as [|v r]; [discriminate|].
      destruct (pyfloat e v) as [x|] eqn:Ev; [|discriminate]. inversion H; subst. cbn [k_impl].
      clear H Hs. try rewrite Ep.
      induction (imp_particles elt) as [|p ps IH]; cbn [map];
        [constructor|constructor; [split; [reflexivity|exact Ev]|exact IH]].
    - assert (Hl : k_impl d = []).
      { clear Hs. revert H.
        repeat match goal with
        | |- context [if ?b then _ else _] => destruct b
        end; intros H;
        try (unfold parse_fill in H; destruct used as [|first r1]; [discriminate|];
             destruct (contains_char ":" first);
             [destruct (span (contains_char ":") r1) as [bs r2];
              destruct (map_opt parse_range (first :: bs)) as [bounds|]; [|discriminate];
              destruct (bounds_size bounds <=? 0)%Z; [destruct (bounds_size bounds <? 0)%Z; discriminate|];
              destruct (expand_ints SC e (Z.to_nat (bounds_size bounds)) r2 []) as [[us r3]|]; [|discriminate];
              cbn [bind] in H; destruct (span numeric_start r3) as [ps r'];
              destruct (map_opt (pyfloat e) ps); [|discriminate];
              destruct (fill_params SC false e elt ps l); cbn in H; [|discriminate];
              inversion H; subst; reflexivity
             |destruct (pytrunc e first); [|discriminate]; cbn [bind] in H;
              destruct (span numeric_start r1) as [ps r'];
              destruct (map_opt (pyfloat e) ps); [|discriminate];
              destruct (fill_params SC false e elt ps l); cbn in H; [|discriminate];
              inversion H; subst; reflexivity]);
        try (unfold parse_lat in H; destruct used as [|v r]; [discriminate|];
             destruct (pyint v); [|discriminate];
             destruct ((z =? 1)%Z || (z =? 2)%Z); [|discriminate];
             inversion H; subst; reflexivity);
        try (unfold parse_trcl in H; destruct (span numeric_start used) as [ps r];
             destruct (map_opt (pyfloat e) ps); [|discriminate];
             destruct (fill_params SC true e elt ps l); cbn in H; [|discriminate];
             inversion H; subst; reflexivity);
        try (destruct used as [|v r]; [discriminate|];
             destruct (pytrunc e v); [|discriminate]; inversion H; subst; reflexivity);
        try (destruct used as [|v r]; [discriminate|]; inversion H; subst; reflexivity);
        try (inversion H; subst; reflexivity). }
      rewrite Hl. destruct used as [|v [|? ?]]; constructor.
  Qed.

  (* ---- the importance dictionary, as written and as read ---- *)
  Lemma fold_upd_impl (ds : list kws) : forall st,
    k_impl (fold_left upd ds st) = k_impl st ++ List.concat (map (@k_impl T) ds).
  Proof.
    induction ds as [|d r IH]; intros st; cbn [fold_left map List.concat].
    - now rewrite app_nil_r.
    - rewrite IH. unfold upd; cbn [k_impl]. now rewrite app_assoc.
  Qed.

  Lemma set1_rel {A B} (R : string * A -> string * B -> Prop) l1 l2 p v w :
    Forall2 (fun x y => fst x = fst y /\ R x y) l1 l2 ->
    R (p, v) (p, w) ->
    Forall2 (fun x y => fst x = fst y /\ R x y) (set1 l1 p v) (set1 l2 p w).
  Proof.
    intros H Hnew. induction H as [|[q a] [q' b] r1 r2 [Hk Hx] Hr IH]; cbn [set1].
    - constructor; [split; [reflexivity|exact Hnew]|constructor].
    - cbn in Hk. subst q'. destruct (String.eqb q p) eqn:E.
      + apply String.eqb_eq in E. subst q. constructor; [split; [reflexivity|exact Hnew]|exact Hr].
      + constructor; [split; [reflexivity|exact Hx]|exact IH].
  Qed.

  Definition irel (e : env) (pv : string * string) (qx : string * T) : Prop :=
    pyfloat e (snd pv) = Some (snd qx).

  Lemma imp_rel_irel (e : env) l1 l2 :
    Forall2 (imp_rel e) l1 l2 <-> Forall2 (fun x y => fst x = fst y /\ irel e x y) l1 l2.
  Proof. unfold imp_rel, irel. split; intros H; exact H. Qed.

  Lemma imp_dict_rel (e : env) l1 l2 :
    Forall2 (imp_rel e) l1 l2 -> Forall2 (imp_rel e) (imp_dict l1) (imp_dict l2).
  Proof.
    unfold imp_dict.
    assert (H : forall a1 a2, Forall2 (imp_rel e) a1 a2 -> Forall2 (imp_rel e) l1 l2 ->
      Forall2 (imp_rel e)
        (fold_left (fun acc pv => set1 acc (fst pv) (snd pv)) l1 a1)
        (fold_left (fun acc pv => set1 acc (fst pv) (snd pv)) l2 a2)).
    { intros a1 a2 Ha Hl. revert a1 a2 Ha.
      induction Hl as [|[p v] [q x] r1 r2 [Hk Hx] Hr IH]; intros a1 a2 Ha; cbn [fold_left]; [exact Ha|].
      apply IH. cbn [fst snd] in *. subst q.
      apply imp_rel_irel.
      apply (set1_rel (irel e)).
      - apply imp_rel_irel, Ha.
      - exact Hx. }
    intros Hl. apply H; [constructor|exact Hl].
  Qed.

  Lemma imp_rel_fun (e : env) d a b :
    Forall2 (imp_rel e) d a -> Forall2 (imp_rel e) d b -> a = b.
  Proof.
    intros Ha. revert b. induction Ha as [|pv [q x] r1 r2 [Hk Hx] Hr IH]; intros b Hb.
    - inversion Hb. reflexivity.
    - inversion Hb as [|? [q' x'] ? r3 [Hk' Hx'] Hr']; subst. cbn [fst snd] in *.
      rewrite Hx in Hx'. inversion Hx'; subst x'. assert (Hq : q = q') by congruence.
      rewrite (IH r3 Hr'), Hq. reflexivity.
  Qed.

  (* the dictionary has one entry per particle, and is its own dictionary *)
  Lemma set1_fresh {A} (l : list (string * A)) p v :
    ~ In p (map fst l) -> set1 l p v = l ++ [(p, v)].
  Proof.
    induction l as [|[q w] r IH]; cbn; intros H; [reflexivity|].
    destruct (String.eqb q p) eqn:E; [apply String.eqb_eq in E; subst; tauto|].
    rewrite IH by tauto. reflexivity.
  Qed.

  Lemma set1_keys {A} (l : list (string * A)) p v :
    map fst (set1 l p v) = if existsb (String.eqb p) (map fst l) then map fst l else map fst l ++ [p].
  Proof.
    induction l as [|[q w] r IH]; cbn; [reflexivity|].
    destruct (String.eqb q p) eqn:E.
    - rewrite String.eqb_sym, E. reflexivity.
    - rewrite String.eqb_sym, E. cbn. rewrite IH. destruct (existsb (String.eqb p) (map fst r)); reflexivity.
  Qed.

  Lemma set1_nodup {A} (l : list (string * A)) p v :
    NoDup (map fst l) -> NoDup (map fst (set1 l p v)).
  Proof.
    intros H. rewrite set1_keys. destruct (existsb (String.eqb p) (map fst l)) eqn:E; [exact H|].
    apply NoDup_app_iff_local; [exact H|constructor; [intros []|constructor]|].
    intros x Hx [Hp|[]]. subst x.
    assert (existsb (String.eqb p) (map fst l) = true).
    { apply existsb_exists. exists p. split; [exact Hx|apply String.eqb_refl]. }
    congruence.
  Qed.

  Lemma imp_dict_nodup {A} (l : list (string * A)) : NoDup (map fst (imp_dict l)).
  Proof.
    unfold imp_dict.
    assert (H : forall acc, NoDup (map fst acc) ->
              NoDup (map fst (fold_left (fun a pv => set1 a (fst pv) (snd pv)) l acc))).
    { induction l as [|pv r IH]; intros acc Ha; cbn [fold_left]; [exact Ha|].
      apply IH, set1_nodup, Ha. }
    apply H. constructor.
  Qed.

  Lemma imp_dict_id {A} (l : list (string * A)) : NoDup (map fst l) -> imp_dict l = l.
  Proof.
    unfold imp_dict.
    assert (H : forall acc, NoDup (map fst (acc ++ l)) ->
              fold_left (fun a pv => set1 a (fst pv) (snd pv)) l acc = acc ++ l).
    { induction l as [|[p v] r IH]; intros acc Ha; cbn [fold_left fst snd]; [now rewrite app_nil_r|].
      rewrite set1_fresh.
      - rewrite IH; [now rewrite <- app_assoc|]. rewrite <- app_assoc. exact Ha.
      - rewrite map_app in Ha. cbn in Ha. apply NoDup_remove_2 in Ha.
        intros Hi. apply Ha. apply in_or_app. left. exact Hi. }
    intros Hn. apply (H []). exact Hn.
  Qed.

  (* ---- the effects of groups that write IMP entries only ---- *)
  Definition imp_only (d : kws) : Prop := d = mkKws (k_impl d) None None None None None None None None.

  Lemma fold_imp_only (ds : list kws) : Forall imp_only ds -> forall a,
    fold_left upd ds (mkKws a None None None None None None None None) =
    mkKws (a ++ List.concat (map (@k_impl T) ds)) None None None None None None None None.
  Proof.
    induction 1 as [|d r Hd Hr IH]; intros a; cbn [fold_left map List.concat].
    - now rewrite app_nil_r.
    - rewrite Hd. unfold upd; cbn. rewrite IH. cbn [k_impl]. now rewrite app_assoc.
  Qed.

  Lemma all_ok_forall {A} (l : list (res A)) xs :
    all_ok l = Ok xs -> Forall2 (fun r x => r = Ok x) l xs.
  Proof.
    revert xs. induction l as [|[x|err] r IH]; intros xs H; cbn in H.
    - inversion H. constructor.
    - destruct (all_ok r) as [ys|]; [|discriminate]. cbn in H. inversion H; subst.
      constructor; [reflexivity|apply IH; reflexivity].
    - discriminate.
  Qed.

  Lemma imp_entry_ok (e : env) p v g :
    imp_entry_group SC e (p, v) = Ok g ->
    valid e g /\ imp_only (snd g) /\ exists x, k_impl (snd g) = [(p, x)] /\ pyfloat e v = Some x.
  Proof.
    unfold imp_entry_group. cbn [fst snd].
    destruct (step SC e ("imp:" ++ p)%string [v]) as [[d [|? ?]]|] eqn:Es; try discriminate.
    destruct (list_eqb String.eqb (imp_particles ("imp:" ++ p)%string) [p]) eqn:Ep; [|discriminate].
    intros H. inversion H; subst g. clear H. cbn [fst snd].
    apply (toks_eqb_eq _ _) in Ep.
    split.
    { exists ("imp:" ++ p)%string, [v]. cbn [fst snd]. split; [reflexivity|]. split; [reflexivity|exact Es]. }
    unfold step in Es. change (prefix "imp" ("imp:" ++ p)%string) with true in Es.
    cbn iota in Es. destruct (pyfloat e v) as [x|] eqn:Ev; [|discriminate].
    inversion Es; subst d. cbn [k_impl].
    change (String "i" (String "m" (String "p" (String ":" p)))) with ("imp:" ++ p)%string.
    rewrite Ep. cbn [map].
    split; [reflexivity|]. exists x. split; reflexivity.
  Qed.

  Lemma valid_shape (e : env) g : valid e g -> shape (snd g).
  Proof. intros (elt & used & _ & _ & Hs). exact (step_shape e elt used _ _ Hs). Qed.

  Lemma imps_facts (e : env) : forall D imps,
    Forall2 (fun r x => r = Ok x) (map (imp_entry_group SC e) D) imps ->
    Forall (valid e) imps /\ Forall imp_only (map snd imps) /\
    Forall2 (imp_rel e) D (List.concat (map (@k_impl T) (map snd imps))).
  Proof.
    induction D as [|[p v] r IH]; intros imps H; cbn [map] in H.
    - inversion H; subst. cbn. repeat split; constructor.
    - inversion H as [|? g ? imps' Hg Hr]; subst.
      destruct (IH imps' Hr) as (H1 & H2 & H3).
      destruct (imp_entry_ok e p v g Hg) as (Hv & Ho & x & Hk & Hx).
      cbn [map List.concat]. split; [constructor; assumption|]. split; [constructor; assumption|].
      rewrite Hk. cbn [app]. constructor; [split; [reflexivity|exact Hx]|exact H3].
  Qed.

  (* the four kinds of groups copied as they are *)
  Definition f_u (d : kws) := match k_u d with Some n => Some (Some n) | None => None end.
  Definition f_lat (d : kws) := match k_lat d with Some n => Some (Some n) | None => None end.
  Definition f_trcl (d : kws) := match k_trcl d with Some n => Some (Some n) | None => None end.
  Definition f_rho (d : kws) := match k_rho d with Some n => Some (Some n) | None => None end.
  Definition f_mat (d : kws) := match k_mat d with Some n => Some (Some n) | None => None end.
  Definition f_fill (d : kws) :=
    match k_fu d with Some _ => Some (k_fb d, k_fu d, k_fp d) | None => None end.

  Lemma field_of_groups {B} (g : kws -> B) (f : kws -> option B) (sel : kws -> bool)
    (Hf : forall st d, g (upd st d) = match f d with Some t => t | None => g st end)
    (Hsel : forall d, sel d = is_some (f d)) (gs : list group) st :
    g (fold_left upd (map snd gs) st) =
    match last_with sel gs with
    | Some x => match f (snd x) with Some t => t | None => g st end
    | None => g st
    end.
  Proof.
    rewrite (fold_upd_gen g f Hf), (lastf_last_with f sel Hsel).
    destruct (last_with sel gs); reflexivity.
  Qed.

  Lemma K_u gs st : k_u (fold_left upd (map snd gs) st) =
    match last_with has_u gs with Some x => match f_u (snd x) with Some t => t | None => k_u st end
                                 | None => k_u st end.
  Proof.
    apply field_of_groups.
    - intros s d. unfold upd, f_u; cbn. destruct (k_u d); reflexivity.
    - intros d. unfold has_u, f_u. destruct (k_u d); reflexivity.
  Qed.
  Lemma K_lat gs st : k_lat (fold_left upd (map snd gs) st) =
    match last_with has_lat gs with Some x => match f_lat (snd x) with Some t => t | None => k_lat st end
                                   | None => k_lat st end.
  Proof.
    apply field_of_groups.
    - intros s d. unfold upd, f_lat; cbn. destruct (k_lat d); reflexivity.
    - intros d. unfold has_lat, f_lat. destruct (k_lat d); reflexivity.
  Qed.
  Lemma K_trcl gs st : k_trcl (fold_left upd (map snd gs) st) =
    match last_with has_trcl gs with Some x => match f_trcl (snd x) with Some t => t | None => k_trcl st end
                                    | None => k_trcl st end.
  Proof.
    apply field_of_groups.
    - intros s d. unfold upd, f_trcl; cbn. destruct (k_trcl d); reflexivity.
    - intros d. unfold has_trcl, f_trcl. destruct (k_trcl d); reflexivity.
  Qed.
  Lemma K_rho gs st : k_rho (fold_left upd (map snd gs) st) =
    match last_with has_rho gs with Some x => match f_rho (snd x) with Some t => t | None => k_rho st end
                                   | None => k_rho st end.
  Proof.
    apply field_of_groups.
    - intros s d. unfold upd, f_rho; cbn. destruct (k_rho d); reflexivity.
    - intros d. unfold has_rho, f_rho. destruct (k_rho d); reflexivity.
  Qed.
  Lemma K_mat gs st : k_mat (fold_left upd (map snd gs) st) =
    match last_with has_mat gs with Some x => match f_mat (snd x) with Some t => t | None => k_mat st end
                                   | None => k_mat st end.
  Proof.
    apply field_of_groups.
    - intros s d. unfold upd, f_mat; cbn. destruct (k_mat d); reflexivity.
    - intros d. unfold has_mat, f_mat. destruct (k_mat d); reflexivity.
  Qed.
  Lemma K_fill gs st :
    (fun k => (k_fb k, k_fu k, k_fp k)) (fold_left upd (map snd gs) st) =
    match last_with has_fill gs with
    | Some x => match f_fill (snd x) with Some t => t | None => (k_fb st, k_fu st, k_fp st) end
    | None => (k_fb st, k_fu st, k_fp st) end.
  Proof.
    apply (field_of_groups (fun k => (k_fb k, k_fu k, k_fp k)) f_fill has_fill).
    - intros s d. unfold upd, f_fill; cbn. destruct (k_fu d); reflexivity.
    - intros d. unfold has_fill, f_fill. destruct (k_fu d); reflexivity.
  Qed.

  (* a selected group has the form of its kind *)
  Ltac form_of Hsh Hsel :=
    inversion Hsh; subst; cbn in Hsel; try discriminate.

  Lemma empty_not_sel (d : kws) : kws_empty d = true ->
    has_fill d = false /\ has_lat d = false /\ has_trcl d = false /\ has_u d = false /\
    has_rho d = false /\ has_mat d = false.
  Proof.
    unfold kws_empty, has_fill, has_lat, has_trcl, has_u, has_rho, has_mat. intros H.
    repeat (apply andb_true_iff in H; destruct H as [H ?]).
    repeat match goal with Hx : negb _ = true |- _ => apply negb_true_iff in Hx end.
    repeat split; assumption.
  Qed.

  Ltac solve_ne :=
    let d0 := fresh "d0" in let H0 := fresh "H0" in
    intros d0 H0; destruct (empty_not_sel d0 H0) as (? & ? & ? & ? & ? & ?); assumption.

  Lemma sel_valid (e : env) (sel : kws -> bool) gs g :
    (forall d, kws_empty d = true -> sel d = false) ->
    Forall (okg e) gs -> last_with sel gs = Some g ->
    valid e g /\ shape (snd g) /\ sel (snd g) = true.
  Proof.
    intros Hne Hv Hl. destruct (last_with_sel sel gs g Hl) as [Hs Hi].
    pose proof (proj1 (Forall_forall _ _) Hv g Hi) as Hg.
    destruct Hg as [Hg|[He _]]; [|rewrite (Hne _ He) in Hs; discriminate].
    split; [exact Hg|]. split; [exact (valid_shape e g Hg)|exact Hs].
  Qed.

  Lemma opt_valid (e : env) (sel : kws -> bool) gs :
    (forall d, kws_empty d = true -> sel d = false) ->
    Forall (okg e) gs -> Forall (valid e) (opt_list (last_with sel gs)).
  Proof.
    intros Hne Hv. destruct (last_with sel gs) as [g|] eqn:E; cbn; [|constructor].
    constructor; [exact (proj1 (sel_valid e sel gs g Hne Hv E))|constructor].
  Qed.

  (* the dictionary of the constructed option list *)
  Lemma canon_dict (e : env) gs cg :
    Forall (okg e) gs -> canon_groups SC e gs = Ok cg ->
    let K := fold_left upd (map snd gs) kempty in
    let Kc := fold_left upd (map snd cg) kempty in
    Forall (valid e) cg /\
    k_u Kc = k_u K /\ k_lat Kc = k_lat K /\ k_trcl Kc = k_trcl K /\
    (k_fb Kc, k_fu Kc, k_fp Kc) = (k_fb K, k_fu K, k_fp K) /\
    k_rho Kc = None /\ k_mat Kc = None /\
    Forall2 (imp_rel e) (imp_dict (flat_map (@imp_tokens T) gs)) (k_impl Kc).
  Proof.
    intros Hv H. cbv zeta. unfold canon_groups in H.
    destruct (all_ok (map (imp_entry_group SC e) (imp_dict (flat_map (@imp_tokens T) gs))))
      as [imps|] eqn:Ei; [|discriminate].
    cbn [bind] in H. inversion H; subst cg. clear H.
    destruct (imps_facts e _ _ (all_ok_forall _ _ Ei)) as (Hvi & Hoi & Hri).
    split.
    { repeat (apply Forall_app; split); try (apply opt_valid; [solve_ne|exact Hv]). exact Hvi. }
    rewrite (K_u gs), (K_lat gs), (K_trcl gs).
    pose proof (K_fill gs kempty) as HKf. cbv beta in HKf. rewrite HKf. clear HKf.
    rewrite !map_app, !fold_left_app.
    change kempty with (mkKws (@nil (string * T)) None None None None None None None None).
    rewrite (fold_imp_only _ Hoi). cbn [app].
    destruct (last_with has_fill gs) as [[tf df]|] eqn:Ef;
    destruct (last_with has_lat gs) as [[tl dl]|] eqn:El;
    destruct (last_with has_trcl gs) as [[tt dt]|] eqn:Et;
    destruct (last_with has_u gs) as [[tu du]|] eqn:Eu;
    repeat match goal with
    | E : last_with ?sel gs = Some (?t, ?d) |- _ =>
        let Hsh := fresh "Hsh" in let Hs := fresh "Hs" in
        destruct (sel_valid e sel gs (t, d) ltac:(solve_ne) Hv E) as (_ & Hsh & Hs);
        cbn [snd] in Hsh, Hs; inversion Hsh; subst; cbn in Hs; try discriminate; clear E Hsh Hs
    end;
    cbn; repeat split; try reflexivity; rewrite ?app_nil_r; exact Hri.
  Qed.

  Lemma toklog_rel (e : env) gs : Forall (okg e) gs ->
    Forall2 (imp_rel e) (flat_map (@imp_tokens T) gs) (List.concat (map (@k_impl T) (map snd gs))).
  Proof.
    induction 1 as [|[tg dg] r Hg Hr IH]; cbn [flat_map map List.concat]; [constructor|].
    apply Forall2_app; [|exact IH].
    destruct Hg as [(elt & used & Hf & _ & Hs)|[He (elt & Hf)]]; cbn [fst snd] in *; subst tg.
    - exact (step_imp e elt used dg Hs).
    - unfold imp_tokens. cbn [fst]. unfold kws_empty in He.
      destruct (k_impl dg); [constructor|discriminate].
  Qed.

  Lemma imp_value_canon (e : env) gs (lc : list (string * T)) :
    Forall (okg e) gs ->
    Forall2 (imp_rel e) (imp_dict (flat_map (@imp_tokens T) gs)) lc ->
    imp_value SC lc = imp_value SC (k_impl (fold_left upd (map snd gs) kempty)).
  Proof.
    intros Hv Hc. rewrite fold_upd_impl. cbn [k_impl kempty app].
    set (L := List.concat (map (@k_impl T) (map snd gs))).
    pose proof (imp_dict_rel e _ _ (toklog_rel e gs Hv)) as HL. fold L in HL.
    rewrite (imp_rel_fun e _ _ _ Hc HL).
    unfold imp_value. rewrite (imp_dict_id (imp_dict L) (imp_dict_nodup L)). reflexivity.
  Qed.

  Definition void_rule (mid : string) (rho : option string) : res (option string) :=
    match pyint mid with
    | None => Err EValue
    | Some 0%Z => Ok None
    | Some _ => Ok rho
    end.

  Definition canon_mat' (mw : list string) (M R : option string) : res (list string) :=
    let m := match M with Some v => Some v | None => hd_error mw end in
    let r := match R with
             | Some v => Some v
             | None => match mw with
                       | mid :: d :: _ => match pyint mid with Some 0%Z => None | _ => Some d end
                       | _ => None
                       end
             end in
    match m with
    | None => Err EIndex
    | Some m =>
        match pyint m with
        | None => Err EValue
        | Some 0%Z => Ok [m]
        | Some _ => match r with Some d => Ok [m; d] | None => Err EUnsupported end
        end
    end.

  Lemma sel_some {B} (proj : kws -> option B) (sel : kws -> bool)
        (Hsel : forall d, sel d = is_some (proj d)) gs :
    match last_with sel gs with Some g => proj (snd g) | None => None end =
    match last_with sel gs with Some g => proj (snd g) | None => None end /\
    (forall g, last_with sel gs = Some g -> exists v, proj (snd g) = Some v).
  Proof.
    split; [reflexivity|]. intros g Hg. destruct (last_with_sel sel gs g Hg) as [Hs _].
    rewrite Hsel in Hs. destruct (proj (snd g)) as [v|]; [exists v; reflexivity|discriminate].
  Qed.

  Lemma canon_mat_K mw (gs : list group) :
    canon_mat mw gs = canon_mat' mw (k_mat (fold_left upd (map snd gs) (kempty (T:=T))))
                                    (k_rho (fold_left upd (map snd gs) (kempty (T:=T)))).
  Proof.
    rewrite (K_mat gs), (K_rho gs). cbn [k_mat k_rho kempty]. unfold canon_mat, canon_mat'.
    destruct (last_with has_mat gs) as [gm|] eqn:Em;
    destruct (last_with has_rho gs) as [gr|] eqn:Er.
    - destruct (proj2 (sel_some (@k_mat T) has_mat (fun d => eq_refl) gs) gm Em) as [vm Hm].
      destruct (proj2 (sel_some (@k_rho T) has_rho (fun d => eq_refl) gs) gr Er) as [vr Hr].
      unfold f_mat, f_rho. rewrite Hm, Hr. reflexivity.
    - destruct (proj2 (sel_some (@k_mat T) has_mat (fun d => eq_refl) gs) gm Em) as [vm Hm].
      unfold f_mat. rewrite Hm. reflexivity.
    - destruct (proj2 (sel_some (@k_rho T) has_rho (fun d => eq_refl) gs) gr Er) as [vr Hr].
      unfold f_rho. rewrite Hr. reflexivity.
    - reflexivity.
  Qed.

  Lemma canon_mat_spec' (e : env) mw (M R : option string) mw' mid rho :
    parse_material_w e mw = Ok (mid, rho) -> canon_mat' mw M R = Ok mw' ->
    let mid' := match M with Some m => m | None => mid end in
    let rho' := match R with Some d => Some (normfloat e d) | None => rho end in
    exists rhoc, parse_material_w e mw' = Ok (mid', rhoc) /\ void_rule mid' rhoc = void_rule mid' rho'.
  Proof.
    intros Hp Hc. cbv zeta. unfold canon_mat' in Hc. unfold parse_material_w in Hp.
    destruct mw as [|mid0 r0]; [discriminate|]. cbn [hd_error] in Hc.
    destruct (pyint mid0) as [z0|] eqn:E0; [|discriminate].
    assert (Hmid : mid = mid0).
    { destruct z0; [inversion Hp; reflexivity| |]; (destruct r0; [discriminate|inversion Hp; reflexivity]). }
    subst mid0.
    destruct M as [vm|].
    - destruct (pyint vm) as [zm|] eqn:Em; [|discriminate].
      destruct zm as [|pm|pm].
      + inversion Hc; subst mw'. unfold parse_material_w, void_rule. rewrite Em.
        eexists; split; reflexivity.
      + destruct R as [vr|].
        * inversion Hc; subst mw'. unfold parse_material_w, void_rule. rewrite Em.
          eexists; split; reflexivity.
        * destruct r0 as [|d0 r1]; [discriminate|]. try rewrite E0 in Hc.
          destruct z0; [discriminate| |]; inversion Hc; subst mw'; inversion Hp; subst rho;
            unfold parse_material_w, void_rule; rewrite Em; eexists; split; reflexivity.
      + destruct R as [vr|].
        * inversion Hc; subst mw'. unfold parse_material_w, void_rule. rewrite Em.
          eexists; split; reflexivity.
        * destruct r0 as [|d0 r1]; [discriminate|]. try rewrite E0 in Hc.
          destruct z0; [discriminate| |]; inversion Hc; subst mw'; inversion Hp; subst rho;
            unfold parse_material_w, void_rule; rewrite Em; eexists; split; reflexivity.
    - try rewrite E0 in Hc.
      destruct z0 as [|p0|p0].
      + inversion Hc; subst mw'. unfold parse_material_w, void_rule. rewrite E0.
        eexists; split; reflexivity.
      + destruct R as [vr|].
        * inversion Hc; subst mw'. unfold parse_material_w, void_rule. rewrite E0.
          eexists; split; reflexivity.
        * destruct r0 as [|d0 r1]; [discriminate|]. try rewrite E0 in Hc.
          inversion Hc; subst mw'. inversion Hp; subst rho.
          unfold parse_material_w, void_rule. rewrite E0. eexists; split; reflexivity.
      + destruct R as [vr|].
        * inversion Hc; subst mw'. unfold parse_material_w, void_rule. rewrite E0.
          eexists; split; reflexivity.
        * destruct r0 as [|d0 r1]; [discriminate|]. try rewrite E0 in Hc.
          inversion Hc; subst mw'. inversion Hp; subst rho.
          unfold parse_material_w, void_rule. rewrite E0. eexists; split; reflexivity.
  Qed.

  Lemma canon_mat_spec (e : env) mw gs mw' mid rho :
    Forall (okg e) gs ->
    parse_material_w e mw = Ok (mid, rho) -> canon_mat mw gs = Ok mw' ->
    let K := fold_left upd (map snd gs) kempty in
    let mid' := match k_mat K with Some m => m | None => mid end in
    let rho' := match k_rho K with Some d => Some (normfloat e d) | None => rho end in
    exists rhoc, parse_material_w e mw' = Ok (mid', rhoc) /\ void_rule mid' rhoc = void_rule mid' rho'.
  Proof.
    intros _ Hp Hc. rewrite canon_mat_K in Hc. exact (canon_mat_spec' e mw _ _ mw' mid rho Hp Hc).
  Qed.

  Lemma finish_cell_void_rule (e : env) rank lat mid rho ast (k : kws) :
    finish_cell SC e rank lat mid rho ast k =
    ((match imp_value SC (k_impl k) with
      | Some v => Ok v
      | None => match nth_error (imps e) rank with Some v => Ok v | None => Err EParse end
      end) >>= fun imp =>
     void_rule (match k_mat k with Some m => m | None => mid end)
               (match k_rho k with Some d => Some (normfloat e d) | None => rho end) >>= fun rho'' =>
     to_fillid k lat >>= fun fid =>
     Ok (mkCell (match k_mat k with Some m => m | None => mid end) rho'' ast imp
                (match k_u k with Some n => n | None => 0%Z end) fid (k_fp k) (k_lat k)
                (trcl_list (k_trcl k)))).
  Proof. reflexivity. Qed.

  (* the constructed card is parsed, word by word, to the cell of the text it
     was constructed from *)
  Theorem canon_words_parse (e : env) rank lat mw g toks gs mw' cg c :
    groups SC e toks = Ok gs -> canon_mat mw gs = Ok mw' -> canon_groups SC e gs = Ok cg ->
    worker_w SC e rank lat (mw, g, toks) = Ok c ->
    worker_w SC e rank lat (mw', g, gtoks cg) = Ok c.
  Proof.
    intros Hg Hm Hc Hw. unfold groups in Hg.
    destruct (groups_sound e _ toks gs kempty false Hg) as [Hp Hv].
    destruct (canon_dict e gs cg Hv Hc) as (Hvc & Hu & Hl & Ht & Hf & Hr & Hma & Hi).
    unfold worker_w in *.
    destruct (parse_material_w e mw) as [[mid rho]|] eqn:Epm; [|discriminate].
    cbn [bind] in Hw. destruct (getast e g) as [ast|]; [|discriminate].
    unfold parse_kws in Hw. rewrite Hp in Hw. cbn [bind] in Hw.
    destruct (canon_mat_spec e mw gs mw' mid rho Hv Epm Hm) as (rhoc & Hpc & Hvr).
    rewrite Hpc. cbn [bind].
    unfold parse_kws. rewrite (parse_valid e cg Hvc kempty _ (le_n _)). cbn [bind].
    rewrite finish_cell_void_rule in *.
    set (K := fold_left upd (map snd gs) kempty) in *.
    set (Kc := fold_left upd (map snd cg) kempty) in *.
    rewrite (imp_value_canon e gs (k_impl Kc) Hv Hi). fold K.
    rewrite Hr, Hma, Hvr, Hu, Hl, Ht.
    inversion Hf as [[Hfb Hfu Hfp]].
    replace (to_fillid Kc lat) with (to_fillid K lat)
      by (unfold to_fillid; rewrite Hfb, Hfu, Hl; reflexivity).
    rewrite Hfp. exact Hw.
  Qed.

  Lemma words_join_text (w : wcard) mw g toks :
    w = (mw, g, toks) -> toks_eqb (words (join mw)) mw = true ->
    toks_eqb (tokenize (join toks)) toks = true ->
    wcard_of (card_text w) = w.
  Proof.
    intros -> H1 H2. unfold card_text, wcard_of.
    rewrite (toks_eqb_eq _ _ H1), (toks_eqb_eq _ _ H2). reflexivity.
  Qed.

  Lemma worker_words (e : env) rank lat (x : card) :
    worker SC e rank lat x = worker_w SC e rank lat (wcard_of x).
  Proof. destruct x as [[m g] o]. reflexivity. Qed.

  (* ... and so is its text *)
  Theorem canon_card_parses (e : env) rank lat (x : card) (w : wcard) (c : cell) :
    canon_card SC e x = Ok w -> worker SC e rank lat x = Ok c ->
    worker SC e rank lat (card_text w) = Ok c /\ worker_w SC e rank lat w = Ok c.
  Proof.
    intros Hc Hw. rewrite worker_words in Hw. unfold canon_card in Hc.
    destruct (wcard_of x) as [[mw g] toks] eqn:Ex.
    destruct (groups SC e toks) as [gs|] eqn:Eg; [|discriminate]. cbn [bind] in Hc.
    destruct (canon_mat mw gs) as [mw'|] eqn:Em; [|discriminate]. cbn [bind] in Hc.
    destruct (canon_groups SC e gs) as [cg|] eqn:Ec; [|discriminate]. cbn [bind] in Hc.
    destruct (toks_eqb (words (join mw')) mw' &&
              toks_eqb (tokenize (join (List.concat (map fst cg)))) (List.concat (map fst cg))) eqn:Ek;
      [|discriminate].
    inversion Hc; subst w. clear Hc.
    apply andb_true_iff in Ek. destruct Ek as [E1 E2].
    pose proof (canon_words_parse e rank lat mw g toks gs mw' cg c Eg Em Ec Hw) as Hcw.
    split; [|exact Hcw].
    rewrite worker_words, (words_join_text _ mw' g _ eq_refl E1 E2). exact Hcw.
  Qed.
End CanonProofs.

(* LIKE n BUT o, at the end of a chain of any length, is parsed as the explicit
   card constructed for it (every keyword once) *)
Theorem like_canon_card {T : Type} (SC : Scalar T) (e : env (T:=T)) (tbl : table)
    (rank : nat) (lat : option (list (Z * Z))) (mat0 g0 o : string) (n : Z) (d : nat)
    (x : card) (w : wcard) (c : cell (T:=T)) :
  search_like (lower g0) = Some n -> denotes tbl n d x ->
  canon_card SC e (apply_but x o) = Ok w ->
  parse_one_cell SC (List.length tbl) e tbl rank lat (mat0, g0, o) = Ok c ->
  worker SC e rank lat (card_text w) = Ok c /\ is_explicit (card_text w) .
Proof.
  intros Hg Hd Hc Hp.
  rewrite (like_in_parse_all SC e tbl rank lat mat0 g0 o n d x Hg Hd) in Hp.
  split; [exact (proj1 (canon_card_parses SC e rank lat _ w c Hc Hp))|].
  pose proof (denotes_explicit tbl n d x Hd) as Hx.
  unfold canon_card in Hc. destruct x as [[mx gx] ox]. cbn [apply_but wcard_of] in Hc.
  destruct (groups SC e (tokenize (ox ++ " " ++ o))) as [gs|]; [|discriminate]. cbn [bind] in Hc.
  destruct (canon_mat (words mx) gs) as [mw'|]; [|discriminate]. cbn [bind] in Hc.
  destruct (canon_groups SC e gs) as [cg|]; [|discriminate]. cbn [bind] in Hc.
  destruct (_ && _); [|discriminate]. inversion Hc; subst w.
  unfold is_explicit, geom_of, card_text in *. cbn [fst snd] in *. exact Hx.
Qed.

(* the example chain: "3 LIKE 2 BUT rho = -2.5 *TRCL=( 0 )", 2 = "like 1 but MAT=2
   imp:n=1", 1 = "1 -1.0 -1 imp:n=0" — the constructed card is "2 -2.5 -1 imp:n 1 *trcl 0" *)
Lemma example_canon {T : Type} (SC : Scalar T) (v0 v1 : T) :
  option_map (@card_text)
    (match canon_card SC (xenv v0 v1)
             (apply_but (" 1 -1.0", " -1 ", x_ox) " rho = -2.5 *TRCL=( 0 )") with
     | Ok w => Some w | Err _ => None end) =
  Some ("2 -2.5", " -1 ", "imp:n 1 *trcl 0").
Proof. vm_compute. reflexivity. Qed.

(* ---- "copy the card and override the listed parameters", literally ---- *)
Section Override.
  Context {T : Type} (SC : Scalar T).
  Notation env := (env (T:=T)).
  Notation group := (group (T:=T)).

  Lemma toks_eqb_refl (a : list string) : toks_eqb a a = true.
  Proof. unfold toks_eqb. induction a as [|x a IH]; cbn; [reflexivity|]. now rewrite String.eqb_refl, IH. Qed.

  Lemma groups_from_fuel (e : env) f1 : forall f2 p toks,
    (List.length toks <= f1)%nat -> (List.length toks <= f2)%nat ->
    groups_from SC f1 e p toks = groups_from SC f2 e p toks.
  Proof.
    induction f1 as [|f1 IH]; intros f2 p toks H1 H2.
    - destruct toks; [destruct f2; reflexivity|cbn in H1; lia].
    - destruct toks as [|elt rest]; [destruct f2; reflexivity|].
      destruct f2 as [|f2]; [cbn in H2; lia|]. cbn [groups_from].
      destruct (step SC e elt rest) as [[d rest']|] eqn:E; [|reflexivity]. cbn [bind].
      apply (step_length SC) in E. cbn in H1, H2.
      destruct (kws_empty d && toks_eqb rest' rest).
      + destruct (negb (numeric_start elt) || p); [|reflexivity].
        rewrite (IH f2 true rest'); [reflexivity|lia|lia].
      + destruct (_ && _ && _); [|reflexivity].
        rewrite (IH f2 false rest'); [reflexivity|lia|lia].
  Qed.

  Lemma groups_prev_mono (e : env) f toks gs :
    groups_from SC f e false toks = Ok gs -> forall p, groups_from SC f e p toks = Ok gs.
  Proof.
    intros H [|]; [|exact H]. destruct toks as [|elt rest]; [destruct f; exact H|].
    destruct f as [|f]; [discriminate|]. cbn [groups_from] in *.
    destruct (step SC e elt rest) as [[d rest']|]; [|discriminate]. cbn [bind] in *.
    destruct (kws_empty d && toks_eqb rest' rest); [|exact H].
    rewrite orb_false_r in H. destruct (numeric_start elt); [discriminate|exact H].
  Qed.

  Lemma toks_eqb_neq (a b : list string) : toks_eqb a b = false -> a <> b.
  Proof. intros H ->. rewrite toks_eqb_refl in H. discriminate. Qed.

  Lemma groups_from_app (e : env) f : forall a b ga gb g p,
    (List.length a <= f)%nat -> (List.length b <= g)%nat ->
    groups_from SC f e p a = Ok ga -> groups_from SC g e false b = Ok gb ->
    groups_from SC (f + g) e p (a ++ b) = Ok (ga ++ gb).
  Proof.
    induction f as [|f IH]; intros a b ga gb g p Ha Hb Hga Hgb.
    - destruct a; [|cbn in Ha; lia]. cbn in Hga. inversion Hga; subst. cbn [app Nat.add].
      exact (groups_prev_mono e g b gb Hgb p).
    - destruct a as [|elt rest].
      + cbn in Hga. inversion Hga; subst. cbn [app].
        rewrite (groups_from_fuel e (S f + g) g p b); [exact (groups_prev_mono e g b gb Hgb p)|lia|lia].
      + cbn [app Nat.add groups_from] in *.
        destruct (step SC e elt rest) as [[d rest']|] eqn:Es; [|discriminate]. cbn [bind] in *.
        rewrite (step_app SC e elt rest b d rest' (groups_head SC e g b gb Hgb) Es). cbn [bind].
        pose proof (step_length SC e elt rest d rest' Es) as Hl. cbn in Ha.
        destruct (kws_empty d && toks_eqb rest' rest) eqn:Ee.
        * apply andb_true_iff in Ee. destruct Ee as [Ee1 Ee2].
          pose proof (toks_eqb_eq _ _ Ee2) as Er. subst rest'.
          rewrite Ee1, toks_eqb_refl. cbn [andb].
          destruct (negb (numeric_start elt) || p); [|discriminate].
          destruct (groups_from SC f e true rest) as [gs'|] eqn:Eg; [|discriminate].
          cbn [bind] in Hga. inversion Hga; subst ga. clear Hga.
          rewrite (IH rest b gs' gb g true); [reflexivity|lia|exact Hb|exact Eg|exact Hgb].
        * assert (Hne : kws_empty d && toks_eqb (rest' ++ b) (rest ++ b) = false).
          { destruct (kws_empty d); [|reflexivity]. cbn [andb] in *.
            destruct (toks_eqb (rest' ++ b) (rest ++ b)) eqn:Eb; [|reflexivity].
            apply toks_eqb_eq, app_inv_tail in Eb. subst rest'.
            rewrite toks_eqb_refl in Ee. discriminate. }
          rewrite Hne.
          remember (firstn (List.length rest - List.length rest') rest) as used eqn:Eu.
          destruct (negb (numeric_start elt) && toks_eqb (used ++ rest') rest
                    && match step SC e elt used with Ok (_, []) => true | _ => false end) eqn:Ec;
            [|discriminate].
          destruct (groups_from SC f e false rest') as [gs'|] eqn:Eg; [|discriminate].
          cbn [bind] in Hga. inversion Hga; subst ga. clear Hga.
          apply andb_true_iff in Ec. destruct Ec as [Ec E3].
          apply andb_true_iff in Ec. destruct Ec as [E1 E2].
          pose proof (toks_eqb_eq _ _ E2) as E2'.
          assert (Hu : firstn (List.length (rest ++ b) - List.length (rest' ++ b)) (rest ++ b) = used).
          { rewrite !app_length.
            replace (List.length rest + List.length b - (List.length rest' + List.length b))%nat
              with (List.length rest - List.length rest')%nat by lia.
            rewrite firstn_app.
            replace (List.length rest - List.length rest' - List.length rest)%nat with 0%nat by lia.
            cbn [firstn]. rewrite app_nil_r. symmetry. exact Eu. }
          rewrite Hu, E1, E3. cbn [andb].
          replace (toks_eqb (used ++ rest' ++ b) (rest ++ b)) with true
            by (rewrite app_assoc, E2'; symmetry; apply toks_eqb_refl).
          rewrite (IH rest' b gs' gb g false); [reflexivity|lia|exact Hb|exact Eg|exact Hgb].
  Qed.

  Lemma fold_sel_acc (sel : kws (T:=T) -> bool) (b : list group) : forall x,
    fold_left (fun acc g => if sel (snd g) then Some g else acc) b x =
    match fold_left (fun acc g => if sel (snd g) then Some g else acc) b None with
    | Some g => Some g | None => x end.
  Proof.
    unfold Canon.group in *. induction b as [|g r IH]; intros x; [reflexivity|]. cbn [fold_left]. cbv beta.
    rewrite (IH (if sel (snd g) then Some g else x)), (IH (if sel (snd g) then Some g else None)).
    destruct (fold_left _ r None); [reflexivity|]. destruct (sel (snd g)); reflexivity.
  Qed.

  Lemma last_with_app (sel : kws (T:=T) -> bool) (a b : list group) :
    last_with sel (a ++ b) = match last_with sel b with Some g => Some g | None => last_with sel a end.
  Proof. unfold last_with. rewrite fold_left_app. apply fold_sel_acc. Qed.

  (* the groups of "options of the copied card, then the BUT list" are the two
     group lists one after the other, so the constructed card takes FILL, LAT,
     TRCL, U, MAT, RHO from the BUT list when it lists them and from the copied
     card otherwise, and its IMP entries are the copied ones followed by the
     BUT list's (last value per particle: C15_keywords_later_wins) *)
  Theorem canon_is_override (e : env) (tb to : list string) (gb go : list group) :
    groups SC e tb = Ok gb -> groups SC e to = Ok go ->
    groups SC e (tb ++ to) = Ok (gb ++ go) /\
    (forall sel, last_with sel (gb ++ go) =
                 match last_with sel go with Some g => Some g | None => last_with sel gb end) /\
    flat_map (@imp_tokens T) (gb ++ go) = flat_map (@imp_tokens T) gb ++ flat_map (@imp_tokens T) go.
  Proof.
    intros Hb Ho. unfold groups in *. split; [|split].
    - rewrite app_length. apply (groups_from_app e _ tb to gb go _ false (le_n _) (le_n _) Hb Ho).
    - intros sel. apply last_with_app.
    - apply flat_map_app.
  Qed.
End Override.

(* ---- the whole deck with every card replaced by its constructed card ---- *)
Section CanonDeck.
  Context {T : Type} (SC : Scalar T) (e : env (T:=T)).

  (* whatever the card of cell j is (explicit or LIKE), it is parsed as the text
     it stands for *)
  Lemma cell_is_worker_of_denoted tbl j c d x rank lat :
    lookup j tbl = Some c -> denotes tbl j d x ->
    parse_one_cell SC (List.length tbl) e tbl rank lat c = worker SC e rank lat x.
  Proof.
    intros Hl Hd.
    destruct (denotes_inv tbl j d x c Hd Hl) as [Hc|(mat & g & o & m & d' & x' & -> & Hs & Hd')].
    - assert (Hx : denotes tbl j 0 c) by (constructor; assumption).
      destruct (denotes_fun tbl j d x Hd _ _ Hx) as [_ ->].
      apply explicit_cell. exact Hc.
    - assert (Hx : denotes tbl j (S d') (apply_but x' o)) by (econstructor; eassumption).
      destruct (denotes_fun tbl j d x Hd _ _ Hx) as [_ ->].
      apply (like_in_parse_all SC e tbl rank lat mat g o m d' x' Hs Hd').
  Qed.

  (* [tblc] holds, for every cell of [tbl], the text of the card constructed for it *)
  Definition canon_table (tbl tblc : table) : Prop :=
    Forall2 (fun jc jc' => fst jc = fst jc' /\
                           exists d x w, denotes tbl (fst jc) d x /\ canon_card SC e x = Ok w /\
                                         snd jc' = card_text w) tbl tblc.

  Lemma canon_cells_same tbl tblc : NoDup (map fst tbl) ->
    forall todo todoc rank cells,
    (forall j c, In (j, c) todo -> In (j, c) tbl) ->
    Forall2 (fun jc jc' => fst jc = fst jc' /\
                           exists d x w, denotes tbl (fst jc) d x /\ canon_card SC e x = Ok w /\
                                         snd jc' = card_text w) todo todoc ->
    List.length tblc = List.length tbl ->
    parse_cells SC e tbl rank todo = Ok cells ->
    parse_cells SC e tblc rank todoc = Ok cells.
  Proof.
    intros Hnd todo todoc rank cells Hin H. revert rank cells Hin.
    induction H as [|[j c] [j' c'] r r' [Hk (d & x & w & Hd & Hc & Ht)] Hr IH];
      intros rank cells Hin Hlen Hp; cbn [parse_cells] in *; [exact Hp|].
    cbn [fst snd] in *. subst j' c'.
    assert (Hl : lookup j tbl = Some c).
    { apply lookup_in_nodup; [exact Hnd|apply Hin; left; reflexivity]. }
    rewrite (cell_is_worker_of_denoted tbl j c d x rank (latopt e j) Hl Hd) in Hp.
    destruct (worker SC e rank (latopt e j) x) as [cl|] eqn:Ew; [|discriminate].
    cbn [bind] in Hp.
    destruct (parse_cells SC e tbl (S rank) r) as [cs|] eqn:Er; [|discriminate].
    cbn [bind] in Hp. inversion Hp; subst cells. clear Hp.
    destruct (canon_card_parses SC e rank (latopt e j) x w cl Hc Ew) as [Hw _].
    assert (Hex : is_explicit (card_text w)).
    { pose proof (denotes_explicit tbl j d x Hd) as Hx.
      unfold canon_card in Hc. destruct x as [[mx gx] ox]. cbn [wcard_of] in Hc.
      destruct (groups SC e (tokenize ox)) as [gs|]; [|discriminate]. cbn [bind] in Hc.
      destruct (canon_mat (words mx) gs) as [mw'|]; [|discriminate]. cbn [bind] in Hc.
      destruct (canon_groups SC e gs) as [cg|]; [|discriminate]. cbn [bind] in Hc.
      destruct (_ && _); [|discriminate]. inversion Hc; subst w.
      unfold is_explicit, geom_of, card_text in *. cbn [fst snd] in *. exact Hx. }
    rewrite (explicit_cell SC e tblc _ rank (latopt e j) (card_text w) Hex), Hw. cbn [bind].
    rewrite (IH (S rank) cs); [reflexivity| |exact Hlen|exact Er].
    intros j0 c0 Hi. apply Hin. right. exact Hi.
  Qed.

  Lemma forall2_length {A B} (R : A -> B -> Prop) l1 l2 : Forall2 R l1 l2 -> List.length l1 = List.length l2.
  Proof. induction 1; cbn; [reflexivity|now f_equal]. Qed.

  Theorem canon_deck tbl tblc cells :
    NoDup (map fst tbl) -> canon_table tbl tblc ->
    parse_all SC e tbl = Ok cells -> parse_all SC e tblc = Ok cells.
  Proof.
    intros Hnd Hc Hp. unfold parse_all in *.
    apply (canon_cells_same tbl tblc Hnd tbl tblc 0 cells (fun j c H => H) Hc); [|exact Hp].
    symmetry. exact (forall2_length _ _ _ Hc).
  Qed.
End CanonDeck.

(* the three-card example deck and its constructed deck *)
Lemma example_canon_table {T : Type} (SC : Scalar T) (v0 v1 : T) :
  canon_table SC (xenv v0 v1) xtbl
    [(1%Z, ("1 -1.0", " -1 ", "imp:n 0"));
     (2%Z, ("2 -1.0", " -1 ", "imp:n 1"));
     (3%Z, ("2 -2.5", " -1 ", "imp:n 1 *trcl 0"))] /\ NoDup (map fst xtbl).
Proof.
  assert (H1 : denotes xtbl 1 0 (" 1 -1.0", " -1 ", "imp:n=0")).
  { apply den_explicit; vm_compute; reflexivity. }
  assert (H2 : denotes xtbl 2 1 (apply_but (" 1 -1.0", " -1 ", "imp:n=0") " MAT=2 imp:n=1")).
  { eapply den_like with (m := 1%Z) (mat := "") (g := " like 1 but");
      [vm_compute; reflexivity|vm_compute; reflexivity|exact H1]. }
  assert (H3 : denotes xtbl 3 2 (apply_but (apply_but (" 1 -1.0", " -1 ", "imp:n=0") " MAT=2 imp:n=1")
                                           " rho = -2.5 *TRCL=( 0 )")).
  { eapply den_like with (m := 2%Z) (mat := "") (g := " LIKE 2 BUT");
      [vm_compute; reflexivity|vm_compute; reflexivity|exact H2]. }
  split.
  - unfold canon_table, xtbl.
    repeat constructor; cbn [fst snd];
      (eexists; eexists; eexists; split; [eassumption|split; [vm_compute; reflexivity|reflexivity]]).
  - cbn. repeat constructor; cbn; intuition discriminate.
Qed.

(* ---- when the construction is defined, and the LIKE cards that have no card ---- *)
Section Defined.
  Context {T : Type} (SC : Scalar T).
  Notation env := (env (T:=T)).
  Notation group := (group (T:=T)).

  (* a list of option tokens made of complete keyword groups — every group reads
     exactly its own tokens, starts with a keyword that is not a number, and
     writes something — is cut back into these groups: the first stage of the
     construction fails only when some token belongs to no keyword group that
     is read (a stray number after U, IMP, LAT, RHO, MAT: "U=3 7") *)
  Theorem groups_complete (e : env) : forall (gs : list group),
    Forall (valid SC e) gs -> Forall (fun g => kws_empty (snd g) = false) gs ->
    groups SC e (gtoks gs) = Ok gs.
  Proof.
    unfold groups.
    assert (H : forall gs f, Forall (valid SC e) gs -> Forall (fun g => kws_empty (snd g) = false) gs ->
                (List.length (gtoks gs) <= f)%nat -> groups_from SC f e false (gtoks gs) = Ok gs).
    { induction gs as [|[tg dg] r IH]; intros f Hv He Hf.
      - destruct f; reflexivity.
      - inversion Hv as [|? ? Hg Hr]; subst. inversion He as [|? ? Heg Her]; subst.
        destruct Hg as (elt & used & Hfst & Hn & Hs). cbn [fst snd] in *. subst tg.
        unfold gtoks in *. cbn [map List.concat app] in *.
        destruct f as [|f]; [cbn in Hf; lia|]. cbn [groups_from fst app].
        rewrite (step_app SC e elt used (List.concat (map fst r)) dg [] (valid_head SC e r Hr) Hs).
        cbn [bind app]. rewrite Heg. cbn [andb].
        rewrite app_length, Nat.add_sub, firstn_app, Nat.sub_diag, firstn_all. cbn [firstn].
        rewrite app_nil_r, Hn, toks_eqb_refl, Hs. cbn [negb andb].
        rewrite IH; [reflexivity|exact Hr|exact Her|]. cbn in Hf. rewrite app_length in Hf. lia. }
    intros gs Hv He. apply H; [exact Hv|exact He|apply le_n].
  Qed.

  (* no explicit card (its MAT / RHO belong to BUT lists only) is parsed to a cell
     with a material and no density: the copy made by "LIKE <void cell> BUT MAT=m"
     without RHO is such a cell, so it abbreviates no card — it is not a valid
     card either: MCNP wants a density for every material *)
  Theorem explicit_card_has_density (e : env) rank lat (mw : list string) g toks k c z :
    parse_kws SC e toks = Ok k -> k_mat k = None -> k_rho k = None ->
    worker_w SC e rank lat (mw, g, toks) = Ok c ->
    pyint (c_mat c) = Some z -> z <> 0%Z -> c_rho c <> None.
  Proof.
    intros Hk Hm Hr Hw Hz Hnz. unfold worker_w in Hw.
    destruct (parse_material_w e mw) as [[mid rho]|] eqn:Ep; [|discriminate]. cbn [bind] in Hw.
    destruct (getast e g) as [ast|]; [|discriminate]. rewrite Hk in Hw. cbn [bind] in Hw.
    rewrite finish_cell_void_rule, Hm, Hr in Hw.
    destruct (match imp_value SC (k_impl k) with Some v => Ok v | None =>
                match nth_error (imps e) rank with Some v => Ok v | None => Err EParse end end);
      [|discriminate]. cbn [bind] in Hw.
    unfold void_rule in Hw. destruct (pyint mid) as [zm|] eqn:Em; [|discriminate].
    unfold parse_material_w in Ep. destruct mw as [|m0 r0]; [discriminate|].
    destruct (pyint m0) as [z0|] eqn:E0; [|discriminate].
    destruct z0 as [|p0|p0].
    - inversion Ep; subst. rewrite E0 in Em. inversion Em; subst zm. cbn [bind] in Hw.
      destruct (to_fillid k lat); [|discriminate]. cbn [bind] in Hw. inversion Hw; subst c.
      cbn [c_mat] in Hz. rewrite E0 in Hz. inversion Hz; subst. congruence.
    - destruct r0 as [|d0 r1]; [discriminate|]. inversion Ep; subst. rewrite E0 in Em.
      inversion Em; subst zm. cbn [bind] in Hw.
      destruct (to_fillid k lat); [|discriminate]. cbn [bind] in Hw. inversion Hw; subst c.
      cbn [c_rho]. discriminate.
    - destruct r0 as [|d0 r1]; [discriminate|]. inversion Ep; subst. rewrite E0 in Em.
      inversion Em; subst zm. cbn [bind] in Hw.
      destruct (to_fillid k lat); [|discriminate]. cbn [bind] in Hw. inversion Hw; subst c.
      cbn [c_rho]. discriminate.
  Qed.
End Defined.

(* ... e.g. "2 like 1 but mat=2" on the void card "1 0 -1 imp:n=1": material "2", no density *)
Lemma example_no_density {T : Type} (SC : Scalar T) (v0 v1 : T) :
  parse_one_cell SC 2 (wenv v0 v1)
    [(1%Z, (" 0", " -1 ", "imp:n=1")); (2%Z, ("", " like 1 but", " mat=2"))]
    1 None ("", " like 1 but", " mat=2") =
  Ok (mkCell "2" None " -1 " v1 0%Z None None None None) /\
  canon_card SC (wenv v0 v1) (" 0", " -1 ", "imp:n=1  mat=2") = Err EUnsupported.
Proof. split; vm_compute; reflexivity. Qed.

(* ---- when the text of a word-level card reads back: clean tokens ---- *)
Local Open Scope string_scope.
(* a character the option normalisation leaves alone and that is not a blank *)
Definition clean_char (c : ascii) : bool :=
  negb (is_ws c) && Ascii.eqb (opt_char c) c.

Fixpoint all_clean (s : string) : bool :=
  match s with EmptyString => true | String c r => clean_char c && all_clean r end.

Definition head_colon (s : string) : bool :=
  match s with String ":" _ => true | _ => false end.

(* non-empty, clean characters, no colon at either end *)
Definition clean_tok (t : string) : bool :=
  match t with EmptyString => false | _ => true end
  && all_clean t && negb (head_colon t)
  && negb (match last_char t with Some c => Ascii.eqb c ":" | None => false end).

Lemma clean_not_space c : clean_char c = true -> Ascii.eqb c " " = false /\ is_ws c = false /\ opt_char c = c.
Proof.
  unfold clean_char. intros H. apply andb_true_iff in H. destruct H as [H1 H2].
  apply negb_true_iff in H1. apply Ascii.eqb_eq in H2. repeat split; try assumption.
  destruct (Ascii.eqb c " ") eqn:E; [|reflexivity]. apply Ascii.eqb_eq in E. subst c. discriminate.
Qed.

(* smap opt_char fixes clean text with blanks *)
Lemma smap_clean t : all_clean t = true -> smap opt_char t = t.
Proof.
  induction t as [|c r IH]; cbn; intros H; [reflexivity|].
  apply andb_true_iff in H. destruct H as [Hc Hr].
  destruct (clean_not_space c Hc) as (_ & _ & Ho). rewrite Ho, IH; auto.
Qed.

(* words of a clean token followed by the rest *)
Lemma words_acc_clean t : all_clean t = true -> forall cur rest,
  words_acc cur (t ++ rest) = words_acc (srev_acc t cur) rest.
Proof.
  induction t as [|c r IH]; cbn; intros H cur rest; [reflexivity|].
  apply andb_true_iff in H. destruct H as [Hc Hr].
  destruct (clean_not_space c Hc) as (_ & Hw & _). rewrite Hw. apply IH, Hr.
Qed.

Lemma srev_acc_inv x : forall acc acc', srev_acc (srev_acc x acc) acc' = srev_acc acc (x ++ acc').
Proof.
  induction x as [|c r IH]; intros acc acc'; cbn [srev_acc append]; [reflexivity|].
  rewrite IH. reflexivity.
Qed.

Lemma sapp_nil_r (s : string) : s ++ "" = s.
Proof. induction s as [|c r IH]; cbn; [reflexivity|now rewrite IH]. Qed.

Lemma srev_srev_acc x : srev (srev_acc x "") = x.
Proof. unfold srev. rewrite srev_acc_inv. cbn [srev_acc]. apply sapp_nil_r. Qed.

Lemma srev_acc_nonempty x acc : x <> "" -> srev_acc x acc <> "".
Proof.
  destruct x as [|c r]; [congruence|]. intros _. cbn [srev_acc].
  revert c acc. induction r as [|d r IH]; intros c acc; cbn [srev_acc]; [discriminate|apply IH].
Qed.

Definition cleanl (toks : list string) : Prop := Forall (fun t => clean_tok t = true) toks.

Lemma clean_tok_parts t : clean_tok t = true ->
  t <> "" /\ all_clean t = true /\ head_colon t = false /\
  (match last_char t with Some c => Ascii.eqb c ":" | None => false end) = false.
Proof.
  unfold clean_tok. intros H.
  apply andb_true_iff in H. destruct H as [H H4].
  apply andb_true_iff in H. destruct H as [H H3].
  apply andb_true_iff in H. destruct H as [H1 H2].
  apply negb_true_iff in H3. apply negb_true_iff in H4.
  repeat split; try assumption. destruct t; [discriminate|discriminate].
Qed.

Lemma words_join toks : cleanl toks -> words (join toks) = toks.
Proof.
  unfold words. induction 1 as [|x r Hx Hr IH]; [reflexivity|].
  destruct (clean_tok_parts x Hx) as (Hne & Hc & _ & _).
  destruct r as [|y r'].
  - cbn [join]. rewrite <- (sapp_nil_r x) at 1. rewrite (words_acc_clean x Hc). cbn [words_acc].
    destruct (srev_acc x "") eqn:E; [exfalso; exact (srev_acc_nonempty x "" Hne E)|].
    cbn [map]. rewrite <- E, srev_srev_acc. reflexivity.
  - change (join (x :: y :: r')) with (x ++ String " " (join (y :: r'))).
    rewrite (words_acc_clean x Hc). cbn [words_acc]. change (is_ws " ") with true. cbn iota.
    destruct (srev_acc x "") eqn:E; [exfalso; exact (srev_acc_nonempty x "" Hne E)|].
    cbn [map]. rewrite <- E, srev_srev_acc. f_equal. exact IH.
Qed.

Lemma last_char_some s : s <> "" -> exists c, last_char s = Some c.
Proof.
  induction s as [|c r IH]; [congruence|]. intros _. destruct r as [|d r'].
  - exists c. reflexivity.
  - destruct (IH ltac:(discriminate)) as [x Hx]. exists x. exact Hx.
Qed.

Lemma squeeze_clean t : all_clean t = true -> t <> "" -> forall after rest,
  squeeze after (t ++ rest) =
  t ++ squeeze (match last_char t with Some c => Ascii.eqb c ":" | None => after end) rest.
Proof.
  induction t as [|c r IH]; [congruence|]. intros H _ after rest.
  cbn [all_clean] in H. apply andb_true_iff in H. destruct H as [Hc Hr].
  destruct (clean_not_space c Hc) as (Hs & _ & _).
  cbn [append squeeze]. rewrite Hs. f_equal.
  destruct r as [|d r'].
  - cbn. reflexivity.
  - rewrite (IH Hr ltac:(discriminate)).
    replace (last_char (String c (String d r'))) with (last_char (String d r')) by reflexivity.
    destruct (last_char_some (String d r') ltac:(discriminate)) as [x Hx]. rewrite Hx. reflexivity.
Qed.

Lemma leads_colon_clean t rest : all_clean t = true -> t <> "" ->
  leads_colon (t ++ rest) = head_colon t.
Proof.
  destruct t as [|c r]; [congruence|]. intros H _. cbn [all_clean] in H.
  apply andb_true_iff in H. destruct H as [Hc _].
  destruct (clean_not_space c Hc) as (Hs & _ & _). cbn [append leads_colon]. rewrite Hs.
  unfold head_colon. destruct (Ascii.eqb c ":") eqn:E.
  - apply Ascii.eqb_eq in E. subst c. reflexivity.
  - destruct c as [[] [] [] [] [] [] [] []]; try reflexivity; discriminate.
Qed.

Lemma squeeze_join toks : cleanl toks -> squeeze false (join toks) = join toks.
Proof.
  induction 1 as [|x r Hx Hr IH]; [reflexivity|].
  destruct (clean_tok_parts x Hx) as (Hne & Hc & _ & Hl).
  destruct r as [|y r'].
  - cbn [join]. rewrite <- (sapp_nil_r x) at 1. rewrite (squeeze_clean x Hc Hne). cbn [squeeze].
    apply sapp_nil_r.
  - change (join (x :: y :: r')) with (x ++ String " " (join (y :: r'))).
    rewrite (squeeze_clean x Hc Hne), Hl. f_equal.
    cbn [squeeze]. change (Ascii.eqb " " " ") with true. cbn iota.
    inversion Hr as [|? ? Hy _]; subst. destruct (clean_tok_parts y Hy) as (Hney & Hcy & Hhy & _).
    assert (Hlc : leads_colon (join (y :: r')) = false).
    { destruct r' as [|z r'']; [cbn [join]; rewrite <- (sapp_nil_r y)|
                               change (join (y :: z :: r'')) with (y ++ String " " (join (z :: r'')))];
        rewrite (leads_colon_clean y _ Hcy Hney); exact Hhy. }
    rewrite Hlc. cbn [orb]. f_equal. exact IH.
Qed.

Lemma smap_join toks : cleanl toks -> smap opt_char (join toks) = join toks.
Proof.
  induction 1 as [|x r Hx Hr IH]; [reflexivity|].
  destruct (clean_tok_parts x Hx) as (_ & Hc & _ & _).
  destruct r as [|y r']; [cbn [join]; apply smap_clean, Hc|].
  change (join (x :: y :: r')) with (x ++ String " " (join (y :: r'))).
  rewrite smap_app, (smap_clean x Hc). cbn [smap]. change (opt_char " ") with " "%char.
  now rewrite IH.
Qed.

(* text made of clean tokens joined by blanks reads back as these tokens *)
Theorem tokenize_join toks : cleanl toks -> tokenize (join toks) = toks.
Proof.
  intros H. unfold tokenize. rewrite (squeeze_join toks H), (smap_join toks H). exact (words_join toks H).
Qed.

Theorem card_text_reads_back (mw : list string) (g : string) (toks : list string) :
  cleanl mw -> cleanl toks -> wcard_of (card_text (mw, g, toks)) = (mw, g, toks).
Proof.
  intros Hm Ht. unfold card_text, wcard_of. rewrite (words_join mw Hm), (tokenize_join toks Ht). reflexivity.
Qed.
