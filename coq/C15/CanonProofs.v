(* C15 — proofs about the constructed explicit card (C15/Canon.v). *)
From Coq Require Import List NArith ZArith Bool String Ascii Lia.
From T4V Require Import Base.Str Base.Scalar Base.Cases C15.Model C15.Proofs C15.Canon.
Import ListNotations.
Open Scope string_scope.
Local Open Scope list_scope.

Lemma toks_eqb_eq (a b : list string) : toks_eqb a b = true -> a = b.
Proof.
  unfold toks_eqb. revert b. induction a as [|x a IH]; intros [|y b] H; cbn in H;
    try reflexivity; try discriminate.
  apply andb_true_iff in H. destruct H as [H1 H2]. apply String.eqb_eq in H1.
  f_equal; [exact H1|apply IH, H2].
Qed.

Section CanonProofs.
  Context {T : Type} (SC : Scalar T).
  Notation env := (env (T:=T)).
  Notation kws := (kws (T:=T)).
  Notation group := (group (T:=T)).

  (* a group that reads exactly its own tokens *)
  Definition valid (e : env) (g : group) : Prop :=
    exists elt used, fst g = elt :: used /\ numeric_start elt = false /\
                     step SC e elt used = Ok (snd g, []).

  Lemma groups_head (e : env) f toks gs : groups_from SC f e toks = Ok gs -> kw_head toks.
  Proof.
    destruct toks as [|elt rest]; [intros _; exact I|].
    destruct f as [|f]; [discriminate|]. cbn [groups_from kw_head].
    destruct (step SC e elt rest) as [[d rest']|]; [|discriminate]. cbn [bind].
    destruct (numeric_start elt); [discriminate|reflexivity].
  Qed.

  Lemma groups_sound (e : env) f : forall toks gs st,
    groups_from SC f e toks = Ok gs ->
    parse_from SC f e st toks = Ok (fold_left upd (map snd gs) st) /\ Forall (valid e) gs.
  Proof.
    induction f as [|f IH]; intros toks gs st H.
    - destruct toks; [|discriminate]. cbn in H. inversion H; subst. split; [reflexivity|constructor].
    - destruct toks as [|elt rest].
      + cbn in H. inversion H; subst. split; [reflexivity|constructor].
      + cbn [groups_from parse_from] in *.
        destruct (step SC e elt rest) as [[d rest']|] eqn:Es; [|discriminate]. cbn [bind] in *.
        set (used := firstn (List.length rest - List.length rest') rest) in *.
        destruct (negb (numeric_start elt) && toks_eqb (used ++ rest') rest
                  && match step SC e elt used with Ok (_, []) => true | _ => false end) eqn:Ec;
          [|discriminate].
        apply andb_true_iff in Ec. destruct Ec as [Ec E3].
        apply andb_true_iff in Ec. destruct Ec as [E1 E2].
        apply negb_true_iff in E1. apply toks_eqb_eq in E2.
        destruct (groups_from SC f e rest') as [gs'|] eqn:Eg; [|discriminate].
        cbn [bind] in H. inversion H; subst gs. clear H.
        destruct (IH rest' gs' (upd st d) Eg) as [Hp Hv].
        split; [exact Hp|].
        constructor; [|exact Hv].
        exists elt, used. cbn [fst snd]. split; [reflexivity|]. split; [exact E1|].
        destruct (step SC e elt used) as [[d' [|? ?]]|] eqn:Eu; try discriminate.
        pose proof (step_app SC e elt used rest' d' [] (groups_head e f rest' gs' Eg) Eu) as Ha.
        cbn [app] in Ha. rewrite E2, Es in Ha. inversion Ha; subst. reflexivity.
  Qed.

  Definition gtoks (gs : list group) : list string := List.concat (map fst gs).

  Lemma valid_head (e : env) gs : Forall (valid e) gs -> kw_head (gtoks gs).
  Proof.
    intros H. destruct gs as [|g r]; [exact I|]. inversion H as [|? ? Hg _]; subst.
    destruct Hg as (elt & used & Hf & Hn & _). unfold gtoks. cbn [map List.concat].
    rewrite Hf. cbn. exact Hn.
  Qed.

  (* reading the tokens of valid groups one after the other gives their effects *)
  Lemma parse_valid (e : env) gs : Forall (valid e) gs -> forall st f,
    (List.length (gtoks gs) <= f)%nat ->
    parse_from SC f e st (gtoks gs) = Ok (fold_left upd (map snd gs) st).
  Proof.
    induction 1 as [|g r Hg Hr IH]; intros st f Hf.
    - destruct f; reflexivity.
    - destruct Hg as (elt & used & Hfst & Hn & Hs).
      unfold gtoks in *. cbn [map List.concat fold_left] in *. rewrite Hfst in *.
      cbn [app] in *. destruct f as [|f]; [cbn in Hf; lia|].
      cbn [parse_from].
      rewrite (step_app SC e elt used (List.concat (map fst r)) (snd g) [] (valid_head e r Hr) Hs).
      cbn [bind app]. apply IH. cbn in Hf. rewrite app_length in Hf. lia.
  Qed.
End CanonProofs.
