(* C15 — the explicit card that a LIKE n BUT card abbreviates, constructed in
   the model: copy the card that n stands for and override the listed
   parameters, every keyword written once.

   The card is built at word level (material words, geometry text, option
   tokens): [canon_card].  FILL, LAT, TRCL, U: the last keyword group of that
   kind; IMP: one "imp:<particle> <value>" entry per particle, in the order of
   first appearance, with the last value written for it; MAT / RHO (which exist
   in BUT lists only) go into the material words.  Keywords the converter does
   not read (VOL, TMP, ...) are not copied.

   Everything here is executable (the check evaluates it on every generated
   deck: tie:canon); the theorem is in C15/CanonProofs.v. *)
From Coq Require Import List NArith ZArith Bool String Ascii.
From T4V Require Import Base.Str Base.Scalar Base.Cases C15.Model.
Import ListNotations.
Open Scope string_scope.

Section Canon.
  Context {T : Type} (SC : Scalar T).
  Notation env := (env (T:=T)).
  Notation kws := (kws (T:=T)).

  (* a keyword group: its tokens (keyword first) and what it writes *)
  Definition group := (list string * kws)%type.

  Definition toks_eqb (a b : list string) : bool := list_eqb String.eqb a b.

  Definition is_some {A} (o : option A) : bool := match o with Some _ => true | None => false end.

  (* a group that writes nothing: a token the converter does not read (VOL, TMP,
     ... and their values, which the loop takes for keywords of their own) *)
  Definition kws_empty (d : kws) : bool :=
    match k_impl d with [] => true | _ => false end
    && negb (is_some (k_fb d)) && negb (is_some (k_fu d)) && negb (is_some (k_fp d))
    && negb (is_some (k_lat d)) && negb (is_some (k_trcl d)) && negb (is_some (k_u d))
    && negb (is_some (k_rho d)) && negb (is_some (k_mat d)).

  (* the groups parse_keywords reads, one per iteration of its loop.  Checked
     while cutting: a group that writes something starts with a keyword that is
     not a number and, read on its own, gives the same remainder; a number may
     only follow a group that writes nothing (the value of an unread keyword).
     EUnsupported otherwise (e.g. "U=3 7"). *)
  Fixpoint groups_from (fuel : nat) (e : env) (prev_empty : bool) (toks : list string)
    : res (list group) :=
    match toks with
    | [] => Ok []
    | elt :: rest =>
        match fuel with
        | O => Err EFuel
        | S f =>
            step SC e elt rest >>= fun '(d, rest') =>
            if kws_empty d && toks_eqb rest' rest then
              if negb (numeric_start elt) || prev_empty
              then groups_from f e true rest' >>= fun gs => Ok (([elt], d) :: gs)
              else Err EUnsupported
            else
              let used := firstn (List.length rest - List.length rest') rest in
              if negb (numeric_start elt) && toks_eqb (used ++ rest') rest
                 && match step SC e elt used with Ok (_, []) => true | _ => false end
              then groups_from f e false rest' >>= fun gs => Ok ((elt :: used, d) :: gs)
              else Err EUnsupported
        end
    end.

  Definition groups (e : env) (toks : list string) : res (list group) :=
    groups_from (List.length toks) e false toks.

  (* the last group that writes the entry selected by [sel] *)
  Definition last_with (sel : kws -> bool) (gs : list group) : option group :=
    fold_left (fun acc g => if sel (snd g) then Some g else acc) gs None.

  Definition has_fill (d : kws) := is_some (k_fu d).
  Definition has_lat (d : kws) := is_some (k_lat d).
  Definition has_trcl (d : kws) := is_some (k_trcl d).
  Definition has_u (d : kws) := is_some (k_u d).
  Definition has_rho (d : kws) := is_some (k_rho d).
  Definition has_mat (d : kws) := is_some (k_mat d).

  Definition opt_list {A} (o : option A) : list A := match o with Some x => [x] | None => [] end.

  (* IMP entries as written: (particle, value token) *)
  Definition imp_tokens (g : group) : list (string * string) :=
    match fst g with
    | [elt; v] => if prefix "imp" elt then map (fun p => (p, v)) (imp_particles elt) else []
    | _ => []
    end.

  Definition imp_entry_group (e : env) (pv : string * string) : res group :=
    let elt := "imp:" ++ fst pv in
    match step SC e elt [snd pv] with
    | Ok (d, []) =>
        if list_eqb String.eqb (imp_particles elt) [fst pv] then Ok ([elt; snd pv], d)
        else Err EUnsupported
    | _ => Err EUnsupported
    end.

  Fixpoint all_ok {A} (l : list (res A)) : res (list A) :=
    match l with
    | [] => Ok []
    | Ok x :: r => all_ok r >>= fun xs => Ok (x :: xs)
    | Err x :: _ => Err x
    end.

  (* the option groups of the explicit card, every keyword once *)
  Definition canon_groups (e : env) (gs : list group) : res (list group) :=
    all_ok (map (imp_entry_group e) (imp_dict (T:=string) (flat_map imp_tokens gs)))
    >>= fun imps =>
    Ok (imps ++ opt_list (last_with has_fill gs) ++ opt_list (last_with has_lat gs)
             ++ opt_list (last_with has_trcl gs) ++ opt_list (last_with has_u gs))%list.

  (* the material words: MAT / RHO of the BUT lists, else the copied ones; a void
     card has no density *)
  Definition canon_mat (mw : list string) (gs : list group) : res (list string) :=
    let m := match last_with has_mat gs with Some g => k_mat (snd g) | None => hd_error mw end in
    let r := match last_with has_rho gs with
             | Some g => k_rho (snd g)
             | None => match mw with
                       | mid :: d :: _ => match pyint mid with Some 0%Z => None | _ => Some d end
                       | _ => None
                       end
             end in
    match m with
    | None => Err EIndex
    | Some m =>
        match pyint m with
        | None => Err EValue
        | Some 0%Z => Ok [m]
        | Some _ => match r with
                    | Some d => Ok [m; d]
                    | None => Err EUnsupported    (* a material without a density: no such card *)
                    end
        end
    end.

  (* a card at word level *)
  Definition wcard := (list string * string * list string)%type.

  Definition parse_material_w (e : env) (mw : list string) : res (string * option string) :=
    match mw with
    | [] => Err EIndex
    | mid :: r =>
        match pyint mid with
        | None => Err EValue
        | Some 0%Z => Ok (mid, None)
        | Some _ => match r with
                    | [] => Err EIndex
                    | d :: _ => Ok (mid, Some (normfloat e d))
                    end
        end
    end.

  Definition worker_w (e : env) (rank : nat) (lat_opt : option (list (Z * Z))) (c : wcard)
    : res cell :=
    let '(mw, geometry, toks) := c in
    parse_material_w e mw >>= fun '(mid, rho) =>
    match getast e geometry with
    | None => Err EParse
    | Some ast => parse_kws SC e toks >>= fun k => finish_cell SC e rank lat_opt mid rho ast k
    end.

  (* the words of a card text *)
  Definition wcard_of (c : card) : wcard :=
    let '(material, geometry, options) := c in (words material, geometry, tokenize options).

  (* text of a word-level card: words joined by single blanks *)
  Fixpoint join (l : list string) : string :=
    match l with
    | [] => EmptyString
    | [x] => x
    | x :: r => x ++ " " ++ join r
    end.

  Definition card_text (c : wcard) : card :=
    let '(mw, geometry, toks) := c in (join mw, geometry, join toks).

  (* the explicit card for the text [c] = "card that n stands for, then the BUT
     texts" (Model.apply_but): every keyword once *)
  Definition canon_card (e : env) (c : card) : res wcard :=
    let '(mw, geometry, toks) := wcard_of c in
    groups e toks >>= fun gs =>
    canon_mat mw gs >>= fun mw' =>
    canon_groups e gs >>= fun cg =>
    let w := (mw', geometry, List.concat (map fst cg)) in
    (* the card can be written down: its text reads back as these words (no
       token that starts or ends with a colon, e.g. the particle of "IMP=3") *)
    if toks_eqb (words (join mw')) mw'
       && toks_eqb (tokenize (join (List.concat (map fst cg)))) (List.concat (map fst cg))
    then Ok w else Err EUnsupported.

  (* ---- executable check: in every cell of a deck whose card is a LIKE card,
     the constructed card parses to the same cell (or the construction is
     undefined: counted by the harness) ---- *)
  Definition canon_cell (e : env) (tbl : table) (rank : nat) (key : Z) (c : card)
    : res (option (cell (T:=T) * cell (T:=T) * cell (T:=T))) :=
    match resolve_like (List.length tbl) tbl c with
    | Err x => Err x
    | Ok x =>
        match canon_card e x with
        | Err _ => Ok None
        | Ok w =>
            match worker SC e rank (latopt e key) x, worker_w e rank (latopt e key) w,
                  worker SC e rank (latopt e key) (card_text w) with
            | Ok a, Ok b, Ok c' => Ok (Some (a, b, c'))
            | Err _, _, _ => Ok None          (* the LIKE card itself does not parse *)
            | Ok _, Err x, _ => Err x
            | Ok _, Ok _, Err x => Err x
            end
        end
    end.
End Canon.
