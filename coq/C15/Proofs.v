(* C15 — proofs about the model of the LIKE n BUT path (C15/Model.v). *)
From Coq Require Import List NArith ZArith Bool String Ascii Lia Reals Lra.
From T4V Require Import Base.Str Base.Scalar C15.Model.
Import ListNotations.
Open Scope string_scope.

(* ------------------------------------------------------------ strings *)

Lemma sapp_assoc (a b c : string) : (a ++ b) ++ c = a ++ (b ++ c).
Proof. induction a as [|x a IH]; simpl; [reflexivity|now rewrite IH]. Qed.

Lemma smap_app f (a b : string) : smap f (a ++ b) = smap f a ++ smap f b.
Proof. induction a as [|x a IH]; simpl; [reflexivity|now rewrite IH]. Qed.

Lemma words_acc_app (x y cur : string) :
  words_acc cur (x ++ String " " y) = (words_acc cur x ++ words_acc EmptyString y)%list.
Proof.
  revert cur. induction x as [|c r IH]; intros cur.
  - cbn [append words_acc]. change (is_ws " ") with true. cbn iota.
    destruct cur; reflexivity.
  - cbn [append words_acc]. destruct (is_ws c) eqn:E.
    + destruct cur; rewrite IH; reflexivity.
    + apply IH.
Qed.

Lemma words_app (x y : string) : words (x ++ String " " y) = (words x ++ words y)%list.
Proof. unfold words. rewrite words_acc_app, map_app. reflexivity. Qed.

(* final state of [squeeze]: the last character kept was a colon *)
Fixpoint sq_state (after : bool) (s : string) : bool :=
  match s with
  | EmptyString => after
  | String c r =>
      if Ascii.eqb c " " then
        if after || leads_colon r then sq_state after r else sq_state false r
      else sq_state (Ascii.eqb c ":") r
  end.

Lemma leads_colon_app (r b : string) :
  leads_colon b = false -> leads_colon (r ++ String " " b) = leads_colon r.
Proof.
  intros Hb. induction r as [|c r IH].
  - cbn. exact Hb.
  - cbn [append leads_colon]. destruct (Ascii.eqb c " "); [exact IH|reflexivity].
Qed.

Lemma squeeze_app (a b : string) (after : bool) :
  leads_colon b = false -> sq_state after a = false ->
  squeeze after (a ++ String " " b) = squeeze after a ++ String " " (squeeze false b).
Proof.
  intros Hb. revert after. induction a as [|c r IH]; intros after Hs.
  - cbn in Hs. subst after. cbn. rewrite Hb. reflexivity.
  - cbn [append squeeze]. cbn [sq_state] in Hs.
    rewrite (leads_colon_app r b Hb).
    destruct (Ascii.eqb c " ").
    + destruct (after || leads_colon r).
      * apply IH, Hs.
      * cbn [append]. f_equal. apply IH, Hs.
    + cbn [append]. f_equal. apply IH, Hs.
Qed.

(* the option string [a] does not end (blanks apart) with a colon, the BUT
   text [b] does not start (blanks apart) with one: no token is glued across
   the blank that apply_but inserts *)
Lemma tokenize_app (a b : string) :
  sq_state false a = false -> leads_colon b = false ->
  tokenize (a ++ " " ++ b) = (tokenize a ++ tokenize b)%list.
Proof.
  intros Ha Hb. unfold tokenize. cbn [append].
  rewrite (squeeze_app a b false Hb Ha), smap_app. cbn [smap].
  change (opt_char " ") with " "%char. apply words_app.
Qed.

(* ----------------------------------------------------- parse_keywords *)
Section Keywords.
  Context {T : Type} (SC : Scalar T).
  Notation env := (env (T:=T)).
  Notation kws := (kws (T:=T)).

  (* the token list is empty or starts with something that is not a number:
     what follows a complete option list in a BUT text *)
  Definition kw_head (l : list string) : Prop :=
    match l with [] => True | t :: _ => numeric_start t = false end.

  Lemma span_app {A} (p : A -> bool) (l ovr a b : list A) :
    span p l = (a, b) ->
    (b <> [] \/ match ovr with [] => True | t :: _ => p t = false end) ->
    span p (l ++ ovr) = (a, b ++ ovr)%list.
  Proof.
    revert a b. induction l as [|x r IH]; intros a b H Hc.
    - cbn in H. inversion H; subst. cbn.
      destruct Hc as [Hc|Hc]; [congruence|].
      destruct ovr as [|t o]; [reflexivity|]. cbn. rewrite Hc. reflexivity.
    - cbn in *. destruct (p x).
      + destruct (span p r) as [a' b'] eqn:E. inversion H; subst.
        rewrite (IH a' b eq_refl Hc). reflexivity.
      + inversion H; subst. reflexivity.
  Qed.

  Lemma span_length {A} (p : A -> bool) (l a b : list A) :
    span p l = (a, b) -> (List.length b <= List.length l)%nat.
  Proof.
    revert a b. induction l as [|x r IH]; intros a b H; cbn in *.
    - inversion H; subst. cbn. lia.
    - destruct (p x).
      + destruct (span p r) as [a' b'] eqn:E. inversion H; subst.
        specialize (IH a' b eq_refl). lia.
      + inversion H; subst. cbn. lia.
  Qed.

  Lemma expand_ints_app (e : env) n (ovr : list string) : forall k toks acc us r3,
    (List.length toks <= k)%nat ->
    expand_ints SC e n toks acc = Ok (us, r3) ->
    expand_ints SC e n (toks ++ ovr) acc = Ok (us, (r3 ++ ovr)%list).
  Proof.
    induction k as [|k IH]; intros toks acc us r3 Hk H.
    - destruct toks; [|cbn in Hk; lia]. cbn in H. cbn [app].
      destruct ovr as [|o ovr']; [rewrite app_nil_r; exact H|].
      cbn [expand_ints].
      destruct (Nat.leb n (List.length acc)) eqn:E.
      + destruct (Nat.eqb (List.length acc) n); inversion H; subst; reflexivity.
      + destruct (Nat.eqb (List.length acc) n) eqn:E2; [|discriminate].
        apply Nat.eqb_eq in E2. apply Nat.leb_gt in E. lia.
    - destruct toks as [|t r].
      + apply (IH [] acc us r3); [cbn; lia|exact H].
      + cbn [app expand_ints] in *. cbn in Hk.
        destruct (Nat.leb n (List.length acc)).
        { destruct (Nat.eqb (List.length acc) n); inversion H; subst; reflexivity. }
        destruct (last_is "r" t).
        { destruct (count_tok t); [|discriminate].
          destruct acc as [|x acc']; [discriminate|]. apply IH; [lia|exact H]. }
        destruct (last_is "i" t).
        { destruct acc as [|lo acc']; [discriminate|].
          destruct r as [|up r']; [discriminate|]. cbn [app].
          destruct (pyfloat e up); [|discriminate].
          destruct lo; [|discriminate].
          destruct (count_tok t); [|discriminate].
          destruct (z + 1 =? 0)%Z; [discriminate|]. apply IH; [cbn in Hk; lia|exact H]. }
        destruct (last_is "m" t).
        { destruct t as [|c [|c' t']]; try discriminate;
            (destruct (pyfloat e _); [|discriminate]);
            (destruct acc as [|[v|] acc']; try discriminate); (apply IH; [lia|exact H]). }
        destruct (last_is "j" t).
        { destruct (count_tok t); [|discriminate]. apply IH; [lia|exact H]. }
        destruct (String.eqb (take_last 3 t) "log"); [discriminate|].
        destruct (pyfloat e t); [|discriminate]. apply IH; [lia|exact H].
  Qed.

  Lemma expand_ints_length (e : env) n : forall k toks acc us r3,
    (List.length toks <= k)%nat ->
    expand_ints SC e n toks acc = Ok (us, r3) -> (List.length r3 <= List.length toks)%nat.
  Proof.
    induction k as [|k IH]; intros toks acc us r3 Hk H.
    - destruct toks; [|cbn in Hk; lia]. cbn in H.
      destruct (Nat.leb n (List.length acc));
        destruct (Nat.eqb (List.length acc) n); inversion H; subst; cbn; lia.
    - destruct toks as [|t r].
      + apply (IH [] acc us r3); [cbn; lia|exact H].
      + cbn [expand_ints] in H. cbn in Hk.
        destruct (Nat.leb n (List.length acc)).
        { destruct (Nat.eqb (List.length acc) n); inversion H; subst; cbn; lia. }
        destruct (last_is "r" t).
        { destruct (count_tok t); [|discriminate].
          destruct acc as [|x acc']; [discriminate|]. apply IH in H; [cbn; lia|lia]. }
        destruct (last_is "i" t).
        { destruct acc as [|lo acc']; [discriminate|].
          destruct r as [|up r']; [discriminate|].
          destruct (pyfloat e up); [|discriminate].
          destruct lo; [|discriminate].
          destruct (count_tok t); [|discriminate].
          destruct (z + 1 =? 0)%Z; [discriminate|]. apply IH in H; [cbn; lia|cbn in Hk; lia]. }
        destruct (last_is "m" t).
        { destruct t as [|c [|c' t']]; try discriminate;
            (destruct (pyfloat e _); [|discriminate]);
            (destruct acc as [|[v|] acc']; try discriminate); (apply IH in H; [cbn; lia|lia]). }
        destruct (last_is "j" t).
        { destruct (count_tok t); [|discriminate]. apply IH in H; [cbn; lia|lia]. }
        destruct (String.eqb (take_last 3 t) "log"); [discriminate|].
        destruct (pyfloat e t); [|discriminate]. apply IH in H; [cbn; lia|lia].
  Qed.

  (* a successful expansion of n > 0 entries consumed something *)
  Lemma expand_ints_nonempty (e : env) n us r3 :
    (0 < n)%nat -> expand_ints SC e n [] [] = Ok (us, r3) -> False.
  Proof.
    intros Hn H. cbn in H. destruct n; [lia|]. cbn in H. discriminate.
  Qed.

  Lemma parse_trcl_app (e : env) elt rest ovr d rest' :
    kw_head ovr -> parse_trcl SC e elt rest = Ok (d, rest') ->
    parse_trcl SC e elt (rest ++ ovr) = Ok (d, (rest' ++ ovr)%list).
  Proof.
    intros Hk H. unfold parse_trcl in *.
    destruct (span numeric_start rest) as [ps r] eqn:E.
    rewrite (span_app numeric_start rest ovr ps r E (or_intror Hk)).
    destruct (map_opt (pyfloat e) ps); [|discriminate].
    destruct (fill_params SC true e elt ps l); cbn in *; [|discriminate].
    inversion H; subst. reflexivity.
  Qed.

  Lemma parse_fill_app (e : env) elt rest ovr d rest' :
    kw_head ovr -> parse_fill SC e elt rest = Ok (d, rest') ->
    parse_fill SC e elt (rest ++ ovr) = Ok (d, (rest' ++ ovr)%list).
  Proof.
    intros Hk H. unfold parse_fill in *.
    destruct rest as [|first r1]; [discriminate|]. cbn [app].
    destruct (contains_char ":" first).
    - destruct (span (contains_char ":") r1) as [bs r2] eqn:E.
      destruct (map_opt parse_range (first :: bs)) as [bounds|] eqn:Eb; [|discriminate].
      destruct (bounds_size bounds <=? 0)%Z eqn:Esz; [destruct (bounds_size bounds <? 0)%Z; discriminate|].
      destruct (expand_ints SC e (Z.to_nat (bounds_size bounds)) r2 []) as [[us r3]|] eqn:Ex;
        [|discriminate].
      assert (Hr2 : r2 <> []).
      { intros ->.
        apply (expand_ints_nonempty e (Z.to_nat (bounds_size bounds)) us r3); [|exact Ex].
        apply Z.leb_gt in Esz. lia. }
      rewrite (span_app _ r1 ovr bs r2 E (or_introl Hr2)).
      cbv beta iota zeta. rewrite Eb, Esz.
      rewrite (expand_ints_app e _ ovr _ r2 [] us r3 (le_n _) Ex).
      cbn [bind] in *.
      destruct (span numeric_start r3) as [ps r'] eqn:E3.
      rewrite (span_app numeric_start r3 ovr ps r' E3 (or_intror Hk)).
      destruct (map_opt (pyfloat e) ps); [|discriminate].
      destruct (fill_params SC false e elt ps l); cbn in *; [|discriminate].
      inversion H; subst. reflexivity.
    - destruct (pytrunc e first); [|discriminate]. cbn [bind] in *.
      destruct (span numeric_start r1) as [ps r'] eqn:E3.
      rewrite (span_app numeric_start r1 ovr ps r' E3 (or_intror Hk)).
      destruct (map_opt (pyfloat e) ps); [|discriminate].
      destruct (fill_params SC false e elt ps l); cbn in *; [|discriminate].
      inversion H; subst. reflexivity.
  Qed.

  (* one keyword group reads the same tokens whatever follows a complete list *)
  Lemma step_app (e : env) elt rest ovr d rest' :
    kw_head ovr -> step SC e elt rest = Ok (d, rest') ->
    step SC e elt (rest ++ ovr) = Ok (d, (rest' ++ ovr)%list).
  Proof.
    intros Hk H. unfold step in *.
    destruct (prefix "imp" elt).
    { destruct rest as [|v r]; [discriminate|]. cbn [app].
      destruct (pyfloat e v); [|discriminate]. inversion H; subst. reflexivity. }
    destruct (has "fill" elt). { apply parse_fill_app; assumption. }
    destruct (has "lat" elt).
    { unfold parse_lat in *. destruct rest as [|v r]; [discriminate|]. cbn [app].
      destruct (pyint v); [|discriminate].
      destruct ((z =? 1)%Z || (z =? 2)%Z); [|discriminate].
      inversion H; subst. reflexivity. }
    destruct (has "trcl" elt). { apply parse_trcl_app; assumption. }
    destruct (String.eqb elt "u").
    { destruct rest as [|v r]; [discriminate|]. cbn [app].
      destruct (pytrunc e v); [|discriminate]. inversion H; subst. reflexivity. }
    destruct (has "rho" elt).
    { destruct rest as [|v r]; [discriminate|]. cbn [app].
      inversion H; subst. reflexivity. }
    destruct (has "mat" elt).
    { destruct rest as [|v r]; [discriminate|]. cbn [app].
      inversion H; subst. reflexivity. }
    inversion H; subst. reflexivity.
  Qed.

  Lemma parse_fill_length (e : env) elt rest d rest' :
    parse_fill SC e elt rest = Ok (d, rest') -> (List.length rest' <= List.length rest)%nat.
  Proof.
    intros H. unfold parse_fill in H.
    destruct rest as [|first r1]; [discriminate|].
    destruct (contains_char ":" first).
    - destruct (span (contains_char ":") r1) as [bs r2] eqn:E.
      destruct (map_opt parse_range (first :: bs)) as [bounds|]; [|discriminate].
      destruct (bounds_size bounds <=? 0)%Z; [destruct (bounds_size bounds <? 0)%Z; discriminate|].
      destruct (expand_ints SC e (Z.to_nat (bounds_size bounds)) r2 []) as [[us r3]|] eqn:Ex;
        [|discriminate].
      cbn [bind] in H.
      destruct (span numeric_start r3) as [ps r'] eqn:E3.
      destruct (map_opt (pyfloat e) ps); [|discriminate].
      destruct (fill_params SC false e elt ps l); cbn in H; [|discriminate].
      inversion H; subst.
      apply span_length in E. apply span_length in E3. apply (expand_ints_length e _ _ r2 [] us r3 (le_n _)) in Ex.
      cbn. lia.
    - destruct (pytrunc e first); [|discriminate]. cbn [bind] in H.
      destruct (span numeric_start r1) as [ps r'] eqn:E3.
      destruct (map_opt (pyfloat e) ps); [|discriminate].
      destruct (fill_params SC false e elt ps l); cbn in H; [|discriminate].
      inversion H; subst. apply span_length in E3. cbn. lia.
  Qed.

  Lemma step_length (e : env) elt rest d rest' :
    step SC e elt rest = Ok (d, rest') -> (List.length rest' <= List.length rest)%nat.
  Proof.
    intros H. unfold step in H.
    destruct (prefix "imp" elt).
    { destruct rest as [|v r]; [discriminate|].
      destruct (pyfloat e v); [|discriminate]. inversion H; subst. cbn. lia. }
    destruct (has "fill" elt). { eapply parse_fill_length; eassumption. }
    destruct (has "lat" elt).
    { unfold parse_lat in H. destruct rest as [|v r]; [discriminate|].
      destruct (pyint v); [|discriminate].
      destruct ((z =? 1)%Z || (z =? 2)%Z); [|discriminate].
      inversion H; subst. cbn. lia. }
    destruct (has "trcl" elt).
    { unfold parse_trcl in H.
      destruct (span numeric_start rest) as [ps r] eqn:E.
      destruct (map_opt (pyfloat e) ps); [|discriminate].
      destruct (fill_params SC true e elt ps l); cbn in H; [|discriminate].
      inversion H; subst. eapply span_length; eassumption. }
    destruct (String.eqb elt "u").
    { destruct rest as [|v r]; [discriminate|].
      destruct (pytrunc e v); [|discriminate]. inversion H; subst. cbn. lia. }
    destruct (has "rho" elt).
    { destruct rest as [|v r]; [discriminate|]. inversion H; subst. cbn. lia. }
    destruct (has "mat" elt).
    { destruct rest as [|v r]; [discriminate|]. inversion H; subst. cbn. lia. }
    inversion H; subst. lia.
  Qed.

  (* fuel: any amount >= the number of tokens gives the same answer *)
  Lemma parse_from_fuel (e : env) f1 : forall f2 st toks,
    (List.length toks <= f1)%nat -> (List.length toks <= f2)%nat ->
    parse_from SC f1 e st toks = parse_from SC f2 e st toks.
  Proof.
    induction f1 as [|f1 IH]; intros f2 st toks H1 H2.
    - destruct toks; [destruct f2; reflexivity|cbn in H1; lia].
    - destruct toks as [|elt rest]; [destruct f2; reflexivity|].
      destruct f2 as [|f2]; [cbn in H2; lia|].
      cbn [parse_from]. destruct (step SC e elt rest) as [[d rest']|] eqn:E; [|reflexivity].
      cbn [bind]. apply step_length in E. cbn in H1, H2. apply IH; lia.
  Qed.

  (* appending a complete option list [ovr]: the dictionary after [opts] is the
     starting dictionary of [ovr] *)
  Lemma parse_from_app (e : env) f : forall opts st st1 ovr g,
    (List.length opts <= f)%nat -> parse_from SC f e st opts = Ok st1 ->
    kw_head ovr -> (List.length ovr <= g)%nat ->
    parse_from SC (f + g) e st (opts ++ ovr) = parse_from SC g e st1 ovr.
  Proof.
    induction f as [|f IH]; intros opts st st1 ovr g Hl H Hk Hg.
    - destruct opts; [|cbn in Hl; lia]. cbn in H. inversion H; subst. reflexivity.
    - destruct opts as [|elt rest].
      + cbn in H. inversion H; subst. cbn [app]. apply parse_from_fuel; lia.
      + cbn [app]. cbn [Nat.add parse_from] in *.
        destruct (step SC e elt rest) as [[d rest']|] eqn:E; [|discriminate].
        rewrite (step_app e elt rest ovr d rest' Hk E). cbn [bind] in *.
        apply step_length in E. cbn in Hl. apply IH; try assumption; lia.
  Qed.

  Theorem parse_kws_app (e : env) (opts ovr : list string) (k1 : kws) :
    parse_kws SC e opts = Ok k1 -> kw_head ovr ->
    parse_kws SC e (opts ++ ovr) = parse_from SC (List.length ovr) e k1 ovr.
  Proof.
    intros H Hk. unfold parse_kws in *. rewrite app_length.
    apply parse_from_app; auto.
  Qed.

  (* ---- the dictionary after [ovr] is the merge [upd] ---- *)
  Lemma upd_assoc (st a d : kws) : upd (upd st a) d = upd st (upd a d).
  Proof.
    destruct st as [i1 fb1 fu1 fp1 l1 t1 u1 r1 m1].
    destruct a as [i2 fb2 fu2 fp2 l2 t2 u2 r2 m2].
    destruct d as [i3 fb3 fu3 fp3 l3 t3 u3 r3 m3].
    unfold upd; cbn.
    f_equal.
    - symmetry. apply app_assoc.
    - destruct fu3, fu2; reflexivity.
    - destruct fu3, fu2; reflexivity.
    - destruct fu3, fu2; reflexivity.
    - destruct l3, l2; reflexivity.
    - destruct t3, t2; reflexivity.
    - destruct u3, u2; reflexivity.
    - destruct r3, r2; reflexivity.
    - destruct m3, m2; reflexivity.
  Qed.

  Lemma upd_kempty_r (st : kws) : upd st kempty = st.
  Proof. destruct st. unfold upd, kempty; cbn. rewrite app_nil_r. reflexivity. Qed.

  Lemma parse_from_upd (e : env) f : forall toks st a r,
    parse_from SC f e a toks = Ok r ->
    parse_from SC f e (upd st a) toks = Ok (upd st r).
  Proof.
    induction f as [|f IH]; intros toks st a r H.
    - destruct toks; [|discriminate]. cbn in *. inversion H; subst. reflexivity.
    - destruct toks as [|elt rest].
      + cbn in *. inversion H; subst. reflexivity.
      + cbn [parse_from] in *.
        destruct (step SC e elt rest) as [[d rest']|]; [|discriminate].
        cbn [bind] in *. rewrite upd_assoc. apply IH, H.
  Qed.

  Theorem keywords_later_wins (e : env) (opts ovr : list string) (k1 k2 : kws) :
    parse_kws SC e opts = Ok k1 -> parse_kws SC e ovr = Ok k2 -> kw_head ovr ->
    parse_kws SC e (opts ++ ovr) = Ok (upd k1 k2).
  Proof.
    intros H1 H2 Hk. rewrite (parse_kws_app e opts ovr k1 H1 Hk).
    unfold parse_kws in H2.
    rewrite <- (upd_kempty_r k1) at 1. apply parse_from_upd, H2.
  Qed.
End Keywords.

(* ------------------------------------- importance, particle by particle *)
Section Importance.
  Context {T : Type} (SC : Scalar T).

  (* the last value written for particle p in a list of IMP entries *)
  Definition imp_last (log : list (string * T)) (p : string) : option T :=
    fold_left (fun acc qv => if String.eqb (fst qv) p then Some (snd qv) else acc) log None.

  Fixpoint assoc_find (l : list (string * T)) (p : string) : option T :=
    match l with
    | [] => None
    | (q, w) :: r => if String.eqb q p then Some w else assoc_find r p
    end.

  Lemma assoc_find_set1 l q v p :
    assoc_find (set1 l q v) p = if String.eqb q p then Some v else assoc_find l p.
  Proof.
    induction l as [|[q' w] r IH]; cbn.
    - reflexivity.
    - destruct (String.eqb q' q) eqn:E.
      + apply String.eqb_eq in E. subst q'. cbn. destruct (String.eqb q p); reflexivity.
      + cbn. rewrite IH. destruct (String.eqb q' p) eqn:E2; [|reflexivity].
        destruct (String.eqb q p) eqn:E3; [|reflexivity].
        apply String.eqb_eq in E2. apply String.eqb_eq in E3. subst.
        rewrite String.eqb_refl in E. discriminate.
  Qed.

  Lemma imp_dict_gen log : forall acc p,
    assoc_find (fold_left (fun a pv => set1 a (fst pv) (snd pv)) log acc) p =
    fold_left (fun a qv => if String.eqb (fst qv) p then Some (snd qv) else a) log (assoc_find acc p).
  Proof.
    induction log as [|[q v] r IH]; intros acc p; cbn [fold_left fst snd]; [reflexivity|].
    rewrite IH, assoc_find_set1. reflexivity.
  Qed.

  (* imp_by_particle[p] at the end of parse_keywords *)
  Lemma imp_dict_last log p : assoc_find (imp_dict log) p = imp_last log p.
  Proof. unfold imp_dict, imp_last. rewrite imp_dict_gen. reflexivity. Qed.

  Lemma imp_last_gen log p : forall acc,
    fold_left (fun a qv => if String.eqb (fst qv) p then Some (snd qv) else a) log acc =
    match imp_last log p with Some v => Some v | None => acc end.
  Proof.
    unfold imp_last. induction log as [|[q v] r IH]; intros acc; cbn [fold_left fst snd]; [reflexivity|].
    rewrite IH. rewrite (IH (if String.eqb q p then Some v else None)).
    destruct (fold_left _ r None); [reflexivity|]. destruct (String.eqb q p); reflexivity.
  Qed.

  (* a later entry replaces an earlier one for the same particle *)
  Lemma imp_last_app l1 l2 p :
    imp_last (l1 ++ l2) p = match imp_last l2 p with Some v => Some v | None => imp_last l1 p end.
  Proof. unfold imp_last at 1. rewrite fold_left_app. apply imp_last_gen. Qed.
End Importance.

(* -------------------------------------------------------- LIKE chains *)
Section Chains.
  Context {T : Type} (SC : Scalar T).
  Notation env := (env (T:=T)).

  Definition geom_of (c : card) : string := snd (fst c).
  Definition opts_of (c : card) : string := snd c.
  Definition is_explicit (c : card) : Prop := search_like (lower (geom_of c)) = None.

  (* [denotes tbl n d x]: cell n of the table stands for the explicit card x,
     obtained by copying the card that n refers to (itself expanded first,
     d levels deep) and appending n's own BUT text *)
  Inductive denotes (tbl : table) : Z -> nat -> card -> Prop :=
  | den_explicit n c :
      lookup n tbl = Some c -> is_explicit c -> denotes tbl n 0 c
  | den_like n m mat g o d x :
      lookup n tbl = Some (mat, g, o) -> search_like (lower g) = Some m ->
      denotes tbl m d x -> denotes tbl n (S d) (apply_but x o).

  Lemma apply_but_geom x o : geom_of (apply_but x o) = geom_of x.
  Proof. destruct x as [[m g] o']. reflexivity. Qed.

  Lemma denotes_explicit tbl n d x : denotes tbl n d x -> is_explicit x.
  Proof.
    induction 1 as [n c _ Hc|n m mat g o d x _ _ _ IH]; [exact Hc|].
    unfold is_explicit in *. rewrite apply_but_geom. exact IH.
  Qed.

  Lemma apply_but_assoc x o1 o2 :
    apply_but x (o1 ++ " " ++ o2) = apply_but (apply_but x o1) o2.
  Proof.
    destruct x as [[m g] o]. unfold apply_but. f_equal.
    cbn [append]. rewrite sapp_assoc. cbn [append]. reflexivity.
  Qed.

  Lemma resolve_explicit fuel tbl c : is_explicit c -> resolve_like fuel tbl c = Ok c.
  Proof.
    intros H. destruct c as [[m g] o]. unfold is_explicit, geom_of in H. cbn [fst snd] in H.
    destruct fuel; cbn [resolve_like]; rewrite H; reflexivity.
  Qed.

  (* the loop of parse_one_cell, walking outwards-in and gluing the BUT texts,
     ends on the card that the inside-out expansion gives *)
  Lemma resolve_denotes tbl m d x :
    denotes tbl m d x ->
    forall fuel mat0 g0 o, (d < fuel)%nat -> search_like (lower g0) = Some m ->
    resolve_like fuel tbl (mat0, g0, o) = Ok (apply_but x o).
  Proof.
    induction 1 as [n c Hl Hc|n m mat g o' d x Hl Hs _ IH]; intros fuel mat0 g0 o Hf Hg.
    - destruct fuel as [|f]; [lia|]. cbn [resolve_like]. rewrite Hg, Hl.
      apply resolve_explicit. unfold is_explicit in *. rewrite apply_but_geom. exact Hc.
    - destruct fuel as [|f]; [lia|]. cbn [resolve_like]. rewrite Hg, Hl.
      cbn [apply_but]. rewrite (IH f mat g (o' ++ " " ++ o) ltac:(lia) Hs).
      now rewrite apply_but_assoc.
  Qed.

  Theorem like_equals_expanded_text (e : env) tbl fuel rank lat mat0 g0 o n d x :
    search_like (lower g0) = Some n -> denotes tbl n d x -> (d < fuel)%nat ->
    parse_one_cell SC fuel e tbl rank lat (mat0, g0, o) = worker SC e rank lat (apply_but x o).
  Proof.
    intros Hg Hd Hf. unfold parse_one_cell.
    rewrite (resolve_denotes tbl n d x Hd fuel mat0 g0 o Hf Hg). reflexivity.
  Qed.

  (* the explicit cell n itself *)
  Theorem explicit_cell (e : env) tbl fuel rank lat c :
    is_explicit c -> parse_one_cell SC fuel e tbl rank lat c = worker SC e rank lat c.
  Proof. intros H. unfold parse_one_cell. rewrite resolve_explicit; auto. Qed.

  (* LIKE n BUT o is the cell built from the material and the geometry of the
     card that n stands for and from n's keyword dictionary overridden by o *)
  Theorem like_equals_expanded (e : env) tbl fuel rank lat mat0 g0 o n d mx gx ox kb ko :
    search_like (lower g0) = Some n -> denotes tbl n d (mx, gx, ox) -> (d < fuel)%nat ->
    sq_state false ox = false -> leads_colon o = false -> kw_head (tokenize o) ->
    parse_kws SC e (tokenize ox) = Ok kb -> parse_kws SC e (tokenize o) = Ok ko ->
    parse_one_cell SC fuel e tbl rank lat (mat0, g0, o) =
    (parse_material e mx >>= fun '(mid, rho) =>
     match getast e gx with
     | None => Err EParse
     | Some ast => finish_cell SC e rank lat mid rho ast (upd kb ko)
     end).
  Proof.
    intros Hg Hd Hf Hox Ho Hk Hb Hko.
    rewrite (like_equals_expanded_text e tbl fuel rank lat mat0 g0 o n d _ Hg Hd Hf).
    unfold worker. cbn [apply_but].
    rewrite (tokenize_app ox o Hox Ho).
    rewrite (keywords_later_wins SC e _ _ kb ko Hb Hko Hk).
    destruct (parse_material e mx) as [[mid rho]|]; [|reflexivity].
    cbn [bind]. destruct (getast e gx); reflexivity.
  Qed.

  (* ... while cell n itself is the same expression with n's own dictionary *)
  Theorem base_cell (e : env) tbl fuel rank lat mx gx ox kb :
    is_explicit (mx, gx, ox) -> parse_kws SC e (tokenize ox) = Ok kb ->
    parse_one_cell SC fuel e tbl rank lat (mx, gx, ox) =
    (parse_material e mx >>= fun '(mid, rho) =>
     match getast e gx with
     | None => Err EParse
     | Some ast => finish_cell SC e rank lat mid rho ast kb
     end).
  Proof.
    intros Hx Hb. rewrite explicit_cell by exact Hx. unfold worker. rewrite Hb.
    destruct (parse_material e mx) as [[mid rho]|]; [|reflexivity].
    cbn [bind]. destruct (getast e gx); reflexivity.
  Qed.
End Chains.

(* -------------------- BUT IMP:N=0 on a card that says IMP:N=1 (fix 0b05eba) *)
Section Witness.
  Context {T : Type} (SC : Scalar T) (v0 v1 : T).

  (* float("0") = v0, float("1") = v1, nothing else is a number *)
  Definition wenv : env (T:=T) :=
    mkEnv (fun s => if String.eqb s "0" then Some v0
                    else if String.eqb s "1" then Some v1 else None)
          (fun _ => None) (fun _ => 0%Z) (fun _ => None) (fun _ => None) (fun v => Ok v)
          (fun s => s) (fun s => Some s) [] (fun _ => None).

  Definition wtbl : table :=
    [(1%Z, (" 1 -1.0", " -1 ", "imp:n=1 imp:p=0")); (2%Z, ("", " like 1 but", " imp:n=0"))].

  (* the copy has importance max(n: v0, p: v0) = v0, like the card it abbreviates *)
  Lemma witness_like :
    parse_one_cell SC 2 wenv wtbl 1 None ("", " like 1 but", " imp:n=0") =
    parse_one_cell SC 2 wenv wtbl 1 None (" 1 -1.0", " -1 ", "imp:n=0 imp:p=0").
  Proof. vm_compute. reflexivity. Qed.

  Lemma witness_like_value :
    parse_one_cell SC 2 wenv wtbl 1 None ("", " like 1 but", " imp:n=0") =
    Ok (mkCell "1" (Some "-1.0") " -1 " (pmax SC v0 v0) 0%Z None None None None).
  Proof. vm_compute. reflexivity. Qed.
End Witness.

(* ------------------------------ a chain of two LIKE cards (non-vacuity) *)
Section Example.
  Context {T : Type} (SC : Scalar T) (v0 v1 : T).

  Definition xtbl : table :=
    [(1%Z, (" 1 -1.0", " -1 ", "imp:n=0"));
     (2%Z, ("", " like 1 but", " MAT=2 imp:n=1"));
     (3%Z, ("", " LIKE 2 BUT", " rho = -2.5 *TRCL=( 0 )"))].

  Definition x_ox : string := "imp:n=0  MAT=2 imp:n=1".
  Definition x_kb : kws (T:=T) :=
    mkKws [("n", v0); ("n", v1)] None None None None None None None (Some "2").
  Definition x_ko : kws (T:=T) :=
    mkKws [] None None None None (Some [v0]) None (Some "-2.5") None.

  (* TR0 is the only TR card of the example *)
  Definition xenv : env (T:=T) :=
    mkEnv (fun s => if String.eqb s "0" then Some v0
                    else if String.eqb s "1" then Some v1 else None)
          (fun s => if String.eqb s "0" then Some 0%Z else None)
          (fun _ => 0%Z) (fun s => if String.eqb s "0" then Some 0%Z else None)
          (fun n => if (n =? 0)%Z then Some [v0] else None) (fun v => Ok v)
          (fun s => s) (fun s => Some s) [] (fun _ => None).

  Lemma example_hyps :
    search_like (lower " LIKE 2 BUT") = Some 2%Z /\
    denotes xtbl 2 1 (" 1 -1.0", " -1 ", x_ox) /\
    sq_state false x_ox = false /\
    leads_colon " rho = -2.5 *TRCL=( 0 )" = false /\
    kw_head (tokenize " rho = -2.5 *TRCL=( 0 )") /\
    parse_kws SC xenv (tokenize x_ox) = Ok x_kb /\
    parse_kws SC xenv (tokenize " rho = -2.5 *TRCL=( 0 )") = Ok x_ko.
  Proof.
    split; [vm_compute; reflexivity|].
    split.
    { change (" 1 -1.0", " -1 ", x_ox) with
        (apply_but (" 1 -1.0", " -1 ", "imp:n=0") " MAT=2 imp:n=1").
      eapply den_like with (m := 1%Z) (mat := "") (g := " like 1 but");
        [vm_compute; reflexivity|vm_compute; reflexivity|].
      apply den_explicit; vm_compute; reflexivity. }
    repeat split; vm_compute; reflexivity.
  Qed.
End Example.

(* LIKE n BUT o and the card n stands for, side by side *)
Theorem like_equals_expanded_full {T : Type} (SC : Scalar T) (e : env (T:=T))
    tbl fuel rank lat mat0 g0 o n d mx gx ox kb ko :
  search_like (lower g0) = Some n -> denotes tbl n d (mx, gx, ox) -> (d < fuel)%nat ->
  sq_state false ox = false -> leads_colon o = false -> kw_head (tokenize o) ->
  parse_kws SC e (tokenize ox) = Ok kb -> parse_kws SC e (tokenize o) = Ok ko ->
  parse_one_cell SC fuel e tbl rank lat (mat0, g0, o) =
  (parse_material e mx >>= fun '(mid, rho) =>
   match getast e gx with
   | None => Err EParse
   | Some ast => finish_cell SC e rank lat mid rho ast (upd kb ko)
   end) /\
  parse_one_cell SC fuel e tbl rank lat (mx, gx, ox) =
  (parse_material e mx >>= fun '(mid, rho) =>
   match getast e gx with
   | None => Err EParse
   | Some ast => finish_cell SC e rank lat mid rho ast kb
   end).
Proof.
  intros Hg Hd Hf Hox Ho Hk Hb Hko. split.
  - apply (like_equals_expanded SC e tbl fuel rank lat mat0 g0 o n d mx gx ox kb ko); assumption.
  - apply base_cell; [|exact Hb]. exact (denotes_explicit tbl n d _ Hd).
Qed.

(* what [upd kb ko] holds, entry by entry *)
Theorem upd_fields {T : Type} (k1 k2 : kws (T:=T)) :
  let k := upd k1 k2 in
  k_mat k = orelse (k_mat k2) (k_mat k1) /\
  k_rho k = orelse (k_rho k2) (k_rho k1) /\
  k_u k = orelse (k_u k2) (k_u k1) /\
  k_trcl k = orelse (k_trcl k2) (k_trcl k1) /\
  k_lat k = orelse (k_lat k2) (k_lat k1) /\
  (k_fb k, k_fu k, k_fp k) =
    match k_fu k2 with
    | Some _ => (k_fb k2, k_fu k2, k_fp k2)
    | None => (k_fb k1, k_fu k1, k_fp k1)
    end /\
  forall p, imp_last (k_impl k) p =
            match imp_last (k_impl k2) p with Some v => Some v | None => imp_last (k_impl k1) p end.
Proof.
  cbv zeta. repeat split.
  - unfold upd; cbn. destruct (k_fu k2); reflexivity.
  - intros p. unfold upd; cbn. apply imp_last_app.
Qed.

(* ------------------------- BUT MAT=0: the copy is the explicit void card *)
Section VoidOverride.
  Context {T : Type} (SC : Scalar T).

  (* the dictionary of the explicit card: MAT and RHO exist in BUT lists only *)
  Definition drop_mat_rho (k : kws (T:=T)) : kws :=
    mkKws (k_impl k) (k_fb k) (k_fu k) (k_fp k) (k_lat k) (k_trcl k) (k_u k) None None.

  (* a cell whose dictionary says MAT=m with int(m) = 0 is the cell of the void
     card "m <geometry> <the other keywords>": material token m, no density *)
  Lemma finish_cell_void (e : env (T:=T)) rank lat mid rho ast (k : kws (T:=T)) m :
    k_mat k = Some m -> pyint m = Some 0%Z ->
    finish_cell SC e rank lat mid rho ast k = finish_cell SC e rank lat m None ast (drop_mat_rho k).
  Proof.
    intros Hm H0. unfold finish_cell, drop_mat_rho. cbn [k_impl k_u k_mat k_rho k_fp k_lat k_trcl].
    rewrite Hm, H0.
    destruct (match imp_value SC (k_impl k) with Some v => Ok v | None =>
                match nth_error (imps e) rank with Some v => Ok v | None => Err EParse end end);
      [|reflexivity].
    cbn [bind]. reflexivity.
  Qed.

  Theorem like_mat_void (e : env (T:=T)) tbl fuel rank lat mat0 g0 o n d mx gx ox kb ko m :
    search_like (lower g0) = Some n -> denotes tbl n d (mx, gx, ox) -> (d < fuel)%nat ->
    sq_state false ox = false -> leads_colon o = false -> kw_head (tokenize o) ->
    parse_kws SC e (tokenize ox) = Ok kb -> parse_kws SC e (tokenize o) = Ok ko ->
    k_mat ko = Some m -> pyint m = Some 0%Z ->
    parse_one_cell SC fuel e tbl rank lat (mat0, g0, o) =
    (parse_material e mx >>= fun _ =>
     match getast e gx with
     | None => Err EParse
     | Some ast => finish_cell SC e rank lat m None ast (drop_mat_rho (upd kb ko))
     end).
  Proof.
    intros Hg Hd Hf Hox Ho Hk Hb Hko Hm H0.
    rewrite (like_equals_expanded SC e tbl fuel rank lat mat0 g0 o n d mx gx ox kb ko
               Hg Hd Hf Hox Ho Hk Hb Hko).
    destruct (parse_material e mx) as [[mid rho]|]; [|reflexivity].
    cbn [bind]. destruct (getast e gx); [|reflexivity].
    apply finish_cell_void; [|exact H0]. unfold upd; cbn. rewrite Hm. reflexivity.
  Qed.
End VoidOverride.

Section WitnessVoid.
  Context {T : Type} (SC : Scalar T) (v0 v1 : T).

  Definition vtbl : table :=
    [(1%Z, (" 1 -1.0", " -1 ", "imp:n=1")); (2%Z, ("", " like 1 but", " mat=0"))].

  Lemma witness_void_like :
    parse_one_cell SC 2 (wenv v0 v1) vtbl 1 None ("", " like 1 but", " mat=0") =
    parse_one_cell SC 2 (wenv v0 v1) vtbl 1 None (" 0", " -1 ", "imp:n=1").
  Proof. vm_compute. reflexivity. Qed.
End WitnessVoid.

(* ------------------------------------------------- LIKE_RE on split's text *)
Lemma digit_not_ws c : is_digit c = true -> is_ws c = false.
Proof.
  unfold is_digit, is_ws. intros H. apply andb_true_iff in H. destruct H as [H1 H2].
  apply N.leb_le in H1. apply N.leb_le in H2.
  apply orb_false_iff. split.
  - apply N.eqb_neq. lia.
  - apply andb_false_iff. right. apply N.leb_gt. lia.
Qed.

Lemma span_digits_app ds rest :
  all_digits ds = true -> (match rest with String c _ => is_digit c = false | EmptyString => True end) ->
  span_digits (ds ++ rest) = (ds, rest).
Proof.
  induction ds as [|c r IH]; intros Hd Hr.
  - cbn. destruct rest as [|c r]; [reflexivity|]. cbn. rewrite Hr. reflexivity.
  - cbn in Hd. apply andb_true_iff in Hd. destruct Hd as [Hc Hd].
    cbn. rewrite Hc, (IH Hd Hr). reflexivity.
Qed.

(* LIKE_RE recognises the geometry text that split gives for "N LIKE n BUT ...",
   whatever the digits of n *)
Lemma like_re_recognises (ds : string) :
  all_digits ds = true -> ds <> EmptyString ->
  search_like (" like " ++ ds ++ " but") = Some (Z.of_N (parse_digits ds 0%N)).
Proof.
  intros Hd Hn. destruct ds as [|c r]; [congruence|].
  assert (Hc : is_digit c = true) by (cbn in Hd; apply andb_true_iff in Hd; tauto).
  cbn [append search_like].
  change (match_like_at (String " " (String "l" (String "i" (String "k" (String "e" (String " " (String c (r ++ " but")))))))))
    with (@None Z).
  cbn [search_like]. unfold match_like_at at 1.
  change (prefix "like" (String "l" (String "i" (String "k" (String "e" (String " " (String c (r ++ " but")))))))) with true.
  cbn [sdrop starts_ws]. change (is_ws " ") with true. cbn [skip_ws].
  change (is_ws " ") with true. cbn iota.
  rewrite (digit_not_ws c Hc).
  change (String c (r ++ " but")) with (String c r ++ " but").
  rewrite (span_digits_app (String c r) " but" Hd eq_refl).
  reflexivity.
Qed.

(* ------------------------------------------------ cellcard.split, LIKE branch *)
Lemma slength_app (a b : string) : String.length (a ++ b) = (String.length a + String.length b)%nat.
Proof. induction a as [|c a IH]; cbn; [reflexivity|now rewrite IH]. Qed.

Lemma substring_app (a b : string) : substring 0 (String.length a) (a ++ b) = a.
Proof. induction a as [|c a IH]; cbn; [destruct b; reflexivity|now rewrite IH]. Qed.

Lemma sdrop_app (a b : string) : sdrop (String.length a) (a ++ b) = b.
Proof. induction a as [|c a IH]; cbn; [reflexivity|exact IH]. Qed.

Lemma slength_smap f (s : string) : String.length (smap f s) = String.length s.
Proof. induction s as [|c s IH]; cbn; [reflexivity|now rewrite IH]. Qed.

Lemma substring_0_0 (s : string) : substring 0 0 s = EmptyString.
Proof. destruct s; reflexivity. Qed.

Lemma is_ws_lower (a : ascii) : is_ws (lower_char a) = is_ws a.
Proof. destruct a as [[] [] [] [] [] [] [] []]; vm_compute; reflexivity. Qed.

Lemma lower_app (a b : string) : lower (a ++ b) = lower a ++ lower b.
Proof. apply smap_app. Qed.

(* no "but" (any case) starts anywhere in s *)
Lemma last_but_none (s : string) : has "but" (lower s) = false -> last_but s = None.
Proof.
  induction s as [|c r IH]; intros H; [reflexivity|].
  cbn [lower smap has] in H. apply orb_false_iff in H. destruct H as [H1 H2].
  cbn [last_but]. rewrite (IH H2). cbn [lower smap]. rewrite H1. reflexivity.
Qed.

Lemma last_but_skip (x s : string) k :
  last_but s = Some k -> last_but (x ++ s) = Some (String.length x + k)%nat.
Proof.
  intros H. induction x as [|c x IH]; [exact H|].
  cbn [append last_but String.length]. rewrite IH. reflexivity.
Qed.

Lemma last_but_B (B rest : string) :
  lower B = "but" -> has "but" (lower rest) = false -> last_but (B ++ rest) = Some 3%nat.
Proof.
  intros HB Hr.
  destruct B as [|b1 [|b2 [|b3 [|b4 B']]]]; try discriminate HB.
  cbn [lower smap] in HB. injection HB as H1 H2 H3.
  cbn [append last_but]. rewrite (last_but_none rest Hr).
  cbn [lower smap]. rewrite H1, H2, H3.
  cbn. destruct (smap lower_char rest); reflexivity.
Qed.

Lemma digit_is_digit_head (name : string) : all_digits name = true -> name <> EmptyString ->
  skip_ws name = name /\ forall t, skip_ws (name ++ t) = name ++ t.
Proof.
  intros Hd Hn. destruct name as [|c r]; [congruence|].
  cbn in Hd. apply andb_true_iff in Hd. destruct Hd as [Hc _].
  split; [cbn; now rewrite (digit_not_ws c Hc)|intros t; cbn; now rewrite (digit_not_ws c Hc)].
Qed.

Theorem split_like_card (name L ds B rest : string) :
  all_digits name = true -> name <> EmptyString -> lower L = "like" ->
  all_digits ds = true -> lower B = "but" -> has "but" (lower rest) = false ->
  split_like (name ++ " " ++ L ++ " " ++ ds ++ " " ++ B ++ rest) =
  Some (name, " " ++ L ++ " " ++ ds ++ " " ++ B, rest).
Proof.
  intros Hname Hne HL Hds HB Hrest.
  destruct L as [|l1 [|l2 [|l3 [|l4 [|l5 L']]]]]; try discriminate HL.
  pose proof HL as HL'. cbn [lower smap] in HL'. injection HL' as E1 E2 E3 E4.
  unfold split_like.
  destruct (digit_is_digit_head name Hname Hne) as [_ Hskip]. rewrite Hskip.
  cbn [append].
  rewrite span_digits_app by (assumption || reflexivity).
  destruct name as [|n0 name'] eqn:En; [congruence|]. rewrite <- En.
  assert (Hl1 : is_ws l1 = false).
  { rewrite <- is_ws_lower, E1. reflexivity. }
  cbn [append starts_ws skip_ws]. change (is_ws " ") with true. cbn iota.
  rewrite Hl1. cbn [andb].
  cbn [lower smap prefix]. rewrite E1, E2, E3, E4. cbn [prefix].
  replace (if ascii_dec "l" "l" then _ else _) with true by reflexivity.
  (* lead = 1 *)
  set (tail := ds ++ String " " (B ++ rest)).
  cbn [String.length]. rewrite Nat.sub_diag.
  replace (S (S (S (S (S (S (String.length tail))))))
           - S (S (S (S (S (String.length tail))))))%nat with 1%nat by lia.
  cbn [Nat.add sdrop].
  assert (Hlast : last_but (String " " tail) = Some (String.length (" " ++ ds ++ " ") + 3)%nat).
  { unfold tail.
    replace (String " " (ds ++ String " " (B ++ rest))) with ((" " ++ ds ++ " ") ++ (B ++ rest))
      by (cbn [append]; rewrite sapp_assoc; reflexivity).
    apply last_but_skip, last_but_B; assumption. }
  rewrite Hlast. rewrite substring_0_0. cbn [append].
  assert (HlB : String.length B = 3%nat).
  { rewrite <- (slength_smap lower_char B). change (smap lower_char B) with (lower B).
    rewrite HB. reflexivity. }
  set (P := String " " (String l1 (String l2 (String l3 (String l4
              (String " " (ds ++ String " " B))))))).
  assert (HG : String " " (String l1 (String l2 (String l3 (String l4 (String " " tail)))))
               = P ++ rest).
  { unfold P, tail. cbn [append]. do 6 f_equal. rewrite sapp_assoc. reflexivity. }
  assert (HG2 : String " " tail = (String " " (ds ++ " ") ++ B) ++ rest).
  { unfold tail. cbn [append]. f_equal. rewrite !sapp_assoc. reflexivity. }
  assert (HlP : (S (S (S (S (S (String.length (String " " (ds ++ " ")) + 3))))))%nat
                = String.length P).
  { unfold P. cbn [String.length]. rewrite !slength_app. cbn [String.length]. lia. }
  assert (Hl2 : (String.length (String " " (ds ++ " ")) + 3)%nat
                = String.length (String " " (ds ++ " ") ++ B)).
  { rewrite slength_app. lia. }
  rewrite HG, HlP, substring_app. rewrite HG2, Hl2, sdrop_app. reflexivity.
Qed.

Lemma lower_digit (c : ascii) : is_digit c = true -> lower_char c = c.
Proof.
  unfold is_digit, lower_char. intros H. apply andb_true_iff in H. destruct H as [H1 H2].
  apply N.leb_le in H1. apply N.leb_le in H2.
  destruct ((65 <=? N_of_ascii c) && (N_of_ascii c <=? 90))%N eqn:E; [|reflexivity].
  apply andb_true_iff in E. destruct E as [E1 E2]. apply N.leb_le in E1. lia.
Qed.

Lemma lower_digits (ds : string) : all_digits ds = true -> lower ds = ds.
Proof.
  induction ds as [|c r IH]; intros H; [reflexivity|].
  cbn in H. apply andb_true_iff in H. destruct H as [Hc Hr].
  cbn [lower smap]. rewrite (lower_digit c Hc). f_equal. apply IH, Hr.
Qed.

(* ... and LIKE_RE finds n in the geometry text that split returns *)
Theorem split_then_like_re (L ds B : string) :
  lower L = "like" -> all_digits ds = true -> ds <> EmptyString -> lower B = "but" ->
  search_like (lower (" " ++ L ++ " " ++ ds ++ " " ++ B)) = Some (Z.of_N (parse_digits ds 0%N)).
Proof.
  intros HL Hd Hn HB.
  rewrite !lower_app, HL, HB, (lower_digits ds Hd).
  change (lower " ") with " ". apply (like_re_recognises ds Hd Hn).
Qed.
(* ---- the fuel of parse_all (number of cards) is enough for every chain ---- *)
Lemma lookup_in n tbl : forall c, lookup n tbl = Some c -> In n (map fst tbl).
Proof.
  induction tbl as [|[m c'] r IH]; intros c; cbn; [discriminate|].
  destruct (lookup n r) eqn:E.
  - intros _. right. eapply IH. reflexivity.
  - destruct (n =? m)%Z eqn:E2; [|discriminate].
    intros _. left. apply Z.eqb_eq in E2. congruence.
Qed.

Lemma denotes_fun tbl n d x : denotes tbl n d x -> forall d' x', denotes tbl n d' x' -> d = d' /\ x = x'.
Proof.
  induction 1 as [n c Hl Hc|n m mat g o d x Hl Hs Hd IH]; intros d' x' H'.
  - inversion H' as [n' c' Hl' Hc'|n' m' mat' g' o' d'' x'' Hl' Hs' Hd']; subst.
    + rewrite Hl in Hl'. inversion Hl'; subst. split; reflexivity.
    + rewrite Hl in Hl'. inversion Hl'; subst.
      unfold is_explicit, geom_of in Hc. cbn [fst snd] in Hc. congruence.
  - inversion H' as [n' c' Hl' Hc'|n' m' mat' g' o' d'' x'' Hl' Hs' Hd']; subst.
    + rewrite Hl in Hl'. inversion Hl'; subst.
      unfold is_explicit, geom_of in Hc'. cbn [fst snd] in Hc'. congruence.
    + rewrite Hl in Hl'. inversion Hl'; subst. rewrite Hs in Hs'. inversion Hs'; subst.
      destruct (IH _ _ Hd') as [-> ->]. split; reflexivity.
Qed.

Lemma denotes_chain tbl n d x : denotes tbl n d x ->
  exists ids, List.length ids = S d /\ NoDup ids /\ incl ids (map fst tbl) /\
              forall m, In m ids -> exists d' x', (d' <= d)%nat /\ denotes tbl m d' x'.
Proof.
  induction 1 as [n c Hl Hc|n m mat g o d x Hl Hs Hd IH].
  - exists [n]. repeat split.
    + constructor; [intros []|constructor].
    + intros k [<-|[]]. eapply lookup_in; eassumption.
    + intros k [<-|[]]. exists 0%nat, c. split; [lia|]. constructor; assumption.
  - destruct IH as (ids & Hlen & Hnd & Hin & Hall).
    assert (Hn : denotes tbl n (S d) (apply_but x o)) by (econstructor; eassumption).
    exists (n :: ids). repeat split.
    + cbn. now rewrite Hlen.
    + constructor; [|exact Hnd]. intros Hmem.
      destruct (Hall n Hmem) as (d' & x' & Hle & Hd').
      destruct (denotes_fun _ _ _ _ Hn _ _ Hd') as [E _]. lia.
    + intros k [<-|Hk]; [eapply lookup_in; eassumption|apply Hin, Hk].
    + intros k [<-|Hk].
      * exists (S d), (apply_but x o). split; [lia|exact Hn].
      * destruct (Hall k Hk) as (d' & x' & Hle & Hd'). exists d', x'. split; [lia|exact Hd'].
Qed.

Theorem denotes_depth tbl n d x : denotes tbl n d x -> (d < List.length tbl)%nat.
Proof.
  intros H. destruct (denotes_chain tbl n d x H) as (ids & Hlen & Hnd & Hin & _).
  pose proof (NoDup_incl_length Hnd Hin) as Hle.
  rewrite map_length in Hle. lia.
Qed.

(* parse_all's own call: no fuel hypothesis left *)
Theorem like_in_parse_all {T} (SC : Scalar T) (e : env (T:=T)) tbl rank lat mat0 g0 o n d x :
  search_like (lower g0) = Some n -> denotes tbl n d x ->
  parse_one_cell SC (List.length tbl) e tbl rank lat (mat0, g0, o) =
  worker SC e rank lat (apply_but x o).
Proof.
  intros Hg Hd. apply (like_equals_expanded_text SC e tbl _ rank lat mat0 g0 o n d x Hg Hd).
  eapply denotes_depth; eassumption.
Qed.

(* LIKE n BUT ... MAT=0 ...: the copy is the void card *)
(* ---- replacing a LIKE card by its expansion leaves parse_all unchanged ---- *)
Local Open Scope list_scope.
Lemma lookup_app n (a b : table) :
  lookup n (a ++ b) = match lookup n b with Some c => Some c | None => lookup n a end.
Proof.
  induction a as [|[m c] r IH]; cbn.
  - destruct (lookup n b); reflexivity.
  - rewrite IH. destruct (lookup n b); reflexivity.
Qed.

Lemma lookup_none n (t : table) : ~ In n (map fst t) -> lookup n t = None.
Proof.
  induction t as [|[m c] r IH]; cbn; intros H; [reflexivity|].
  rewrite IH by tauto. destruct (n =? m)%Z eqn:E; [|reflexivity].
  apply Z.eqb_eq in E. subst. tauto.
Qed.

Lemma denotes_inv tbl j dj xj c : denotes tbl j dj xj -> lookup j tbl = Some c ->
  is_explicit c \/
  exists mat g o' m d' x', c = (mat, g, o') /\ search_like (lower g) = Some m /\ denotes tbl m d' x'.
Proof.
  intros H Hl. destruct H as [j c0 Hl0 Hc0|j m mat g o' d' x' Hl0 Hs Hd'].
  - rewrite Hl in Hl0. inversion Hl0; subst. left. exact Hc0.
  - rewrite Hl in Hl0. inversion Hl0; subst. right. exists mat, g, o', m, d', x'. auto.
Qed.

Section Replace.
  Variables (pre post : table) (k : Z) (ck xk : card).
  Let tbl := pre ++ (k, ck) :: post.
  Let tbl' := pre ++ (k, xk) :: post.
  Hypothesis Hnd : NoDup (map fst tbl).

  Lemma nodup_parts : ~ In k (map fst pre) /\ ~ In k (map fst post).
  Proof.
    unfold tbl in Hnd. rewrite map_app in Hnd. cbn in Hnd.
    pose proof (NoDup_remove_2 _ _ _ Hnd) as H2.
    rewrite in_app_iff in H2. tauto.
  Qed.

  Lemma lookup_k : lookup k tbl = Some ck /\ lookup k tbl' = Some xk.
  Proof.
    destruct nodup_parts as (H1 & H2).
    unfold tbl, tbl'. rewrite !lookup_app. cbn.
    rewrite (lookup_none k post H2), Z.eqb_refl. split; reflexivity.
  Qed.

  Lemma lookup_other j : j <> k -> lookup j tbl' = lookup j tbl.
  Proof.
    intros Hj. unfold tbl, tbl'. rewrite !lookup_app. cbn.
    destruct (lookup j post); [reflexivity|].
    apply Z.eqb_neq in Hj. rewrite Hj. reflexivity.
  Qed.

  Lemma length_same : List.length tbl' = List.length tbl.
  Proof. unfold tbl, tbl'. rewrite !app_length. reflexivity. Qed.

  (* the replaced card: LIKE n BUT o, and its expansion *)
  Variables (mat0 g0 o : string) (n : Z) (d : nat) (x : card).
  Hypothesis Hck : ck = (mat0, g0, o).
  Hypothesis Hg : search_like (lower g0) = Some n.
  Hypothesis Hden : denotes tbl n d x.
  Hypothesis Hxk : xk = apply_but x o.

  Lemma xk_explicit : is_explicit xk.
  Proof.
    rewrite Hxk. unfold is_explicit. rewrite apply_but_geom.
    exact (denotes_explicit tbl n d x Hden).
  Qed.

  (* every cell stands for the same explicit card in both tables *)
  Lemma denotes_transfer j dj xj : denotes tbl j dj xj -> exists dj', denotes tbl' j dj' xj.
  Proof.
    induction 1 as [j c Hl Hc|j m mat g o' d' x' Hl Hs Hd IH].
    - assert (Hj : j <> k).
      { intros ->. destruct lookup_k as [Hk _]. rewrite Hk in Hl. inversion Hl; subst c.
        rewrite Hck in Hc. unfold is_explicit, geom_of in Hc. cbn [fst snd] in Hc. congruence. }
      exists 0%nat. constructor; [|exact Hc]. rewrite lookup_other; assumption.
    - destruct IH as [d'' IH].
      destruct (Z.eq_dec j k) as [->|Hj].
      + destruct lookup_k as [Hk Hk']. rewrite Hk in Hl. rewrite Hck in Hl.
        inversion Hl; subst mat g o'. rewrite Hg in Hs. inversion Hs; subst m.
        destruct (denotes_fun tbl n d x Hden _ _ Hd) as [_ <-].
        exists 0%nat. rewrite <- Hxk. apply den_explicit; [exact Hk'|exact xk_explicit].
      + exists (S d''). apply (den_like tbl' j m mat g o' d'' x'); [|exact Hs|exact IH].
        rewrite lookup_other; assumption.
  Qed.

  Context {T : Type} (SC : Scalar T) (e : env (T:=T)).

  (* a card of the table that is not the replaced one *)
  Lemma cell_same j c rank lat :
    j <> k -> lookup j tbl = Some c -> (exists dj xj, denotes tbl j dj xj) ->
    parse_one_cell SC (List.length tbl) e tbl rank lat c =
    parse_one_cell SC (List.length tbl') e tbl' rank lat c.
  Proof.
    intros Hj Hl (dj & xj & Hd).
    destruct (denotes_inv tbl j dj xj c Hd Hl) as [Hc'|(mat & g & o' & m & d' & x' & -> & Hs & Hd')].
    - rewrite !explicit_cell by exact Hc'. reflexivity.
    - destruct (denotes_transfer m d' x' Hd') as [d'' Hd''].
      rewrite (like_in_parse_all SC e tbl rank lat mat g o' m d' x' Hs Hd').
      rewrite (like_in_parse_all SC e tbl' rank lat mat g o' m d'' x' Hs Hd'').
      reflexivity.
  Qed.

  (* the replaced card itself *)
  Lemma cell_replaced rank lat :
    parse_one_cell SC (List.length tbl) e tbl rank lat ck =
    parse_one_cell SC (List.length tbl') e tbl' rank lat xk.
  Proof.
    rewrite Hck.
    rewrite (like_in_parse_all SC e tbl rank lat mat0 g0 o n d x Hg Hden).
    rewrite (explicit_cell SC e tbl' _ rank lat xk xk_explicit). rewrite Hxk. reflexivity.
  Qed.

  Hypothesis Hall : forall j c, In (j, c) tbl -> exists dj xj, denotes tbl j dj xj.

  Lemma lookup_nodup_in (t : table) j c : NoDup (map fst t) -> In (j, c) t -> lookup j t = Some c.
  Proof.
    induction t as [|[m c'] r IH]; cbn; intros Hn Hi; [tauto|].
    inversion Hn as [|? ? Hnot Hn']; subst.
    destruct Hi as [Hi|Hi].
    - inversion Hi; subst. rewrite (lookup_none j r Hnot), Z.eqb_refl. reflexivity.
    - rewrite (IH Hn' Hi). reflexivity.
  Qed.

  Lemma cells_same (todo : table) : forall rank,
    (forall j c, In (j, c) todo -> In (j, c) tbl /\ j <> k) ->
    parse_cells SC e tbl rank todo = parse_cells SC e tbl' rank todo.
  Proof.
    induction todo as [|[j c] r IH]; intros rank H; [reflexivity|].
    cbn [parse_cells]. destruct (H j c (or_introl eq_refl)) as [Hin Hj].
    rewrite (cell_same j c rank (latopt e j) Hj (lookup_nodup_in tbl j c Hnd Hin) (Hall j c Hin)).
    rewrite IH by (intros j' c' Hi; apply H; right; exact Hi). reflexivity.
  Qed.

  Lemma cells_replace (pre0 : table) : forall rank,
    (forall j c, In (j, c) pre0 -> In (j, c) tbl /\ j <> k) ->
    (forall j c, In (j, c) post -> In (j, c) tbl /\ j <> k) ->
    parse_cells SC e tbl rank (pre0 ++ (k, ck) :: post) =
    parse_cells SC e tbl' rank (pre0 ++ (k, xk) :: post).
  Proof.
    induction pre0 as [|[j c] r IH]; intros rank Hpre Hpost.
    - cbn [app parse_cells]. rewrite (cell_replaced rank (latopt e k)).
      rewrite (cells_same post (S rank) Hpost). reflexivity.
    - cbn [app parse_cells]. destruct (Hpre j c (or_introl eq_refl)) as [Hin Hj].
      rewrite (cell_same j c rank (latopt e j) Hj (lookup_nodup_in tbl j c Hnd Hin) (Hall j c Hin)).
      rewrite IH; [reflexivity| |exact Hpost].
      intros j' c' Hi. apply Hpre. right. exact Hi.
  Qed.

  Theorem replace_like_card : parse_all SC e tbl' = parse_all SC e tbl.
  Proof.
    destruct nodup_parts as (H1 & H2).
    unfold parse_all. symmetry. unfold tbl at 2, tbl' at 2. apply cells_replace.
    - intros j c Hi. split.
      + unfold tbl. apply in_or_app. left. exact Hi.
      + intros ->. apply H1. apply (in_map fst) in Hi. exact Hi.
    - intros j c Hi. split.
      + unfold tbl. apply in_or_app. right. right. exact Hi.
      + intros ->. apply H2. apply (in_map fst) in Hi. exact Hi.
  Qed.

  (* the hypotheses survive the replacement: the LIKE cards of a deck can be
     expanded one after the other *)
  Lemma replace_keeps_keys : map fst tbl' = map fst tbl.
  Proof. unfold tbl, tbl'. rewrite !map_app. reflexivity. Qed.

  Lemma replace_keeps_chains : forall j c, In (j, c) tbl' -> exists dj xj, denotes tbl' j dj xj.
  Proof.
    intros j c Hi. apply (in_map fst) in Hi. rewrite replace_keeps_keys in Hi.
    apply in_map_iff in Hi. destruct Hi as [[j0 c0] [E Hi]]. cbn in E. subst j0.
    destruct (Hall j c0 Hi) as (dj & xj & Hd).
    destruct (denotes_transfer j dj xj Hd) as [dj' Hd']. exists dj', xj. exact Hd'.
  Qed.
End Replace.



Theorem replace_like_card_full {T : Type} (SC : Scalar T) (e : env (T:=T))
    (pre post : table) (k : Z) (mat0 g0 o : string) (n : Z) (d : nat) (x : card) :
  let tbl := pre ++ (k, (mat0, g0, o)) :: post in
  let tbl' := pre ++ (k, apply_but x o) :: post in
  NoDup (map fst tbl) -> search_like (lower g0) = Some n -> denotes tbl n d x ->
  (forall j c, In (j, c) tbl -> exists dj xj, denotes tbl j dj xj) ->
  parse_all SC e tbl' = parse_all SC e tbl /\
  NoDup (map fst tbl') /\
  (forall j c, In (j, c) tbl' -> exists dj xj, denotes tbl' j dj xj).
Proof.
  intros tbl tbl' Hnd Hg Hd Hall. split; [|split].
  - exact (replace_like_card pre post k _ _ Hnd mat0 g0 o n d x eq_refl Hg Hd eq_refl SC e Hall).
  - unfold tbl'. rewrite (replace_keeps_keys pre post k (mat0, g0, o) (apply_but x o)). exact Hnd.
  - exact (replace_keeps_chains pre post k _ _ Hnd mat0 g0 o n d x eq_refl Hg Hd eq_refl Hall).
Qed.

(* the hypotheses hold on the three-card table of the example (card 2 replaced) *)
Lemma example_replace_hyps :
  let tbl := [(1%Z, (" 1 -1.0", " -1 ", "imp:n=0"))] ++
             (2%Z, ("", " like 1 but", " MAT=2 imp:n=1")) ::
             [(3%Z, ("", " LIKE 2 BUT", " rho = -2.5 *TRCL=( 0 )"))] in
  tbl = xtbl /\ NoDup (map fst tbl) /\ search_like (lower " like 1 but") = Some 1%Z /\
  denotes tbl 1 0 (" 1 -1.0", " -1 ", "imp:n=0") /\
  (forall j c, In (j, c) tbl -> exists dj xj, denotes tbl j dj xj).
Proof.
  cbv zeta.
  assert (H1 : denotes xtbl 1 0 (" 1 -1.0", " -1 ", "imp:n=0")).
  { apply den_explicit; vm_compute; reflexivity. }
  assert (H2 : denotes xtbl 2 1 (apply_but (" 1 -1.0", " -1 ", "imp:n=0") " MAT=2 imp:n=1")).
  { eapply den_like with (m := 1%Z) (mat := "") (g := " like 1 but");
      [vm_compute; reflexivity|vm_compute; reflexivity|exact H1]. }
  split; [reflexivity|]. split.
  { cbn. repeat constructor; cbn; intuition discriminate. }
  split; [vm_compute; reflexivity|]. split; [exact H1|].
  intros j c Hi. cbn in Hi. destruct Hi as [Hi|[Hi|[Hi|[]]]]; inversion Hi; subst.
  - eexists; eexists; exact H1.
  - eexists; eexists; exact H2.
  - eexists; eexists.
    eapply den_like with (m := 2%Z) (mat := "") (g := " LIKE 2 BUT");
      [vm_compute; reflexivity|vm_compute; reflexivity|exact H2].
Qed.


(* later keyword wins, with the content of the merged dictionary spelt out *)
Theorem keywords_later_wins_fields {T : Type} (SC : Scalar T) (e : env (T:=T))
    (opts ovr : list string) (k1 k2 : kws (T:=T)) :
  parse_kws SC e opts = Ok k1 -> parse_kws SC e ovr = Ok k2 -> kw_head ovr ->
  exists k, parse_kws SC e (opts ++ ovr) = Ok k /\
    k_mat k = orelse (k_mat k2) (k_mat k1) /\
    k_rho k = orelse (k_rho k2) (k_rho k1) /\
    k_u k = orelse (k_u k2) (k_u k1) /\
    k_trcl k = orelse (k_trcl k2) (k_trcl k1) /\
    k_lat k = orelse (k_lat k2) (k_lat k1) /\
    (k_fb k, k_fu k, k_fp k) =
      match k_fu k2 with
      | Some _ => (k_fb k2, k_fu k2, k_fp k2)
      | None => (k_fb k1, k_fu k1, k_fp k1)
      end /\
    forall p, imp_last (k_impl k) p =
              match imp_last (k_impl k2) p with Some v => Some v | None => imp_last (k_impl k1) p end.
Proof.
  intros H1 H2 Hk. exists (upd k1 k2).
  split; [apply (keywords_later_wins SC e opts ovr k1 k2 H1 H2 Hk)|]. apply upd_fields.
Qed.

(* the importance of a cell: maximum over the particles of the last value
   written for each particle *)
Lemma imp_value_dict {T : Type} (SC : Scalar T) (log : list (string * T)) :
  (forall p, assoc_find (imp_dict log) p = imp_last log p) /\
  imp_value SC log = match map snd (imp_dict log) with
                     | [] => None
                     | v :: r => Some (fold_left (pmax SC) r v)
                     end.
Proof. split; [intros p; apply imp_dict_last|reflexivity]. Qed.

(* ---- expanding every LIKE card ---- *)
Definition explicit_b (c : card) : bool :=
  match search_like (lower (geom_of c)) with None => true | Some _ => false end.

Lemma explicit_b_true c : explicit_b c = true <-> is_explicit c.
Proof.
  unfold explicit_b, is_explicit. destruct (search_like (lower (geom_of c))); split; intros H;
    try reflexivity; try discriminate.
Qed.

Lemma lookup_some_in (tbl : table) j : forall c, lookup j tbl = Some c -> In (j, c) tbl.
Proof.
  induction tbl as [|[m c'] r IH]; intros c; cbn; [discriminate|].
  destruct (lookup j r) eqn:E.
  - intros H. inversion H; subst. right. apply IH. reflexivity.
  - destruct (j =? m)%Z eqn:E2; [|discriminate]. apply Z.eqb_eq in E2. subst.
    intros H. inversion H; subst. left. reflexivity.
Qed.

Lemma lookup_in_nodup (t : table) j c : NoDup (map fst t) -> In (j, c) t -> lookup j t = Some c.
Proof.
  induction t as [|[m c'] r IH]; cbn; intros Hn Hi; [tauto|].
  inversion Hn as [|? ? Hnot Hn']; subst.
  destruct Hi as [Hi|Hi].
  - inversion Hi; subst. rewrite (lookup_none j r Hnot), Z.eqb_refl. reflexivity.
  - rewrite (IH Hn' Hi). reflexivity.
Qed.

Definition n_like (tbl : table) : nat :=
  List.length (filter (fun kc => negb (explicit_b (snd kc))) tbl).

Lemma n_like_app a b : n_like (a ++ b) = (n_like a + n_like b)%nat.
Proof. unfold n_like. rewrite filter_app, app_length. reflexivity. Qed.

Lemma n_like_zero tbl : n_like tbl = 0%nat -> forall j c, In (j, c) tbl -> is_explicit c.
Proof.
  unfold n_like. intros H j c Hi.
  destruct (explicit_b c) eqn:E; [apply explicit_b_true, E|].
  assert (Hin : In (j, c) (filter (fun kc => negb (explicit_b (snd kc))) tbl)).
  { apply filter_In. split; [exact Hi|]. cbn. rewrite E. reflexivity. }
  destruct (filter (fun kc => negb (explicit_b (snd kc))) tbl); [destruct Hin|discriminate].
Qed.

Lemma n_like_pos tbl : n_like tbl <> 0%nat -> exists j c, In (j, c) tbl /\ explicit_b c = false.
Proof.
  unfold n_like. intros H.
  destruct (filter (fun kc => negb (explicit_b (snd kc))) tbl) as [|[j c] r] eqn:E; [cbn in H; congruence|].
  assert (Hin : In (j, c) (filter (fun kc => negb (explicit_b (snd kc))) tbl)) by (rewrite E; left; reflexivity).
  apply filter_In in Hin. destruct Hin as [Hi Hb]. cbn in Hb.
  exists j, c. split; [exact Hi|]. destruct (explicit_b c); [discriminate|reflexivity].
Qed.

Theorem expand_all {T : Type} (SC : Scalar T) (e : env (T:=T)) : forall (k : nat) (tbl : table),
  n_like tbl = k -> NoDup (map fst tbl) ->
  (forall j c, In (j, c) tbl -> exists dj xj, denotes tbl j dj xj) ->
  exists tbl_e,
    map fst tbl_e = map fst tbl /\
    (forall j c, In (j, c) tbl_e -> is_explicit c) /\
    (forall j dj xj, denotes tbl j dj xj -> lookup j tbl_e = Some xj) /\
    parse_all SC e tbl_e = parse_all SC e tbl.
Proof.
  induction k as [|k IH]; intros tbl Hk Hnd Hall.
  - exists tbl. split; [reflexivity|]. split; [exact (n_like_zero tbl Hk)|].
    split; [|reflexivity].
    intros j dj xj Hd.
    destruct Hd as [j c Hl Hc|j m mat g o d x Hl Hs Hd]; [exact Hl|].
    exfalso.
    pose proof (lookup_some_in tbl j _ Hl) as Hi.
    pose proof (n_like_zero tbl Hk j _ Hi) as Hex.
    unfold is_explicit, geom_of in Hex. cbn [fst snd] in Hex. congruence.
  - destruct (n_like_pos tbl ltac:(lia)) as (j & c & Hi & Hb).
    destruct (in_split _ _ Hi) as (pre & post & ->).
    pose proof (lookup_in_nodup (pre ++ (j, c) :: post) j c Hnd Hi) as Hl.
    destruct (Hall j c Hi) as (dj & xj & Hdj).
    destruct (denotes_inv _ j dj xj c Hdj Hl) as [Hc|(mat & g & o & m & d & x & -> & Hs & Hd)].
    { apply explicit_b_true in Hc. congruence. }
    destruct (replace_like_card_full SC e pre post j mat g o m d x Hnd Hs Hd Hall) as (Hp & Hnd' & Hall').
    assert (Hk' : n_like (pre ++ (j, apply_but x o) :: post) = k).
    { rewrite n_like_app in *. unfold n_like in *. cbn [filter snd] in *.
      rewrite Hb in Hk. cbn [negb List.length] in Hk.
      assert (Hx : explicit_b (apply_but x o) = true).
      { apply explicit_b_true. unfold is_explicit. rewrite apply_but_geom.
        exact (denotes_explicit _ m d x Hd). }
      rewrite Hx. cbn [negb]. lia. }
    destruct (IH _ Hk' Hnd' Hall') as (tbl_e & Hkeys & Hexp & Hden & Hpar).
    exists tbl_e. split.
    { rewrite Hkeys. apply replace_keeps_keys. }
    split; [exact Hexp|]. split.
    + intros j' dj' xj' Hd'.
      destruct (denotes_transfer pre post j (mat, g, o) (apply_but x o) Hnd mat g o m d x
                  eq_refl Hs Hd eq_refl j' dj' xj' Hd') as [d'' Hd''].
      exact (Hden j' d'' xj' Hd'').
    + rewrite Hpar. exact Hp.
Qed.

Theorem expand_all_cards {T : Type} (SC : Scalar T) (e : env (T:=T)) (tbl : table) :
  NoDup (map fst tbl) ->
  (forall j c, In (j, c) tbl -> exists dj xj, denotes tbl j dj xj) ->
  exists tbl_e,
    map fst tbl_e = map fst tbl /\
    (forall j c, In (j, c) tbl_e -> is_explicit c) /\
    (forall j dj xj, denotes tbl j dj xj -> lookup j tbl_e = Some xj) /\
    parse_all SC e tbl_e = parse_all SC e tbl.
Proof. intros Hnd Hall. exact (expand_all SC e (n_like tbl) tbl eq_refl Hnd Hall). Qed.
