(* C15 <- C12: the importance dictionary of C15's model (a log of IMP entries,
   read through set1 / imp_dict / imp_value / imp_last) is C12's particle
   dictionary (assign_all / max_values / last_value) on the same entries, so
   C12's reading "the importance kept is zero iff the last value of every
   particle named is zero" holds for the cells of C15's model (LIKE chains
   included: the log of a LIKE cell is the log of the card it stands for
   followed by the BUT entries, C15_keywords_later_wins). *)
From Coq Require Import List NArith ZArith Bool String Ascii Reals Lia.
From T4V Require Import Base.Str Base.Scalar C15.Model C15.Proofs.
From T4V Require C12.Model C12.Spec C12.ProofsCells C12.ProofsDeck.
Import ListNotations.
Open Scope string_scope.

Section Link.
  Context {T : Type} (SC : Scalar T).

  (* C12's entries (particles named, value) as C15's log *)
  Definition log_of (es : list (list string * T)) : list (string * T) :=
    flat_map (fun e => map (fun p => (p, snd e)) (fst e)) es.

  Lemma set1_dict_set (l : list (string * T)) p v :
    set1 l p v = C12.Model.dict_set String.eqb p v l.
  Proof.
    induction l as [|[q w] r IH]; cbn; [reflexivity|].
    rewrite (String.eqb_sym p q). destruct (String.eqb q p) eqn:E.
    - apply String.eqb_eq in E. subst q. reflexivity.
    - rewrite IH. reflexivity.
  Qed.

  Lemma fold_assign ps (x : T) : forall acc,
    fold_left (fun a pv => set1 a (fst pv) (snd pv)) (map (fun p => (p, x)) ps) acc =
    C12.Model.assign ps x acc.
  Proof.
    unfold C12.Model.assign. induction ps as [|p r IH]; intros acc; cbn [map fold_left fst snd];
      [reflexivity|]. rewrite IH, set1_dict_set. reflexivity.
  Qed.

  Lemma imp_dict_assign_all (es : list (list string * T)) : forall acc,
    fold_left (fun a pv => set1 a (fst pv) (snd pv)) (log_of es) acc =
    C12.ProofsCells.assign_all es acc.
  Proof.
    unfold C12.ProofsCells.assign_all, log_of.
    induction es as [|[ps x] r IH]; intros acc; cbn [flat_map fold_left fst snd]; [reflexivity|].
    rewrite fold_left_app, fold_assign. apply IH.
  Qed.

  Lemma assoc_find_dict_get (d : list (string * T)) p :
    assoc_find d p = C12.Model.dict_get String.eqb p d.
  Proof.
    induction d as [|[q w] r IH]; cbn; [reflexivity|].
    rewrite (String.eqb_sym p q). destruct (String.eqb q p); [reflexivity|exact IH].
  Qed.

  Theorem importance_dictionary_is_C12 (es : list (list string * T)) :
    imp_dict (log_of es) = C12.ProofsCells.assign_all es [] /\
    imp_value SC (log_of es) = C12.ProofsCells.imp_of_entries SC es /\
    forall p, imp_last (log_of es) p = C12.Spec.last_value p es.
  Proof.
    assert (Hd : imp_dict (log_of es) = C12.ProofsCells.assign_all es [])
      by (unfold imp_dict; apply imp_dict_assign_all).
    split; [exact Hd|]. split.
    - unfold imp_value, C12.ProofsCells.imp_of_entries, C12.Model.max_values. rewrite Hd.
      destruct es as [|e r]; [reflexivity|]. reflexivity.
    - intros p. rewrite <- imp_dict_last, Hd, assoc_find_dict_get.
      rewrite (C12.ProofsCells.get_assign_all p es []). cbn [C12.Model.dict_get].
      destruct (C12.Spec.last_value p es); reflexivity.
  Qed.

  (* a flat log, entry by entry, as C12 entries *)
  Lemma log_of_singletons (l : list (string * T)) :
    log_of (map (fun pv => ([fst pv], snd pv)) l) = l.
  Proof.
    unfold log_of. induction l as [|[p v] r IH]; cbn; [reflexivity|]. f_equal. exact IH.
  Qed.
End Link.

(* C12's theorem (ProofsDeck.entries_zero_iff) read on C15's dictionary: for a
   cell whose cards carry IMP entries with non-negative values, the importance
   kept is zero iff the last value written for every particle named is zero *)
Theorem importance_zero_iff_linked (P : C12.Model.prims R) (l : list (string * R)) :
  l <> [] -> Forall (fun pv => 0 <= snd pv)%R l ->
  exists m, imp_value RS l = Some m /\
            (m = 0%R <-> forall p, In p (map fst l) -> imp_last l p = Some 0%R).
Proof.
  intros Hne Hnn.
  set (es := map (fun pv : string * R => ([fst pv], snd pv)) l).
  destruct (importance_dictionary_is_C12 RS es) as (_ & Hv & Hl).
  unfold es in Hv, Hl. rewrite log_of_singletons in Hv, Hl.
  destruct (C12.ProofsDeck.entries_zero_iff P es) as (m & Hm & Hz).
  - unfold es. destruct l; [congruence|discriminate].
  - unfold es. apply Forall_forall. intros e He. apply in_map_iff in He.
    destruct He as (pv & <- & _). cbn. discriminate.
  - unfold es. apply Forall_forall. intros e He. apply in_map_iff in He.
    destruct He as (pv & <- & Hi). cbn. exact (proj1 (Forall_forall _ _) Hnn pv Hi).
  - exists m. split; [rewrite Hv; exact Hm|]. rewrite Hz. fold es in Hl.
    assert (Hn : forall p, In p (C12.Spec.named es) <-> In p (map fst l)).
    { intros p. unfold C12.Spec.named, es. rewrite flat_map_concat_map, map_map. cbn [fst].
      rewrite <- flat_map_concat_map. clear. induction l as [|[q v] r IH]; cbn; [tauto|].
      rewrite IH. tauto. }
    split; intros H p Hp.
    + rewrite Hl. apply H, Hn, Hp.
    + rewrite <- Hl. apply H, Hn, Hp.
Qed.

Lemma finish_cell_imp {T : Type} (SC : Scalar T) (e : env (T:=T)) rank lat mid rho ast
      (k : kws (T:=T)) c m :
  finish_cell SC e rank lat mid rho ast k = Ok c -> imp_value SC (k_impl k) = Some m -> c_imp c = m.
Proof.
  unfold finish_cell. intros H Hm. rewrite Hm in H. cbn [bind] in H.
  destruct (match pyint (match k_mat k with Some m0 => m0 | None => mid end) with
            | None => Err EValue | Some 0%Z => Ok None
            | Some _ => Ok (match k_rho k with Some d => Some (normfloat e d) | None => rho end)
            end) as [r|]; [|discriminate].
  cbn [bind] in H. destruct (to_fillid k lat); [|discriminate]. cbn [bind] in H.
  inversion H; subst. reflexivity.
Qed.

(* LIKE n BUT o, importance end to end: the copy has importance zero (and is
   left out of the conversion) iff, for every particle named on the cards of the
   chain or in the BUT list, the last value — the BUT list's if it names the
   particle, else the inherited one — is zero *)
Theorem like_importance_zero_iff_linked (P : C12.Model.prims R) (e : env (T:=R)) tbl fuel rank lat
    mat0 g0 o n d mx gx ox kb ko c :
  search_like (lower g0) = Some n -> denotes tbl n d (mx, gx, ox) -> (d < fuel)%nat ->
  sq_state false ox = false -> leads_colon o = false -> kw_head (tokenize o) ->
  parse_kws RS e (tokenize ox) = Ok kb -> parse_kws RS e (tokenize o) = Ok ko ->
  parse_one_cell RS fuel e tbl rank lat (mat0, g0, o) = Ok c ->
  (k_impl kb ++ k_impl ko)%list <> [] -> Forall (fun pv => 0 <= snd pv)%R (k_impl kb ++ k_impl ko)%list ->
  (c_imp c = 0%R <->
   forall p, In p (map fst (k_impl kb ++ k_impl ko)%list) ->
             match imp_last (k_impl ko) p with Some v => Some v | None => imp_last (k_impl kb) p end
             = Some 0%R).
Proof.
  intros Hg Hd Hf Hox Ho Hk Hb Hko Hc Hne Hnn.
  rewrite (like_equals_expanded RS e tbl fuel rank lat mat0 g0 o n d mx gx ox kb ko
             Hg Hd Hf Hox Ho Hk Hb Hko) in Hc.
  destruct (parse_material e mx) as [[mid rho]|]; [|discriminate]. cbn [bind] in Hc.
  destruct (getast e gx) as [ast|]; [|discriminate].
  destruct (importance_zero_iff_linked P (k_impl kb ++ k_impl ko)%list Hne Hnn) as (m & Hm & Hz).
  assert (Hl : k_impl (upd kb ko) = (k_impl kb ++ k_impl ko)%list) by reflexivity.
  rewrite <- Hl in Hm. rewrite (finish_cell_imp RS e rank lat mid rho ast _ c m Hc Hm).
  rewrite Hz. split; intros H p Hp; specialize (H p Hp); rewrite imp_last_app in *; exact H.
Qed.

(* ---- the NOTE list: which LIKE cells are left out of the conversion ---- *)
Lemma parse_cells_forall2 {T : Type} (SC : Scalar T) (e : env (T:=T)) tbl : forall todo rank cells,
  parse_cells SC e tbl rank todo = Ok cells ->
  Forall2 (fun kc kc' => fst kc = fst kc' /\
             exists r, parse_one_cell SC (List.length tbl) e tbl r (latopt e (fst kc)) (snd kc)
                       = Ok (snd kc')) todo cells.
Proof.
  induction todo as [|[k c] r IH]; intros rank cells H; cbn [parse_cells] in H.
  - inversion H. constructor.
  - destruct (parse_one_cell SC (List.length tbl) e tbl rank (latopt e k) c) as [x|] eqn:E; [|discriminate].
    cbn [bind] in H. destruct (parse_cells SC e tbl (S rank) r) as [xs|] eqn:Er; [|discriminate].
    cbn [bind] in H. inversion H; subst. constructor; [|exact (IH _ _ Er)].
    cbn [fst snd]. split; [reflexivity|]. exists rank. exact E.
Qed.

Lemma forall2_keys {A B} (R : Z * A -> Z * B -> Prop) l1 l2 :
  Forall2 (fun a b => fst a = fst b /\ R a b) l1 l2 -> map fst l1 = map fst l2.
Proof. induction 1 as [|a b r1 r2 [Hk _] _ IH]; cbn; [reflexivity|now rewrite Hk, IH]. Qed.

Lemma forall2_in_l {A B} (R : A -> B -> Prop) l1 l2 a :
  Forall2 R l1 l2 -> In a l1 -> exists b, In b l2 /\ R a b.
Proof.
  induction 1 as [|x y r1 r2 Hxy _ IH]; intros Hi; [destruct Hi|].
  destruct Hi as [<-|Hi]; [exists y; split; [left; reflexivity|exact Hxy]|].
  destruct (IH Hi) as (b & Hb & HR). exists b. split; [right; exact Hb|exact HR].
Qed.

Lemma nodup_keys_fun {B} (l : list (Z * B)) k b1 b2 :
  NoDup (map fst l) -> In (k, b1) l -> In (k, b2) l -> b1 = b2.
Proof.
  induction l as [|[k' b'] r IH]; cbn; intros Hn H1 H2; [destruct H1|].
  inversion Hn as [|? ? Hnot Hn']; subst.
  destruct H1 as [H1|H1]; destruct H2 as [H2|H2].
  - congruence.
  - inversion H1; subst. exfalso. apply Hnot. apply (in_map fst) in H2. exact H2.
  - inversion H2; subst. exfalso. apply Hnot. apply (in_map fst) in H1. exact H1.
  - exact (IH Hn' H1 H2).
Qed.

(* the cell number of a LIKE n BUT card is in the list of skipped cells (the
   NOTE of the written file; no volume is written for it) iff, for every particle
   named on the cards of the chain or in the BUT list, the last value — the BUT
   list's if it names the particle, else the inherited one — is zero *)
Theorem like_skipped_iff_linked (P : C12.Model.prims R) (e : env (T:=R)) tbl cells
    k mat0 g0 o n d mx gx ox kb ko :
  parse_all RS e tbl = Ok cells -> NoDup (map fst tbl) -> In (k, (mat0, g0, o)) tbl ->
  search_like (lower g0) = Some n -> denotes tbl n d (mx, gx, ox) ->
  sq_state false ox = false -> leads_colon o = false -> kw_head (tokenize o) ->
  parse_kws RS e (tokenize ox) = Ok kb -> parse_kws RS e (tokenize o) = Ok ko ->
  (k_impl kb ++ k_impl ko)%list <> [] ->
  Forall (fun pv => 0 <= snd pv)%R (k_impl kb ++ k_impl ko)%list ->
  (In k (skipped RS cells) <->
   forall p, In p (map fst (k_impl kb ++ k_impl ko)%list) ->
             match imp_last (k_impl ko) p with Some v => Some v | None => imp_last (k_impl kb) p end
             = Some 0%R).
Proof.
  intros Hp Hnd Hin Hg Hd Hox Ho Hk Hb Hko Hne Hnn.
  unfold parse_all in Hp.
  pose proof (parse_cells_forall2 RS e tbl tbl 0 cells Hp) as HF.
  pose proof (forall2_keys _ _ _ HF) as Hkeys.
  destruct (forall2_in_l _ _ _ _ HF Hin) as ([k' c] & Hc & Hk' & (r & Hr)).
  cbn [fst snd] in *. subst k'.
  pose proof (like_importance_zero_iff_linked P e tbl (List.length tbl) r (latopt e k)
                mat0 g0 o n d mx gx ox kb ko c Hg Hd (denotes_depth tbl n d _ Hd)
                Hox Ho Hk Hb Hko Hr Hne Hnn) as Hz.
  rewrite <- Hz. unfold skipped. rewrite in_map_iff. split.
  - intros ([k2 c2] & Hk2 & Hf). cbn [fst] in Hk2. subst k2.
    apply filter_In in Hf. destruct Hf as [Hi Hq]. cbn [snd] in Hq.
    assert (c2 = c) by (apply (nodup_keys_fun cells k c2 c); [rewrite <- Hkeys; exact Hnd|exact Hi|exact Hc]).
    subst c2. apply Reqb_true in Hq. exact Hq.
  - intros H0. exists (k, c). split; [reflexivity|]. apply filter_In. split; [exact Hc|].
    cbn [snd]. apply Reqb_true. exact H0.
Qed.
