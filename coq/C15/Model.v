(* C15 — model of the LIKE n BUT path:
     t4_geom_convert/Kernel/FileHandlers/Parser/ParseMCNPCell.py
       parse_all_cells / parse_one_cell (LIKE_RE loop) / apply_but     [resolve_like, parse_all]
       parse_one_cell_worker (option normalisation, defaults, overrides) [tokenize, worker]
       parse_material, parse_keywords (dispatch in the code's order:
       startswith 'imp', 'fill' in, 'lat' in, 'trcl' in, == 'u', 'rho' in,
       'mat' in; importance kept per particle), parse_fill_kw,
       parse_lat_kw, parse_trcl_kw, to_fillid                            [step, parse_kws, ...]
     MIP/mip/cellcard.py split, LIKE branch (re_likebut)                 [split_like]
   What the code calls but this property does not own is a field of [env]
   (Python float()/int(float())/round(float()) of a token, the TR-card table,
   normalize_transform, normalize_float, get_ast, the IMP data cards, the
   --lattice option): theorems hold for every such environment; the tie fills
   the environment with the values observed on the repository's own functions.
   Executable; proofs live in C15/Proofs.v. *)
From Coq Require Import List NArith ZArith Bool String Ascii.
From T4V Require Import Base.Str Base.Scalar.
Import ListNotations.
Open Scope string_scope.

(* Python exception classes the path can raise (ParseMCNPCellError also covers
   the wrapped tatsu ParseException), plus three markers that are not Python
   behaviour: out of fuel (cyclic LIKE: the code loops for ever), a construct
   the model does not cover, and a missing entry of the harness' tables.
   EOther = any other exception class (raised by an environment function). *)
Inductive err := EIndex | EValue | EKey | EParse | EMissingLat | EAssert | EOther
               | EFuel | EUnsupported | ENoTable.
Inductive res (A : Type) := Ok (a : A) | Err (e : err).
Arguments Ok {A}. Arguments Err {A}.

Definition bind {A B} (r : res A) (f : A -> res B) : res B :=
  match r with Ok a => f a | Err e => Err e end.
Notation "r >>= f" := (bind r f) (at level 50, left associativity).

(* ---------------------------------------------------------------- strings *)

Definition is_ws (c : ascii) : bool :=
  let n := N_of_ascii c in ((n =? 32) || ((9 <=? n) && (n <=? 13)))%N.

Definition lower_char (c : ascii) : ascii :=
  let n := N_of_ascii c in
  if ((65 <=? n) && (n <=? 90))%N then ascii_of_N (n + 32) else c.

Fixpoint smap (f : ascii -> ascii) (s : string) : string :=
  match s with
  | EmptyString => EmptyString
  | String c r => String (f c) (smap f r)
  end.

Definition lower (s : string) : string := smap lower_char s.

(* 'sub' in s *)
Fixpoint has (sub s : string) : bool :=
  prefix sub s || match s with EmptyString => false | String _ r => has sub r end.

Fixpoint sdrop (n : nat) (s : string) : string :=
  match n, s with
  | O, _ => s
  | S m, String _ r => sdrop m r
  | S _, EmptyString => EmptyString
  end.

(* str.split(): words separated by runs of white space *)
Fixpoint words_acc (cur : string) (s : string) : list string :=
  (* [cur] is the current word, reversed *)
  match s with
  | EmptyString => match cur with EmptyString => [] | _ => [cur] end
  | String c r =>
      if is_ws c then match cur with EmptyString => words_acc EmptyString r
                                   | _ => cur :: words_acc EmptyString r end
      else words_acc (String c cur) r
  end.

Fixpoint srev_acc (s acc : string) : string :=
  match s with EmptyString => acc | String c r => srev_acc r (String c acc) end.
Definition srev (s : string) : string := srev_acc s EmptyString.

Definition words (s : string) : list string := map srev (words_acc EmptyString s).

(* s.split(c) *)
Fixpoint split_char_acc (c : ascii) (cur : string) (s : string) : list string :=
  match s with
  | EmptyString => [cur]
  | String d r => if Ascii.eqb c d then cur :: split_char_acc c EmptyString r
                  else split_char_acc c (String d cur) r
  end.
Definition split_char (c : ascii) (s : string) : list string :=
  map srev (split_char_acc c EmptyString s).

(* int(s): optional sign and ASCII digits (narrower than Python: no blanks or
   underscores; tokens never contain blanks) *)
Definition pyint (s : string) : option Z :=
  match s with
  | String "-" r => option_map (fun n => Z.opp (Z.of_N n)) (int_of_string r)
  | String "+" r => option_map Z.of_N (int_of_string r)
  | _ => option_map Z.of_N (int_of_string s)
  end.

Definition numeric_start (s : string) : bool :=
  match s with
  | EmptyString => false
  | String c _ => is_digit c || Ascii.eqb c "." || Ascii.eqb c "+" || Ascii.eqb c "-"
  end.

Fixpoint last_char (s : string) : option ascii :=
  match s with
  | EmptyString => None
  | String c EmptyString => Some c
  | String _ r => last_char r
  end.

Fixpoint span {A} (p : A -> bool) (l : list A) : list A * list A :=
  match l with
  | [] => ([], [])
  | x :: r => if p x then let '(a, b) := span p r in (x :: a, b) else ([], l)
  end.

Fixpoint map_opt {A B} (f : A -> option B) (l : list A) : option (list B) :=
  match l with
  | [] => Some []
  | x :: r => match f x, map_opt f r with
              | Some y, Some ys => Some (y :: ys)
              | _, _ => None
              end
  end.

(* ------------------------------------------- option string -> token list *)

(* first non-blank character is a colon *)
Fixpoint leads_colon (s : string) : bool :=
  match s with
  | EmptyString => false
  | String c r => if Ascii.eqb c " " then leads_colon r else Ascii.eqb c ":"
  end.

(* re.sub(' *: *', ':', s): every blank of a run of blanks that touches a colon
   disappears.  [after] = the last character kept was a colon. *)
Fixpoint squeeze (after : bool) (s : string) : string :=
  match s with
  | EmptyString => EmptyString
  | String c r =>
      if Ascii.eqb c " " then
        if after || leads_colon r then squeeze after r else String c (squeeze false r)
      else String c (squeeze (Ascii.eqb c ":") r)
  end.

(* .lower().replace('(', ' ').replace(')', ' ').replace('=', ' ') *)
Definition opt_char (c : ascii) : ascii :=
  let d := lower_char c in
  if Ascii.eqb d "(" || Ascii.eqb d ")" || Ascii.eqb d "=" then " "%char else d.

Definition tokenize (opts : string) : list string :=
  words (smap opt_char (squeeze false opts)).

(* ------------------------------------------------ LIKE_RE and re_likebut *)

Fixpoint skip_ws (s : string) : string :=
  match s with
  | String c r => if is_ws c then skip_ws r else s
  | EmptyString => s
  end.

Fixpoint span_digits (s : string) : string * string :=
  match s with
  | String c r => if is_digit c then let '(a, b) := span_digits r in (String c a, b)
                  else (EmptyString, s)
  | EmptyString => (EmptyString, EmptyString)
  end.

Definition starts_ws (s : string) : bool :=
  match s with String c _ => is_ws c | EmptyString => false end.

(* like\s+(\d+)\s+but anchored at the head of [s] *)
Definition match_like_at (s : string) : option Z :=
  if prefix "like" s then
    let r := sdrop 4 s in
    if starts_ws r then
      let '(ds, r2) := span_digits (skip_ws r) in
      match ds with
      | EmptyString => None
      | _ => if starts_ws r2 && prefix "but" (skip_ws r2)
             then Some (Z.of_N (parse_digits ds 0%N)) else None
      end
    else None
  else None.

(* LIKE_RE.search(s): leftmost match *)
Fixpoint search_like (s : string) : option Z :=
  match match_like_at s with
  | Some n => Some n
  | None => match s with EmptyString => None | String _ r => search_like r end
  end.

(* elt[3:].lstrip(':').split(','): the particles of an IMP keyword *)
Fixpoint lstrip_colon (s : string) : string :=
  match s with
  | String ":" r => lstrip_colon r
  | _ => s
  end.

Definition imp_particles (elt : string) : list string :=
  split_char "," (lstrip_colon (sdrop 3 elt)).

(* ------------------------------------------------------------ the parser *)
Section Model.
  Context {T : Type} (SC : Scalar T).

  Record env := mkEnv {
    pyfloat : string -> option T;        (* datacard.to_float(tok) (float(), then the Fortran
                                            spellings 1.5d3, 1.5+3); None = ValueError *)
    pytrunc : string -> option Z;        (* int(float(tok)): plain float() *)
    tround : T -> Z;                     (* round(x) of a float (ties to even) *)
    pytotrunc : string -> option Z;      (* int(to_float(tok)) *)
    trtab : Z -> option (list T);        (* self.transforms[n][:12]; None = KeyError *)
    normtr : list T -> res (list T);     (* normalize_transform *)
    normfloat : string -> string;        (* normalize_float *)
    getast : string -> option string;    (* get_ast, printed; None = ParseException *)
    imps : list T;                       (* parse_importance_cards() *)
    latopt : Z -> option (list (Z * Z))  (* --lattice option by cell *)
  }.

  (* former name of the rounding field (kept for the properties that import this
     model: C14 builds an environment positionally with it) *)
  Definition pyround (e : env) : T -> Z := tround e.

  Inductive funiv := FInt (u : Z) | FList (l : list (option Z)).   (* None = a J jump *)

  (* the defaultdict of parse_keywords *)
  Record kws := mkKws {
    k_impl : list (string * T);   (* every IMP entry read so far: (particle, value), in order *)
    k_fb : option (list (Z * Z));
    k_fu : option funiv;
    k_fp : option (list T);
    k_lat : option Z;
    k_trcl : option (list T);
    k_u : option Z;
    k_rho : option string;
    k_mat : option string
  }.

  Definition kempty : kws := mkKws [] None None None None None None None None.

  (* Python max(a, b): a unless b > a *)
  Definition pmax (a b : T) : T := if sltb SC a b then b else a.

  Definition orelse {A} (a b : option A) : option A :=
    match a with Some _ => a | None => b end.

  (* imp_by_particle: a dict in insertion order; assigning to a particle that
     is already there keeps its place *)
  Fixpoint set1 (l : list (string * T)) (p : string) (v : T) : list (string * T) :=
    match l with
    | [] => [(p, v)]
    | (q, w) :: r => if String.eqb q p then (q, v) :: r else (q, w) :: set1 r p v
    end.

  Definition imp_dict (log : list (string * T)) : list (string * T) :=
    fold_left (fun acc pv => set1 acc (fst pv) (snd pv)) log [].

  (* keywords['importance'] = max(imp_by_particle.values()); None without IMP *)
  Definition imp_value (log : list (string * T)) : option T :=
    match map snd (imp_dict log) with
    | [] => None
    | v :: r => Some (fold_left pmax r v)
    end.

  (* effect on the dictionary [st] of one keyword group whose own content is
     [d]: the IMP entries are appended (a later entry replaces an earlier one
     for the same particle, see imp_dict), the three fill entries are written
     together, every other entry is overwritten *)
  Definition upd (st d : kws) : kws :=
    mkKws
      (k_impl st ++ k_impl d)%list
      (match k_fu d with Some _ => k_fb d | None => k_fb st end)
      (match k_fu d with Some _ => k_fu d | None => k_fu st end)
      (match k_fu d with Some _ => k_fp d | None => k_fp st end)
      (orelse (k_lat d) (k_lat st))
      (orelse (k_trcl d) (k_trcl st))
      (orelse (k_u d) (k_u st))
      (orelse (k_rho d) (k_rho st))
      (orelse (k_mat d) (k_mat st)).

  Definition ident9 : list T :=
    [s1 SC; s0 SC; s0 SC; s0 SC; s1 SC; s0 SC; s0 SC; s0 SC; s1 SC].

  (* to_cos: cos(radians(a)) *)
  Definition tocos (a : T) : T := scos SC (smul SC a (sdiv SC (spi SC) (sofZ SC 180))).

  (* params[3:12] = map(to_cos, params[3:12]) *)
  Definition star_cos (v : list T) : list T :=
    (firstn 3 v ++ map tocos (firstn 9 (skipn 3 v)) ++ skipn 12 v)%list.

  (* parse_ranges: 'lo:hi' strings *)
  Definition parse_range (s : string) : option (Z * Z) :=
    match split_char ":" s with
    | [a; b] => match pyint a, pyint b with
                | Some x, Some y => Some (x, y)
                | _, _ => None
                end
    | _ => None
    end.

  Definition bounds_size (b : list (Z * Z)) : Z :=
    fold_left (fun acc p => (acc * (snd p - fst p + 1))%Z) b 1%Z.

  (* expand_data_card(tokens, expected=n, dtype='int'): numbers, nR / R
     (repeat), nI / I (linear interpolation up to the next token), xM
     (multiply), nJ / J (jump: None); LOG / ILOG are outside the model
     (EUnsupported: they need a float power).  [acc] is the result so far,
     reversed (head = result[-1]); the rounding is done at the end.  Only
     ValueError is caught by parse_fill_kw (EParse); IndexError (EIndex) and
     TypeError / ZeroDivisionError (EOther) go through. *)
  Definition count_tok (t : string) : option Z :=
    match t with String _ EmptyString => Some 1%Z | _ => pyint (drop_last 1 t) end.

  Definition last_is (c : ascii) (t : string) : bool :=
    match last_char t with Some d => Ascii.eqb c d | None => false end.

  Definition zrange (n : Z) : list Z := map (fun i => Z.of_nat i) (seq 1 (Z.to_nat n)).

  Fixpoint expand_ints (e : env) (expected : nat) (toks : list string) (acc : list (option T))
    : res (list (option Z) * list string) :=
    let finish := if Nat.eqb (List.length acc) expected
                  then Ok (map (option_map (tround e)) (rev acc), toks)
                  else Err EParse in
    if Nat.leb expected (List.length acc) then finish else
    match toks with
    | [] => finish
    | t :: r =>
        if last_is "r" t then
          match count_tok t with
          | None => Err EParse
          | Some n => match acc with
                      | [] => Err EIndex
                      | x :: _ => expand_ints e expected r (repeat x (Z.to_nat n) ++ acc)%list
                      end
          end
        else if last_is "i" t then
          match acc with
          | [] => Err EIndex
          | lo :: _ =>
              match r with
              | [] => Err EIndex
              | up :: r' =>
                  match pyfloat e up with
                  | None => Err EParse
                  | Some u =>
                      match lo with
                      | None => Err EOther
                      | Some l =>
                          match count_tok t with
                          | None => Err EParse
                          | Some n =>
                              if (n + 1 =? 0)%Z then Err EOther else
                              let step := sdiv SC (ssub SC u l) (sofZ SC (n + 1)) in
                              let vals := (map (fun i => Some (sadd SC l (smul SC (sofZ SC i) step)))
                                               (zrange n) ++ [Some u])%list in
                              expand_ints e expected r' (rev vals ++ acc)%list
                          end
                      end
                  end
              end
          end
        else if last_is "m" t then
          match t with
          | String _ EmptyString => Err EParse
          | _ =>
              match pyfloat e (drop_last 1 t) with
              | None => Err EParse
              | Some f => match acc with
                          | [] => Err EIndex
                          | None :: _ => Err EOther
                          | Some v :: _ => expand_ints e expected r (Some (smul SC v f) :: acc)
                          end
              end
          end
        else if last_is "j" t then
          match count_tok t with
          | None => Err EParse
          | Some n => expand_ints e expected r (repeat None (Z.to_nat n) ++ acc)%list
          end
        else if String.eqb (take_last 3 t) "log" then Err EUnsupported
        else match pyfloat e t with
             | None => Err EParse
             | Some x => expand_ints e expected r (Some x :: acc)
             end
    end.

  (* the transformation part shared by parse_fill_kw and parse_trcl_kw (after
     to_float() of every entry; by number: int(to_float(.))) *)
  (* [star_empty]: parse_trcl_kw sends an empty starred list through
     normalize_transform (identity), parse_fill_kw does not (fix c2e06ed) *)
  Definition fill_params (star_empty : bool) (e : env) (elt : string) (ps : list string)
             (vals : list T) : res (list T) :=
    match ps with
    | [p] => match pytotrunc e p with
             | None => Err EValue
             | Some n => match trtab e n with Some l => Ok l | None => Err EKey end
             end
    | [_; _; _] => Ok (vals ++ ident9)%list
    | [] => if star_empty && has "*" elt then normtr e [] else Ok []
    | _ => if has "*" elt then normtr e (star_cos vals) else normtr e vals
    end.

  Definition d_fill fb fu fp : kws :=
    mkKws [] fb (Some fu) (Some fp) None None None None None.

  Definition parse_fill (e : env) (elt : string) (rest : list string)
    : res (kws * list string) :=
    match rest with
    | [] => Err EIndex
    | first :: r1 =>
        (if contains_char ":" first then
           let '(bs, r2) := span (contains_char ":") r1 in
           match map_opt parse_range (first :: bs) with
           | None => Err EValue
           | Some bounds =>
               let size := bounds_size bounds in
               (* a negative size (a range written hi:lo): expand_data_card finds 0 items
                  instead of the negative number expected: ValueError; size 0: the
                  slice kw_list[-0:] deletes every remaining token (outside the model) *)
               if (size <=? 0)%Z then (if (size <? 0)%Z then Err EParse else Err EUnsupported) else
               expand_ints e (Z.to_nat size) r2 [] >>= fun '(us, r3) =>
               Ok (Some bounds, FList us, r3)
           end
         else match pytrunc e first with
              | None => Err EValue
              | Some u => Ok (None, FInt u, r1)
              end) >>= fun '(fb, fu, r) =>
        let '(ps, r') := span numeric_start r in
        match map_opt (pyfloat e) ps with
        | None => Err EValue
        | Some vals => fill_params false e elt ps vals >>= fun fp => Ok (d_fill fb fu fp, r')
        end
    end.

  Definition parse_lat (rest : list string) : res (kws * list string) :=
    match rest with
    | [] => Err EIndex
    | v :: r => match pyint v with
                | None => Err EParse
                | Some n => if (n =? 1)%Z || (n =? 2)%Z
                            then Ok (mkKws [] None None None (Some n) None None None None, r)
                            else Err EParse
                end
    end.

  Definition parse_trcl (e : env) (elt : string) (rest : list string)
    : res (kws * list string) :=
    let '(ps, r) := span numeric_start rest in
    match map_opt (pyfloat e) ps with
    | None => Err EValue
    | Some vals =>
        fill_params true e elt ps vals >>= fun v =>
        Ok (mkKws [] None None None None (Some v) None None None, r)
    end.

  (* one iteration of the while loop of parse_keywords: the content of the
     keyword group that starts with [elt] and the tokens left *)
  Definition step (e : env) (elt : string) (rest : list string) : res (kws * list string) :=
    if prefix "imp" elt then
      match rest with
      | [] => Err EIndex
      | v :: r => match pyfloat e v with
                  | None => Err EValue
                  | Some x => Ok (mkKws (map (fun p => (p, x)) (imp_particles elt))
                                        None None None None None None None None, r)
                  end
      end
    else if has "fill" elt then parse_fill e elt rest
    else if has "lat" elt then parse_lat rest
    else if has "trcl" elt then parse_trcl e elt rest
    else if String.eqb elt "u" then
      match rest with
      | [] => Err EIndex
      | v :: r => match pytrunc e v with
                  | None => Err EValue
                  | Some n => Ok (mkKws [] None None None None None (Some (Z.abs n)) None None, r)
                  end
      end
    else if has "rho" elt then
      match rest with
      | [] => Err EIndex
      | v :: r => Ok (mkKws [] None None None None None None (Some v) None, r)
      end
    else if has "mat" elt then
      match rest with
      | [] => Err EIndex
      | v :: r => Ok (mkKws [] None None None None None None None (Some v), r)
      end
    else Ok (kempty, rest).

  (* parse_keywords: every group consumes at least its keyword, so
     fuel = number of tokens is enough (Proofs.parse_from_fuel) *)
  Fixpoint parse_from (fuel : nat) (e : env) (st : kws) (toks : list string) : res kws :=
    match toks with
    | [] => Ok st
    | elt :: rest =>
        match fuel with
        | O => Err EFuel
        | S f => step e elt rest >>= fun '(d, rest') => parse_from f e (upd st d) rest'
        end
    end.

  Definition parse_kws (e : env) (toks : list string) : res kws :=
    parse_from (List.length toks) e kempty toks.

  (* ---- parse_one_cell_worker ---- *)
  Inductive fillid := FillU (u : Z) | FillLat (b : list (Z * Z)) (us : list (option Z)).

  Record cell := mkCell {
    c_mat : string;
    c_rho : option string;
    c_geom : string;
    c_imp : T;
    c_u : Z;
    c_fill : option fillid;
    c_filltr : option (list T);
    c_lat : option Z;
    c_trcl : option (list T)       (* None = [] *)
  }.

  Definition parse_material (e : env) (material : string) : res (string * option string) :=
    match words material with
    | [] => Err EIndex
    | mid :: r =>
        match pyint mid with
        | None => Err EValue
        | Some 0%Z => Ok (mid, None)
        | Some _ => match r with
                    | [] => Err EIndex
                    | d :: _ => Ok (mid, Some (normfloat e d))
                    end
        end
    end.

  Definition to_fillid (k : kws) (lat_opt : option (list (Z * Z))) : res (option fillid) :=
    match k_fb k, k_fu k with
    | None, None => Ok None
    | fb, fu =>
        match k_lat k with
        | Some _ =>
            match fu with
            | Some (FInt u) =>
                match lat_opt with
                | None => Err EMissingLat
                | Some b => if (bounds_size b <? 0)%Z then Err EValue
                            else Ok (Some (FillLat b (repeat (Some u) (Z.to_nat (bounds_size b)))))
                end
            | Some (FList us) => match fb with
                                 | Some b => Ok (Some (FillLat b us))
                                 | None => Err EAssert
                                 end
            | None => Err EAssert
            end
        | None =>
            match fb, fu with
            | Some _, _ => Err EAssert
            | None, Some (FInt u) => Ok (Some (FillU u))
            | None, _ => Err EAssert
            end
        end
    end.

  Definition trcl_list (t : option (list T)) : option (list T) :=
    match t with
    | Some [] | None => None
    | _ => t
    end.

  (* the cell built from the material string, the printed geometry and the
     keyword dictionary *)
  Definition finish_cell (e : env) (rank : nat) (lat_opt : option (list (Z * Z)))
             (mid : string) (rho : option string) (ast : string) (k : kws) : res cell :=
    (match imp_value (k_impl k) with
     | Some v => Ok v
     | None => match nth_error (imps e) rank with Some v => Ok v | None => Err EParse end
     end) >>= fun imp =>
    let u := match k_u k with Some n => n | None => 0%Z end in
    let mid' := match k_mat k with Some m => m | None => mid end in
    let rho' := match k_rho k with Some d => Some (normfloat e d) | None => rho end in
    (* a void cell has no density (LIKE n BUT MAT=0); int() of the token may fail *)
    (match pyint mid' with
     | None => Err EValue
     | Some 0%Z => Ok None
     | Some _ => Ok rho'
     end) >>= fun rho'' =>
    to_fillid k lat_opt >>= fun fid =>
    Ok (mkCell mid' rho'' ast imp u fid (k_fp k) (k_lat k) (trcl_list (k_trcl k))).

  Definition card := (string * string * string)%type.   (* material, geometry, options *)

  Definition worker (e : env) (rank : nat) (lat_opt : option (list (Z * Z))) (c : card)
    : res cell :=
    let '(material, geometry, options) := c in
    parse_material e material >>= fun '(mid, rho) =>
    match getast e geometry with
    | None => Err EParse
    | Some ast =>
        parse_kws e (tokenize options) >>= fun k =>
        finish_cell e rank lat_opt mid rho ast k
    end.

  (* ---- parse_one_cell: the LIKE n BUT loop ---- *)
  Definition table := list (Z * card).

  (* dict lookup (a later card with the same number replaces the earlier) *)
  Fixpoint lookup (n : Z) (tbl : table) : option card :=
    match tbl with
    | [] => None
    | (m, c) :: r => match lookup n r with
                     | Some c' => Some c'
                     | None => if (n =? m)%Z then Some c else None
                     end
    end.

  Definition apply_but (base : card) (but : string) : card :=
    let '(material, geometry, options) := base in
    (material, geometry, options ++ " " ++ but).

  Fixpoint resolve_like (fuel : nat) (tbl : table) (c : card) : res card :=
    let '(_, geometry, but) := c in
    match search_like (lower geometry) with
    | None => Ok c
    | Some n =>
        match fuel with
        | O => Err EFuel
        | S f => match lookup n tbl with
                 | None => Err EKey
                 | Some base => resolve_like f tbl (apply_but base but)
                 end
        end
    end.

  Definition parse_one_cell (fuel : nat) (e : env) (tbl : table) (rank : nat)
             (lat_opt : option (list (Z * Z))) (c : card) : res cell :=
    resolve_like fuel tbl c >>= worker e rank lat_opt.

  (* parse_all_cells: cells in card order, the first exception ends the run;
     second component = skipped_cells *)
  Fixpoint parse_cells (e : env) (tbl : table) (rank : nat) (todo : table)
    : res (list (Z * cell)) :=
    match todo with
    | [] => Ok []
    | (key, c) :: r =>
        parse_one_cell (List.length tbl) e tbl rank (latopt e key) c >>= fun x =>
        parse_cells e tbl (Datatypes.S rank) r >>= fun xs => Ok ((key, x) :: xs)
    end.

  Definition parse_all (e : env) (tbl : table) : res (list (Z * cell)) :=
    parse_cells e tbl O tbl.

  Definition skipped (cells : list (Z * cell)) : list Z :=
    map fst (filter (fun kc => seqb SC (c_imp (snd kc)) (s0 SC)) cells).
End Model.

(* MIP/mip/cellcard.py split, LIKE branch (re_likebut, IGNORECASE): leading
   blanks and digits = name; then blanks, "like", anything (greedy), "but" =
   geometry, i.e. up to the LAST "but" of the card; the rest = options. *)
Fixpoint last_but (s : string) : option nat :=
  (* offset just after the last occurrence of "but" (case-insensitive) *)
  match s with
  | EmptyString => None
  | String _ r =>
      match last_but r with
      | Some k => Some (Datatypes.S k)
      | None => if prefix "but" (lower s) then Some 3%nat else None
      end
  end.

Definition split_like (txt : string) : option (string * string * string) :=
  let body := skip_ws txt in
  let '(name, r) := span_digits body in
  match name with
  | EmptyString => None
  | _ =>
      if starts_ws r && prefix "like" (lower (skip_ws r)) then
        let lead := (String.length r - String.length (skip_ws r))%nat in
        (* .*but after 'like' *)
        match last_but (sdrop (lead + 4) r) with
        | None => None
        | Some k => Some (substring 0 (String.length txt - String.length body) txt ++ name,
                          substring 0 (lead + 4 + k) r, sdrop (lead + 4 + k) r)
        end
      else None
  end.
