(* C15 — executable comparison functions used by the generated correspondence
   files: the model at binary64, its environment filled from tables observed
   on the repository's own functions, against ParseMCNPCell.parse(). *)
From Coq Require Import List NArith ZArith Bool String Ascii PrimFloat.
From Coq Require Import Uint63.
From T4V Require Import Base.Str Base.Scalar Base.Cases C15.Model C15.Canon.
From T4V Require C12.Exec.   (* float -> Z conversions (f_roundZ), read-only *)
Import ListNotations.
Open Scope string_scope.

(* ---- compact string literals for the generated files: 9 ASCII characters per
   primitive integer, 7 bits each, first character in the low bits (elaborating
   a "..." literal costs tens of microseconds per character, an int63 literal is
   one node); mirrors harness/props/c15.py pack(), which checks itself against
   the samples below before use ---- *)
Fixpoint unpack (fuel : nat) (i : Uint63.int) (tail : string) : string :=
  match fuel with
  | O => tail
  | S f =>
      let c := Uint63.land i 127%uint63 in
      if Uint63.eqb c 0%uint63 then tail
      else String (ascii_of_N (Z.to_N (Uint63.to_Z c))) (unpack f (Uint63.lsr i 7%uint63) tail)
  end.

Definition U (l : list Uint63.int) : string := fold_right (unpack 9) "" l.

Example U_selftest :
  U [] = "" /\ U [97]%uint63 = "a" /\ U [31768959712549169]%uint63 = "12345678" /\
  U [4139051819874441521; 48]%uint63 = "1234567890".
Proof. vm_compute. repeat split. Qed.

Definition err_eqb (a b : err) : bool :=
  match a, b with
  | EIndex, EIndex | EValue, EValue | EKey, EKey | EParse, EParse
  | EMissingLat, EMissingLat | EAssert, EAssert | EOther, EOther | EFuel, EFuel
  | EUnsupported, EUnsupported | ENoTable, ENoTable => true
  | _, _ => false
  end.

Fixpoint assoc {A B} (eqb : A -> A -> bool) (k : A) (l : list (A * B)) : option B :=
  match l with
  | [] => None
  | (k', v) :: r => if eqb k k' then Some v else assoc eqb k r
  end.

Definition fl := list float.
Definition fl_close (a b : fl) : bool := list_eqb f_close9 a b.

(* tables of the case *)
Record tables := mkTables {
  t_num : list (string * (option float * option Z * option Z));
  t_tr : list (Z * fl);
  t_norm : list (fl * res fl);
  t_nf : list (string * string);
  t_ast : list (string * option string);
  t_imps : fl;
  t_lat : list (Z * list (Z * Z))
}.

Definition env_of (t : tables) : env (T:=float) :=
  mkEnv
    (fun s => match assoc String.eqb s (t_num t) with Some (f, _, _) => f | None => None end)
    (fun s => match assoc String.eqb s (t_num t) with Some (_, z, _) => z | None => None end)
    C12.Exec.f_roundZ
    (fun s => match assoc String.eqb s (t_num t) with Some (_, _, z) => z | None => None end)
    (fun n => assoc Z.eqb n (t_tr t))
    (fun v => match assoc fl_close v (t_norm t) with Some r => r | None => Err ENoTable end)
    (fun s => match assoc String.eqb s (t_nf t) with Some r => r | None => "?no-table" end)
    (fun s => match assoc String.eqb s (t_ast t) with Some r => r | None => None end)
    (t_imps t)
    (fun n => assoc Z.eqb n (t_lat t)).

Definition zz_eqb (a b : Z * Z) : bool := pair_eqb Z.eqb Z.eqb a b.

Definition fillid_eqb (a b : fillid) : bool :=
  match a, b with
  | FillU x, FillU y => Z.eqb x y
  | FillLat b1 u1, FillLat b2 u2 => list_eqb zz_eqb b1 b2 && list_eqb (option_eqb Z.eqb) u1 u2
  | _, _ => false
  end.

Definition cell_eqb (a b : cell (T:=float)) : bool :=
  String.eqb (c_mat a) (c_mat b)
  && option_eqb String.eqb (c_rho a) (c_rho b)
  && String.eqb (c_geom a) (c_geom b)
  && f_close9 (c_imp a) (c_imp b)
  && Z.eqb (c_u a) (c_u b)
  && option_eqb fillid_eqb (c_fill a) (c_fill b)
  && option_eqb fl_close (c_filltr a) (c_filltr b)
  && option_eqb Z.eqb (c_lat a) (c_lat b)
  && option_eqb fl_close (c_trcl a) (c_trcl b).

Definition out := res (list (Z * cell (T:=float)) * list Z).

Definition out_eqb (a b : out) : bool :=
  match a, b with
  | Ok (c1, s1), Ok (c2, s2) =>
      list_eqb (pair_eqb Z.eqb cell_eqb) c1 c2 && list_eqb Z.eqb s1 s2
  | Err e1, Err e2 => err_eqb e1 e2
  | _, _ => false
  end.

Definition run_deck (t : tables) (tbl : table) : out :=
  match parse_all FS (env_of t) tbl with
  | Ok cells => Ok (cells, skipped FS cells)
  | Err e => Err e
  end.

(* case (a): the dictionary of get_cells, the tables, and what
   ParseMCNPCell(...).parse() returned (cells, skipped) or raised *)
(* EUnsupported is the model saying "outside what I model" (LOG / ILOG in a FILL
   array, a FILL array of size 0); it depends on the input only, never on what
   the implementation did: such a deck is not a disagreement *)
Definition check_deck (c : tables * table * out) : bool :=
  let '(t, tbl, expected) := c in
  match run_deck t tbl with
  | Err EUnsupported => true
  | r => out_eqb r expected
  end.

(* case (b): a LIKE card's text and what cellcard.split returned *)
Definition check_split (c : string * option (string * string * string)) : bool :=
  option_eqb (fun a b => let '(n1, g1, o1) := a in let '(n2, g2, o2) := b in
                         String.eqb n1 n2 && String.eqb g1 g2 && String.eqb o1 o2)
             (split_like (fst c)) (snd c).

(* case (c): an option string and the token list the code's normalisation gives *)
Definition check_tokens (c : string * list string) : bool :=
  list_eqb String.eqb (tokenize (fst c)) (snd c).

(* diagnosis for the replay: which cells / fields disagree *)
Definition field_bits (a b : cell (T:=float)) : list bool :=
  [String.eqb (c_mat a) (c_mat b); option_eqb String.eqb (c_rho a) (c_rho b);
   String.eqb (c_geom a) (c_geom b); f_close9 (c_imp a) (c_imp b); Z.eqb (c_u a) (c_u b);
   option_eqb fillid_eqb (c_fill a) (c_fill b); option_eqb fl_close (c_filltr a) (c_filltr b);
   option_eqb Z.eqb (c_lat a) (c_lat b); option_eqb fl_close (c_trcl a) (c_trcl b)].

Definition diag_deck (c : tables * table * out) : list (Z * Z * list bool) * bool :=
  let '(t, tbl, expected) := c in
  match run_deck t tbl, expected with
  | Ok (c1, s1), Ok (c2, s2) =>
      (map (fun p => (fst (fst p), fst (snd p), field_bits (snd (fst p)) (snd (snd p))))
           (filter (fun p => negb (pair_eqb Z.eqb cell_eqb (fst p) (snd p))) (combine c1 c2)),
       list_eqb Z.eqb s1 s2)
  | _, _ => ([], false)
  end.

(* case (d): the explicit card constructed by Canon.canon_card for every card of
   the deck (at word level and as text) parses, in the model, to the cell of the
   LIKE card *)
Fixpoint canon_cells (e : env (T:=float)) (tbl : table) (rank : nat) (todo : table)
  : list (res (option (cell (T:=float) * cell (T:=float) * cell (T:=float)))) :=
  match todo with
  | [] => []
  | (key, c) :: r => canon_cell FS e tbl rank key c :: canon_cells e tbl (S rank) r
  end.

Definition canon_ok (x : res (option (cell (T:=float) * cell (T:=float) * cell (T:=float)))) : bool :=
  match x with
  | Ok None => true
  | Ok (Some (a, b, c)) => cell_eqb a b && cell_eqb a c
  | Err EKey | Err EFuel => true          (* the chain itself does not resolve *)
  | Err _ => false
  end.

Definition check_canon (c : tables * table * out) : bool :=
  let '(t, tbl, _) := c in forallb canon_ok (canon_cells (env_of t) tbl O tbl).

(* informational: the construction is defined for every card of the deck *)
Definition canon_defined (c : tables * table * out) : bool :=
  let '(t, tbl, _) := c in
  forallb (fun x => match x with Ok (Some _) => true | _ => false end)
          (canon_cells (env_of t) tbl O tbl).

(* case (e): the constructed cards as text, for the harness to hand them to the
   implementation: one line "key|material|geometry|options" per card whose
   construction is defined *)
Definition nl : string := String (ascii_of_N 10) EmptyString.

Fixpoint canon_dump_cells (e : env (T:=float)) (tbl todo : table) : string :=
  match todo with
  | [] => EmptyString
  | (key, c) :: r =>
      (match resolve_like (List.length tbl) tbl c with
       | Ok x => match canon_card FS e x with
                 | Ok w => let '(m, g, o) := card_text w in
                           dec_Z key ++ "|" ++ m ++ "|" ++ g ++ "|" ++ o ++ nl
                 | Err _ => EmptyString
                 end
       | Err _ => EmptyString
       end) ++ canon_dump_cells e tbl r
  end.

Definition canon_dump (c : tables * table * out) : string :=
  let '(t, tbl, _) := c in canon_dump_cells (env_of t) tbl tbl.
