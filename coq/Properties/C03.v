(* C03 — macrobodies: interior, exterior and numbered facets.
   Only restatements; proofs are in C03/Proofs*.v. *)
From Coq Require Import List ZArith Bool Reals.
From T4V Require Import Base.Scalar C03.Vec C03.Model.
Import ListNotations.
