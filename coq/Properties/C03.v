(* C03 — macrobodies: interior, exterior and numbered facets.
   Only restatements; proofs are in C03/Proofs*.v.

   Reading guide.  The model functions (C03/Model.v: box rpp sph rcc rhp rec trc
   ell wed arb, expand) are the ones the correspondence runs execute at
   binary64; here they are read at RS (reals).  A body function returns entries
   (type, parameters, side).  [same_facet e f] (C03/Spec.v): side * (MCNP
   equation of the entry's surface) = c * f everywhere with c > 0, i.e. the
   entry is the facet f with the outward side positive.  [Forall2 same_facet es
   fs]: the k-th entry is the k-th facet, for every k.  [all_negative es p]:
   what the cell reference -b selects; [some_positive es p]: what +b selects.
   [pl v]: the three card entries of a vector. *)
From Coq Require Import List ZArith NArith Bool Reals Lra.
From T4V Require Import Base.Scalar C03.Vec C03.Model C03.Convert C03.Spec C03.SpecT4
  C03.ProofsPlanes C03.ProofsQuad C03.ProofsArb C03.ProofsExpand C03.ProofsFacet
  C03.ProofsConvert C03.ProofsWritten C03.Proofs C03.ProofsExpandT4 C03.ProofsHull C03.LinkC04 C03.LinkedWritten C03.LinkC13.
Import ListNotations.
Open Scope R_scope.

(* ---------------- BOX (right parallelepiped, either handedness) ------------- *)
Theorem C03_box_facet_k : forall v a1 a2 a3 : pt,
  dot a1 a2 = 0 /\ dot a1 a3 = 0 /\ dot a2 a3 = 0 /\ det a1 a2 a3 <> 0 ->
  exists es, box RS (pl v ++ pl a1 ++ pl a2 ++ pl a3) = Ok es /\
             Forall2 same_facet es (box_facets v a1 a2 a3).
Proof. exact box_facets_ok. Qed.

Theorem C03_box_inside : forall v a1 a2 a3 : pt,
  dot a1 a2 = 0 /\ dot a1 a3 = 0 /\ dot a2 a3 = 0 /\ det a1 a2 a3 <> 0 ->
  forall es, box RS (pl v ++ pl a1 ++ pl a2 ++ pl a3) = Ok es -> forall p,
    (box_inside v a1 a2 a3 p <-> all_negative es p) /\
    (outside_of (box_facets v a1 a2 a3) p <-> some_positive es p).
Proof. exact box_inside_ok. Qed.

(* the remark in the source ("capable of handling generic parallelepipeds"):
   with only det <> 0 the six entries bound exactly v + s a1 + t a2 + u a3,
   0 < s, t, u < 1 -- no orthogonality *)
Theorem C03_box_general_inside : forall v a1 a2 a3 : pt,
  det a1 a2 a3 <> 0 ->
  forall es, box RS (pl v ++ pl a1 ++ pl a2 ++ pl a3) = Ok es ->
  forall p, box_inside v a1 a2 a3 p <-> all_negative es p.
Proof. exact box_general_inside. Qed.

(* ---------------- RPP ---------------- *)
Theorem C03_rpp_facet_k : forall x0 x1 y0 y1 z0 z1 : R,
  exists es, rpp RS [x0; x1; y0; y1; z0; z1] = Ok es /\
             Forall2 same_facet es (rpp_facets x0 x1 y0 y1 z0 z1).
Proof. exact rpp_facets_ok. Qed.

Theorem C03_rpp_inside : forall x0 x1 y0 y1 z0 z1 : R,
  forall es, rpp RS [x0; x1; y0; y1; z0; z1] = Ok es -> forall p,
    (rpp_inside x0 x1 y0 y1 z0 z1 p <-> all_negative es p) /\
    (outside_of (rpp_facets x0 x1 y0 y1 z0 z1) p <-> some_positive es p).
Proof. exact rpp_inside_ok. Qed.

(* ---------------- SPH ---------------- *)
Theorem C03_sph_facet_k : forall (c : pt) (r : R),
  exists es, sph (pl c ++ [r]) = Ok es /\ Forall2 same_facet es (sph_facets c r).
Proof. exact sph_facets_ok. Qed.

Theorem C03_sph_inside : forall (c : pt) (r : R),
  forall es, sph (pl c ++ [r]) = Ok es -> forall p,
    (sph_inside c r p <-> all_negative es p) /\
    (outside_of (sph_facets c r) p <-> some_positive es p).
Proof. exact sph_inside_ok. Qed.

(* ---------------- RCC ---------------- *)
Theorem C03_rcc_facet_k : forall (v h : pt) (r : R),
  h <> (0, 0, 0) ->
  exists es, rcc RS (pl v ++ pl h ++ [r]) = Ok es /\
             Forall2 same_facet es (rcc_facets v h r).
Proof. exact rcc_facets_ok. Qed.

Theorem C03_rcc_inside : forall (v h : pt) (r : R),
  h <> (0, 0, 0) ->
  forall es, rcc RS (pl v ++ pl h ++ [r]) = Ok es -> forall p,
    (rcc_inside v h r p <-> all_negative es p) /\
    (outside_of (rcc_facets v h r) p <-> some_positive es p).
Proof. exact rcc_inside_ok. Qed.

(* ---------------- RHP / HEX ---------------- *)
(* fifteen entries: no condition at all is needed for the facets *)
Theorem C03_rhp15_facet_k : forall v h r s t : pt,
  exists es, rhp RS (pl v ++ pl h ++ pl r ++ pl s ++ pl t) = Ok es /\
             Forall2 same_facet es (rhp_facets v h r s t).
Proof. exact rhp15_facets_ok. Qed.

Theorem C03_rhp15_inside : forall v h r s t : pt,
  forall es, rhp RS (pl v ++ pl h ++ pl r ++ pl s ++ pl t) = Ok es -> forall p,
    (inside_of (rhp_facets v h r s t) p <-> all_negative es p) /\
    (outside_of (rhp_facets v h r s t) p <-> some_positive es p).
Proof. exact rhp15_inside_ok. Qed.

(* nine entries: the facet vector normal to the axis, s and t are r turned by
   60 and 120 degrees about h (cos = 1/2, -1/2, sin = sqrt 3 / 2) *)
Theorem C03_rhp9_facet_k : forall v h r : pt,
  h <> (0, 0, 0) -> dot r h = 0 ->
  exists es, rhp RS (pl v ++ pl h ++ pl r) = Ok es /\
             Forall2 same_facet es (rhp_regular_facets v h r).
Proof. exact rhp9_facets_ok. Qed.

Theorem C03_rhp9_inside : forall v h r : pt,
  h <> (0, 0, 0) -> dot r h = 0 ->
  forall es, rhp RS (pl v ++ pl h ++ pl r) = Ok es -> forall p,
    (inside_of (rhp_regular_facets v h r) p <-> all_negative es p) /\
    (outside_of (rhp_regular_facets v h r) p <-> some_positive es p).
Proof. exact rhp9_inside_ok. Qed.

(* the turned vectors of the Spec really make a regular hexagon *)
Theorem C03_rhp9_regular : forall (h r : pt) (c s : R),
  h <> (0, 0, 0) -> dot r h = 0 -> c * c + s * s = 1 ->
  norm2 (turn h r c s) = norm2 r /\ dot (turn h r c s) h = 0 /\
  dot (turn h r c s) r = c * norm2 r.
Proof. exact turn_regular. Qed.

Theorem C03_hex_is_rhp : forall (p : list R) (d : list N),
  body_parts RS HEX p d = body_parts RS RHP p d.
Proof. exact dispatch_hex. Qed.

(* ---------------- REC ---------------- *)
Theorem C03_rec12_facet_k : forall v h a1 a2 : pt,
  h <> (0, 0, 0) -> a1 <> (0, 0, 0) -> a2 <> (0, 0, 0) ->
  exists es, rec RS (pl v ++ pl h ++ pl a1 ++ pl a2) = Ok es /\
             Forall2 same_facet es (rec_facets v h a1 a2).
Proof. exact rec12_facets_ok. Qed.

Theorem C03_rec12_inside : forall v h a1 a2 : pt,
  h <> (0, 0, 0) -> a1 <> (0, 0, 0) -> a2 <> (0, 0, 0) ->
  forall es, rec RS (pl v ++ pl h ++ pl a1 ++ pl a2) = Ok es -> forall p,
    (inside_of (rec_facets v h a1 a2) p <-> all_negative es p) /\
    (outside_of (rec_facets v h a1 a2) p <-> some_positive es p).
Proof. exact rec12_inside_ok. Qed.

Theorem C03_rec10_facet_k : forall (v h a1 : pt) (b : R),
  cross h a1 <> (0, 0, 0) -> b <> 0 ->
  exists es, rec RS (pl v ++ pl h ++ pl a1 ++ [b]) = Ok es /\
             Forall2 same_facet es (rec_facets v h a1 (rec10_minor h a1 b)).
Proof. exact rec10_facets_ok. Qed.

Theorem C03_rec10_inside : forall (v h a1 : pt) (b : R),
  cross h a1 <> (0, 0, 0) -> b <> 0 ->
  forall es, rec RS (pl v ++ pl h ++ pl a1 ++ [b]) = Ok es -> forall p,
    (inside_of (rec_facets v h a1 (rec10_minor h a1 b)) p <-> all_negative es p) /\
    (outside_of (rec_facets v h a1 (rec10_minor h a1 b)) p <-> some_positive es p).
Proof. exact rec10_inside_ok. Qed.

(* right elliptical cylinders against the solid described without facets:
   v + t h + x a1 + y a2, 0 < t < 1, x^2 + y^2 < 1 *)
Theorem C03_rec12_solid : forall v h a1 a2 : pt,
  dot h a1 = 0 -> dot h a2 = 0 -> dot a1 a2 = 0 ->
  h <> (0, 0, 0) -> a1 <> (0, 0, 0) -> a2 <> (0, 0, 0) ->
  forall es, rec RS (pl v ++ pl h ++ pl a1 ++ pl a2) = Ok es -> forall p,
    rec_inside v h a1 a2 p <-> all_negative es p.
Proof. exact rec12_solid_ok. Qed.

Theorem C03_rec10_solid : forall (v h a1 : pt) (b : R),
  dot h a1 = 0 -> cross h a1 <> (0, 0, 0) -> b <> 0 ->
  forall es, rec RS (pl v ++ pl h ++ pl a1 ++ [b]) = Ok es -> forall p,
    rec_inside v h a1 (rec10_minor h a1 b) p <-> all_negative es p.
Proof. exact rec10_solid_ok. Qed.

(* ---------------- TRC ---------------- *)
Theorem C03_trc_facet_k : forall (v h : pt) (r0 r1 : R),
  h <> (0, 0, 0) -> r0 <> r1 ->
  exists es, trc RS (pl v ++ pl h ++ [r0; r1]) = Ok es /\
             Forall2 same_facet es (trc_facets v h r0 r1).
Proof. exact trc_facets_ok. Qed.

Theorem C03_trc_inside : forall (v h : pt) (r0 r1 : R),
  h <> (0, 0, 0) -> r0 <> r1 ->
  forall es, trc RS (pl v ++ pl h ++ [r0; r1]) = Ok es -> forall p,
    (inside_of (trc_facets v h r0 r1) p <-> all_negative es p) /\
    (outside_of (trc_facets v h r0 r1) p <-> some_positive es p).
Proof. exact trc_inside_ok. Qed.

(* the frustum described without facets: v + t h + w, 0 < t < 1, w normal to
   h, |w| below the radius that goes linearly from r0 to r1 *)
Theorem C03_trc_solid : forall (v h : pt) (r0 r1 : R),
  h <> (0, 0, 0) -> r0 <> r1 ->
  forall es, trc RS (pl v ++ pl h ++ [r0; r1]) = Ok es -> forall p,
    trc_inside v h r0 r1 p <-> all_negative es p.
Proof. exact trc_solid_ok. Qed.

(* ---------------- ELL ---------------- *)
Theorem C03_ell_axis_facet_k : forall (c a : pt) (mb : R),
  a <> (0, 0, 0) -> mb < 0 ->
  exists es, ell RS (pl c ++ pl a ++ [mb]) = Ok es /\
             Forall2 same_facet es (ell_axis_facets c a mb).
Proof. exact ell_axis_facets_ok. Qed.

Theorem C03_ell_axis_inside : forall (c a : pt) (mb : R),
  a <> (0, 0, 0) -> mb < 0 ->
  forall es, ell RS (pl c ++ pl a ++ [mb]) = Ok es -> forall p,
    (inside_of (ell_axis_facets c a mb) p <-> all_negative es p) /\
    (outside_of (ell_axis_facets c a mb) p <-> some_positive es p).
Proof. exact ell_axis_inside_ok. Qed.

(* positive last entry: the Spec is "as MCNP behaves, per the source comment"
   (DESIGN 5.4, trusted base) *)
Theorem C03_ell_foci_facet_k : forall (f1 f2 : pt) (L : R),
  0 < L -> vsub f1 (vmul (1 / 2) (vadd f1 f2)) <> (0, 0, 0) ->
  norm (vsub f1 (vmul (1 / 2) (vadd f1 f2))) <> 2 * L ->
  exists es, ell RS (pl f1 ++ pl f2 ++ [L]) = Ok es /\
             Forall2 same_facet es (ell_foci_facets f1 f2 L).
Proof. exact ell_foci_facet_ok. Qed.

Theorem C03_ell_foci_inside : forall (f1 f2 : pt) (L : R),
  0 < L -> vsub f1 (vmul (1 / 2) (vadd f1 f2)) <> (0, 0, 0) ->
  norm (vsub f1 (vmul (1 / 2) (vadd f1 f2))) <> 2 * L ->
  forall es, ell RS (pl f1 ++ pl f2 ++ [L]) = Ok es -> forall p,
    (inside_of (ell_foci_facets f1 f2 L) p <-> all_negative es p) /\
    (outside_of (ell_foci_facets f1 f2 L) p <-> some_positive es p).
Proof. exact ell_foci_inside_ok. Qed.

(* ---------------- WED (right wedge, either handedness) ---------------- *)
Theorem C03_wed_facet_k : forall v a b h : pt,
  dot a b = 0 /\ dot a h = 0 /\ dot b h = 0 /\ det a b h <> 0 ->
  exists es, wed RS (pl v ++ pl a ++ pl b ++ pl h) = Ok es /\
             Forall2 same_facet es (wed_facets v a b h).
Proof. exact wed_facets_ok. Qed.

Theorem C03_wed_inside : forall v a b h : pt,
  dot a b = 0 /\ dot a h = 0 /\ dot b h = 0 /\ det a b h <> 0 ->
  forall es, wed RS (pl v ++ pl a ++ pl b ++ pl h) = Ok es -> forall p,
    (wed_inside v a b h p <-> all_negative es p) /\
    (outside_of (wed_facets v a b h) p <-> some_positive es p).
Proof. exact wed_inside_ok. Qed.

(* ---------------- ARB ---------------- *)
Theorem C03_arb_facet_k : forall (V : list pt) (descr : list N),
  List.length V = 8%nat -> List.length descr = 6%nat ->
  (1 <= arb_nvert descr <= 8)%nat ->
  Forall (facet_admissible (firstn (arb_nvert descr) V)
                           (centroid_of (firstn (arb_nvert descr) V)))
         (arb_facet_lists descr) ->
  exists es, arb RS (flat V) descr = Ok es /\
    Forall2 same_facet es (arb_facets (firstn (arb_nvert descr) V) (arb_facet_lists descr)).
Proof. exact arb_facet_ok. Qed.

Theorem C03_arb_inside : forall (V : list pt) (descr : list N),
  List.length V = 8%nat -> List.length descr = 6%nat ->
  (1 <= arb_nvert descr <= 8)%nat ->
  Forall (facet_admissible (firstn (arb_nvert descr) V)
                           (centroid_of (firstn (arb_nvert descr) V)))
         (arb_facet_lists descr) ->
  forall es, arb RS (flat V) descr = Ok es -> forall p,
    (inside_of (arb_facets (firstn (arb_nvert descr) V) (arb_facet_lists descr)) p
     <-> all_negative es p) /\
    (outside_of (arb_facets (firstn (arb_nvert descr) V) (arb_facet_lists descr)) p
     <-> some_positive es p).
Proof. exact arb_inside_ok. Qed.

(* the centroid is strictly inside every admissible facet's half-space: the
   ARB Spec ("outward = away from the centroid") is not vacuous *)
Theorem C03_arb_centroid_inside : forall (vs : list pt) (facets : list (list nat)),
  Forall (facet_admissible vs (centroid_of vs)) facets ->
  inside_of (arb_facets vs facets) (centroid_of vs).
Proof. exact arb_centroid_inside. Qed.

(* parse_facet: the descriptor written with decimal digits ds (any length,
   zeros anywhere) gives the non-zero digits minus one, in order *)
Theorem C03_parse_facet_digits : forall ds : list N,
  Forall (fun d => (d < 10)%N) ds ->
  parse_facet (of_digits ds) = vertex_numbers ds.
Proof. exact parse_facet_digits. Qed.

(* ---------------- error branches ---------------- *)
(* check_params_length: any other number of entries is a MacroBodyError *)
Theorem C03_wrong_count_rejected : forall (b : body) (p : list R) (d : list N),
  ~ In (List.length p) (expected_lengths b) ->
  body_parts RS b p d = Err EMacroBody.
Proof. exact wrong_count_rejected. Qed.

Theorem C03_arb_wrong_descriptor_count : forall (p : list R) (d : list N),
  List.length d <> 6%nat -> arb RS p d = Err EMacroBody.
Proof. exact arb_wrong_descriptor_count. Qed.

(* TRC with equal radii (MCNP forbids it): ZeroDivisionError, no output *)
Theorem C03_trc_equal_radii_error : forall (v h : pt) (r : R),
  trc RS (pl v ++ pl h ++ [r; r]) = Err EZeroDiv.
Proof. exact trc_equal_radii_error. Qed.

(* ---------------- sides, numbering, references in a cell ---------------- *)
Theorem C03_sides_pm1 : forall b p d es,
  body_parts RS b p d = Ok es -> Forall (fun e => snd e = 1%Z \/ snd e = (-1)%Z) es.
Proof. exact body_sides_ok. Qed.

(* number_items: first facet keeps the body's number, the others take the
   consecutive free numbers, each id carries the facet's side as its sign *)
Theorem C03_number_one : forall (key free s : Z) (sides : list Z),
  number_one key free (s :: sides) =
  map (fun '(s, n) => (s * n)%Z)
      (combine (s :: sides) (key :: zseq free (List.length sides))).
Proof. exact number_one_ids. Qed.

(* over the whole dictionary of surfaces: no two facets (of the same or of
   different bodies) share a TRIPOLI-4 id *)
Theorem C03_number_items_distinct : forall dic : list (Z * list Z),
  Forall (fun kv => (0 < fst kv)%Z /\ Forall (fun s => s = 1%Z \/ s = (-1)%Z) (snd kv)
                    /\ snd kv <> []) dic ->
  NoDup (map fst dic) ->
  NoDup (map Z.abs (concat (map snd (number_items dic)))).
Proof. exact number_items_distinct. Qed.

(* pot_expand_surfs on the numbered facets of a body: -b is the solid, +b its
   complement, b.k the k-th facet with the outward side positive, k beyond the
   last facet an error.  [fv n] = value at p of the surface written with id n *)
Theorem C03_expand_macro_den : forall (es : list rentry) (fs : list (pt -> R)) (ns : list Z)
    (fv : Z -> R) (p : pt) (new_key n : Z),
  Forall2 same_facet es fs -> Forall side_ok es -> es <> [] -> numbered fv p es ns ->
  ((n < 0)%Z -> exists t k, expand new_key n None (ids_of es ns) = Ok (t, k) /\
                            (den fv t <-> inside_of fs p)) /\
  ((0 < n)%Z -> exists t k, expand new_key n None (ids_of es ns) = Ok (t, k) /\
                            (den fv t <-> outside_of fs p)) /\
  (forall k f, nth_error fs k = Some f -> n <> 0%Z ->
     exists t, expand new_key n (Some (S k)) (ids_of es ns) = Ok (t, new_key) /\
               (den fv t <-> if (0 <? n)%Z then 0 < f p else f p < 0)) /\
  (forall k, (List.length fs < k)%nat ->
     expand new_key n (Some k) (ids_of es ns) = Err ECellConv).
Proof. exact reference_semantics. Qed.

(* the quirk noted in DESIGN 8: facet number 0 passes the range test and
   Python's index -1 selects the LAST facet *)
Theorem C03_expand_facet_zero_is_last : forall (ids : list Z) (new_key n last : Z),
  expand new_key n (Some O) (ids ++ [last]) =
  Ok (Leaf (if (0 <? n)%Z then last else (- last)%Z), new_key).
Proof. exact expand_facet_zero_is_last. Qed.

(* ================================================================== *)
(* What is WRITTEN.  body_t4 = the body function followed, for every     *)
(* entry, by the model of to_surface_mcnp, Transformation.transformation *)
(* (tr = Some t: a TR on the surface card, or the TRCL / FILL            *)
(* transformation applied by pot_transform; rows of B orthonormal) and   *)
(* conversion_surface_params.  t4_value (C03/SpecT4.v) is the reading of *)
(* a TRIPOLI-4 SURF line (DESIGN Appendix B); same_t4_facet g t f: the   *)
(* written surface t, with its side, is the facet f read at g p, where   *)
(* g p = B (p - O) is MCNP's auxiliary frame (identity without tr).      *)
(* ================================================================== *)
(* one entry: the PLUS side of the written surface is the positive side of the
   entry's MCNP equation, for every branch of convert_plane / convert_cylinder /
   convert_sphere / convert_quadric / convert_cone *)
Theorem C03_convert_entry_sound : forall (tr : option rtransf) (e : rentry),
  tr_ok tr -> entry_wf e ->
  exists t prm c, 0 < c /\ convert_entry RS tr e = Ok [(t, prm, snd e)] /\
    forall p, t4_value t prm p = c * eval_surf (fst (fst e)) (snd (fst e)) (frame_of tr p).
Proof. exact convert_entry_sound. Qed.

(* -b and +b over the written surfaces *)
Theorem C03_written_inside : forall g (ts : list rt4e) (fs : list (pt -> R)) (p : pt),
  Forall2 (same_t4_facet g) ts fs ->
  (t4_all_negative ts p <-> inside_of fs (g p)) /\
  (t4_some_positive ts p <-> outside_of fs (g p)).
Proof. exact t4_facets_inside. Qed.

Theorem C03_box_written : forall (tr : option rtransf) (v a1 a2 a3 : pt),
  tr_ok tr -> box_admissible a1 a2 a3 ->
  exists ts, body_t4 RS tr BOX (pl v ++ pl a1 ++ pl a2 ++ pl a3) [] = Ok ts /\
    Forall2 (same_t4_facet (frame_of tr)) ts (box_facets v a1 a2 a3).
Proof. exact box_written. Qed.

Theorem C03_rpp_written : forall (tr : option rtransf) (x0 x1 y0 y1 z0 z1 : R),
  tr_ok tr ->
  exists ts, body_t4 RS tr RPP [x0; x1; y0; y1; z0; z1] [] = Ok ts /\
    Forall2 (same_t4_facet (frame_of tr)) ts (rpp_facets x0 x1 y0 y1 z0 z1).
Proof. exact rpp_written. Qed.

Theorem C03_sph_written : forall (tr : option rtransf) (c : pt) (r : R),
  tr_ok tr ->
  exists ts, body_t4 RS tr SPH (pl c ++ [r]) [] = Ok ts /\
    Forall2 (same_t4_facet (frame_of tr)) ts (sph_facets c r).
Proof. exact sph_written. Qed.

Theorem C03_rcc_written : forall (tr : option rtransf) (v h : pt) (r : R),
  tr_ok tr -> h <> (0, 0, 0) ->
  exists ts, body_t4 RS tr RCC (pl v ++ pl h ++ [r]) [] = Ok ts /\
    Forall2 (same_t4_facet (frame_of tr)) ts (rcc_facets v h r).
Proof. exact rcc_written. Qed.

Theorem C03_rhp15_written : forall (tr : option rtransf) (v h r s t : pt),
  tr_ok tr -> h <> (0, 0, 0) -> r <> (0, 0, 0) -> s <> (0, 0, 0) -> t <> (0, 0, 0) ->
  exists ts, body_t4 RS tr RHP (pl v ++ pl h ++ pl r ++ pl s ++ pl t) [] = Ok ts /\
    Forall2 (same_t4_facet (frame_of tr)) ts (rhp_facets v h r s t).
Proof. exact rhp15_written. Qed.

Theorem C03_rhp9_written : forall (tr : option rtransf) (v h r : pt),
  tr_ok tr -> h <> (0, 0, 0) -> dot r h = 0 -> r <> (0, 0, 0) ->
  exists ts, body_t4 RS tr RHP (pl v ++ pl h ++ pl r) [] = Ok ts /\
    Forall2 (same_t4_facet (frame_of tr)) ts (rhp_regular_facets v h r).
Proof. exact rhp9_written. Qed.

Theorem C03_rec12_written : forall (tr : option rtransf) (v h a1 a2 : pt),
  tr_ok tr -> h <> (0, 0, 0) -> a1 <> (0, 0, 0) -> a2 <> (0, 0, 0) ->
  exists ts, body_t4 RS tr REC (pl v ++ pl h ++ pl a1 ++ pl a2) [] = Ok ts /\
    Forall2 (same_t4_facet (frame_of tr)) ts (rec_facets v h a1 a2).
Proof. exact rec12_written. Qed.

Theorem C03_rec10_written : forall (tr : option rtransf) (v h a1 : pt) (b : R),
  tr_ok tr -> cross h a1 <> (0, 0, 0) -> b <> 0 ->
  exists ts, body_t4 RS tr REC (pl v ++ pl h ++ pl a1 ++ [b]) [] = Ok ts /\
    Forall2 (same_t4_facet (frame_of tr)) ts (rec_facets v h a1 (rec10_minor h a1 b)).
Proof. exact rec10_written. Qed.

Theorem C03_trc_written : forall (tr : option rtransf) (v h : pt) (r0 r1 : R),
  tr_ok tr -> h <> (0, 0, 0) -> r0 <> r1 ->
  exists ts, body_t4 RS tr TRC (pl v ++ pl h ++ [r0; r1]) [] = Ok ts /\
    Forall2 (same_t4_facet (frame_of tr)) ts (trc_facets v h r0 r1).
Proof. exact trc_written. Qed.

Theorem C03_ell_axis_written : forall (tr : option rtransf) (c a : pt) (mb : R),
  tr_ok tr -> a <> (0, 0, 0) -> mb < 0 ->
  exists ts, body_t4 RS tr ELL (pl c ++ pl a ++ [mb]) [] = Ok ts /\
    Forall2 (same_t4_facet (frame_of tr)) ts (ell_axis_facets c a mb).
Proof. exact ell_axis_written. Qed.

Theorem C03_ell_foci_written : forall (tr : option rtransf) (f1 f2 : pt) (L : R),
  tr_ok tr -> 0 < L -> vsub f1 (vmul (1 / 2) (vadd f1 f2)) <> (0, 0, 0) ->
  norm (vsub f1 (vmul (1 / 2) (vadd f1 f2))) <> 2 * L ->
  exists ts, body_t4 RS tr ELL (pl f1 ++ pl f2 ++ [L]) [] = Ok ts /\
    Forall2 (same_t4_facet (frame_of tr)) ts (ell_foci_facets f1 f2 L).
Proof. exact ell_foci_written. Qed.

Theorem C03_wed_written : forall (tr : option rtransf) (v a b h : pt),
  tr_ok tr -> wed_admissible a b h ->
  exists ts, body_t4 RS tr WED (pl v ++ pl a ++ pl b ++ pl h) [] = Ok ts /\
    Forall2 (same_t4_facet (frame_of tr)) ts (wed_facets v a b h).
Proof. exact wed_written. Qed.

Theorem C03_arb_written : forall (tr : option rtransf) (V : list pt) (descr : list N),
  tr_ok tr -> List.length V = 8%nat -> List.length descr = 6%nat ->
  (1 <= arb_nvert descr <= 8)%nat ->
  Forall (facet_admissible (firstn (arb_nvert descr) V)
                           (centroid_of (firstn (arb_nvert descr) V)))
         (arb_facet_lists descr) ->
  exists ts, body_t4 RS tr ARB (flat V) descr = Ok ts /\
    Forall2 (same_t4_facet (frame_of tr)) ts (arb_facets (firstn (arb_nvert descr) V) (arb_facet_lists descr)).
Proof. exact arb_written. Qed.

(* end to end: the MINUS side of all written surfaces of a BOX / WED (sides
   taken into account) is the solid described without facets, moved *)
Theorem C03_box_written_solid : forall (tr : option rtransf) (v a1 a2 a3 : pt),
  tr_ok tr -> box_admissible a1 a2 a3 ->
  forall ts, body_t4 RS tr BOX (pl v ++ pl a1 ++ pl a2 ++ pl a3) [] = Ok ts ->
  forall p, t4_all_negative ts p <-> box_inside v a1 a2 a3 (frame_of tr p).
Proof. exact box_written_solid. Qed.

Theorem C03_wed_written_solid : forall (tr : option rtransf) (v a b h : pt),
  tr_ok tr -> wed_admissible a b h ->
  forall ts, body_t4 RS tr WED (pl v ++ pl a ++ pl b ++ pl h) [] = Ok ts ->
  forall p, t4_all_negative ts p <-> wed_inside v a b h (frame_of tr p).
Proof. exact wed_written_solid. Qed.

(* ---------------- BOX, any parallelepiped: facet numbering ---------------- *)
(* only det <> 0: facet 2i-1 is the face at the END of a_i (coordinate s_i = 1
   of p - v in the basis a1 a2 a3), facet 2i the face s_i = 0, outward positive *)
Theorem C03_box_general_facet_k : forall v a1 a2 a3 : pt,
  det a1 a2 a3 <> 0 ->
  exists es, box RS (pl v ++ pl a1 ++ pl a2 ++ pl a3) = Ok es /\ Forall entry_wf es /\
             Forall2 same_facet es (para_facets v a1 a2 a3).
Proof. exact box_general_facets_full. Qed.

Theorem C03_box_general_written : forall (tr : option rtransf) (v a1 a2 a3 : pt),
  tr_ok tr -> det a1 a2 a3 <> 0 ->
  exists ts, body_t4 RS tr BOX (pl v ++ pl a1 ++ pl a2 ++ pl a3) [] = Ok ts /\
    Forall2 (same_t4_facet (frame_of tr)) ts (para_facets v a1 a2 a3).
Proof. exact box_general_written. Qed.

(* for a right box these facets are those of the manual (BOX above) *)
Theorem C03_para_facets_right : forall v a1 a2 a3 : pt,
  box_admissible a1 a2 a3 ->
  Forall2 (fun f g : pt -> R => exists c, 0 < c /\ forall p, f p = c * g p)
          (para_facets v a1 a2 a3) (box_facets v a1 a2 a3).
Proof. exact para_facets_right. Qed.

(* ---------------- pot_transform: references under TRCL / FILL -------------- *)
(* a reference n.k (k = S j) in a cell moved by tr: the new collection holds
   exactly ONE surface and it is the k-th facet in the auxiliary frame -- the
   facet number survives the transformation *)
Theorem C03_pot_transform_facet : forall (tr : rtransf) (es : list rentry)
    (fs : list (pt -> R)) (k : nat) (f : pt -> R),
  orthogonal tr -> Forall entry_wf es -> Forall2 same_facet es fs ->
  nth_error fs k = Some f ->
  exists t, pot_transform_ref RS tr es (Some (S k)) = Ok [t] /\
            same_t4_facet (to_aux tr) t f.
Proof. exact pot_transform_facet. Qed.

Theorem C03_pot_transform_whole : forall (tr : rtransf) (es : list rentry) (fs : list (pt -> R)),
  orthogonal tr -> Forall entry_wf es -> Forall2 same_facet es fs ->
  exists ts, pot_transform_ref RS tr es None = Ok ts /\
             Forall2 (same_t4_facet (to_aux tr)) ts fs.
Proof. exact pot_transform_whole. Qed.

(* n.0 and n.k beyond the last facet are an IndexError under a transformation
   (CollectionDict._get_item), unlike the untransformed n.0 above *)
Theorem C03_pot_transform_out_of_range : forall (tr : rtransf) (es : list rentry) (k : nat),
  (k = 0 \/ List.length es < k)%nat -> pot_transform_ref RS tr es (Some k) = Err EIndex.
Proof. exact pot_transform_out_of_range. Qed.

(* ---------------- references in a cell, over the WRITTEN surfaces ---------- *)
(* the whole property text in one statement: body function, conversion of every
   facet to its TRIPOLI-4 surface (under the cell's / card's transformation),
   numbering, pot_expand_surfs.  [fv n] = t4_value of the written surface n at
   the point q; frame_of tr q = B (q - O) *)
Theorem C03_expand_macro_den_written : forall (tr : option rtransf) (bd : body) (p : list R)
    (d : list N) (fs : list (pt -> R)),
  tr_ok tr -> fs <> [] ->
  (exists es, body_parts RS bd p d = Ok es /\ Forall entry_wf es /\ Forall2 same_facet es fs) ->
  forall ts, body_t4 RS tr bd p d = Ok ts ->
  forall (ns : list Z) (fv : Z -> R) (q : pt) (new_key n : Z),
  numbered_t4 fv q ts ns ->
  ((n < 0)%Z -> exists t k, expand new_key n None (ids_of_t4 ts ns) = Ok (t, k) /\
                            (den fv t <-> inside_of fs (frame_of tr q))) /\
  ((0 < n)%Z -> exists t k, expand new_key n None (ids_of_t4 ts ns) = Ok (t, k) /\
                            (den fv t <-> outside_of fs (frame_of tr q))) /\
  (forall k f, nth_error fs k = Some f -> n <> 0%Z ->
     exists t, expand new_key n (Some (S k)) (ids_of_t4 ts ns) = Ok (t, new_key) /\
               (den fv t <-> if (0 <? n)%Z then 0 < f (frame_of tr q) else f (frame_of tr q) < 0)) /\
  (forall k, (List.length fs < k)%nat ->
     expand new_key n (Some k) (ids_of_t4 ts ns) = Err ECellConv).
Proof. exact reference_written. Qed.

(* ---------------- linked to C04: the transformation comes from a card ------- *)
(* card_gives l o b (C03/LinkC04.v): l is what C04's model of the converter
   (tr_card / parse_trcl / parse_fill_tr at RS) returns for a TR card with 12 or
   13 entries (unstarred, or starred with angles in degrees), a TR card with 3
   entries, or an inline TRCL / FILL transformation with 12 entries, whose
   matrix b has orthonormal rows (and no entry in (0, 1e-10)).  By C04's
   theorems (tr_card_12, tr_card_star_12, tr_card_3, inline_12, cols_orthonormal)
   l is the card's twelve numbers and C03's tr_ok holds. *)
Theorem C03_card_transformation_linked : forall (l : list R) (o : S4.R3) (b : V4.M3 R),
  card_gives l o b ->
  transf_of_list l = Some (transf_of_c04 o b) /\ orthogonal (transf_of_c04 o b).
Proof. exact card_transformation. Qed.

(* any body whose entries are MCNP's facets, written under the card's
   transformation: the k-th written surface is the k-th facet in the auxiliary
   frame as C04's Spec defines it (aux_c04 o b p = S4.to_aux o b p) *)
Theorem C03_written_linked : forall (l : list R) (o : S4.R3) (b : V4.M3 R)
    (bd : body) (p : list R) (d : list N) (fs : list (pt -> R)),
  card_gives l o b ->
  (exists es, body_parts RS bd p d = Ok es /\ Forall entry_wf es /\ Forall2 same_facet es fs) ->
  exists ts, body_t4 RS (transf_of_list l) bd p d = Ok ts /\
             Forall2 (same_t4_facet (aux_c04 o b)) ts fs.
Proof. exact written_linked. Qed.

(* C03_<body>_written_linked for every body, as one family *)
Theorem C03_bodies_written_linked : forall (l : list R) (o : S4.R3) (b : V4.M3 R),
  card_gives l o b ->
  let W := fun bd p d fs =>
    exists ts, body_t4 RS (transf_of_list l) bd p d = Ok ts /\
               Forall2 (same_t4_facet (aux_c04 o b)) ts fs in
  (forall v a1 a2 a3, box_admissible a1 a2 a3 ->
     W BOX (pl v ++ pl a1 ++ pl a2 ++ pl a3) [] (box_facets v a1 a2 a3)) /\
  (forall v a1 a2 a3, det a1 a2 a3 <> 0 ->
     W BOX (pl v ++ pl a1 ++ pl a2 ++ pl a3) [] (para_facets v a1 a2 a3)) /\
  (forall x0 x1 y0 y1 z0 z1,
     W RPP [x0; x1; y0; y1; z0; z1] [] (rpp_facets x0 x1 y0 y1 z0 z1)) /\
  (forall c r, W SPH (pl c ++ [r]) [] (sph_facets c r)) /\
  (forall v h r, h <> (0, 0, 0) -> W RCC (pl v ++ pl h ++ [r]) [] (rcc_facets v h r)) /\
  (forall v h r s t, h <> (0, 0, 0) -> r <> (0, 0, 0) -> s <> (0, 0, 0) -> t <> (0, 0, 0) ->
     W RHP (pl v ++ pl h ++ pl r ++ pl s ++ pl t) [] (rhp_facets v h r s t)) /\
  (forall v h r, h <> (0, 0, 0) -> dot r h = 0 -> r <> (0, 0, 0) ->
     W RHP (pl v ++ pl h ++ pl r) [] (rhp_regular_facets v h r)) /\
  (forall v h a1 a2, h <> (0, 0, 0) -> a1 <> (0, 0, 0) -> a2 <> (0, 0, 0) ->
     W REC (pl v ++ pl h ++ pl a1 ++ pl a2) [] (rec_facets v h a1 a2)) /\
  (forall v h a1 bb, cross h a1 <> (0, 0, 0) -> bb <> 0 ->
     W REC (pl v ++ pl h ++ pl a1 ++ [bb]) [] (rec_facets v h a1 (rec10_minor h a1 bb))) /\
  (forall v h r0 r1, h <> (0, 0, 0) -> r0 <> r1 ->
     W TRC (pl v ++ pl h ++ [r0; r1]) [] (trc_facets v h r0 r1)) /\
  (forall c a mb, a <> (0, 0, 0) -> mb < 0 ->
     W ELL (pl c ++ pl a ++ [mb]) [] (ell_axis_facets c a mb)) /\
  (forall f1 f2 L, 0 < L -> vsub f1 (vmul (1 / 2) (vadd f1 f2)) <> (0, 0, 0) ->
     norm (vsub f1 (vmul (1 / 2) (vadd f1 f2))) <> 2 * L ->
     W ELL (pl f1 ++ pl f2 ++ [L]) [] (ell_foci_facets f1 f2 L)) /\
  (forall v a bb h, wed_admissible a bb h ->
     W WED (pl v ++ pl a ++ pl bb ++ pl h) [] (wed_facets v a bb h)) /\
  (forall V descr, List.length V = 8%nat -> List.length descr = 6%nat ->
     (1 <= arb_nvert descr <= 8)%nat ->
     Forall (facet_admissible (firstn (arb_nvert descr) V)
                              (centroid_of (firstn (arb_nvert descr) V)))
            (arb_facet_lists descr) ->
     W ARB (flat V) descr (arb_facets (firstn (arb_nvert descr) V) (arb_facet_lists descr))).
Proof. exact written_linked_family. Qed.

(* abbreviated matrices: what C04 proves about normalize_matrix and adjust_matrix
   composes to the card level (tr_card), e.g. for a card with two rows given *)
Theorem C03_abbreviated_card_linked : forall (o : S4.R3) (pat : V4.M3 (option R)) (b : V4.M3 R),
  M4.normalize_matrix RS (V4.mlist pat) = M4.Ok (V4.mlist b) ->
  S4.rows_orthonormal b -> T4V.C04.ProofsMatrix.clip_ok_m b ->
  M4.tr_card RS false (map Some (V4.vlist o) ++ V4.mlist pat) = M4.Ok (V4.vlist o ++ V4.mlist b).
Proof. exact abbreviated_card. Qed.

Theorem C03_six_entry_card_linked : forall (i : nat) (o r0 r1 : S4.R3),
  (i < 3)%nat -> S4.norm2 r0 = 1 -> S4.norm2 r1 = 1 -> S4.dot r0 r1 = 0 ->
  let pat := M4.place3 i T4V.C04.ProofsMatrix.none3 (T4V.C04.ProofsMatrix.somev r0)
                       (T4V.C04.ProofsMatrix.somev r1) in
  exists b, S4.rotation b /\ S4.agrees pat b /\
    (T4V.C04.ProofsMatrix.clip_ok_m b -> card_gives (V4.vlist o ++ V4.mlist b) o b).
Proof. exact six_entry_card. Qed.

(* TRCL=n: the cell is moved by the transformation of card n (C04_inline_number) *)
Theorem C03_trcl_by_number_linked : forall (l : list R) (o : S4.R3) (b : V4.M3 R) star (n : R)
    trs trid,
  card_gives l o b -> M4.lookup trid trs = M4.Ok l ->
  M4.parse_trcl RS star [n] trs trid = M4.Ok l.
Proof. exact trcl_by_number_linked. Qed.

(* the whole property text, the transformation read from a card *)
Theorem C03_expand_macro_den_written_linked : forall (l : list R) (o : S4.R3) (b : V4.M3 R)
    (bd : body) (p : list R) (d : list N) (fs : list (pt -> R)),
  card_gives l o b -> fs <> [] ->
  (exists es, body_parts RS bd p d = Ok es /\ Forall entry_wf es /\ Forall2 same_facet es fs) ->
  forall ts, body_t4 RS (transf_of_list l) bd p d = Ok ts ->
  forall (ns : list Z) (fv : Z -> R) (q : pt) (new_key n : Z),
  numbered_t4 fv q ts ns ->
  ((n < 0)%Z -> exists t k, expand new_key n None (ids_of_t4 ts ns) = Ok (t, k) /\
                            (den fv t <-> inside_of fs (aux_c04 o b q))) /\
  ((0 < n)%Z -> exists t k, expand new_key n None (ids_of_t4 ts ns) = Ok (t, k) /\
                            (den fv t <-> outside_of fs (aux_c04 o b q))) /\
  (forall k f, nth_error fs k = Some f -> n <> 0%Z ->
     exists t, expand new_key n (Some (S k)) (ids_of_t4 ts ns) = Ok (t, new_key) /\
               (den fv t <-> if (0 <? n)%Z then 0 < f (aux_c04 o b q) else f (aux_c04 o b q) < 0)) /\
  (forall k, (List.length fs < k)%nat ->
     expand new_key n (Some k) (ids_of_t4 ts ns) = Err ECellConv).
Proof. exact reference_written_linked. Qed.

(* ---------------- ARB tetrahedron: half-spaces = convex hull ---------------- *)
(* the Spec of ARB speaks of facet half-spaces; for the tetrahedron (descriptors
   123 124 134 234) their intersection is the open convex hull of the vertices *)
Theorem C03_arb_tetra_hull : forall p1 p2 p3 p4 p : pt,
  det (vsub p2 p1) (vsub p3 p1) (vsub p4 p1) <> 0 ->
  (inside_of (arb_facets [p1; p2; p3; p4] tetra_facets) p <-> hull4 p1 p2 p3 p4 p).
Proof. exact tetra_hull. Qed.

Theorem C03_arb_tetra_solid : forall p1 p2 p3 p4 q5 q6 q7 q8 : pt,
  let V := [p1; p2; p3; p4; q5; q6; q7; q8] in
  let descr := [123; 124; 134; 234; 0; 0]%N in
  det (vsub p2 p1) (vsub p3 p1) (vsub p4 p1) <> 0 ->
  Forall (facet_admissible [p1; p2; p3; p4] (centroid_of [p1; p2; p3; p4])) tetra_facets ->
  forall es, arb RS (flat V) descr = Ok es ->
  forall p, all_negative es p <-> hull4 p1 p2 p3 p4 p.
Proof. exact arb_tetra_solid. Qed.

(* ---------------- linked to C04, round 3: the remaining sources -------------- *)
Theorem C03_card_gives_canonical_linked : forall (o : S4.R3) (b : V4.M3 R),
  S4.rows_orthonormal b -> T4V.C04.ProofsMatrix.clip_ok_m b ->
  card_gives (V4.vlist o ++ V4.mlist b) o b.
Proof. exact card_gives_canonical. Qed.

(* two columns (six entries), one row / one column (three entries), one row and
   one column (five entries, Eulerian completion): the completed matrix b is a
   proper rotation keeping every supplied entry, and -- when no entry of b lies
   in (0, 1e-10) -- the card yields o ++ b, a well-formed transformation *)
Theorem C03_six_entry_cols_card_linked : forall (i : nat) (o c0 c1 : S4.R3),
  (i < 3)%nat -> S4.norm2 c0 = 1 -> S4.norm2 c1 = 1 -> S4.dot c0 c1 = 0 ->
  let pat := V4.transpose (M4.place3 i T4V.C04.ProofsMatrix.none3 (T4V.C04.ProofsMatrix.somev c0)
                                     (T4V.C04.ProofsMatrix.somev c1)) in
  exists b, S4.rotation b /\ S4.agrees pat b /\
    (T4V.C04.ProofsMatrix.clip_ok_m b ->
     M4.tr_card RS false (map Some (V4.vlist o) ++ V4.mlist pat) = M4.Ok (V4.vlist o ++ V4.mlist b) /\
     card_gives (V4.vlist o ++ V4.mlist b) o b).
Proof. exact six_entry_cols_card. Qed.

Theorem C03_three_entry_row_card_linked : forall (i : nat) (o r : S4.R3),
  (i < 3)%nat -> S4.norm2 r = 1 ->
  let pat := M4.place3 i (T4V.C04.ProofsMatrix.somev r) T4V.C04.ProofsMatrix.none3
                       T4V.C04.ProofsMatrix.none3 in
  exists b, S4.rotation b /\ S4.agrees pat b /\
    (T4V.C04.ProofsMatrix.clip_ok_m b ->
     M4.tr_card RS false (map Some (V4.vlist o) ++ V4.mlist pat) = M4.Ok (V4.vlist o ++ V4.mlist b) /\
     card_gives (V4.vlist o ++ V4.mlist b) o b).
Proof. exact three_entry_row_card. Qed.

Theorem C03_three_entry_col_card_linked : forall (i : nat) (o c : S4.R3),
  (i < 3)%nat -> S4.norm2 c = 1 ->
  let pat := V4.transpose (M4.place3 i (T4V.C04.ProofsMatrix.somev c) T4V.C04.ProofsMatrix.none3
                                     T4V.C04.ProofsMatrix.none3) in
  exists b, S4.rotation b /\ S4.agrees pat b /\
    (T4V.C04.ProofsMatrix.clip_ok_m b ->
     M4.tr_card RS false (map Some (V4.vlist o) ++ V4.mlist pat) = M4.Ok (V4.vlist o ++ V4.mlist b) /\
     card_gives (V4.vlist o ++ V4.mlist b) o b).
Proof. exact three_entry_col_card. Qed.

Theorem C03_five_entry_card_linked : forall (ir ic : nat) (o row col : S4.R3),
  (ir < 3)%nat -> (ic < 3)%nat -> S4.norm2 row = 1 -> S4.norm2 col = 1 ->
  V4.vget ic row = V4.vget ir col ->
  let pat := T4V.C04.ProofsMatrix5.pat5 ir ic row col in
  exists b, S4.rotation b /\ S4.agrees pat b /\
    (T4V.C04.ProofsMatrix.clip_ok_m b ->
     M4.tr_card RS false (map Some (V4.vlist o) ++ V4.mlist pat) = M4.Ok (V4.vlist o ++ V4.mlist b) /\
     card_gives (V4.vlist o ++ V4.mlist b) o b).
Proof. exact five_entry_card. Qed.

(* FILL=u (n) by number; *TRCL=(o angles) and *FILL=u (o angles) *)
Theorem C03_fill_by_number_linked : forall (l : list R) (o : S4.R3) (b : V4.M3 R) star (n : R)
    trs trid,
  card_gives l o b -> M4.lookup trid trs = M4.Ok l ->
  M4.parse_fill_tr RS star [n] trs trid = M4.Ok l.
Proof. exact fill_by_number. Qed.

Theorem C03_starred_inline_linked : forall (o : S4.R3) (ang : V4.M3 R) trs trid,
  let b := V4.vmap (V4.vmap (fun a => cos (a * PI / 180))) ang in
  S4.rows_orthonormal b -> T4V.C04.ProofsMatrix.clip_ok_m b ->
  M4.parse_trcl RS true (V4.vlist o ++ V4.mlist ang) trs trid = M4.Ok (V4.vlist o ++ V4.mlist b) /\
  M4.parse_fill_tr RS true (V4.vlist o ++ V4.mlist ang) trs trid = M4.Ok (V4.vlist o ++ V4.mlist b) /\
  card_gives (V4.vlist o ++ V4.mlist b) o b.
Proof. exact starred_inline. Qed.

(* *TRn with an abbreviated matrix of ANGLES: the supplied angles become cosines,
   the J's stay; every C04_normalize_matrix_*_reproduces theorem then applies to
   the cosine pattern *)
Theorem C03_starred_abbreviated_card_linked : forall (o : S4.R3) (apat : V4.M3 (option R))
    (b : V4.M3 R),
  M4.normalize_matrix RS (V4.mlist (cos_pattern apat)) = M4.Ok (V4.mlist b) ->
  S4.rows_orthonormal b -> T4V.C04.ProofsMatrix.clip_ok_m b ->
  M4.tr_card RS true (map Some (V4.vlist o) ++ V4.mlist apat) = M4.Ok (V4.vlist o ++ V4.mlist b) /\
  card_gives (V4.vlist o ++ V4.mlist b) o b.
Proof. exact starred_abbreviated_card. Qed.

(* ---------------- linked to C13: de-duplication of surfaces ----------------- *)
(* a written facet (surface k, type t, parameters prm, no TRANSFORM) that
   remove_duplicate_surfaces renumbers to k' is kept as surface k' with the same
   type and parameters, hence it is still the facet, with the same side *)
Theorem C03_facet_survives_dedup_linked : forall (surfs : list (Z * M13.desc R)) (k k' : Z)
    (t : t4type) (prm : list R),
  NoDup (map fst surfs) ->
  In (k, desc_of t prm) surfs ->
  In (k, k') (snd (M13.remove_duplicate_surfaces RS surfs)) ->
  In (k', desc_of t prm) (fst (M13.remove_duplicate_surfaces RS surfs)).
Proof. exact facet_survives_dedup. Qed.

Theorem C03_facet_locus_survives_dedup_linked : forall (surfs : list (Z * M13.desc R)) (k k' : Z)
    (t : t4type) (prm : list R) (side : Z) (g : pt -> pt) (f : pt -> R),
  NoDup (map fst surfs) ->
  In (k, desc_of t prm) surfs ->
  In (k, k') (snd (M13.remove_duplicate_surfaces RS surfs)) ->
  same_t4_facet g (t, prm, side) f ->
  exists t' prm', In (k', desc_of t' prm') (fst (M13.remove_duplicate_surfaces RS surfs)) /\
                  same_t4_facet g (t', prm', side) f.
Proof. exact facet_locus_survives_dedup. Qed.

(* ---------------- non-vacuity ---------------- *)
(* the left-handed wedge of DESIGN 8 #20 (a, b swapped) and a left-handed box
   satisfy the hypotheses; so do right-handed ones *)
Example C03_example_left_handed :
  let a := (0, 2, 0) in let b := (1, 0, 0) in let h := (0, 0, 3) in
  (dot a b = 0 /\ dot a h = 0 /\ dot b h = 0 /\ det a b h <> 0) /\ det a b h < 0 /\
  (dot b a = 0 /\ dot b h = 0 /\ dot a h = 0 /\ det b a h <> 0) /\ 0 < det b a h.
Proof. cbv zeta. unfold det, cross, dot. repeat split; lra. Qed.

(* a tetrahedron: vertices 1..4, four descriptors and two empty ones *)
Example C03_example_arb :
  let V := [(0, 0, 0); (1, 0, 0); (0, 1, 0); (0, 0, 1); (0, 0, 0); (0, 0, 0); (0, 0, 0); (0, 0, 0)] in
  let descr := [123; 124; 134; 234; 0; 0]%N in
  arb_nvert descr = 4%nat /\
  Forall (facet_admissible (firstn (arb_nvert descr) V)
                           (centroid_of (firstn (arb_nvert descr) V)))
         (arb_facet_lists descr).
Proof.
  cbv zeta. split; [reflexivity|].
  change (arb_nvert [123; 124; 134; 234; 0; 0]%N) with 4%nat.
  change (arb_facet_lists [123; 124; 134; 234; 0; 0]%N)
    with [[0; 1; 2]; [0; 1; 3]; [0; 2; 3]; [1; 2; 3]]%nat.
  cbn [firstn]. unfold centroid_of, vsum. cbn [List.length fold_left vadd vmul INR].
  repeat constructor; unfold facet_admissible;
    do 4 eexists; do 3 eexists; (split; [reflexivity|]);
    cbn [nth_error]; (split; [reflexivity|]); (split; [reflexivity|]); (split; [reflexivity|]);
    unfold norm2, dot, cross, vsub; split; lra.
Qed.

(* a rotation by the 3-4-5 angle about z with a displacement is an admissible
   transformation *)
Example C03_example_transformation :
  orthogonal ((1, -2, 1 / 2), (3 / 5, 4 / 5, 0), (- 4 / 5, 3 / 5, 0), (0, 0, 1)).
Proof. unfold orthogonal. repeat split; field. Qed.

(* ================================================================== *)
(* Families: the conjunction of the theorems above, grouped, so that    *)
(* one Print Assumptions audits each group (the statement of a family   *)
(* is literally the conjunction of the statements of its members).      *)
(* ================================================================== *)
(* every body: the k-th entry is MCNP's k-th facet, outward positive; facet descriptors *)
Theorem C03_family_facets :
  ltac:(let t := type of (conj C03_box_facet_k (conj C03_rpp_facet_k (conj C03_sph_facet_k (conj C03_rcc_facet_k (conj C03_rhp15_facet_k (conj C03_rhp9_facet_k (conj C03_rhp9_regular (conj C03_hex_is_rhp (conj C03_rec12_facet_k (conj C03_rec10_facet_k (conj C03_trc_facet_k (conj C03_ell_axis_facet_k (conj C03_ell_foci_facet_k (conj C03_wed_facet_k (conj C03_arb_facet_k (conj C03_arb_centroid_inside (conj C03_parse_facet_digits (conj C03_box_general_facet_k C03_para_facets_right)))))))))))))))))) in exact t).
Proof. exact (conj C03_box_facet_k (conj C03_rpp_facet_k (conj C03_sph_facet_k (conj C03_rcc_facet_k (conj C03_rhp15_facet_k (conj C03_rhp9_facet_k (conj C03_rhp9_regular (conj C03_hex_is_rhp (conj C03_rec12_facet_k (conj C03_rec10_facet_k (conj C03_trc_facet_k (conj C03_ell_axis_facet_k (conj C03_ell_foci_facet_k (conj C03_wed_facet_k (conj C03_arb_facet_k (conj C03_arb_centroid_inside (conj C03_parse_facet_digits (conj C03_box_general_facet_k C03_para_facets_right)))))))))))))))))). Qed.
Print Assumptions C03_family_facets.

(* every body: -b is the solid, +b its complement *)
Theorem C03_family_inside :
  ltac:(let t := type of (conj C03_box_inside (conj C03_box_general_inside (conj C03_rpp_inside (conj C03_sph_inside (conj C03_rcc_inside (conj C03_rhp15_inside (conj C03_rhp9_inside (conj C03_rec12_inside (conj C03_rec10_inside (conj C03_rec12_solid (conj C03_rec10_solid (conj C03_trc_inside (conj C03_trc_solid (conj C03_ell_axis_inside (conj C03_ell_foci_inside (conj C03_wed_inside (conj C03_arb_inside (conj C03_arb_tetra_hull C03_arb_tetra_solid)))))))))))))))))) in exact t).
Proof. exact (conj C03_box_inside (conj C03_box_general_inside (conj C03_rpp_inside (conj C03_sph_inside (conj C03_rcc_inside (conj C03_rhp15_inside (conj C03_rhp9_inside (conj C03_rec12_inside (conj C03_rec10_inside (conj C03_rec12_solid (conj C03_rec10_solid (conj C03_trc_inside (conj C03_trc_solid (conj C03_ell_axis_inside (conj C03_ell_foci_inside (conj C03_wed_inside (conj C03_arb_inside (conj C03_arb_tetra_hull C03_arb_tetra_solid)))))))))))))))))). Qed.
Print Assumptions C03_family_inside.

(* every body: the written TRIPOLI-4 surfaces, also under a transformation; references over them *)
Theorem C03_family_written :
  ltac:(let t := type of (conj C03_convert_entry_sound (conj C03_written_inside (conj C03_box_written (conj C03_rpp_written (conj C03_sph_written (conj C03_rcc_written (conj C03_rhp15_written (conj C03_rhp9_written (conj C03_rec12_written (conj C03_rec10_written (conj C03_trc_written (conj C03_ell_axis_written (conj C03_ell_foci_written (conj C03_wed_written (conj C03_arb_written (conj C03_box_written_solid (conj C03_wed_written_solid (conj C03_box_general_written C03_expand_macro_den_written)))))))))))))))))) in exact t).
Proof. exact (conj C03_convert_entry_sound (conj C03_written_inside (conj C03_box_written (conj C03_rpp_written (conj C03_sph_written (conj C03_rcc_written (conj C03_rhp15_written (conj C03_rhp9_written (conj C03_rec12_written (conj C03_rec10_written (conj C03_trc_written (conj C03_ell_axis_written (conj C03_ell_foci_written (conj C03_wed_written (conj C03_arb_written (conj C03_box_written_solid (conj C03_wed_written_solid (conj C03_box_general_written C03_expand_macro_den_written)))))))))))))))))). Qed.
Print Assumptions C03_family_written.

(* sides, numbering, pot_expand_surfs, pot_transform, error branches *)
Theorem C03_family_references :
  ltac:(let t := type of (conj C03_wrong_count_rejected (conj C03_arb_wrong_descriptor_count (conj C03_trc_equal_radii_error (conj C03_sides_pm1 (conj C03_number_one (conj C03_number_items_distinct (conj C03_expand_macro_den (conj C03_expand_facet_zero_is_last (conj C03_pot_transform_facet (conj C03_pot_transform_whole C03_pot_transform_out_of_range)))))))))) in exact t).
Proof. exact (conj C03_wrong_count_rejected (conj C03_arb_wrong_descriptor_count (conj C03_trc_equal_radii_error (conj C03_sides_pm1 (conj C03_number_one (conj C03_number_items_distinct (conj C03_expand_macro_den (conj C03_expand_facet_zero_is_last (conj C03_pot_transform_facet (conj C03_pot_transform_whole C03_pot_transform_out_of_range)))))))))). Qed.
Print Assumptions C03_family_references.

(* transformation taken from a well-formed TR card / inline transformation (C04) *)
Theorem C03_family_linked :
  ltac:(let t := type of (conj C03_card_transformation_linked (conj C03_written_linked (conj C03_bodies_written_linked (conj C03_abbreviated_card_linked (conj C03_six_entry_card_linked (conj C03_trcl_by_number_linked (conj C03_expand_macro_den_written_linked (conj C03_card_gives_canonical_linked (conj C03_six_entry_cols_card_linked (conj C03_three_entry_row_card_linked (conj C03_three_entry_col_card_linked (conj C03_five_entry_card_linked (conj C03_fill_by_number_linked (conj C03_starred_inline_linked (conj C03_starred_abbreviated_card_linked (conj C03_facet_survives_dedup_linked C03_facet_locus_survives_dedup_linked)))))))))))))))) in exact t).
Proof. exact (conj C03_card_transformation_linked (conj C03_written_linked (conj C03_bodies_written_linked (conj C03_abbreviated_card_linked (conj C03_six_entry_card_linked (conj C03_trcl_by_number_linked (conj C03_expand_macro_den_written_linked (conj C03_card_gives_canonical_linked (conj C03_six_entry_cols_card_linked (conj C03_three_entry_row_card_linked (conj C03_three_entry_col_card_linked (conj C03_five_entry_card_linked (conj C03_fill_by_number_linked (conj C03_starred_inline_linked (conj C03_starred_abbreviated_card_linked (conj C03_facet_survives_dedup_linked C03_facet_locus_survives_dedup_linked)))))))))))))))). Qed.
Print Assumptions C03_family_linked.


(* a card satisfying card_gives:  TR  1 -2 0.5   0.6 0.8 0  -0.8 0.6 0  0 0 1 *)
Example C03_example_card :
  let o := V4.mkV 1 (-2) (1 / 2) in
  let b := V4.mkV (V4.mkV (3 / 5) (4 / 5) 0) (V4.mkV (- 4 / 5) (3 / 5) 0) (V4.mkV 0 0 1) in
  card_gives (V4.vlist o ++ V4.mlist b) o b.
Proof. exact card_gives_example. Qed.
