(* stub *)
