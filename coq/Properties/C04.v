(* C04 — Coordinate transformations move surfaces and cells by the MCNP rigid
   motion.  Only restatements; proofs are in C04/Proofs*.v.
   Vocabulary (C04/Spec.v, from DESIGN Appendix A/B): [to_main o b p'] = the
   main-system point with auxiliary coordinates p' (o = displacement, rows of b
   = auxiliary axes in main coordinates); [msense s] = MCNP sense function of a
   frame-form surface in its own coordinates; [t4val c] = sense function of a
   written SURF line (with TRANSFORM); [tr_convert RS tr s] = the model of
   transformation() followed by conversion_surface_params(). *)
From Coq Require Import List ZArith Bool Reals Lra.
From T4V Require Import Base.Scalar C04.Vec C04.Model C04.Spec C04.ProofsFrame C04.ProofsConvert
  C04.ProofsQuad C04.ProofsSurf C04.ProofsMatrix C04.ProofsCard C04.ProofsTorus C04.ProofsMatrix5 C04.ProofsCompose C04.ProofsComposeCex C04.ProofsAdjust C04.ProofsTree C04.ProofsInterface C04.ProofsErrors C04.ProofsExact C04.ProofsStar.
Import ListNotations.
Open Scope R_scope.

(* transformation_quad is the congruence of the quadric with p -> B (p - O):
   no hypothesis on B at all *)
Theorem C04_quad_congruence : forall (q : list R) (o : R3) (b : M3 R) (p : R3),
  List.length q = 10%nat ->
  gq_fn (transformation_quad RS q (vlist o ++ mlist b)) p = gq_fn q (to_aux o b p).
Proof. exact quad_congruence. Qed.

(* GQ under a transformation with orthonormal axes: a QUAD whose function at the
   moved point is the GQ function at the original point *)
Theorem C04_frame_transform_gq : forall (q : list R) (o : R3) (b : M3 R) pt u nap (p' : R3),
  List.length q = 10%nat -> rows_orthonormal b ->
  let s := mkMS KGQ pt u q nap in
  exists c, tr_convert RS (vlist o ++ mlist b) s = Ok [(c, 1%Z)] /\
            t4val c (to_main o b p') = msense s p'.
Proof. exact frame_transform_gq. Qed.

Theorem C04_frame_transform_plane : forall (o : R3) (b : M3 R) pt n cp nap (p' : R3),
  rows_orthonormal b ->
  let s := mkMS KP pt n cp nap in
  exists c, tr_convert RS (vlist o ++ mlist b) s = Ok [(c, 1%Z)] /\
            same_sense (t4val c (to_main o b p')) (msense s p').
Proof. exact frame_transform_plane. Qed.

Theorem C04_frame_transform_sphere : forall (o : R3) (b : M3 R) pt u r rest nap (p' : R3),
  rows_orthonormal b ->
  let s := mkMS KS pt u (r :: rest) nap in
  exists c, tr_convert RS (vlist o ++ mlist b) s = Ok [(c, 1%Z)] /\
            t4val c (to_main o b p') = msense s p'.
Proof. exact frame_transform_sphere. Qed.

Theorem C04_frame_transform_cylinder : forall (o : R3) (b : M3 R) pt u r rest nap (p' : R3),
  rows_orthonormal b -> norm2 u = 1 ->
  let s := mkMS KC pt u (r :: rest) nap in
  exists c, tr_convert RS (vlist o ++ mlist b) s = Ok [(c, 1%Z)] /\
            t4val c (to_main o b p') = msense s p'.
Proof. exact frame_transform_cylinder. Qed.

Theorem C04_frame_transform_cone : forall (o : R3) (b : M3 R) apex u c0 a rest nap (p' : R3),
  rows_orthonormal b -> norm2 u = 1 -> (nap = None \/ nap = Some 0%Z) ->
  let s := mkMS KK apex u (c0 :: a :: rest) nap in
  exists c, tr_convert RS (vlist o ++ mlist b) s = Ok [(c, 1%Z)] /\
            t4val c (to_main o b p') = msense s p'.
Proof. exact frame_transform_cone. Qed.

(* one-sheet cones: both sheets, every orthonormal B (the moved axis may be
   anti-parallel to a coordinate axis: DESIGN §8 #3, repaired in ce05bad) *)
Theorem C04_frame_transform_cone_sheet : forall (o : R3) (b : M3 R) apex u c0 a rest n (p' : R3),
  rows_orthonormal b -> norm2 u = 1 -> (n = 1 \/ n = -1)%Z ->
  let s := mkMS KK apex u (c0 :: a :: rest) (Some n) in
  exists cone plane side,
    tr_convert RS (vlist o ++ mlist b) s = Ok [(cone, 1%Z); (plane, side)] /\
    (mneg s p' <-> coll_neg [(cone, 1%Z); (plane, side)] (to_main o b p')) /\
    (mpos s p' <-> coll_pos [(cone, 1%Z); (plane, side)] (to_main o b p')).
Proof. exact frame_transform_cone_sheet. Qed.

(* torus: [tvec b u] = B^T u is the moved axis; [torus_axis_ok]: it is exactly +- a
   coordinate axis (TORUSX/Y/Z) or not within numpy.allclose of one (TORUSZ with a
   TRANSFORM by the Rodrigues rotation); in between the code snaps the axis *)
Theorem C04_frame_transform_torus : forall (o : R3) (b : M3 R) c u cp nap (p' : R3),
  rows_orthonormal b -> norm2 u = 1 -> torus_axis_ok (tvec b u) ->
  let s := mkMS KT c u cp nap in
  exists t, tr_convert RS (vlist o ++ mlist b) s = Ok [(t, 1%Z)] /\
            t4val t (to_main o b p') = msense s p'.
Proof. exact frame_transform_torus. Qed.

(* torus, NO guard on the moved axis: the written surface is exactly the torus with the
   moved centre and the same radii about an axis a' which is the moved axis itself or the
   coordinate axis numpy.allclose snapped it to, with |a' x axis|^2 <= tiny = 2e-16 *)
Theorem C04_frame_transform_torus_total : forall (o : R3) (b : M3 R) c u cp nap,
  rows_orthonormal b -> norm2 u = 1 ->
  exists t a', tr_convert RS (vlist o ++ mlist b) (mkMS KT c u cp nap) = Ok [(t, 1%Z)] /\
    (forall p', t4val t (to_main o b p') = msense (mkMS KT (to_main o b c) a' cp nap) (to_main o b p')) /\
    norm2 a' = 1 /\ (a' = tvec b u \/ norm2 (cross a' (tvec b u)) <= tiny) /\
    (a' = tvec b u -> forall p', t4val t (to_main o b p') = msense (mkMS KT c u cp nap) p').
Proof. exact frame_transform_torus_total. Qed.

(* ---------- abbreviated matrices ([rotation] = orthonormal rows, det = 1;
   [agrees pat b] = every supplied entry of the pattern is unchanged) ---------- *)
Theorem C04_normalize_matrix_9_reproduces : forall b : M3 R,
  normalize_matrix RS (map Some (mlist b)) = Ok (mlist b).
Proof. exact normalize_matrix_9. Qed.

(* two rows given (at i+1, i+2 mod 3), orthonormal: the missing row is completed *)
Theorem C04_normalize_matrix_6_reproduces : forall (i : nat) (r0 r1 : R3), (i < 3)%nat ->
  norm2 r0 = 1 -> norm2 r1 = 1 -> dot r0 r1 = 0 ->
  let pat := place3 i none3 (somev r0) (somev r1) in
  exists b, normalize_matrix RS (mlist pat) = Ok (mlist b) /\ rotation b /\ agrees pat b.
Proof. exact normalize_matrix_6_rows. Qed.

Theorem C04_normalize_matrix_6_cols_reproduces : forall (i : nat) (c0 c1 : R3), (i < 3)%nat ->
  norm2 c0 = 1 -> norm2 c1 = 1 -> dot c0 c1 = 0 ->
  let pat := transpose (place3 i none3 (somev c0) (somev c1)) in
  exists b, normalize_matrix RS (mlist pat) = Ok (mlist b) /\ rotation b /\ agrees pat b.
Proof. exact normalize_matrix_6_cols. Qed.

(* one unit row (at i) or column: any direction, (-1,0,0) included (repaired in 9a17f3b) *)
Theorem C04_normalize_matrix_3_reproduces : forall (i : nat) (r : R3), (i < 3)%nat ->
  norm2 r = 1 ->
  let pat := place3 i (somev r) none3 none3 in
  exists b, normalize_matrix RS (mlist pat) = Ok (mlist b) /\ rotation b /\ agrees pat b.
Proof. exact normalize_matrix_3_rows. Qed.

Theorem C04_normalize_matrix_3_cols_reproduces : forall (i : nat) (c : R3), (i < 3)%nat ->
  norm2 c = 1 ->
  let pat := transpose (place3 i (somev c) none3 none3) in
  exists b, normalize_matrix RS (mlist pat) = Ok (mlist b) /\ rotation b /\ agrees pat b.
Proof. exact normalize_matrix_3_cols. Qed.

(* five entries: unit row ir and unit column ic (sharing their common entry),
   J elsewhere: Eulerian completion, for all nine positions, sin(beta) = 0 included *)
Theorem C04_normalize_matrix_5_reproduces : forall (ir ic : nat) (row col : R3),
  (ir < 3)%nat -> (ic < 3)%nat ->
  norm2 row = 1 -> norm2 col = 1 -> vget ic row = vget ir col ->
  exists b, normalize_matrix RS (mlist (pat5 ir ic row col)) = Ok (mlist b) /\ rotation b /\
            agrees (pat5 ir ic row col) b.
Proof. exact normalize_matrix_5. Qed.

(* MCNP's internal tweak leaves an orthonormal matrix (proper or not) alone;
   clip_ok: entries are 0 or at least 1e-10 in magnitude *)
Theorem C04_adjust_matrix_fixpoint : forall m : M3 R,
  rows_orthonormal m -> clip_ok_m m -> adjust_matrix RS (mlist m) = Ok (mlist m).
Proof. exact adjust_matrix_fixpoint. Qed.

(* ... and on ANY nine numbers (skewed, non-unit, improper): if adjust_matrix returns, the
   result is entrywise within 1e-10 of a matrix with orthonormal rows and columns, and a
   second pass changes nothing *)
Theorem C04_adjust_matrix_near_orthonormal : forall (m : M3 R) (l : list R),
  adjust_matrix RS (mlist m) = Ok l ->
  exists out q : M3 R, l = mlist out /\ rows_orthonormal q /\ rows_orthonormal (transpose q) /\ close_m out q.
Proof. exact adjust_matrix_near_orthonormal. Qed.

Theorem C04_adjust_matrix_idempotent : forall (m : M3 R) (l : list R),
  adjust_matrix RS (mlist m) = Ok l -> clip_ok_m (adjust_cols RS m) ->
  adjust_matrix RS l = Ok l.
Proof. exact adjust_matrix_idempotent. Qed.

(* trailing J placeholders may be left out *)
Theorem C04_normalize_matrix_trailing_J : forall l : list (option R), (List.length l <= 9)%nat ->
  normalize_matrix RS l = normalize_matrix RS (l ++ repeat None (9 - List.length l)).
Proof. exact normalize_matrix_trailing. Qed.

(* which Python exception for which malformed input (one audited bundle):
   TransformationError for a number of matrix entries other than 0,3,5,6,9; StopIteration for
   five entries without a complete row or column; TypeError for a J in the displacement;
   ValueError / IndexError for a transformation list of the wrong length *)
Theorem C04_error_branches :
  (forall l : list (option R), (List.length l <= 9)%nat ->
     let n := count_some (l ++ repeat None (9 - List.length l)) in
     n <> 0%nat -> n <> 3%nat -> n <> 5%nat -> n <> 6%nat -> n <> 9%nat ->
     normalize_matrix RS l = Err ETransformation) /\
  (forall m : M3 (option R), count_some (mlist m) = 5%nat ->
     first_idx (fun r => is_some (all_some r)) m = None \/
     first_idx (fun r => is_some (all_some r)) (transpose m) = None ->
     normalize_matrix RS (mlist m) = Err EStop) /\
  (forall (b : M3 R) (o1 o2 o3 : option R), rows_orthonormal b -> clip_ok_m b ->
     (o1 = None \/ o2 = None \/ o3 = None) ->
     normalize_transform RS ([o1; o2; o3] ++ map Some (mlist b)) = Err EType) /\
  (forall (tr : list R) (s : msurf R), frame_kind (mk s) = true -> tr <> [] -> List.length tr <> 12%nat ->
     transformation RS tr s = Err EValue) /\
  (forall (tr : list R) (s : msurf R), (mk s = KGQ \/ mk s = KSQ) -> tr <> [] -> (List.length tr < 12)%nat ->
     transformation RS tr s = Err EIndex).
Proof.
  exact (conj normalize_matrix_bad_count (conj normalize_matrix_5_irregular
          (conj normalize_transform_J_displacement (conj transformation_bad_length transformation_quadric_short)))).
Qed.

(* FOR IMPORTERS: when normalize_transform returns EXACTLY the card (so that its output has
   exactly orthonormal rows and C04_interface_law applies to it): matrix exactly orthonormal,
   no entry strictly between 0 and 1e-10 in magnitude; on every path (TR card, inline TRCL, inline FILL) *)
Theorem C04_normalize_transform_exact : forall (o : R3) (b : M3 R) trs trid,
  rows_orthonormal b -> clip_ok_m b ->
  normalize_transform RS (map Some (tr12 o b)) = Ok (tr12 o b) /\
  normalize_transform RS (map Some (tr12 o b ++ [1])) = Ok (tr12 o b) /\
  tr_card RS false (map Some (tr12 o b)) = Ok (tr12 o b) /\
  tr_card RS false (map Some (tr12 o b ++ [1])) = Ok (tr12 o b) /\
  parse_trcl RS false (tr12 o b) trs trid = Ok (tr12 o b) /\
  parse_fill_tr RS false (tr12 o b) trs trid = Ok (tr12 o b) /\
  tr_parts (tr12 o b) = Some (o, b).
Proof. exact normalize_transform_exact. Qed.

(* otherwise: two matrices entrywise within 1e-10 move every frame (point and axis: the numbers
   written for PLANE / SPHERE / CYL / CONE / TORUS) to within 1e-10 * |v|_1 per coordinate ... *)
Theorem C04_frame_perturbation : forall (b q : M3 R) (o v : R3),
  close_m b q ->
  Rabs (vx (tvec b v) - vx (tvec q v)) <= eps10 * l1 v /\
  Rabs (vy (tvec b v) - vy (tvec q v)) <= eps10 * l1 v /\
  Rabs (vz (tvec b v) - vz (tvec q v)) <= eps10 * l1 v /\
  Rabs (vx (to_main o b v) - vx (to_main o q v)) <= eps10 * l1 v /\
  Rabs (vy (to_main o b v) - vy (to_main o q v)) <= eps10 * l1 v /\
  Rabs (vz (to_main o b v) - vz (to_main o q v)) <= eps10 * l1 v.
Proof. exact frame_perturbation. Qed.

(* ... so whatever adjust_matrix returns is that close to an exactly orthonormal q, for which the
   interface law holds exactly *)
Theorem C04_normalize_transform_perturbation : forall (m : M3 R) (l : list R),
  adjust_matrix RS (mlist m) = Ok l ->
  exists out q : M3 R, l = mlist out /\ rows_orthonormal q /\ rows_orthonormal (transpose q) /\
    forall (o v : R3),
      Rabs (vx (tvec out v) - vx (tvec q v)) <= eps10 * l1 v /\
      Rabs (vy (tvec out v) - vy (tvec q v)) <= eps10 * l1 v /\
      Rabs (vz (tvec out v) - vz (tvec q v)) <= eps10 * l1 v /\
      Rabs (vx (to_main o out v) - vx (to_main o q v)) <= eps10 * l1 v /\
      Rabs (vy (to_main o out v) - vy (to_main o q v)) <= eps10 * l1 v /\
      Rabs (vz (to_main o out v) - vz (to_main o q v)) <= eps10 * l1 v.
Proof. exact normalize_transform_perturbation. Qed.

(* ---------- cards ---------- *)
Theorem C04_to_cos_deg : forall a : R, to_cos RS a = cos (a * PI / 180).
Proof. exact to_cos_deg. Qed.

Theorem C04_tr_card_3 : forall (star : bool) (o : R3),
  tr_card RS star (map Some (vlist o)) = Ok (vlist o ++ mlist (idm RS)).
Proof. exact tr_card_3. Qed.

Theorem C04_tr_card_12 : forall (o : R3) (b : M3 R),
  rows_orthonormal b -> clip_ok_m b ->
  tr_card RS false (map Some (vlist o ++ mlist b)) = Ok (vlist o ++ mlist b) /\
  tr_card RS false (map Some (vlist o ++ mlist b ++ [1])) = Ok (vlist o ++ mlist b).
Proof. exact tr_card_12. Qed.

Theorem C04_tr_card_star_12 : forall (o : R3) (ang : M3 R),
  let b := vmap (vmap (fun a => cos (a * PI / 180))) ang in
  rows_orthonormal b -> clip_ok_m b ->
  tr_card RS true (map Some (vlist o ++ mlist ang)) = Ok (vlist o ++ mlist b) /\
  tr_card RS true (map Some (vlist o ++ mlist ang ++ [1])) = Ok (vlist o ++ mlist b).
Proof. exact tr_card_star_12. Qed.

(* 13 entries with m <> 1: rejected on TR, *TR, inline TRCL / *TRCL, inline FILL / *FILL
   (DESIGN §8 #6, repaired in 0ff2a3e / 6199994) *)
Theorem C04_m1_only : forall (star : bool) (l : list R) (m : R) trs trid,
  List.length l = 12%nat -> m <> 1 ->
  tr_card RS star (map Some (l ++ [m])) = Err ETransformation /\
  parse_trcl RS star (l ++ [m]) trs trid = Err ETransformation /\
  parse_fill_tr RS star (l ++ [m]) trs trid = Err ETransformation.
Proof. exact m1_only. Qed.

(* inline TRCL=(12 or 13 numbers) and FILL=u (12 numbers): the numbers themselves
   (DESIGN §8 #5, repaired in 0ff2a3e) *)
Theorem C04_inline_12 : forall (o : R3) (b : M3 R) trs trid,
  rows_orthonormal b -> clip_ok_m b ->
  parse_trcl RS false (vlist o ++ mlist b) trs trid = Ok (vlist o ++ mlist b) /\
  parse_trcl RS false (vlist o ++ mlist b ++ [1]) trs trid = Ok (vlist o ++ mlist b) /\
  parse_fill_tr RS false (vlist o ++ mlist b) trs trid = Ok (vlist o ++ mlist b).
Proof. exact inline_12. Qed.

Theorem C04_inline_number : forall star (n : R) trs trid tr,
  lookup trid trs = Ok tr -> List.length tr = 12%nat ->
  parse_trcl RS star [n] trs trid = Ok tr.
Proof. exact inline_number. Qed.

(* ---------- implicit surfaces ---------- *)
(* a reference of either sign (DESIGN §8 #4, repaired in 93671ff) *)
Theorem C04_implicit_surface : forall (refs : list Z) cells surfs table (r : Z),
  In r refs -> (1000 <= Z.abs r)%Z -> zmem (Z.abs r) (map fst surfs) = false ->
  surface_table RS refs cells surfs = Ok table ->
  exists v, implicit_surface RS cells surfs (Z.abs r) = Ok v /\ resolve_ref r table = Ok v.
Proof. exact implicit_surface_resolved. Qed.

Theorem C04_implicit_surface_value : forall cells surfs (id : Z) tr ss,
  lookup (id / 1000)%Z cells = Ok [tr] -> lookup (id mod 1000)%Z surfs = Ok ss ->
  implicit_surface RS cells surfs id
  = map_res (fun sd => rmap (fun s' => (s', snd sd)) (transformation RS tr (fst sd))) ss.
Proof. exact implicit_surface_value. Qed.

(* ---------- SQ (DESIGN §8 #19 repaired in 5f0340e, #17 in 66f68d1) ---------- *)
(* untransformed and transformed SQ surfaces are QUADs whose value at the (moved)
   point is the SQ function, coefficients as given, at the (original) point *)
Theorem C04_frame_transform_sq : forall (q : list R) (o : R3) (b : M3 R) pt u nap (p' : R3),
  List.length q = 10%nat -> rows_orthonormal b ->
  let s := mkMS KSQ pt u q nap in
  (exists c0, convert RS s = Ok [(c0, 1%Z)] /\ t4val c0 p' = msense s p') /\
  (exists c, tr_convert RS (vlist o ++ mlist b) s = Ok [(c, 1%Z)] /\
             t4val c (to_main o b p') = msense s p').
Proof. exact frame_transform_sq. Qed.

(* ---------- compose_transform and its call sites ---------- *)
(* [tr12 o b] = the 12 numbers; [aff o b p] = B p + O (the reading of the docstring and of
   Transformation.transform_vector); [to_main o b p] = O + B^T p (the reading that moves
   surfaces).  compose_transform is the composition in the affine reading ... *)
Theorem C04_compose_affine : forall o1 b1 o2 b2 p,
  exists o b, compose_transform RS (tr12 o1 b1) (tr12 o2 b2) = Some (tr12 o b) /\
              aff o b p = aff o2 b2 (aff o1 b1 p).
Proof. exact compose_affine. Qed.

(* ... and in the MCNP reading exactly when B2 B1 = B1 B2 and B2 O1 = B2^T O1 *)
Theorem C04_compose_mcnp_iff : forall o1 b1 o2 b2,
  exists o b, compose_transform RS (tr12 o1 b1) (tr12 o2 b2) = Some (tr12 o b) /\
    ((forall p, to_main o b p = to_main o2 b2 (to_main o1 b1 p)) <-> commute_cond o1 b1 b2).
Proof. exact compose_mcnp_iff. Qed.

Theorem C04_compose_not_mcnp_composition_in_general :
  exists o1 b1 o2 b2 o b p,
    rotation b1 /\ rotation b2 /\
    compose_transform RS (tr12 o1 b1) (tr12 o2 b2) = Some (tr12 o b) /\
    to_main o b p <> to_main o2 b2 (to_main o1 b1 p).
Proof. exact compose_not_mcnp_composition_in_general. Qed.

Theorem C04_compose_translation_second : forall o1 b1 o2,
  compose_transform RS (tr12 o1 b1) (tr12 o2 idR) = Some (tr12 (vplus (mvec idR o1) o2) (mmul idR b1)) /\
  commute_cond o1 b1 idR /\
  forall p, to_main (vplus (mvec idR o1) o2) (mmul idR b1) p = vplus o2 (to_main o1 b1 p).
Proof. exact compose_translation_second. Qed.

(* the only caller, develop_lattice: a lattice element's fill transformation is the
   cell's fill transformation (else its TRCL, else nothing) followed by the translation
   to the element; the TRCL list is the parser's (at most one transformation) *)
Theorem C04_lattice_filltr_fill : forall (o : R3) (b : M3 R) trcls (transl : R3),
  exists o' b', lattice_filltr RS (tr12 o b) trcls transl = Some (tr12 o' b') /\
    forall p, to_main o' b' p = translate transl (to_main o b p).
Proof. exact lattice_filltr_fill. Qed.

Theorem C04_lattice_filltr_trcl : forall (o : R3) (b : M3 R) (transl : R3),
  lattice_filltr RS [] [] transl = Some (tr12 transl idR) /\
  (forall p, to_main transl idR p = translate transl p) /\
  exists o' b', lattice_filltr RS [] [tr12 o b] transl = Some (tr12 o' b') /\
    forall p, to_main o' b' p = translate transl (to_main o b p).
Proof. exact lattice_filltr_trcl. Qed.

(* ---------- a whole TRCL cell (pot_transform / apply_trcl) ---------- *)
(* [region cellsem tb t p]: p is in the region of expression t (signed surface leaves read in the
   surface dictionary tb: -n inside every part, +n outside some part; complement nodes through
   cellsem).  A cell whose expression mentions surfaces only ([surf_only], numbers within the
   dictionary) and carries one TRCL (O,B): the walk gives every leaf a NEW surface, keeps the old
   dictionary entries, and the new expression at the moved point is the old one at the original point *)
Theorem C04_trcl_cell : forall (o : R3) (b : M3 R) cellsem (t t' : gtree) (st st' : pstate),
  rows_orthonormal b -> surf_only (fst st) t = true -> (0 <= fst st)%Z ->
  table_wf (snd st) -> keys_le (fst st) (snd st) ->
  apply_trcl RS [tr12 o b] t st = Ok (t', st') ->
  (forall p', region cellsem (snd st') t' (to_main o b p') <-> region cellsem (snd st) t p') /\
  (forall j, (j <= fst st)%Z -> lookup j (snd st') = lookup j (snd st)) /\ table_wf (snd st').
Proof. exact trcl_cell. Qed.

(* one part of a dictionary entry: transformation() obeys the interface law for every kind
   (frames, GQ, SQ) ... *)
Theorem C04_transformation_law : forall (o : R3) (b : M3 R) (s : msurf R),
  rows_orthonormal b -> part_wf s ->
  exists s', transformation RS (tr12 o b) s = Ok s' /\ part_wf s' /\
    forall p', (mneg s' (to_main o b p') <-> mneg s p') /\ (mpos s' (to_main o b p') <-> mpos s p').
Proof. exact transformation_law. Qed.

(* ... and its conversion writes surfaces selecting the same two regions (plane, sphere,
   cylinder, cone with 0/1/2 sheets, GQ; unit axes) *)
Theorem C04_convert_law : forall (s : msurf R), conv_wf s ->
  exists coll, convert RS s = Ok coll /\
    forall P, (mneg s P <-> coll_neg coll P) /\ (mpos s P <-> coll_pos coll P).
Proof. exact convert_law. Qed.

(* ---------- FOR IMPORTERS: the interface law, one statement over every kind ---------- *)
(* [iface_wf b s]: s is convertible as it stands ([conv_wf_all]: unit axes, parameter lists of
   the right shape, sheet in {none,0,+1,-1}, ten quadric coefficients, torus axis exactly on a
   coordinate axis or outside the allclose band) and the torus axis moved by B is too.
   Then: the surfaces written for the MOVED part select at O + B^T p the regions the surfaces
   written for the UNMOVED part select at p, which are the MCNP regions of s. *)
Theorem C04_interface_law : forall (o : R3) (b : M3 R) (s : msurf R),
  rows_orthonormal b -> iface_wf b s ->
  exists coll0 coll,
    convert RS s = Ok coll0 /\ tr_convert RS (tr12 o b) s = Ok coll /\
    forall p, (coll_neg coll (to_main o b p) <-> coll_neg coll0 p) /\
              (coll_pos coll (to_main o b p) <-> coll_pos coll0 p) /\
              (coll_neg coll0 p <-> mneg s p) /\ (coll_pos coll0 p <-> mpos s p).
Proof. exact interface_law. Qed.

(* the same law in the shape  sense (tr_surf t s) p = sense s (inv t p)  with boolean senses of
   the written collections and inv t = to_aux O B (for linking with C05's abstract hypothesis) *)
Theorem C04_interface_law_inv : forall (o : R3) (b : M3 R) (s : msurf R),
  rows_orthonormal b -> iface_wf b s ->
  exists coll0 coll,
    convert RS s = Ok coll0 /\ tr_convert RS (tr12 o b) s = Ok coll /\
    forall p, sense_neg_b coll p = sense_neg_b coll0 (to_aux o b p) /\
              sense_pos_b coll p = sense_pos_b coll0 (to_aux o b p).
Proof. exact interface_law_inv. Qed.

(* conversion alone, every kind (adds torus and SQ to C04_convert_law) *)
Theorem C04_convert_law_all : forall (s : msurf R), conv_wf_all s ->
  exists coll, convert RS s = Ok coll /\
    forall P, (mneg s P <-> coll_neg coll P) /\ (mpos s P <-> coll_pos coll P).
Proof. exact convert_law_all. Qed.

(* a dictionary entry (macrobody facets with their sides, one-sheet cones): convert_mcnp_surface
   = SurfaceCollection.join of the converted parts selects inside-every-part / outside-some-part *)
Theorem C04_entry_law : forall (e : list (msurf R * Z)), entry_wf e ->
  exists coll, convert_entry RS e = Ok coll /\
    forall P, (entry_neg e P <-> coll_neg coll P) /\ (entry_pos e P <-> coll_pos coll P).
Proof. exact entry_law. Qed.

(* a whole TRCL cell at TRIPOLI-4 level: with every dictionary entry converted by
   convert_entry, the expression written for the moved cell holds at O + B^T p' exactly when the
   expression written for the unmoved cell holds at p' *)
Theorem C04_trcl_cell_t4 : forall (o : R3) (b : M3 R) cellsem (t t' : gtree) (st st' : pstate),
  rows_orthonormal b -> surf_only (fst st) t = true -> (0 <= fst st)%Z ->
  table_wf (snd st) -> keys_le (fst st) (snd st) ->
  table_cwf (snd st) -> table_cwf (snd st') ->
  apply_trcl RS [tr12 o b] t st = Ok (t', st') ->
  forall p', region_t4 cellsem (snd st') t' (to_main o b p') <-> region_t4 cellsem (snd st) t p'.
Proof. exact trcl_cell_t4. Qed.


(* ---------- starred / abbreviated cards at card level (asked by C03) ---------- *)
(* a *TR card (not the 3-entry form) is the TR card of the cosines: J stays J, displacement and m untouched *)
Theorem C04_tr_card_star_is_cos : forall pl : list (option R), List.length pl <> 3%nat ->
  tr_card RS true pl = tr_card RS false (cos_entries pl).
Proof. exact tr_card_star_is_cos. Qed.

(* an abbreviated pattern that normalize_matrix completes to an orthonormal b (use the
   C04_normalize_matrix_3/5/6_reproduces theorems for b) gives, as a whole card, displacement + b *)
Theorem C04_normalize_transform_abbrev : forall (o : R3) (pat : M3 (option R)) (b : M3 R),
  normalize_matrix RS (mlist pat) = Ok (mlist b) -> rows_orthonormal b -> clip_ok_m b ->
  normalize_transform RS (map Some (vlist o) ++ mlist pat) = Ok (vlist o ++ mlist b) /\
  tr_card RS false (map Some (vlist o) ++ mlist pat) = Ok (vlist o ++ mlist b).
Proof. exact normalize_transform_abbrev. Qed.

Theorem C04_tr_card_star_abbrev : forall (o : R3) (ang : M3 (option R)) (b : M3 R),
  let pat := vmap (vmap (option_map (to_cos RS))) ang in
  normalize_matrix RS (mlist pat) = Ok (mlist b) -> rows_orthonormal b -> clip_ok_m b ->
  tr_card RS true (map Some (vlist o) ++ mlist ang) = Ok (vlist o ++ mlist b).
Proof. exact tr_card_star_abbrev. Qed.

(* derived coefficient: the offset of the written plane under two matrices entrywise within 1e-10 *)
Theorem C04_plane_offset_perturbation : forall (b q : M3 R) (o pt n : R3) cp nap,
  close_m b q ->
  let sb := mkMS KP (to_main o b pt) (tvec b n) cp nap in
  let sq := mkMS KP (to_main o q pt) (tvec q n) cp nap in
  Rabs (neg_pos RS sb - neg_pos RS sq)
  <= eps10 * l1 n * l1 (to_main o b pt) + eps10 * l1 pt * l1 (tvec q n).
Proof. exact plane_offset_perturbation. Qed.

(* ================================================================== *)
(* every theorem above is a member of exactly one family; a family is the
   conjunction of its members themselves, so one Print Assumptions audits them all *)
(* ================================================================== *)
(* a surface moved by (O,B) and converted: every kind (the per-kind forms of the interface law) *)
Theorem C04_family_surfaces :
  ltac:(let t := type of (conj C04_quad_congruence (conj C04_frame_transform_gq (conj C04_frame_transform_plane (conj C04_frame_transform_sphere (conj C04_frame_transform_cylinder (conj C04_frame_transform_cone (conj C04_frame_transform_cone_sheet (conj C04_frame_transform_torus (conj C04_frame_transform_torus_total C04_frame_transform_sq))))))))) in exact t).
Proof. exact (conj C04_quad_congruence (conj C04_frame_transform_gq (conj C04_frame_transform_plane (conj C04_frame_transform_sphere (conj C04_frame_transform_cylinder (conj C04_frame_transform_cone (conj C04_frame_transform_cone_sheet (conj C04_frame_transform_torus (conj C04_frame_transform_torus_total C04_frame_transform_sq))))))))). Qed.
Print Assumptions C04_family_surfaces.

(* abbreviated matrices completed, adjust_matrix, exactness and perturbation of normalize_transform *)
Theorem C04_family_matrices :
  ltac:(let t := type of (conj C04_plane_offset_perturbation (conj C04_normalize_matrix_9_reproduces (conj C04_normalize_matrix_6_reproduces (conj C04_normalize_matrix_6_cols_reproduces (conj C04_normalize_matrix_3_reproduces (conj C04_normalize_matrix_3_cols_reproduces (conj C04_normalize_matrix_5_reproduces (conj C04_adjust_matrix_fixpoint (conj C04_adjust_matrix_near_orthonormal (conj C04_adjust_matrix_idempotent (conj C04_normalize_matrix_trailing_J (conj C04_normalize_transform_exact (conj C04_frame_perturbation C04_normalize_transform_perturbation))))))))))))) in exact t).
Proof. exact (conj C04_plane_offset_perturbation (conj C04_normalize_matrix_9_reproduces (conj C04_normalize_matrix_6_reproduces (conj C04_normalize_matrix_6_cols_reproduces (conj C04_normalize_matrix_3_reproduces (conj C04_normalize_matrix_3_cols_reproduces (conj C04_normalize_matrix_5_reproduces (conj C04_adjust_matrix_fixpoint (conj C04_adjust_matrix_near_orthonormal (conj C04_adjust_matrix_idempotent (conj C04_normalize_matrix_trailing_J (conj C04_normalize_transform_exact (conj C04_frame_perturbation C04_normalize_transform_perturbation))))))))))))). Qed.
Print Assumptions C04_family_matrices.

(* TR / *TR cards, inline TRCL / FILL, degrees, m = 1 only, error branches *)
Theorem C04_family_cards :
  ltac:(let t := type of (conj C04_tr_card_star_abbrev (conj C04_normalize_transform_abbrev (conj C04_tr_card_star_is_cos (conj C04_error_branches (conj C04_to_cos_deg (conj C04_tr_card_3 (conj C04_tr_card_12 (conj C04_tr_card_star_12 (conj C04_m1_only (conj C04_inline_12 C04_inline_number)))))))))) in exact t).
Proof. exact (conj C04_tr_card_star_abbrev (conj C04_normalize_transform_abbrev (conj C04_tr_card_star_is_cos (conj C04_error_branches (conj C04_to_cos_deg (conj C04_tr_card_3 (conj C04_tr_card_12 (conj C04_tr_card_star_12 (conj C04_m1_only (conj C04_inline_12 C04_inline_number)))))))))). Qed.
Print Assumptions C04_family_cards.

(* compose_transform and its call sites in develop_lattice *)
Theorem C04_family_compose :
  ltac:(let t := type of (conj C04_compose_affine (conj C04_compose_mcnp_iff (conj C04_compose_not_mcnp_composition_in_general (conj C04_compose_translation_second (conj C04_lattice_filltr_fill C04_lattice_filltr_trcl))))) in exact t).
Proof. exact (conj C04_compose_affine (conj C04_compose_mcnp_iff (conj C04_compose_not_mcnp_composition_in_general (conj C04_compose_translation_second (conj C04_lattice_filltr_fill C04_lattice_filltr_trcl))))). Qed.
Print Assumptions C04_family_compose.

(* implicit surfaces, dictionary entries, whole TRCL cells, the interface law for importers *)
Theorem C04_family_cells :
  ltac:(let t := type of (conj C04_implicit_surface (conj C04_implicit_surface_value (conj C04_trcl_cell (conj C04_transformation_law (conj C04_convert_law (conj C04_interface_law (conj C04_interface_law_inv (conj C04_convert_law_all (conj C04_entry_law C04_trcl_cell_t4))))))))) in exact t).
Proof. exact (conj C04_implicit_surface (conj C04_implicit_surface_value (conj C04_trcl_cell (conj C04_transformation_law (conj C04_convert_law (conj C04_interface_law (conj C04_interface_law_inv (conj C04_convert_law_all (conj C04_entry_law C04_trcl_cell_t4))))))))). Qed.
Print Assumptions C04_family_cells.

(* non-vacuity: the quarter turn about z used by the corpus deck
   TRCL=(1 0 0  0 1 0  -1 0 0  0 0 1) satisfies every hypothesis on B, and moves
   the point (0, 1.5, 0.5) of the C/X axis to (-0.5, 0, 0.5) (written CYLY -0.5 0.5) *)
Example C04_example :
  let b := mkV (mkV 0 1 0) (mkV (-1) 0 0) (mkV 0 0 1) in
  rows_orthonormal b /\ rotation b /\ clip_ok_m b /\ norm2 (mkV 1 0 0) = 1 /\
  to_main (mkV 1 0 0) b (mkV 0 (3 / 2) (1 / 2)) = mkV (- (1 / 2)) 0 (1 / 2).
Proof.
  cbv zeta.
  assert (K0 : clip_ok 0) by (left; reflexivity).
  assert (K1 : clip_ok 1) by (right; rewrite Rabs_R1; lra).
  assert (Km : clip_ok (-1)) by (right; unfold Rabs; destruct (Rcase_abs (-1)); lra).
  unfold rotation, rows_orthonormal, det, cross, dot, norm2, clip_ok_m, clip_ok3, to_main, vplus, vscale; cbn [vx vy vz].
  repeat split; try assumption; try ring.
  - unfold dot; cbn [vx vy vz]; ring.
  - f_equal; field.
Qed.
