(* C04 — Coordinate transformations move surfaces and cells by the MCNP rigid
   motion.  Only restatements; proofs are in C04/Proofs*.v.
   Vocabulary (C04/Spec.v, from DESIGN Appendix A/B): [to_main o b p'] = the
   main-system point with auxiliary coordinates p' (o = displacement, rows of b
   = auxiliary axes in main coordinates); [msense s] = MCNP sense function of a
   frame-form surface in its own coordinates; [t4val c] = sense function of a
   written SURF line (with TRANSFORM); [tr_convert RS tr s] = the model of
   transformation() followed by conversion_surface_params(). *)
From Coq Require Import List ZArith Bool Reals.
From T4V Require Import Base.Scalar C04.Vec C04.Model C04.Spec C04.ProofsFrame C04.ProofsConvert
  C04.ProofsQuad C04.ProofsSurf.
Import ListNotations.
Open Scope R_scope.

(* transformation_quad is the congruence of the quadric with p -> B (p - O):
   no hypothesis on B at all *)
Theorem C04_quad_congruence : forall (q : list R) (o : R3) (b : M3 R) (p : R3),
  List.length q = 10%nat ->
  gq_fn (transformation_quad RS q (vlist o ++ mlist b)) p = gq_fn q (to_aux o b p).
Proof. exact quad_congruence. Qed.
Print Assumptions C04_quad_congruence.

(* GQ under a transformation with orthonormal axes: a QUAD whose function at the
   moved point is the GQ function at the original point *)
Theorem C04_frame_transform_gq : forall (q : list R) (o : R3) (b : M3 R) pt u nap (p' : R3),
  List.length q = 10%nat -> rows_orthonormal b ->
  let s := mkMS KGQ pt u q nap in
  exists c, tr_convert RS (vlist o ++ mlist b) s = Ok [(c, 1%Z)] /\
            t4val c (to_main o b p') = msense s p'.
Proof. exact frame_transform_gq. Qed.
Print Assumptions C04_frame_transform_gq.

Theorem C04_frame_transform_plane : forall (o : R3) (b : M3 R) pt n cp nap (p' : R3),
  rows_orthonormal b ->
  let s := mkMS KP pt n cp nap in
  exists c, tr_convert RS (vlist o ++ mlist b) s = Ok [(c, 1%Z)] /\
            same_sense (t4val c (to_main o b p')) (msense s p').
Proof. exact frame_transform_plane. Qed.
Print Assumptions C04_frame_transform_plane.

Theorem C04_frame_transform_sphere : forall (o : R3) (b : M3 R) pt u r rest nap (p' : R3),
  rows_orthonormal b ->
  let s := mkMS KS pt u (r :: rest) nap in
  exists c, tr_convert RS (vlist o ++ mlist b) s = Ok [(c, 1%Z)] /\
            t4val c (to_main o b p') = msense s p'.
Proof. exact frame_transform_sphere. Qed.
Print Assumptions C04_frame_transform_sphere.

Theorem C04_frame_transform_cylinder : forall (o : R3) (b : M3 R) pt u r rest nap (p' : R3),
  rows_orthonormal b -> norm2 u = 1 ->
  let s := mkMS KC pt u (r :: rest) nap in
  exists c, tr_convert RS (vlist o ++ mlist b) s = Ok [(c, 1%Z)] /\
            t4val c (to_main o b p') = msense s p'.
Proof. exact frame_transform_cylinder. Qed.
Print Assumptions C04_frame_transform_cylinder.

Theorem C04_frame_transform_cone : forall (o : R3) (b : M3 R) apex u c0 a rest nap (p' : R3),
  rows_orthonormal b -> norm2 u = 1 -> (nap = None \/ nap = Some 0%Z) ->
  let s := mkMS KK apex u (c0 :: a :: rest) nap in
  exists c, tr_convert RS (vlist o ++ mlist b) s = Ok [(c, 1%Z)] /\
            t4val c (to_main o b p') = msense s p'.
Proof. exact frame_transform_cone. Qed.
Print Assumptions C04_frame_transform_cone.

(* one-sheet cones: both sheets, every orthonormal B (the moved axis may be
   anti-parallel to a coordinate axis: DESIGN §8 #3, repaired in ce05bad) *)
Theorem C04_frame_transform_cone_sheet : forall (o : R3) (b : M3 R) apex u c0 a rest n (p' : R3),
  rows_orthonormal b -> norm2 u = 1 -> (n = 1 \/ n = -1)%Z ->
  let s := mkMS KK apex u (c0 :: a :: rest) (Some n) in
  exists cone plane side,
    tr_convert RS (vlist o ++ mlist b) s = Ok [(cone, 1%Z); (plane, side)] /\
    (mneg s p' <-> coll_neg [(cone, 1%Z); (plane, side)] (to_main o b p')) /\
    (mpos s p' <-> coll_pos [(cone, 1%Z); (plane, side)] (to_main o b p')).
Proof. exact frame_transform_cone_sheet. Qed.
Print Assumptions C04_frame_transform_cone_sheet.
