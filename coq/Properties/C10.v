(* C10 — Material cards become compositions with the same nuclides and amounts.
   Only restatements; proofs are in C10/Proofs.v. *)
From Coq Require Import List NArith Bool String Ascii Reals.
From T4V Require Import Base.Str Base.Scalar C10.Model C10.Proofs.
Import ListNotations.
Open Scope string_scope.

(* element symbol and mass number come from the ZAID, for every Z in 1..118 and
   every three-digit mass number *)
Theorem C10_zaid_split : forall z a : N, (1 <= z <= 118)%N -> (a <= 999)%N ->
  convert_isotope (zaid_of z a) = Ok (z, a) /\
  contains_char "."%char (zaid_of z a) = false /\ contains_char "="%char (zaid_of z a) = false.
Proof. exact zaid_split. Qed.
Print Assumptions C10_zaid_split.

(* exactly the card's nuclides, in order; suffixes and keyword entries ignored;
   000 = natural element; fractions = absolute spellings; the flag says whether
   the entries were positive (atom fractions) *)
Theorem C10_card_converted : forall (items : list item) (neg : bool),
  Forall wf_item items -> Forall (fun n => nneg n = neg) (nuclides items) ->
  convert_card (render items) =
  Ok (map spec_entry (nuclides items),
      match nuclides items with [] => None | _ => Some (negb neg) end).
Proof. exact card_converted. Qed.
Print Assumptions C10_card_converted.

Theorem C10_mixed_signs_rejected : forall items : list item,
  Forall wf_item items ->
  (exists n1 n2, In n1 (nuclides items) /\ In n2 (nuclides items) /\ nneg n1 <> nneg n2) ->
  exists e, convert_card (render items) = Err e.
Proof. exact mixed_signs_rejected. Qed.
Print Assumptions C10_mixed_signs_rejected.

(* atom density: concentrations sum to the cell density and are proportional to
   the atom fractions *)
Theorem C10_rescale_sum : forall (fracs : list R) (rho : R),
  ssum RS fracs <> 0%R -> ssum RS (rescale RS fracs rho) = rho.
Proof. exact rescale_sum. Qed.
Print Assumptions C10_rescale_sum.

Theorem C10_rescale_proportional : forall (fracs : list R) (rho : R) (i j : nat),
  ssum RS fracs <> 0%R ->
  (nth i (rescale RS fracs rho) 0 * nth j fracs 0 = nth j (rescale RS fracs rho) 0 * nth i fracs 0)%R.
Proof. exact rescale_proportional. Qed.
Print Assumptions C10_rescale_proportional.

(* mass density (negative cell density): the card's absolute values, NB_ATOM
   exactly when the entries are positive *)
Theorem C10_block_negative_density : forall names atom (fracs : list R) (rho : R),
  (rho < 0)%R -> block_of RS names atom fracs rho = BDensity atom names.
Proof. exact block_negative_density. Qed.
Print Assumptions C10_block_negative_density.

Theorem C10_block_atom_density : forall names (fracs : list R) (rho : R),
  (0 <= rho)%R -> block_of RS names true fracs rho = BPointWise (combine names (rescale RS fracs rho)).
Proof. exact block_atom_density. Qed.
Print Assumptions C10_block_atom_density.

(* non-vacuity: a concrete card with a suffix, a keyword and a natural element *)
Example C10_example :
  let u := mkNuc 92 235 (Some "70c") false "0.05" in
  let o := mkNuc 8 0 None false "2" in
  let items := [INuc u; IKey "nlib=70c"; INuc o] in
  Forall wf_item items /\
  convert_card (render items) = Ok ([("U235", "0.05"); ("O-NAT", "2")], Some true).
Proof.
  cbv zeta. split.
  - repeat constructor; cbn; try discriminate; try reflexivity.
  - vm_compute. reflexivity.
Qed.
