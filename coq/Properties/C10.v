(* C10 — Material cards become compositions with the same nuclides and amounts.
   Only restatements; proofs are in C10/Proofs*.v.  The functions named here
   (data_split, material_head, get_materials, convert_card, convert_all, scan,
   block_for, construct, composition_lines, ...) are those of C10/Model.v that
   the correspondence ties execute against the Python code; C10/Spec.v holds
   the abstract cards and the periodic table. *)
From Coq Require Import List NArith ZArith Bool String Ascii Reals PrimFloat.
From T4V Require Import Base.Str Base.Scalar C10.Model C10.ProofsStr C10.Spec C10.ProofsHead
  C10.ProofsCard C10.ProofsNum C10.ProofsDeck C10.ProofsPipe C10.LinkC09 C10.LinkC14 C10.LinkC09b C10.LinkC09c C10.ProofsTotal C10.ProofsRead.
From T4V Require C09.Model C09.Spec C09.ProofsNorm C14.Model C14.ProofsContent C14.ProofsCards.
Import ListNotations.
Open Scope string_scope.

(* ------------------------------------------------------------------------ *)
(* which data cards are material cards                                       *)
(* ------------------------------------------------------------------------ *)

(* blanks, m or M, a non-empty number, then anything that does not go on with a
   digit or a star: a material card with that number (leading zeros allowed)
   and the blank-separated words of the rest as entries *)
Theorem C10_material_card_recognised : forall (ws : string) (c : ascii) (ds p : string),
  all_chars is_ws ws = true -> (c = "m" \/ c = "M")%char ->
  ds <> "" -> all_digits ds = true -> stops digit_or_star p = true ->
  material_head (ws ++ String c (ds ++ p)) = Ok (Some (parse_digits ds 0%N, split_ws p)).
Proof. exact material_card_recognised. Qed.
Print Assumptions C10_material_card_recognised.

(* ... and nothing else is: exactly the m<n> cards, in either case *)
Theorem C10_material_card_shape : forall (txt : string) (n : N) (toks : list string),
  material_head txt = Ok (Some (n, toks)) ->
  exists ws c ds p,
    txt = ws ++ String c (ds ++ p) /\ all_chars is_ws ws = true /\ (c = "m" \/ c = "M")%char /\
    ds <> "" /\ all_digits ds = true /\ stops digit_or_star p = true /\
    n = parse_digits ds 0%N /\ toks = split_ws p.
Proof. exact material_card_shape. Qed.
Print Assumptions C10_material_card_shape.

(* a card whose name has other letters (mt, mx, mode, mpn, mgopt, imp, tr ...),
   a star in front, or something else than a digit after the m is skipped
   without error *)
Theorem C10_other_cards_ignored : forall (ws stars letters rest : string),
  all_chars is_ws ws = true -> all_chars is_star stars = true ->
  letters <> "" -> all_chars is_alpha letters = true -> stops is_alpha rest = true ->
  (stars <> "" \/ lower letters <> "m" \/ (rest <> "" /\ stops is_digit rest = true)) ->
  material_head (ws ++ stars ++ letters ++ rest) = Ok None.
Proof. exact other_cards_ignored. Qed.
Print Assumptions C10_other_cards_ignored.

Example C10_heads :
  material_head "m5 1001.70c 1 nlib=70c" = Ok (Some (5%N, ["1001.70c"; "1"; "nlib=70c"])) /\
  material_head " M05 1001 1 " = Ok (Some (5%N, ["1001"; "1"])) /\
  material_head "mt5 lwtr.01t" = Ok None /\ material_head "mx5:n j 8016" = Ok None /\
  material_head "mode n" = Ok None /\ material_head "mpn5 0 8016" = Ok None /\
  material_head "mgopt f 4" = Ok None /\ material_head "*m5 1001 1" = Ok None /\
  material_head "m5* 1001 1" = Ok None /\ material_head "m 5 1001 1" = Ok None /\
  material_head "imp:n 1 1 0" = Ok None /\ material_head "*tr5 0 0 0" = Ok None /\
  material_head "m" = Err EValue /\ material_head "5 m" = Err EAttribute.
Proof. vm_compute. repeat split. Qed.

(* a whole data block: exactly the material cards, in order, each with the
   words of its entries — whatever other cards stand between them *)
Theorem C10_material_cards_recognised : forall cards : list dcard,
  Forall wf_dcard cards -> NoDup (map m_num (mcards cards)) ->
  get_materials (map render_dcard cards) =
  Ok (map (fun m => (m_num m, render (m_items m))) (mcards cards)).
Proof. exact material_cards_recognised. Qed.
Print Assumptions C10_material_cards_recognised.

(* repeated material numbers (MCNP refuses them, the code does not): every
   number once, at the place of its FIRST card, with the entries of its LAST
   card; the number of a material card is read from ASCII digits only (group 2
   of re_data), for which the model's int is exactly Python's *)
Theorem C10_material_cards_duplicates : forall cards : list dcard,
  Forall wf_dcard cards ->
  exists d, get_materials (map render_dcard cards) = Ok d /\
    map fst d = dedupN [] (map m_num (mcards cards)) /\
    (forall k, lookupN k d = last_card k (mcards cards)).
Proof. exact material_cards_duplicates. Qed.
Print Assumptions C10_material_cards_duplicates.

Example C10_duplicates_example :
  get_materials ["m5 1001 1"; "m7 8016 1"; "mt5 lwtr"; "M05 26000 2"] =
  Ok [(5%N, ["26000"; "2"]); (7%N, ["8016"; "1"])].
Proof. reflexivity. Qed.

(* linked with C14 (get_cards + Card.content): the data block as PHYSICAL
   lines — any blanks and tabs between the tokens, any breaking into
   continuation lines (5 blanks or &), c comment lines between the lines,
   $ trailers — gives exactly the material cards its laid-out cards carry *)
Theorem C10_material_cards_recognised_linked :
  forall (cs : list T4V.C14.ProofsCards.lcard) (tailc : list string) (cards : list dcard),
  T4V.C14.ProofsCards.lblock_ok T4V.C14.ProofsCards.noline cs ->
  T4V.C14.ProofsCards.comment_lines tailc ->
  Forall2 carries cs cards -> Forall wf_dcard cards -> NoDup (map m_num (mcards cards)) ->
  get_materials
    (map T4V.C14.Model.content
       (T4V.C14.Model.get_cards_lines
          (flat_map T4V.C14.ProofsCards.pc_phys (map T4V.C14.ProofsCards.lc_pcard cs) ++ tailc)%list)) =
  Ok (map (fun m => (m_num m, render (m_items m))) (mcards cards)).
Proof. exact material_cards_recognised_linked. Qed.
Print Assumptions C10_material_cards_recognised_linked.

Example C10_carries_unfold : forall c d,
  carries c d =
  match d with
  | DMat m => T4V.C14.ProofsCards.lc_toks c = card_name m :: render (m_items m) /\
              m_lead m = T4V.C14.ProofsContent.starts_ws (T4V.C14.ProofsContent.joined (T4V.C14.ProofsCards.lc_lines c)) /\
              m_trail m = T4V.C14.ProofsContent.ends_ws (T4V.C14.ProofsContent.joined (T4V.C14.ProofsCards.lc_lines c))
  | DOther t => T4V.C14.ProofsCards.card_content_form c = t
  end.
Proof. intros c d. destruct d; reflexivity. Qed.

(* ------------------------------------------------------------------------ *)
(* elements and ZAIDs                                                        *)
(* ------------------------------------------------------------------------ *)

(* the two enums of the code against the periodic table of C10/Spec.v (118
   symbols written period by period): finite sweep over Z = 1..118 *)
Theorem C10_element_table : forall z : N, (1 <= z <= 118)%N ->
  atomic_value (dec z) = Some z /\ element_name z = Some (spec_symbol z).
Proof. exact element_table. Qed.
Print Assumptions C10_element_table.

Example C10_symbols :
  map spec_symbol [1; 2; 8; 26; 57; 71; 72; 92; 94; 103; 104; 118]%N =
  ["H"; "HE"; "O"; "FE"; "LA"; "LU"; "HF"; "U"; "PU"; "LR"; "RF"; "OG"] /\
  List.length periodic_table = 118%nat.
Proof. vm_compute. split; reflexivity. Qed.

(* no other number names an element: Z = 0 and Z > 118 (any size) are
   rejected, with AttributeError *)
Theorem C10_atomic_number_range :
  (forall z v : N, atomic_value (dec z) = Some v -> (1 <= z <= 118)%N /\ v = z) /\
  (forall (lead : nat) (z a : N), (z = 0 \/ 118 < z)%N -> (a <= 999)%N ->
     convert_isotope (zaid_of lead z a) = Err EAttribute).
Proof. split; [exact atomic_value_range|exact zaid_out_of_range]. Qed.
Print Assumptions C10_atomic_number_range.

(* element and mass number come from the ZAID, for every Z in 1..118, every
   three-digit mass number and any number of zeros in front *)
Theorem C10_zaid_split : forall (lead : nat) (z a : N), (1 <= z <= 118)%N -> (a <= 999)%N ->
  convert_isotope (zaid_of lead z a) = Ok (z, dec a) /\
  contains_char "."%char (zaid_of lead z a) = false /\
  contains_char "="%char (zaid_of lead z a) = false.
Proof. exact zaid_split. Qed.
Print Assumptions C10_zaid_split.

(* ------------------------------------------------------------------------ *)
(* one card                                                                  *)
(* ------------------------------------------------------------------------ *)

(* exactly the card's nuclides, in order; suffixes and keyword entries (in any
   position between the pairs, any number of them) ignored; 000 = natural
   element; fractions = absolute spellings; the flag says whether the entries
   were positive (atom fractions).  Nothing requires the nuclides to differ. *)
Theorem C10_card_converted : forall (items : list item) (neg : bool),
  Forall wf_item items -> Forall (fun n => nneg n = neg) (nuclides items) ->
  convert_card (render items) =
  Ok (map spec_entry (nuclides items),
      match nuclides items with [] => None | _ => Some (negb neg) end).
Proof. exact card_converted. Qed.
Print Assumptions C10_card_converted.

Theorem C10_mixed_signs_rejected : forall items : list item,
  Forall wf_item items ->
  (exists n1 n2, In n1 (nuclides items) /\ In n2 (nuclides items) /\ nneg n1 <> nneg n2) ->
  convert_card (render items) = Err EMixedSigns.
Proof. exact mixed_signs_rejected. Qed.
Print Assumptions C10_mixed_signs_rejected.

(* a nuclide listed twice (same Z and A, possibly other suffixes) keeps both
   entries at their places, each with its own fraction *)
Theorem C10_repeated_nuclide : forall (items : list item) (neg : bool) out flag (i j : nat) (ni nj : nuclide),
  Forall wf_item items -> Forall (fun n => nneg n = neg) (nuclides items) ->
  convert_card (render items) = Ok (out, flag) ->
  nth_error (nuclides items) i = Some ni -> nth_error (nuclides items) j = Some nj ->
  nz ni = nz nj -> na ni = na nj ->
  List.length out = List.length (nuclides items) /\
  nth_error out i = Some (spec_name ni, nfrac ni) /\
  nth_error out j = Some (spec_name ni, nfrac nj).
Proof. exact repeated_nuclide. Qed.
Print Assumptions C10_repeated_nuclide.

(* non-vacuity: suffixes .70c/.80c, keywords in front, between and after the
   pairs, A = 000, leading zeros, a repeated nuclide *)
Definition ex_u5 := mkNuc 92 235 0 (Some "70c") false "0.05".
Definition ex_u5' := mkNuc 92 235 0 (Some "80c") false "0.01".
Definition ex_o := mkNuc 8 0 0 None false "2".
Definition ex_h := mkNuc 1 1 2 None false "6.25-2".
Definition ex_items := [IKey "gas=1"; INuc ex_u5; IKey "nlib=70c"; IKey "plib=04p"; INuc ex_o;
                        INuc ex_u5'; INuc ex_h; IKey "estep=10"].

Lemma ex_items_wf : Forall wf_item ex_items.
Proof. repeat constructor; cbn; try discriminate; try reflexivity. Qed.

Example C10_example :
  Forall wf_item ex_items /\
  render ex_items = ["gas=1"; "92235.70c"; "0.05"; "nlib=70c"; "plib=04p"; "8000"; "2";
                     "92235.80c"; "0.01"; "001001"; "6.25-2"; "estep=10"] /\
  convert_card (render ex_items) =
    Ok ([("U235", "0.05"); ("O-NAT", "2"); ("U235", "0.01"); ("H1", "6.25-2")], Some true) /\
  convert_card ["1001"; "nlib=70c"; "1"] = Err EIndex /\
  convert_card ["1001"; "1"; "8016"; "-2"] = Err EMixedSigns /\
  convert_card ["119001"; "1"] = Err EAttribute /\ convert_card ["92"; "1"] = Err EValue.
Proof. split; [exact ex_items_wf|]. vm_compute. repeat split. Qed.

(* outside the guard of the theorems (ZAIDs made of digits): the model follows
   Python's int() — a sign and single underscores between digits are read *)
Example C10_python_int :
  convert_card ["+92235"; "1"] = Ok ([("U235", "1")], Some true) /\
  convert_card ["9_2235"; "1"] = Ok ([("U235", "1")], Some true) /\
  convert_card ["92_235"; "1"] = Err EValue /\ convert_card ["9__2235"; "1"] = Err EValue /\
  convert_card ["-92235"; "1"] = Err EAttribute /\
  convert_card ["1-35"; "1"] = Ok ([("H-35", "1")], Some true) /\
  convert_card ["1+00"; "1"] = Ok ([("H-NAT", "1")], Some true) /\
  py_int "0_0" = Some 0%Z /\ py_int "-0" = Some 0%Z /\ py_int "_1" = None /\ py_int "1_" = None /\
  py_int "+" = None /\ py_int "" = None /\ py_int "+-1" = None.
Proof. vm_compute. repeat split. Qed.

(* ------------------------------------------------------------------------ *)
(* amounts: rescale_fractions over the reals                                 *)
(* ------------------------------------------------------------------------ *)
Theorem C10_rescale_sum : forall (fracs : list R) (rho : R),
  ssum RS fracs <> 0%R -> ssum RS (rescale RS fracs rho) = rho.
Proof. exact rescale_sum. Qed.
Print Assumptions C10_rescale_sum.

Theorem C10_rescale_proportional : forall (fracs : list R) (rho : R) (i j : nat),
  ssum RS fracs <> 0%R ->
  (nth i (rescale RS fracs rho) 0 * nth j fracs 0 = nth j (rescale RS fracs rho) 0 * nth i fracs 0)%R.
Proof. exact rescale_proportional. Qed.
Print Assumptions C10_rescale_proportional.

(* entry by entry, by position: two entries of the same nuclide do not share
   anything *)
Theorem C10_rescale_entry : forall (fracs : list R) (rho : R) (i : nat),
  (i < List.length fracs)%nat ->
  nth_error (rescale RS fracs rho) i = Some (nth i fracs 0 * rho / ssum RS fracs)%R.
Proof. exact rescale_entry. Qed.
Print Assumptions C10_rescale_entry.

(* ------------------------------------------------------------------------ *)
(* whole decks: data cards + final cells -> blocks -> lines                  *)
(* (for every scalar structure; norm = normalize_float, fval = its float     *)
(* value, rend = the rendering of a computed amount, all three arbitrary)    *)
(* ------------------------------------------------------------------------ *)

(* every card is converted, used by a cell or not: one card mixing signs
   anywhere stops the run, whatever the cells *)
Theorem C10_unused_card_still_checked :
  forall (T : Type) (S : Scalar T) norm fval rend (cards : list dcard) (cells : list (cell (T:=T))),
  wf_cards cards ->
  (exists m n1 n2, In m (mcards cards) /\ In n1 (nuclides (m_items m)) /\
                   In n2 (nuclides (m_items m)) /\ nneg n1 <> nneg n2) ->
  composition_lines S norm fval rend (map render_dcard cards) cells = Err EMixedSigns.
Proof. intros T S norm fval rend. exact (unused_card_still_checked S norm fval rend). Qed.
Print Assumptions C10_unused_card_still_checked.

(* the blocks: for each material card in card order, one block per distinct
   density STRING of the cells that use it — importance > 0, universe 0, no
   FILL, material number equal to the card's — in order of first use, named
   m<number>_<normalised density>; materials nobody uses that way (unused,
   used only by dead, filled or universe cells) give nothing *)
Theorem C10_one_block_per_material_density :
  forall (T : Type) (S : Scalar T) norm fval rend (cards : list dcard) (cells : list (cell (T:=T))) lines,
  wf_deck cards ->
  composition_lines S norm fval rend (map render_dcard cards) cells = Ok lines ->
  exists d, lines = composition_lines_of rend d /\
    map (block_name (T:=T)) (all_blocks d) =
    flat_map (fun m => map (name_for norm m) (dedup [] (used S (m_num m) cells))) (mcards cards).
Proof. intros T S norm fval rend. exact (one_block_per_material_density S norm fval rend). Qed.
Print Assumptions C10_one_block_per_material_density.

Example C10_used_unfold : forall (T : Type) (S : Scalar T) (key : N) (cells : list (cell (T:=T))),
  used S key cells =
  flat_map (fun c => if negb (sleb S (c_imp c) (s0 S)) && (c_univ c =? 0)%Z && negb (c_filled c)
                        && (c_mat c =? Z.of_N key)%Z
                     then match c_dens c with Some d => [d] | None => [] end else []) cells.
Proof. reflexivity. Qed.

(* what "one per string, in order of first use" means *)
Theorem C10_block_order : forall (l : list string),
  NoDup (dedup [] l) /\ (forall x, In x (dedup [] l) <-> In x l) /\
  (forall x, dedup [] (l ++ [x])%list = (dedup [] l ++ (if mem x l then [] else [x]))%list).
Proof.
  intros l. split; [apply dedup_NoDup|]. split.
  - intros x. rewrite dedup_In. simpl. tauto.
  - intros x. rewrite dedup_snoc. reflexivity.
Qed.
Print Assumptions C10_block_order.

(* every written block comes from a card and a density string some live cell
   uses it at *)
Theorem C10_block_origin :
  forall (T : Type) (S : Scalar T) norm fval rend (cards : list dcard) (cells : list (cell (T:=T))) lines,
  wf_deck cards ->
  composition_lines S norm fval rend (map render_dcard cards) cells = Ok lines ->
  exists d, lines = composition_lines_of rend d /\
    forall b, In b (all_blocks d) ->
      exists m dn fd, In m (mcards cards) /\ In dn (used S (m_num m) cells) /\ fval dn = Some fd /\
        block_for S norm fval (m_num m) (card_entries m) (card_flag m) dn fd = Ok b.
Proof. intros T S norm fval rend. exact (block_origin S norm fval rend). Qed.
Print Assumptions C10_block_origin.

(* the text: opening lines, the count, the blocks, the void composition m0,
   the closing lines; the lines that open a block are exactly the headers of
   the blocks, then the header of m0 *)
Theorem C10_text_shape : forall (T : Type) rend (d : list (N * list (block (T:=T)))),
  composition_lines_of rend d =
    (["" ; "COMPOSITION"; dec (N.of_nat (List.length (all_blocks d)) + 1)]
     ++ flat_map (block_lines rend) (all_blocks d)
     ++ ["POINT_WISE 300 m0 1"; "  HE4 1E-30"; ""; "END_COMPOSITION"])%list /\
  filter is_header (composition_lines_of rend d) =
    (map (header_line rend) (all_blocks d) ++ ["POINT_WISE 300 m0 1"])%list.
Proof. intros T rend. exact (text_shape rend). Qed.
Print Assumptions C10_text_shape.

(* the COMPOSITION count line equals the number of blocks written, m0 included *)
Theorem C10_block_count : forall (T : Type) rend (d : list (N * list (block (T:=T)))),
  nth 2 (composition_lines_of rend d) "" =
  dec (N.of_nat (List.length (filter is_header (composition_lines_of rend d)))).
Proof. intros T rend. exact (block_count rend). Qed.
Print Assumptions C10_block_count.

(* a block: header ending with the declared count = the number of amounts,
   then one line "  NAME AMOUNT" per amount in order (one line of two blanks
   when there is none) *)
Theorem C10_block_lines : forall (T : Type) rend (b : block (T:=T)),
  exists head,
    header_line rend b = head ++ " " ++ dec (N.of_nat (List.length (body_items rend b))) /\
    block_lines rend b = header_line rend b ::
      match body_items rend b with
      | [] => ["  "]
      | l => map (fun e => "  " ++ fst e ++ " " ++ snd e) l
      end.
Proof. intros T rend. exact (block_lines_shape rend). Qed.
Print Assumptions C10_block_lines.

(* mass density (negative cell density): DENSITY block, the absolute density,
   NB_ATOM exactly when the card's entries are positive, the declared count =
   number of the card's nuclides, then the card's nuclides in order with the
   card's absolute values as written *)
Theorem C10_mass_density_block : forall norm fval rend (m : mcard) (d : string) (fd : R),
  (fd < 0)%R ->
  exists b, block_for RS norm fval (m_num m) (card_entries m) (card_flag m) d fd = Ok b /\
    block_name b = name_for norm m d /\
    block_lines rend b =
      ("DENSITY 300 " ++ name_for norm m d ++ " " ++ str_fabs (norm d) ++ " "
       ++ (match card_flag m with Some true => "NB_ATOM" | _ => "" end) ++ " "
       ++ dec (N.of_nat (List.length (nuclides (m_items m)))))
      :: match nuclides (m_items m) with
         | [] => ["  "]
         | ns => map (fun n => nuclide_line n (nfrac n)) ns
         end.
Proof.
  intros norm fval rend m d fd H. apply mass_density_lines. cbn [sltb s0 RS]. now apply Rltb_true.
Qed.
Print Assumptions C10_mass_density_block.

(* atom density, card with atom fractions: POINT_WISE block, count, the card's
   nuclides in order, amounts f_j * rho / sum(f) — they sum to the cell
   density *)
Theorem C10_atom_density_block : forall norm fval rend (m : mcard) (d : string) (fd : R) (fs : list R),
  (0 <= fd)%R -> card_flag m = Some true ->
  fractions_of fval (nuclides (m_items m)) fs -> ssum RS fs <> 0%R ->
  exists b, block_for RS norm fval (m_num m) (card_entries m) (card_flag m) d fd = Ok b /\
    block_name b = name_for norm m d /\
    block_lines rend b =
      ("POINT_WISE 300 " ++ name_for norm m d ++ " "
       ++ dec (N.of_nat (List.length (nuclides (m_items m)))))
      :: amount_lines rend (name_for norm m d) 0 (nuclides (m_items m)) (rescale RS fs fd) /\
    ssum RS (rescale RS fs fd) = fd /\
    List.length (rescale RS fs fd) = List.length (nuclides (m_items m)).
Proof.
  intros norm fval rend m d fd fs Hfd Hflag Hfs Hsum.
  destruct (atom_density_lines RS norm fval rend m d fd fs) as (b & H1 & H2 & H3); auto.
  - cbn [sltb s0 RS]. now apply Rltb_false.
  - cbn [seqb s0 RS]. now apply Reqb_false.
  - exists b. repeat split; auto.
    + now apply rescale_sum.
    + rewrite rescale_length. symmetry. clear - Hfs. induction Hfs; simpl; congruence.
Qed.
Print Assumptions C10_atom_density_block.

Example C10_amount_lines_unfold : forall (T : Type) rend name j n ns (x : T) xs,
  amount_lines rend name j (n :: ns) (x :: xs) =
  ("  " ++ spec_name n ++ " " ++ rend name j x) :: amount_lines rend name (Datatypes.S j) ns xs.
Proof. reflexivity. Qed.

(* atom density, card WITHOUT atom fractions (mass fractions, or no nuclide):
   what the code does — a POINT_WISE block declaring 0 nuclides and one line of
   two blanks (the code also prints a warning, not modelled) *)
Theorem C10_mass_fractions_with_atom_density : forall norm fval rend (m : mcard) (d : string) (fd : R),
  (0 <= fd)%R -> card_flag m <> Some true ->
  exists b, block_for RS norm fval (m_num m) (card_entries m) (card_flag m) d fd = Ok b /\
    block_name b = name_for norm m d /\
    block_lines rend b = ["POINT_WISE 300 " ++ name_for norm m d ++ " 0"; "  "].
Proof.
  intros norm fval rend m d fd H. apply mass_fractions_atom_density_lines.
  cbn [sltb s0 RS]. now apply Rltb_false.
Qed.
Print Assumptions C10_mass_fractions_with_atom_density.

(* hence "the emitted composition lists exactly the card's nuclides" fails for
   a well-formed card with weight fractions used at an atom density (finding
   mass_fractions_atom_density_empty_block): H-1 0.11, O-16 0.89 by weight at
   0.1 atoms/b-cm gives a block without any nuclide *)
Definition ex_water : mcard :=
  mkCard 5 false 0 false false
    [INuc (mkNuc 1 1 0 None true "0.11"); INuc (mkNuc 8 16 0 None true "0.89")].

Lemma ex_water_wf : wf_mcard ex_water.
Proof. split; [repeat constructor; cbn; try discriminate; try reflexivity|reflexivity]. Qed.

Theorem C10_mass_fractions_with_atom_density_refuted :
  exists (m : mcard) (d : string) (fd : R),
    wf_mcard m /\ one_sign m /\ List.length (nuclides (m_items m)) = 2%nat /\ (0 < fd)%R /\
    forall fval rend,
    exists b, block_for RS (fun s => s) fval (m_num m) (card_entries m) (card_flag m) d fd = Ok b /\
              block_lines rend b = ["POINT_WISE 300 m5_0.1 0"; "  "].
Proof.
  exists ex_water, "0.1", (1 / 10)%R. split; [exact ex_water_wf|]. split.
  { exists true. repeat constructor. }
  split; [reflexivity|]. split; [apply Rdiv_lt_0_compat; [apply Rlt_0_1|apply (IZR_lt 0 10); reflexivity]|].
  intros fval rend.
  destruct (C10_mass_fractions_with_atom_density (fun s => s) fval rend ex_water "0.1" (1 / 10)%R)
    as (b & H1 & _ & H3).
  - left. apply Rdiv_lt_0_compat; [apply Rlt_0_1|apply (IZR_lt 0 10); reflexivity].
  - discriminate.
  - exists b. split; [exact H1|exact H3].
Qed.
Print Assumptions C10_mass_fractions_with_atom_density_refuted.

(* ------------------------------------------------------------------------ *)
(* non-vacuity of the deck theorems: a deck evaluated at binary64             *)
(* ------------------------------------------------------------------------ *)
Definition ex_fuel : mcard := mkCard 6 true 1 true true ex_items.
Definition ex_cards : list dcard :=
  [DOther "mode n"; DMat ex_water; DOther "mt5 lwtr.01t"; DMat ex_fuel; DOther "mx6:n j 8016.70c"].

Lemma ex_cards_wf : wf_deck ex_cards.
Proof.
  split; [split|].
  - constructor; [vm_compute; reflexivity|]. constructor; [exact ex_water_wf|].
    constructor; [vm_compute; reflexivity|].
    constructor; [split; [exact ex_items_wf|reflexivity]|].
    constructor; [vm_compute; reflexivity|constructor].
  - repeat constructor; cbn; intuition discriminate.
  - repeat constructor; [exists true|exists false]; repeat constructor.
Qed.

Definition ex_cells : list (cell (T:=float)) :=
  [ mkCell 1%float 0 false 5 (Some "-1.0");      (* live *)
    mkCell 1%float 0 false 6 (Some "-10.5");
    mkCell 0%float 0 false 6 (Some "-19.1");     (* importance 0 *)
    mkCell 1%float 0 true 6 (Some "-7");         (* filled *)
    mkCell 1%float 3 false 6 (Some "-8");        (* in a universe *)
    mkCell 1%float 0 false 5 (Some "0.1");       (* weight fractions, atom density *)
    mkCell 1%float 0 false 6 (Some "-10.5");     (* same string again *)
    mkCell 1%float 0 false 0 None;               (* void *)
    mkCell 1%float 0 false 6 (Some "2.0") ].
Definition ex_fval (s : string) : option float :=
  if String.eqb s "-1.0" then Some (-1)%float else if String.eqb s "-10.5" then Some (-10.5)%float
  else if String.eqb s "0.1" then Some 0.1%float else if String.eqb s "2.0" then Some 2%float
  else if String.eqb s "0.05" then Some 0.05%float else if String.eqb s "2" then Some 2%float
  else if String.eqb s "0.01" then Some 0.01%float else if String.eqb s "6.25-2" then Some 0.0625%float
  else None.
Definition ex_rend (name : string) (j : nat) (x : float) : string :=
  "<" ++ dec (N.of_nat j) ++ ">".

Example C10_deck_example :
  wf_deck ex_cards /\
  map render_dcard ex_cards =
    ["mode n"; "m5 1001 -0.11 8016 -0.89"; "mt5 lwtr.01t";
     " M06 gas=1 92235.70c 0.05 nlib=70c plib=04p 8000 2 92235.80c 0.01 001001 6.25-2 estep=10 ";
     "mx6:n j 8016.70c"] /\
  composition_lines FS (fun s => s) ex_fval ex_rend (map render_dcard ex_cards) ex_cells =
  Ok [""; "COMPOSITION"; "5";
      "DENSITY 300 m5_-1.0 1.0  2"; "  H1 0.11"; "  O16 0.89";
      "POINT_WISE 300 m5_0.1 0"; "  ";
      "DENSITY 300 m6_-10.5 10.5 NB_ATOM 4"; "  U235 0.05"; "  O-NAT 2"; "  U235 0.01"; "  H1 6.25-2";
      "POINT_WISE 300 m6_2.0 4"; "  U235 <0>"; "  O-NAT <1>"; "  U235 <2>"; "  H1 <3>";
      "POINT_WISE 300 m0 1"; "  HE4 1E-30"; ""; "END_COMPOSITION"].
Proof. split; [exact ex_cards_wf|]. vm_compute. split; reflexivity. Qed.

(* ------------------------------------------------------------------------ *)
(* linked with C09 (normalize_float) and C14 (physical lines)                *)
(* ------------------------------------------------------------------------ *)

(* the data block as physical lines (C14's get_cards + content), the cells as
   written on their cards — density = any spelling (zero padding, marker
   E e D d or none) of a number —, norm = C09's normalize_float: one block per
   material and NORMAL FORM of the density among the cells that use the
   material, named m<number>_<normal form>; the spelling does not matter *)
Theorem C10_one_block_per_material_density_linked :
  forall (T : Type) (S : Scalar T) fval rend
         (cs : list T4V.C14.ProofsCards.lcard) (tailc : list string) (cards : list dcard)
         (cells : list (acell T)) lines,
  T4V.C14.ProofsCards.lblock_ok T4V.C14.ProofsCards.noline cs ->
  T4V.C14.ProofsCards.comment_lines tailc -> Forall2 carries cs cards ->
  wf_deck cards -> Forall acell_ok cells ->
  composition_lines S c09_norm fval rend (deck_contents cs tailc) (map cell_of cells) = Ok lines ->
  exists d, lines = composition_lines_of rend d /\
    map (block_name (T:=T)) (all_blocks d) =
    flat_map (fun m => map (fun nf => "m" ++ dec (m_num m) ++ "_" ++ nf)
                           (dedup [] (used_normal S (m_num m) cells))) (mcards cards).
Proof.
  intros T S fval rend cs tailc cards cells lines Hb Ht Hc Hwf Hcells H.
  rewrite (contents_linked cs tailc cards Hb Ht Hc) in H.
  exact (one_block_per_material_density_linked S fval rend cards cells lines Hwf Hcells H).
Qed.
Print Assumptions C10_one_block_per_material_density_linked.

Example C10_linked_unfold : forall (T : Type) (S : Scalar T) key (cells : list (acell T)) (a : acell T) s,
  used_normal S key cells =
    map (fun a => T4V.C09.ProofsNorm.normal_form (a_num a))
        (filter (fun a => negb (sleb S (a_imp a) (s0 S)) && (a_univ a =? 0)%Z && negb (a_filled a)
                          && (a_mat a =? Z.of_N key)%Z) cells) /\
  c_dens (cell_of a) =
    match T4V.C09.Model.normalize_float (T4V.C09.Spec.spell (a_num a) (a_pad a) (a_marker a)) with
    | T4V.C09.Model.Ok n => Some n | T4V.C09.Model.Err _ => None end /\
  c09_norm s = match T4V.C09.Model.normalize_float s with
               | T4V.C09.Model.Ok n => n | T4V.C09.Model.Err _ => s end /\
  deck_contents = fun cs tailc =>
    map T4V.C14.Model.content
      (T4V.C14.Model.get_cards_lines
         (flat_map T4V.C14.ProofsCards.pc_phys (map T4V.C14.ProofsCards.lc_pcard cs) ++ tailc)%list).
Proof. intros. repeat split; reflexivity. Qed.

(* finding fortran_spelled_fraction_copied, exactly: at a mass density the
   amount of a nuclide is the card's spelling character for character, for
   EVERY spelling of every number — D and d markers, a bare signed exponent,
   padded zeros — whereas normalize_float (applied to the density of the same
   header line, and to the fractions on the atom-density path) would give the
   normal form with marker e *)
Theorem C10_fraction_spelling_copied_linked :
  forall norm fval rend (m : mcard) (d : string) (fd : R) (k : nat) (nuc : nuclide)
         (num : T4V.C09.Spec.number) (pad : nat) (mk : T4V.C09.Spec.marker),
  (fd < 0)%R -> nth_error (nuclides (m_items m)) k = Some nuc ->
  nfrac nuc = T4V.C09.Spec.spell num pad mk ->
  T4V.C09.Spec.wf_number num = true -> T4V.C09.Spec.marker_ok num mk = true ->
  exists b, block_for RS norm fval (m_num m) (card_entries m) (card_flag m) d fd = Ok b /\
    nth_error (block_lines rend b) (Datatypes.S k) =
      Some ("  " ++ spec_name nuc ++ " " ++ T4V.C09.Spec.spell num pad mk) /\
    T4V.C09.Model.normalize_float (T4V.C09.Spec.spell num pad mk)
      = T4V.C09.Model.Ok (T4V.C09.ProofsNorm.normal_form num).
Proof.
  intros norm fval rend m d fd k nuc num pad mk H. apply fraction_spelling_copied.
  cbn [sltb s0 RS]. now apply Rltb_true.
Qed.
Print Assumptions C10_fraction_spelling_copied_linked.

(* non-vacuity of the links: a data block on five physical lines, two cells
   spelling one density in two ways, a fraction spelled with a D marker *)
Definition ex_l1 : T4V.C14.ProofsCards.lcard :=
  [ ([], T4V.C14.ProofsContent.mk_pline [("", "m5"); (" ", "1001"); ("  ", "-0.11")] " " "$ hydrogen");
    (["c oxygen"], T4V.C14.ProofsContent.mk_pline [("     ", "8016"); (" ", "-0.89")] "" "") ].
Definition ex_l2 : T4V.C14.ProofsCards.lcard :=
  [ ([], T4V.C14.ProofsContent.mk_pline [("", "mt5"); (" ", "lwtr.01t")] "" "") ].
Definition ex_num : T4V.C09.Spec.number := T4V.C09.Spec.mkNumber "-" "1" (Some "5") (Some ("-", "3")).
Definition ex_acells : list (acell float) :=
  [ mkACell float 1%float 0 false 5 ex_num 0 T4V.C09.Spec.MD;
    mkACell float 1%float 0 false 5 ex_num 2 T4V.C09.Spec.Mnone ].

Example C10_linked_example :
  T4V.C14.ProofsCards.lblock_ok T4V.C14.ProofsCards.noline [ex_l1; ex_l2] /\
  Forall2 carries [ex_l1; ex_l2] [DMat ex_water; DOther "mt5 lwtr.01t"] /\
  (flat_map T4V.C14.ProofsCards.pc_phys (map T4V.C14.ProofsCards.lc_pcard [ex_l1; ex_l2]))
    = ["m5 1001  -0.11 $ hydrogen"; "c oxygen"; "     8016 -0.89"; "mt5 lwtr.01t"] /\
  Forall acell_ok ex_acells /\
  map spelling ex_acells = ["-1.5D-3"; "-1.500-3"] /\
  map (fun a => c_dens (cell_of a)) ex_acells = [Some "-1.5e-3"; Some "-1.5e-3"] /\
  composition_lines FS c09_norm (fun s => if String.eqb s "-1.5e-3" then Some (-0.0015)%float else None)
    ex_rend (deck_contents [ex_l1; ex_l2] []) (map cell_of ex_acells) =
  Ok [""; "COMPOSITION"; "2"; "DENSITY 300 m5_-1.5e-3 1.5e-3  2"; "  H1 0.11"; "  O16 0.89";
      "POINT_WISE 300 m0 1"; "  HE4 1E-30"; ""; "END_COMPOSITION"].
Proof.
  split; [|split; [|split; [|split; [|split; [|split]]]]]; try (vm_compute; reflexivity).
  - cbn. unfold T4V.C14.ProofsContent.line_ok, T4V.C14.ProofsCards.not_c, T4V.C14.ProofsCards.comment_lines,
      T4V.C14.ProofsContent.item_ok, T4V.C14.ProofsContent.gap_nonempty, T4V.C14.ProofsContent.trailer_ok. cbn.
    repeat match goal with
           | |- _ /\ _ => split
           | |- Forall _ [] => constructor
           | |- Forall _ (_ :: _) => constructor
           | |- True => exact I
           | |- _ <> _ => discriminate
           | |- _ = _ => reflexivity
           | |- "" = "" \/ _ => left; reflexivity
           | |- _ \/ (exists c r, String ?x ?y = String c r /\ _) => right; exists x, y; split; reflexivity
           end.
    all: try (left; reflexivity); try (right; reflexivity).
  - constructor; [|constructor; [|constructor]].
    + cbn. repeat split; vm_compute; reflexivity.
    + vm_compute. reflexivity.
  - repeat constructor.
Qed.

(* ------------------------------------------------------------------------ *)
(* round 3: the two models of writeT4Composition, values of the spellings    *)
(* ------------------------------------------------------------------------ *)

(* C09 also models writeT4Composition (C09.Model.write_compositions: its own
   cell dictionary with raw material tokens and integer importances; block
   type from the sign of the normalised density string; the computed amounts
   in a table pw).  On the common inputs — cells whose material token reads as
   an integer (to10), the C10 cards seen as C09 cards (mc_of), norm = C09's
   normalize_float, float() accepted exactly when C09's float_ok holds and
   negative exactly when neg_density holds (fval9), pw holding the amounts C10
   renders — whenever the C10 model returns, C09's model returns the SAME text *)
Theorem C10_write_compositions_agree_linked :
  forall (rend : string -> nat -> R -> string) (pw : list (string * list (string * string)))
         (cells9 : T4V.C09.Model.dict T4V.C09.Model.cell) (cells : list (cell (T:=R)))
         (mats : list (N * abundances)) (d : list (N * list (block (T:=R)))),
  to10 cells9 = Some cells ->
  construct RS c09_norm fval9 mats cells = Ok d ->
  Forall (pw_agrees rend pw) (all_blocks d) ->
  T4V.C09.Model.write_compositions (map mc_of mats) cells9 pw =
  T4V.C09.Model.Ok (text_of (composition_lines_of rend d)).
Proof. exact write_compositions_agree. Qed.
Print Assumptions C10_write_compositions_agree_linked.

Example C10_agree_unfold : forall (c : T4V.C09.Model.cell) z s key entries atom rend pw (b : block (T:=R)),
  cell10 c z = mkCell (IZR (T4V.C09.Model.c_imp c)) (T4V.C09.Model.c_univ c)
                 (match T4V.C09.Model.c_fill c with Some _ => true | None => false end) z
                 (T4V.C09.Model.c_dens c) /\
  fval9 s = match T4V.C09.Model.normalize_float s with
            | T4V.C09.Model.Ok nd => if T4V.C09.Model.float_ok nd
                                     then Some (if T4V.C09.Model.neg_density nd then (-1)%R else 1%R) else None
            | T4V.C09.Model.Err _ => None end /\
  mc9 key entries atom = T4V.C09.Model.mkMcard (Z.of_N key) (match atom with Some true => true | _ => false end) entries /\
  pw_agrees rend pw b = match b_body b with
                        | BNum _ => T4V.C09.Model.find_isos (block_name b) pw = body_items rend b
                        | BStr _ => True end.
Proof. intros. repeat split; reflexivity. Qed.

(* non-vacuity: one card, one live cell at a mass density *)
Definition ex_c9 : T4V.C09.Model.cell :=
  T4V.C09.Model.mkCell "05" (Some "-1.0") 1 0 None [].
Definition ex_mats : list (N * abundances) := [(5%N, ([(("H", "1"), "0.11"); (("O", "16"), "0.89")], Some false))].

Example C10_agree_example :
  to10 [(1%Z, ex_c9)] = Some [cell10 ex_c9 5] /\
  exists d, construct RS c09_norm fval9 ex_mats [cell10 ex_c9 5] = Ok d /\
            Forall (pw_agrees (fun _ _ _ => "") []) (all_blocks d) /\
            text_of (composition_lines_of (fun _ _ _ => "") d) =
            text_of [""; "COMPOSITION"; "2"; "DENSITY 300 m5_-1.0 1.0  2"; "  H1 0.11"; "  O16 0.89";
                     "POINT_WISE 300 m0 1"; "  HE4 1E-30"; ""; "END_COMPOSITION"].
Proof.
  split; [reflexivity|].
  assert (Hf : fval9 "-1.0" = Some (-1)%R).
  { unfold fval9. replace (T4V.C09.Model.normalize_float "-1.0") with (T4V.C09.Model.Ok "-1.0") by (vm_compute; reflexivity).
    replace (T4V.C09.Model.float_ok "-1.0") with true by (vm_compute; reflexivity).
    replace (T4V.C09.Model.neg_density "-1.0") with true by (vm_compute; reflexivity). reflexivity. }
  assert (Hn : c09_norm "-1.0" = "-1.0") by (vm_compute; reflexivity).
  assert (Hlt : Rltb (-1) 0 = true) by (apply Rltb_true; apply (IZR_lt (-1) 0); reflexivity).
  eexists. split; [|split].
  - unfold ex_mats. cbn [construct].
    replace (extract [(("H", "1"), "0.11"); (("O", "16"), "0.89")]) with
      (Ok [("H1", "0.11"); ("O16", "0.89")] : res (list (string * string))) by (vm_compute; reflexivity).
    cbn [scan]. rewrite live_agree. replace (T4V.C09.Model.live ex_c9) with true by reflexivity.
    cbn [negb c_mat cell10 c_dens ex_c9 T4V.C09.Model.c_dens]. cbn [Z.of_N Z.eqb Pos.eqb negb mem existsb].
    rewrite Hf. unfold block_for. cbn [sltb s0 RS]. rewrite Hlt, Hn. reflexivity.
  - repeat constructor.
  - reflexivity.
Qed.

(* the amounts of an atom-density block in terms of the RATIONAL values of the
   spellings (C09.Spec.number_value, read as reals): if float() returns the
   value of each fraction's spelling (exact_fraction) and the cell density is
   the value of numd, the j-th amount is value_j * value(numd) / sum of the
   values and the amounts sum to the density MCNP reads.  This is where the
   link stops: binary64 rounds the spellings (0.1 is not a binary64 number),
   fsum, * and / round again; the tie bounds the difference by 1e-14. *)
Theorem C10_atom_density_block_linked :
  forall norm (fval : string -> option R) rend (m : mcard) (d : string)
         (numd : T4V.C09.Spec.number) (nums : list T4V.C09.Spec.number),
  (0 <= value_R numd)%R -> card_flag m = Some true ->
  Forall2 (exact_fraction fval) (nuclides (m_items m)) nums ->
  ssum RS (map value_R nums) <> 0%R ->
  exists b, block_for RS norm fval (m_num m) (card_entries m) (card_flag m) d (value_R numd) = Ok b /\
    block_lines rend b =
      ("POINT_WISE 300 " ++ name_for norm m d ++ " "
       ++ dec (N.of_nat (List.length (nuclides (m_items m)))))
      :: amount_lines rend (name_for norm m d) 0 (nuclides (m_items m))
           (rescale RS (map value_R nums) (value_R numd)) /\
    ssum RS (rescale RS (map value_R nums) (value_R numd)) = value_R numd /\
    (forall j num, nth_error nums j = Some num ->
       nth_error (rescale RS (map value_R nums) (value_R numd)) j =
       Some (value_R num * value_R numd / ssum RS (map value_R nums))%R).
Proof. exact atom_density_block_values. Qed.
Print Assumptions C10_atom_density_block_linked.

Example C10_exact_fraction_unfold : forall fval n num,
  exact_fraction fval n num =
  (T4V.C09.Spec.wf_number num = true /\ T4V.C09.Spec.n_sign num = "" /\
   (exists pad mk, T4V.C09.Spec.marker_ok num mk = true /\ nfrac n = T4V.C09.Spec.spell num pad mk) /\
   fval (nfrac n) = Some (Q2R (T4V.C09.Spec.number_value num))).
Proof. reflexivity. Qed.

(* non-vacuity: H 2 / O 1 (spelled 2 and 1.0d0) *)
Definition ex_h2o : mcard :=
  mkCard 9 false 0 false false
    [INuc (mkNuc 1 1 0 None false "2"); INuc (mkNuc 8 16 0 None false "1.0d0")].
Definition ex_two : T4V.C09.Spec.number := T4V.C09.Spec.mkNumber "" "2" None None.
Definition ex_one : T4V.C09.Spec.number := T4V.C09.Spec.mkNumber "" "1" (Some "0") (Some ("", "0")).
Definition ex_fvalR (s : string) : option R :=
  if String.eqb s "2" then Some (value_R ex_two) else if String.eqb s "1.0d0" then Some (value_R ex_one) else None.

Example C10_exact_fraction_example :
  card_flag ex_h2o = Some true /\
  Forall2 (exact_fraction ex_fvalR) (nuclides (m_items ex_h2o)) [ex_two; ex_one] /\
  T4V.C09.Spec.number_value ex_two = QArith_base.Qmake 2 1 /\
  QArith_base.Qeq (T4V.C09.Spec.number_value ex_one) (QArith_base.Qmake 1 1).
Proof.
  split; [reflexivity|]. split; [|split; [reflexivity|vm_compute; reflexivity]].
  constructor; [|constructor; [|constructor]].
  - split; [reflexivity|]. split; [reflexivity|]. split; [|reflexivity].
    exists 0%nat, T4V.C09.Spec.Me. split; reflexivity.
  - split; [reflexivity|]. split; [reflexivity|]. split; [|reflexivity].
    exists 0%nat, T4V.C09.Spec.Md. split; reflexivity.
Qed.

(* ------------------------------------------------------------------------ *)
(* round 4: decks that are never rejected                                    *)
(* ------------------------------------------------------------------------ *)

(* a well-formed deck (one sign per card) whose live cells give their material
   a density float() reads — and, for an atom density on a card with atom
   fractions, fractions float() reads that do not sum to zero — is converted:
   no exception on the whole path from the data cards to the lines *)
Theorem C10_conversion_succeeds :
  forall (T : Type) (S : Scalar T) norm (fval : string -> option T) rend
         (cards : list dcard) (cells : list (cell (T:=T))),
  wf_deck cards ->
  (forall m c, In m (mcards cards) -> In c cells -> uses S (m_num m) c = true ->
     exists d fd, c_dens c = Some d /\ fval d = Some fd /\
       (sltb S fd (s0 S) = false -> card_flag m = Some true ->
        exists fs, fractions_of fval (nuclides (m_items m)) fs /\ seqb S (ssum S fs) (s0 S) = false)) ->
  exists lines, composition_lines S norm fval rend (map render_dcard cards) cells = Ok lines.
Proof. intros T S norm fval rend. exact (conversion_succeeds S norm fval rend). Qed.
Print Assumptions C10_conversion_succeeds.

(* non-vacuity: the deck of C10_deck_example satisfies the hypotheses *)
Example C10_conversion_succeeds_example :
  forall m c, In m (mcards ex_cards) -> In c ex_cells -> uses FS (m_num m) c = true ->
     exists d fd, c_dens c = Some d /\ ex_fval d = Some fd /\
       (sltb FS fd (s0 FS) = false -> card_flag m = Some true ->
        exists fs, fractions_of ex_fval (nuclides (m_items m)) fs /\ seqb FS (ssum FS fs) (s0 FS) = false).
Proof.
  intros m c Hm Hc Hu. cbn [mcards ex_cards] in Hm.
  destruct Hm as [<-|[<-|[]]];
    repeat (destruct Hc as [<-|Hc]; [try (vm_compute in Hu; discriminate Hu)|]); try destruct Hc;
    (eexists; eexists; split; [reflexivity|split; [vm_compute; reflexivity|]]);
    intros H1 H2; try (vm_compute in H1; discriminate H1); try (vm_compute in H2; discriminate H2).
  eexists. split.
  - cbn [nuclides m_items ex_fuel ex_items]. unfold fractions_of.
    repeat (eapply Forall2_cons; [vm_compute; reflexivity|]). apply Forall2_nil.
  - vm_compute. reflexivity.
Qed.

(* ------------------------------------------------------------------------ *)
(* round 5: the text read back                                               *)
(* ------------------------------------------------------------------------ *)

(* reading the body of the section back — a line that opens a block takes the
   lines that follow it up to the next such line — gives exactly, block by
   block and in order, the header of each block with its nuclide lines, then
   m0 with HE4: every nuclide line belongs to the block it was written for *)
Theorem C10_text_read_back : forall (T : Type) rend (d : list (N * list (block (T:=T)))),
  exists body,
    composition_lines_of rend d =
      (["" ; "COMPOSITION"; dec (N.of_nat (List.length (all_blocks d)) + 1)]
       ++ body ++ [""; "END_COMPOSITION"])%list /\
    group_lines body =
      ([], (map (fun b => (header_line rend b, item_lines (body_items rend b))) (all_blocks d)
            ++ [("POINT_WISE 300 m0 1", ["  HE4 1E-30"])])%list).
Proof. intros T rend. exact (text_read_back rend). Qed.
Print Assumptions C10_text_read_back.

(* so the lines determine the blocks: equal texts have, block by block, the
   same headers (type, name, density, NB_ATOM, count) and the same nuclide lines *)
Theorem C10_lines_determine_blocks : forall (T : Type) rend (d d' : list (N * list (block (T:=T)))),
  composition_lines_of rend d = composition_lines_of rend d' ->
  map (fun b => (header_line rend b, item_lines (body_items rend b))) (all_blocks d) =
  map (fun b => (header_line rend b, item_lines (body_items rend b))) (all_blocks d').
Proof. intros T rend. exact (lines_determine_blocks rend). Qed.
Print Assumptions C10_lines_determine_blocks.

Example C10_group_lines_example :
  group_lines ["DENSITY 300 m5_-1.0 1.0  2"; "  H1 0.11"; "  O16 0.89"; "POINT_WISE 300 m5_0.1 0"; "  ";
               "POINT_WISE 300 m0 1"; "  HE4 1E-30"] =
  ([], [("DENSITY 300 m5_-1.0 1.0  2", ["  H1 0.11"; "  O16 0.89"]); ("POINT_WISE 300 m5_0.1 0", ["  "]);
        ("POINT_WISE 300 m0 1", ["  HE4 1E-30"])]).
Proof. reflexivity. Qed.
