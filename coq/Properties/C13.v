(* C13 — De-duplication and inlining options never change the geometry.
   Only restatements; proofs are in C13/Proofs.v and C13/ProofsDedup.v.
   Vocabulary (C13/Spec.v): sigma : surface id -> bool is the sense assignment of
   a point; rho : cell id -> bool is a MODEL of a cell table when rho c equals the
   value of cell c's own geometry (CellRefs read through rho); on an acyclic table
   the model is unique and [cden] computes it; [vden] is the TRIPOLI-4 reading of a
   volume table. *)
From Coq Require Import List ZArith NArith Bool Reals Permutation Lia.
From T4V Require Import Base.Scalar C13.Model C13.ModelTr C13.Spec C13.Proofs C13.ProofsDedup C13.ProofsFill C13.ProofsVol C13.ProofsTr C13.ProofsTr2.
Import ListNotations.
Open Scope Z_scope.

(* ---- de-duplication ---- *)

(* "De-duplication merges two surface numbers only if they describe the same
   surface": at R, if the renumbering sends k to k' then k and k' carry the SAME
   descriptor d, and k' is kept with it.  Every function of the descriptor - in
   particular the sense of any point - therefore agrees on k and k'. *)
Theorem C13_dedup_merges_equal : forall (surfs : list (Z * desc R)) k k',
  In (k, k') (snd (remove_duplicate_surfaces RS surfs)) ->
  exists d, In (k, d) surfs /\ In (k', d) surfs
            /\ In (k', d) (fst (remove_duplicate_surfaces RS surfs)).
Proof. exact dedup_merges_equal. Qed.

(* the same for any scalar (binary64 included): a merged pair passed the
   implementation's own equality test, the survivor is kept *)
Theorem C13_dedup_merges_tested : forall T (S : Scalar T) surfs k k',
  In (k, k') (snd (remove_duplicate_surfaces S surfs)) ->
  exists d d', In (k, d) surfs /\ In (k', d') surfs
    /\ In (k', d') (fst (remove_duplicate_surfaces S surfs))
    /\ (desc_eqb S d' d = true \/ (k' = k /\ d' = d)).
Proof. exact @dedup_merges_tested. Qed.

(* SurfaceT4.__eq__ at R is equality of (type, parameters, transformation) *)
Theorem C13_desc_eqb_sound : forall a b : desc R, desc_eqb RS a b = true -> a = b.
Proof. exact desc_eqb_RS. Qed.

(* SurfaceT4.__hash__ is consistent with __eq__: the hash is the tuple hash [mix]
   of exactly the components __eq__ compares, so for any element hash [h] that
   respects == (Python: hash(0.0) = hash(-0.0), hash(1) = hash(1.0)) equal
   surfaces hash alike - the dictionary of remove_duplicate_surfaces may be read
   as "first stored key equal to the probe" *)
Theorem C13_hash_consistent : forall T (S : Scalar T) (h : T -> Z) (mix : list Z -> Z),
  (forall x y, seqb S x y = true -> h x = h y) ->
  forall a b, desc_eqb S a b = true -> desc_hash h mix a = desc_hash h mix b.
Proof. exact @desc_hash_consistent. Qed.

(* which number survives: never a larger one; at R the smallest number that
   carries the descriptor; every input number is renumbered *)
Theorem C13_dedup_survivor_smallest : forall T (S : Scalar T) surfs k k',
  In (k, k') (snd (remove_duplicate_surfaces S surfs)) -> k' <= k.
Proof. exact @dedup_survivor_smallest. Qed.

Theorem C13_dedup_survivor_minimal : forall (surfs : list (Z * desc R)) k k' d j,
  NoDup (map fst surfs) ->
  In (k, k') (snd (remove_duplicate_surfaces RS surfs)) ->
  In (k, d) surfs -> In (j, d) surfs -> k' <= j.
Proof. exact dedup_survivor_minimal. Qed.

Theorem C13_dedup_covers : forall T (S : Scalar T) surfs,
  Permutation (map fst (snd (remove_duplicate_surfaces S surfs))) (map fst surfs).
Proof. exact @dedup_covers. Qed.

(* running de-duplication on its own output removes nothing *)
Theorem C13_dedup_idempotent : forall T (S : Scalar T) surfs,
  let new := fst (remove_duplicate_surfaces S surfs) in
  remove_duplicate_surfaces S new = (new, map (fun e => (fst e, fst e)) new).
Proof. exact @dedup_idempotent. Qed.

(* renumbering by a sense-preserving map preserves every volume's denotation *)
Theorem C13_renumber_den : forall (sigma sigma' : Z -> bool) (ren : list (Z * Z)),
  (forall s s', lookup s ren = Some s' -> sigma' s' = sigma s) ->
  forall volus volus', renumber_surfaces volus ren = Ok volus' ->
  forall fuel k, vden fuel sigma' volus' k = vden fuel sigma volus k.
Proof. exact renumber_den. Qed.

(* --skip-deduplication off vs on: with the senses induced by ANY function of the
   descriptors (the sign of the implicit function at a point), every volume of
   the renumbered table over the de-duplicated surfaces has the denotation it
   had over the original surfaces *)
Theorem C13_dedup_den : forall (sense : desc R -> bool) surfs volus new ren volus',
  NoDup (map fst surfs) ->
  remove_duplicate_surfaces RS surfs = (new, ren) ->
  renumber_surfaces volus ren = Ok volus' ->
  forall fuel k, vden fuel (sense_of sense new) volus' k = vden fuel (sense_of sense surfs) volus k.
Proof. exact dedup_den. Qed.

(* the same for any scalar (binary64): it suffices that the sense function
   respects the implementation's equality test *)
Theorem C13_dedup_den_any_scalar : forall T (S : Scalar T) (sense : desc T -> bool) surfs volus new ren volus',
  (forall a b, desc_eqb S a b = true -> sense a = sense b) ->
  NoDup (map fst surfs) ->
  remove_duplicate_surfaces S surfs = (new, ren) ->
  renumber_surfaces volus ren = Ok volus' ->
  forall fuel k, vden fuel (sense_of sense new) volus' k = vden fuel (sense_of sense surfs) volus k.
Proof. exact @dedup_den_gen. Qed.

(* the union helper planes take part in de-duplication and are renumbered with
   the other surfaces: the numbers handed to remove_empty_volumes are kept
   surfaces, images of the original helper numbers under the renumbering *)
Theorem C13_dedup_helpers_survive : forall T (S : Scalar T) surfs volus u0 u1 s' v' a b,
  dedup_stage S false surfs volus u0 u1 = Ok (s', v', (a, b)) ->
  lookup a s' <> None /\ lookup b s' <> None /\
  In (u0, a) (snd (remove_duplicate_surfaces S surfs)) /\
  In (u1, b) (snd (remove_duplicate_surfaces S surfs)).
Proof. exact @dedup_helpers_survive. Qed.

(* hence the writer finds every surface it looks up - every table, every scalar,
   no guard: with de-duplication the conversion never ends in the KeyError that
   --skip-deduplication avoids (the former finding helper_plane_dedup_merge) *)
Theorem C13_dedup_writer_finds_surfaces : forall T (S : Scalar T) surfs volus s' v' u0 u1 a b v'',
  dedup_stage S false surfs volus u0 u1 = Ok (s', v', (a, b)) ->
  remove_empty_volumes v' a b = Ok v'' ->
  written_surfaces s' (remove_unused_volumes v'') <> Err EKey.
Proof. exact @dedup_writer_finds_surfaces. Qed.

(* the former witness: a user PX 1, two copies of PY 0, cell (2 -3) : -1.  Helper 5
   is merged into surface 1; the emptied volume is written with PLUS 1 MINUS 6 *)
Example C13_example_helper_merge :
  finish ZS false helper_surfs helper_volus 5 6 =
    Ok ([(1, mkDesc 0%N [1] None); (2, mkDesc 1%N [0] None); (6, mkDesc 0%N [-1] None)],
        [(6, mkVolu [] [1] None true); (1, mkVolu [1] [6] (Some (OUnion, [6])) false)],
        [1; 6]) /\
  exists out, finish ZS true helper_surfs helper_volus 5 6 = Ok out.
Proof. exact helper_merge_example. Qed.

(* ---- the written tables, --skip-deduplication off vs on ---- *)
(* vmodel sigma rho t: rho gives every VOLU line of t its value (EQUA, then UNION /
   INTE with the values of the volumes it names).  remove_empty_volumes keeps the
   denotation: every rho of its input is a rho of its output, kept volumes keep
   FICTIVE flag and provenance, and whatever it dropped is false under rho
   (needs only that the two helper planes are consistent: x > 1 implies x > -1) *)
Theorem C13_remove_empty_sound : forall (sigma rho : Z -> bool) u0 u1,
  (sigma u0 = true -> sigma u1 = true) ->
  forall dic dic', remove_empty_volumes dic u0 u1 = Ok dic' ->
  NoDup (map fst dic) -> vmodel sigma rho dic ->
  NoDup (map fst dic') /\ vmodel sigma rho dic' /\ tracks rho dic dic'.
Proof. exact remove_empty_sound. Qed.

(* one run of the tail of convertMCNPGeometry + the SURF lines of the writer *)
Theorem C13_finish_sound : forall (sense : desc R -> bool) skip surfs volus u0 u1 s' v3 w rho,
  NoDup (map fst surfs) -> NoDup (map fst volus) ->
  (sense_of sense surfs u0 = true -> sense_of sense surfs u1 = true) ->
  finish RS skip surfs volus u0 u1 = Ok (s', v3, w) ->
  vmodel (sense_of sense surfs) rho volus ->
  vmodel (sense_of sense s') rho v3 /\
  (forall k v, lookup k v3 = Some v ->
     exists v0, lookup k volus = Some v0 /\ fictive v = fictive v0 /\ vorigin v = vorigin v0) /\
  (forall k v0, lookup k volus = Some v0 -> lookup k v3 = None -> rho k = false \/ fictive v0 = true) /\
  (forall s, In s w -> lookup s s' <> None).
Proof. exact finish_sound. Qed.

(* the WRITTEN tables with and without de-duplication: the same denotation rho
   fits both, and a point (sense assignment) has the same owners - written,
   non-FICTIVE volume number k with provenance [origin] and rho k = true; the
   composition is attached to the volume number *)
Theorem C13_written_same_dedup : forall (sense : desc R -> bool) surfs volus u0 u1 sa va wa sb vb wb rho,
  NoDup (map fst surfs) -> NoDup (map fst volus) ->
  (sense_of sense surfs u0 = true -> sense_of sense surfs u1 = true) ->
  vmodel (sense_of sense surfs) rho volus ->
  finish RS false surfs volus u0 u1 = Ok (sa, va, wa) ->
  finish RS true surfs volus u0 u1 = Ok (sb, vb, wb) ->
  vmodel (sense_of sense sa) rho va /\ vmodel (sense_of sense sb) rho vb /\
  forall k origin, owner rho va k origin <-> owner rho vb k origin.
Proof. exact written_same_dedup. Qed.

(* the fuelled reading vden used above agrees with every denotation *)
Theorem C13_vden_model : forall sigma rho dic, vmodel sigma rho dic ->
  forall fuel k b, vden fuel sigma dic k = Some b -> b = rho k.
Proof. exact vden_model. Qed.

(* a second way in which the default options fail where --skip-deduplication
   succeeds: every volume becomes patently empty after de-duplication (the only
   live cell is  -1 2  with 1, 2 both PX 2) and the writer raises ValueError on
   max() of an empty set.  Known finding all_volumes_empty_after_dedup. *)
Theorem C13_dedup_all_empty_refuted :
  finish ZS false empty_surfs empty_volus 4 5 = Err EValue /\
  exists out, finish ZS true empty_surfs empty_volus 4 5 = Ok out.
Proof. exact dedup_all_empty_refuted. Qed.

(* ---- inlining ---- *)

(* --max-inline-score: for EVERY set of cells to inline and every acyclic cell
   table, inline_cells keeps the table acyclic, keeps its cells, and changes the
   denotation of no cell *)
Theorem C13_inline_den : forall (rank : Z -> nat) (sigma : Z -> bool) fuel ti dic dic',
  acyclic rank dic -> inline_cells fuel ti dic = Ok dic' ->
  acyclic rank dic' /\
  (forall k, lookup k dic <> None <-> lookup k dic' <> None) /\
  (forall k, lookup k dic <> None -> cden rank sigma dic' k = cden rank sigma dic k).
Proof. exact inline_den. Qed.

(* the same with the score computed as the code does (float division, <): for
   every scalar and every value of --max-inline-score *)
Theorem C13_inline_score_den : forall T (S : Scalar T) (rank : Z -> nat) (sigma : Z -> bool) fuel max_score dic dic',
  acyclic rank dic -> inline_cells_score S fuel max_score dic = Ok dic' ->
  acyclic rank dic' /\
  (forall k, lookup k dic <> None <-> lookup k dic' <> None) /\
  (forall k, lookup k dic <> None -> cden rank sigma dic' k = cden rank sigma dic k).
Proof. exact @inline_score_den. Qed.

(* find_occurrences (the input of the score): occurrences[sub] lists only cells
   whose geometry mentions sub *)
Theorem C13_find_occurrences_sound : forall dic occ, find_occurrences dic = Ok occ ->
  forall sub l, lookup sub occ = Some l -> forall key, In key l -> mentions dic key sub.
Proof. exact find_occurrences_sound. Qed.

(* ... and misses none: every mention made by a cell reachable from the level-0
   cells is recorded (so the number of mentions the score divides by is the number
   of mentions in reachable cells) *)
Theorem C13_find_occurrences_complete : forall dic occ, find_occurrences dic = Ok occ ->
  forall key c sub, reachable dic key -> lookup key dic = Some c ->
    In sub (extract_subcells (cgeom c)) -> recorded occ sub key.
Proof. exact find_occurrences_complete. Qed.

(* ... and counts each mention exactly once (tables with distinct keys): the
   number of entries [key] under [sub] is the number of times the geometry of
   [key] mentions [sub] - so len(occurrences[sub]), which the score divides by, is
   the number of mentions of sub in reachable cells *)
Theorem C13_find_occurrences_count : forall dic occ, NoDup (map fst dic) -> find_occurrences dic = Ok occ ->
  forall key c sub, reachable dic key -> lookup key dic = Some c ->
    occ_cnt occ sub key = count_occ Z.eq_dec (extract_subcells (cgeom c)) sub.
Proof. exact find_occurrences_count. Qed.

(* inlining does what the option says: afterwards no cell mentions a cell of
   to_inline (given that no geometry is a bare CellRef, as pot_fill guarantees) *)
Theorem C13_inline_complete : forall fuel ti dic dic',
  no_bare dic -> inline_cells fuel ti dic = Ok dic' ->
  forall k c, lookup k dic' = Some c -> forall r, In r (refs (cgeom c)) -> memZ r ti = false.
Proof. exact inline_complete. Qed.

(* without acyclicity: whatever model the table has stays a model *)
Theorem C13_inline_model : forall sigma rho fuel ti dic dic',
  inline_cells fuel ti dic = Ok dic' -> is_model sigma rho dic -> is_model sigma rho dic'.
Proof. exact inline_cells_model. Qed.

(* the explicit fuel is harmless: on an acyclic table there is a bound above
   which inline_cells succeeds with one and the same answer *)
Theorem C13_inline_total : forall (rank : Z -> nat) ti dic, acyclic rank dic ->
  exists N dic', forall fuel, (N <= fuel)%nat -> inline_cells fuel ti dic = Ok dic'.
Proof. exact inline_total. Qed.

(* cden is THE denotation: it is a model, and every model agrees with it *)
Theorem C13_acyclic_unique_model : forall (rank : Z -> nat) sigma dic, acyclic rank dic ->
  is_model sigma (cden rank sigma dic) dic /\
  forall rho, is_model sigma rho dic -> forall k, lookup k dic <> None -> rho k = cden rank sigma dic k.
Proof. exact acyclic_unique_model. Qed.

(* --always-inline-filled / --always-inline-filling: whichever of the four
   shapes pot_fill gives to a filled cell, it denotes container AND filler *)
Theorem C13_fill_geometry_den : forall sigma rho dic fd fg key cell elt ec,
  is_model sigma rho dic ->
  lookup key dic = Some cell -> lookup elt dic = Some ec ->
  geval sigma rho (fill_geometry fd fg key (cgeom cell) elt (cgeom ec)) = rho key && rho elt.
Proof. exact fill_geometry_den. Qed.

(* ---- FILL with transformations (FILL=n (tr), TRCL of the filled cell) ---- *)
(* P = points, [act t p] = the point at which the original object is looked at
   (interface law of C04: a surface made by pot_transform from s with t has, at p,
   the sense s has at act t p).  (senv, D) is a semantics of a state when the
   recorded surfaces obey the law and D is a model of the cell table at every
   point.  cell_transform (cache on or off, nested CellRefs included): in every
   semantics of the resulting state the new cell is the old cell seen through t *)
Theorem C13_cell_transform_den : forall (Tr P : Type) (tr_eqb : Tr -> Tr -> bool) (act : Tr -> P -> P),
  (forall a b, tr_eqb a b = true -> forall p, act a p = act b p) ->
  forall fuel t use_cache c st k st', wf act st ->
  ctransform tr_eqb fuel t use_cache c st = Ok (k, st') ->
  wf act st' /\ text st st' /\
  forall senv D, sem act st' senv D -> forall p, D k p = D c (act t p).
Proof. intros Tr P tr_eqb act H fuel t uc. exact (ctransform_spec tr_eqb act H fuel t uc). Qed.

(* C13_fill_geometry_den with transformations: for the four combinations of
   --always-inline-filled / --always-inline-filling (the second also switches the
   cell_transform cache off), every cell pot_fill creates for container [key] and
   filler e denotes, at every point p,  container at p  AND  filler at the point
   reached through the FILL transformation (or the TRCLs in order) *)
Theorem C13_fill_geometry_den_tr : forall (Tr P : Type) (tr_eqb : Tr -> Tr -> bool) (act : Tr -> P -> P),
  (forall a b, tr_eqb a b = true -> forall p, act a p = act b p) ->
  forall fuel fd fg ts key cell elts st acc ks st', wf act st ->
  lookup key (tcells st) = Some cell ->
  make_cells_tr tr_eqb fuel fd fg ts key cell elts st acc = Ok (ks, st') ->
  wf act st' /\ text st st' /\
  exists news, ks = acc ++ news /\
    (* the record of each new cell: universe of the container, no FILL, the filler's
       material and provenance + (innermost filler, outermost container) - the same
       for the four flag combinations; only its geometry depends on them *)
    Forall2 (fun k' e => exists ec, lookup e (tcells st') = Some ec /\
                                    lookup k' (tcells st') = Some (filled_cell key cell e ec
                                       (cgeom (match lookup k' (tcells st') with Some c => c | None => cell end))))
            news elts /\
    forall senv D, sem act st' senv D ->
      Forall2 (fun k' e => forall p, D k' p = D key p && D e (fold_right act p ts)) news elts.
Proof. intros Tr P tr_eqb act H. exact (make_cells_tr_den tr_eqb act H). Qed.

(* the whole recursion of pot_fill with transformations against [spec], a
   flag-independent list of (universe, provenance, material, denotation) items:
   every run returns keys that realise the items one by one ([matches]: the
   record of the cell and, in every semantics of the final state, its denotation
   at every point).  dic0 = the table as parsed (no CellRef), [based] = its cells
   are still in the state *)
Theorem C13_pot_fill_tr_spec : forall (Tr P : Type) (tr_eqb : Tr -> Tr -> bool) (act : Tr -> P -> P),
  (forall a b, tr_eqb a b = true -> forall p, act a p = act b p) ->
  forall fd fg dic0 tinfo, norefs dic0 ->
  forall fuel key st ks st', wf act st -> based dic0 st -> lookup key dic0 <> None ->
  pot_fill_tr tr_eqb fuel fd fg dic0 tinfo key st = Ok (ks, st') ->
  wf act st' /\ text st st' /\
  exists its, spec act fuel dic0 tinfo key = Some its /\ Forall2 (matches act st') ks its.
Proof. intros Tr P tr_eqb act H. exact (pot_fill_tr_spec tr_eqb act H). Qed.

(* two runs under different inline flags (different caches, different numbers
   of intermediate cells and surfaces, hence different keys): the returned key
   lists correspond position by position - a key renaming that preserves
   universe, provenance, material and denotation ([same_cell]) *)
Theorem C13_fill_tr_two_runs : forall (Tr P : Type) (tr_eqb : Tr -> Tr -> bool) (act : Tr -> P -> P),
  (forall a b, tr_eqb a b = true -> forall p, act a p = act b p) ->
  forall dic0 tinfo fuel key fd1 fg1 fd2 fg2 sa sb ks1 sa' ks2 sb',
  norefs dic0 -> lookup key dic0 <> None ->
  wf act sa -> based dic0 sa -> wf act sb -> based dic0 sb ->
  pot_fill_tr tr_eqb fuel fd1 fg1 dic0 tinfo key sa = Ok (ks1, sa') ->
  pot_fill_tr tr_eqb fuel fd2 fg2 dic0 tinfo key sb = Ok (ks2, sb') ->
  Forall2 (same_cell act sa' sb') ks1 ks2.
Proof. intros Tr P tr_eqb act H. exact (pot_fill_tr_two_runs tr_eqb act H). Qed.

(* the FILL loop under two pairs of inline flags runs in lock-step: same outcome
   (same exception or both succeed), same counter, same keys / universes / FILL
   marks / provenance (idorigin) / material in the same order, and the two tables have exactly the same models *)
Theorem C13_fill_flags_lockstep : forall fuel fd1 fg1 fd2 fg2 dic counter,
  (forall k, lookup k dic <> None -> k <= counter) ->
  match fill_loop fuel fd1 fg1 dic (fill_keys dic) (dic, counter),
        fill_loop fuel fd2 fg2 dic (fill_keys dic) (dic, counter) with
  | Ok (d1, c1), Ok (d2, c2) => c1 = c2 /\ shape d1 = shape d2 /\ same_models d1 d2
  | Err e1, Err e2 => e1 = e2
  | _, _ => False
  end.
Proof. exact fill_flags_lockstep. Qed.

(* ---- all options together, over the model pipeline ---- *)
(* The options act in two places of the pipeline, separated by the conversion of
   cell trees into volumes (C01).  (1) construct_volume_t4 from "treat FILL" to
   "consider inlining": for any two option vectors (inline flags, and ANY two sets
   of cells selected by --max-inline-score) the resulting cell tables have the
   same cells, the same fresh-key counter, are both acyclic, and every cell has
   the same denotation under every sense assignment (cell tables without FILL /
   TRCL transformations; acyclic, keys below the counter).  (2) convertMCNPGeometry
   with or without --skip-deduplication: over whatever surface and volume tables
   the conversion built, every volume has the same denotation for the senses
   induced by any function of the surface descriptors, and so have the two helper
   planes handed to remove_empty_volumes. *)
Theorem C13_options_same_geometry :
  (forall fuel (o1 o2 : options) dic counter d1 c1 d2 c2,
     (forall k, lookup k dic <> None -> k <= counter) ->
     (exists rank, acyclic rank dic) ->
     cell_stage fuel o1 dic counter = Ok (d1, c1) ->
     cell_stage fuel o2 dic counter = Ok (d2, c2) ->
     c1 = c2 /\ map fst d1 = map fst d2 /\
     exists r1 r2, acyclic r1 d1 /\ acyclic r2 d2 /\
       forall sigma k, lookup k d1 <> None -> cden r1 sigma d1 k = cden r2 sigma d2 k)
  /\
  (forall (sense : desc R -> bool) (o1 o2 : options) surfs volus u0 u1 s1 v1 a1 b1 s2 v2 a2 b2,
     NoDup (map fst surfs) ->
     dedup_stage RS (skip_dedup o1) surfs volus u0 u1 = Ok (s1, v1, (a1, b1)) ->
     dedup_stage RS (skip_dedup o2) surfs volus u0 u1 = Ok (s2, v2, (a2, b2)) ->
     (forall fuel k, vden fuel (sense_of sense s1) v1 k = vden fuel (sense_of sense s2) v2 k) /\
     sense_of sense s1 a1 = sense_of sense s2 a2 /\ sense_of sense s1 b1 = sense_of sense s2 b2).
Proof. exact options_same_geometry. Qed.

(* ---- linked with C01 (cell trees -> volumes -> written table) ---- *)
From T4V Require C01.Model C01.Spec C01.ProofsPrune C01.ProofsCells.
From T4V Require Import C13.LinkC01.

(* what C13 offers C01: the renumbering returned by the de-duplication satisfies
   C01's hypothesis "sigma is constant on merged surfaces" ([respects]) for the
   senses induced by any function of the descriptors (from C13_dedup_merges_equal) *)
Theorem C13_merged_surfaces_equal_senses : forall (sense : desc R -> bool) (surfs : list (Z * desc R)),
  NoDup (map fst surfs) ->
  C01.ProofsPrune.respects (sense_of sense surfs) (snd (remove_duplicate_surfaces RS surfs)).
Proof. exact merged_surfaces_equal_senses. Qed.

(* THE PROPERTY for two option vectors, composed in Coq: stage 1 is C13's
   cell_stage (FILL under the inline flags, inlining of any set), stage 2 and 3
   are C01's conversion loop, prune (renumbering of either vector: any map that
   gives merged surfaces equal senses, or none) and skipped-cells filter, applied
   to the embedded tables ([embed_cells]; C01_partition discharges what was a
   Section hypothesis).  sigma is a sense assignment over TRIPOLI-4 surface
   numbers, [sigmaM] reads the MCNP surfaces through `matching`.  If cell c owns
   sigma, then sigma lies in the same written non-FICTIVE volumes under both
   option vectors - exactly the one numbered c when c is in the conversion list,
   none otherwise - and cell c has the same provenance and material in both cell
   tables (GEOMCOMP and the VOLU comment are derived from those).
   Not covered by the link: FILL / TRCL transformations in stage 1 (keys differ
   between option vectors, see C13_fill_geometry_den_tr), lattices, and that the
   comment of volume c is the cell's provenance (C01's model carries v_orig but
   C01_cells does not state it). *)
Theorem C13_options_same_written_linked :
  forall fuel (o1 o2 : options) dic counter d1 c1 d2 c2
         sigma matching u0 u1 cfuel todo cnt0 s1 s2 rn1 rn2 skipped w1 w2 c,
  (forall k, lookup k dic <> None -> k <= counter) -> (exists rank, acyclic rank dic) ->
  good_cells matching dic ->
  cell_stage fuel o1 dic counter = Ok (d1, c1) -> cell_stage fuel o2 dic counter = Ok (d2, c2) ->
  0 < u0 -> 0 < u1 -> C01.Spec.consistent sigma u0 u1 ->
  NoDup todo -> (forall k, In k todo -> k <= cnt0) -> (forall k, In k todo -> lookup k d1 <> None) ->
  C01.Model.convert_cells cfuel (embed_cells d1) matching u0 u1 todo (C01.Model.mkSt cnt0 [] [] []) = C01.Model.Ok s1 ->
  C01.Model.convert_cells cfuel (embed_cells d2) matching u0 u1 todo (C01.Model.mkSt cnt0 [] [] []) = C01.Model.Ok s2 ->
  C01.Model.prune u0 u1 rn1 (C01.Model.vols s1) = C01.Model.Ok w1 ->
  C01.Model.prune u0 u1 rn2 (C01.Model.vols s2) = C01.Model.Ok w2 ->
  (forall r, rn1 = Some r -> C01.ProofsPrune.respects sigma r) ->
  (forall r, rn2 = Some r -> C01.ProofsPrune.respects sigma r) ->
  (forall k, In k skipped -> k <= cnt0 /\ ~ In k todo) ->
  lookup c d1 <> None ->
  exists r1, acyclic r1 d1 /\
  (cden r1 (sigmaM sigma matching) d1 c = true ->
   (forall c', In c' todo -> cden r1 (sigmaM sigma matching) d1 c' = true -> c' = c) ->
   (forall k, C01.ProofsCells.in_volume sigma (C01.Model.written skipped w1) k <->
              C01.ProofsCells.in_volume sigma (C01.Model.written skipped w2) k) /\
   (In c todo -> forall k, C01.ProofsCells.in_volume sigma (C01.Model.written skipped w1) k <-> k = c) /\
   (~ In c todo -> forall k, ~ C01.ProofsCells.in_volume sigma (C01.Model.written skipped w1) k) /\
   (forall a b, lookup c d1 = Some a -> lookup c d2 = Some b ->
      corigin a = corigin b /\ cmat a = cmat b)).
Proof. exact options_same_written_linked_input. Qed.

(* the same with the renumbering of each option vector taken from C13's own
   de-duplication ([renumbering_of]: none under --skip-deduplication) and sigma
   induced on the surface table by any function of the descriptors: C01's
   "merged surfaces have equal senses" hypotheses are discharged, what remains
   assumed about sigma is the consistency of the two helper planes *)
Theorem C13_options_same_written_dedup_linked :
  forall (sense : desc R -> bool) surfs fuel (o1 o2 : options) dic counter d1 c1 d2 c2
         matching u0 u1 cfuel todo cnt0 s1 s2 skipped w1 w2 c,
  NoDup (map fst surfs) ->
  (forall k, lookup k dic <> None -> k <= counter) -> (exists rank, acyclic rank dic) ->
  good_cells matching dic ->
  cell_stage fuel o1 dic counter = Ok (d1, c1) -> cell_stage fuel o2 dic counter = Ok (d2, c2) ->
  0 < u0 -> 0 < u1 -> C01.Spec.consistent (sense_of sense surfs) u0 u1 ->
  NoDup todo -> (forall k, In k todo -> k <= cnt0) -> (forall k, In k todo -> lookup k d1 <> None) ->
  C01.Model.convert_cells cfuel (embed_cells d1) matching u0 u1 todo (C01.Model.mkSt cnt0 [] [] []) = C01.Model.Ok s1 ->
  C01.Model.convert_cells cfuel (embed_cells d2) matching u0 u1 todo (C01.Model.mkSt cnt0 [] [] []) = C01.Model.Ok s2 ->
  C01.Model.prune u0 u1 (renumbering_of o1 surfs) (C01.Model.vols s1) = C01.Model.Ok w1 ->
  C01.Model.prune u0 u1 (renumbering_of o2 surfs) (C01.Model.vols s2) = C01.Model.Ok w2 ->
  (forall k, In k skipped -> k <= cnt0 /\ ~ In k todo) ->
  lookup c d1 <> None ->
  exists r1, acyclic r1 d1 /\
  (cden r1 (sigmaM (sense_of sense surfs) matching) d1 c = true ->
   (forall c', In c' todo -> cden r1 (sigmaM (sense_of sense surfs) matching) d1 c' = true -> c' = c) ->
   (forall k, C01.ProofsCells.in_volume (sense_of sense surfs) (C01.Model.written skipped w1) k <->
              C01.ProofsCells.in_volume (sense_of sense surfs) (C01.Model.written skipped w2) k) /\
   (In c todo -> forall k, C01.ProofsCells.in_volume (sense_of sense surfs) (C01.Model.written skipped w1) k <-> k = c) /\
   (~ In c todo -> forall k, ~ C01.ProofsCells.in_volume (sense_of sense surfs) (C01.Model.written skipped w1) k) /\
   (forall a b, lookup c d1 = Some a -> lookup c d2 = Some b ->
      corigin a = corigin b /\ cmat a = cmat b)).
Proof. exact options_same_written_dedup_linked. Qed.

(* ... and about the WRITTEN volumes themselves, as the property text says
   ("a volume with the same provenance and the same composition"): for the owner
   cell c (listed; its geometry an operator node in both tables, as pot_fill builds
   them) both written tables contain the non-FICTIVE volume numbered c, sigma lies
   in it, its v_orig (the comment after ENDV) is the provenance of cell c in both,
   and the material GEOMCOMP attaches to volume c is the same.  Proved over C01's
   definitions in coq/C13/LinkC01Orig.v (root volume of pot_to_t4_cell carries
   idorigin; convert_cells copies it; renumber / remove_empty / remove_unused /
   written keep v_orig). *)
From T4V Require C01.Model.
Theorem C13_options_same_written_provenance_linked :
  forall fuel (o1 o2 : options) dic counter d1 c1 d2 c2
         sigma matching u0 u1 cfuel todo cnt0 s1 s2 rn1 rn2 skipped w1 w2 c a b,
  (forall k, lookup k dic <> None -> k <= counter) -> (exists rank, acyclic rank dic) ->
  good_cells matching dic ->
  cell_stage fuel o1 dic counter = Ok (d1, c1) -> cell_stage fuel o2 dic counter = Ok (d2, c2) ->
  0 < u0 -> 0 < u1 -> C01.Spec.consistent sigma u0 u1 ->
  NoDup todo -> (forall k, In k todo -> k <= cnt0) -> (forall k, In k todo -> lookup k d1 <> None) ->
  C01.Model.convert_cells cfuel (embed_cells d1) matching u0 u1 todo (C01.Model.mkSt cnt0 [] [] []) = C01.Model.Ok s1 ->
  C01.Model.convert_cells cfuel (embed_cells d2) matching u0 u1 todo (C01.Model.mkSt cnt0 [] [] []) = C01.Model.Ok s2 ->
  C01.Model.prune u0 u1 rn1 (C01.Model.vols s1) = C01.Model.Ok w1 ->
  C01.Model.prune u0 u1 rn2 (C01.Model.vols s2) = C01.Model.Ok w2 ->
  (forall r, rn1 = Some r -> C01.ProofsPrune.respects sigma r) ->
  (forall r, rn2 = Some r -> C01.ProofsPrune.respects sigma r) ->
  (forall k, In k skipped -> k <= cnt0 /\ ~ In k todo) ->
  In c todo -> lookup c d1 = Some a -> lookup c d2 = Some b ->
  is_gnode (cgeom a) -> is_gnode (cgeom b) ->
  exists r1, acyclic r1 d1 /\
  (cden r1 (sigmaM sigma matching) d1 c = true ->
   (forall c', In c' todo -> cden r1 (sigmaM sigma matching) d1 c' = true -> c' = c) ->
   exists v1 v2,
     C01.Model.lookup c (C01.Model.written skipped w1) = Some v1 /\
     C01.Model.lookup c (C01.Model.written skipped w2) = Some v2 /\
     C01.Model.v_fict v1 = false /\ C01.Model.v_fict v2 = false /\
     C01.ProofsCells.in_volume sigma (C01.Model.written skipped w1) c /\
     C01.ProofsCells.in_volume sigma (C01.Model.written skipped w2) c /\
     C01.Model.v_orig v1 = corigin a /\ C01.Model.v_orig v2 = corigin a /\ cmat a = cmat b).
Proof. exact options_same_written_provenance. Qed.

(* WITH transformations (FILL=n (tr), TRCL), where the two runs create different
   cell and surface numbers: the statement up to the key renaming of
   C13_fill_tr_two_runs.  todo1 / todo2 realise the same items position by position;
   (senv_i, D_i) are semantics of the two final states that give every item the same
   denotation at the point p (C13_spec_den_agree: e.g. when they agree on the
   surfaces of the deck); sigma_i, matching_i read senv_i at p at TRIPOLI-4 level.
   If the cell at some position owns p in run 1, the written owner of p is the
   volume numbered by that cell in run 1 and the volume numbered by the cell AT THE
   SAME POSITION in run 2, and the two cells have the same provenance and material *)
From T4V Require Import C13.LinkC01Tr.
Theorem C13_options_same_written_tr_linked :
  forall (Tr P : Type) (act : Tr -> P -> P) (sa sb : @tstate Tr) todo1 todo2 (its : list (@item P))
         (senv1 D1 senv2 D2 : Z -> P -> bool) (p : P)
         sigma1 matching1 sigma2 matching2 u0 u1 v0 v1 cfuel cnt1 cnt2 s1 s2 rn1 rn2 sk1 sk2 w1 w2 k1 k2,
  Forall2 (matches act sa) todo1 its -> Forall2 (matches act sb) todo2 its ->
  sem act sa senv1 D1 -> sem act sb senv2 D2 ->
  Forall (fun it => i_den it senv1 p = i_den it senv2 p) its ->
  (forall s, sigmaM sigma1 matching1 s = senv1 s p) -> (forall s, sigmaM sigma2 matching2 s = senv2 s p) ->
  good_cells matching1 (tcells sa) -> good_cells matching2 (tcells sb) ->
  0 < u0 -> 0 < u1 -> C01.Spec.consistent sigma1 u0 u1 ->
  0 < v0 -> 0 < v1 -> C01.Spec.consistent sigma2 v0 v1 ->
  NoDup todo1 -> NoDup todo2 ->
  (forall k, In k todo1 -> k <= cnt1) -> (forall k, In k todo2 -> k <= cnt2) ->
  C01.Model.convert_cells cfuel (embed_cells (tcells sa)) matching1 u0 u1 todo1 (C01.Model.mkSt cnt1 [] [] []) = C01.Model.Ok s1 ->
  C01.Model.convert_cells cfuel (embed_cells (tcells sb)) matching2 v0 v1 todo2 (C01.Model.mkSt cnt2 [] [] []) = C01.Model.Ok s2 ->
  C01.Model.prune u0 u1 rn1 (C01.Model.vols s1) = C01.Model.Ok w1 ->
  C01.Model.prune v0 v1 rn2 (C01.Model.vols s2) = C01.Model.Ok w2 ->
  (forall r, rn1 = Some r -> C01.ProofsPrune.respects sigma1 r) ->
  (forall r, rn2 = Some r -> C01.ProofsPrune.respects sigma2 r) ->
  (forall k, In k sk1 -> k <= cnt1 /\ ~ In k todo1) -> (forall k, In k sk2 -> k <= cnt2 /\ ~ In k todo2) ->
  In (k1, k2) (combine todo1 todo2) ->
  D1 k1 p = true -> (forall c, In c todo1 -> D1 c p = true -> c = k1) ->
  (forall k, C01.ProofsCells.in_volume sigma1 (C01.Model.written sk1 w1) k <-> k = k1) /\
  (forall k, C01.ProofsCells.in_volume sigma2 (C01.Model.written sk2 w2) k <-> k = k2) /\
  exists c1 c2, lookup k1 (tcells sa) = Some c1 /\ lookup k2 (tcells sb) = Some c2 /\
                corigin c1 = corigin c2 /\ cmat c1 = cmat c2.
Proof. intros Tr P act. exact (options_same_written_tr act). Qed.

(* the same with the surface environments CONSTRUCTED from the senses senv0 of the
   deck's own surfaces (numbers <= b): every surface made by pot_transform means
   what the interface law says ([senv_of] = [extend] along the recorded
   definitions).  C13_senv_of_ok: this environment satisfies the law on the final
   state of every run of the FILL loop (C13_pot_fill_tr_inv keeps the numbering
   invariant [sinv]) and coincides with senv0 on the deck's surfaces; hence the two
   runs read the parsed cells alike.  The hypotheses "sem" and "the items have the
   same denotation" of C13_options_same_written_tr_linked are discharged; still
   assumed: D_i is a model of the cell table of run i, and sigma_i / matching_i
   are the TRIPOLI-4 level reading of the environment at p (C02/C04) *)
From T4V Require Import C13.ProofsTr3.
Theorem C13_senv_of_ok : forall (Tr P : Type) (act : Tr -> P -> P) b senv0 (st : @tstate Tr), sinv b st ->
  surfs_ok act (senv_of act senv0 st) st /\ forall x, x <= b -> forall p, senv_of act senv0 st x p = senv0 x p.
Proof. intros Tr P act. exact (senv_of_ok act). Qed.

Theorem C13_pot_fill_tr_inv : forall (Tr : Type) (tr_eqb : Tr -> Tr -> bool) b fd fg dic0 tinfo fuel key st ks st',
  sinv b st -> pot_fill_tr tr_eqb fuel fd fg dic0 tinfo key st = Ok (ks, st') ->
  sinv b st' /\ tskey st <= tskey st'.
Proof. intros Tr tr_eqb. exact (pot_fill_tr_inv tr_eqb). Qed.

Theorem C13_options_same_written_tr_env_linked :
  forall (Tr P : Type) (act : Tr -> P -> P) (b : Z) (senv0 : Z -> P -> bool) dic0 tinfo fuel key
         (sa sb : @tstate Tr) todo1 todo2 (its : list (@item P)) (D1 D2 : Z -> P -> bool) (p : P)
         sigma1 matching1 sigma2 matching2 u0 u1 v0 v1 cfuel cnt1 cnt2 s1 s2 rn1 rn2 sk1 sk2 w1 w2 k1 k2,
  sinv b sa -> sinv b sb -> (forall k c, lookup k dic0 = Some c -> gb b (cgeom c)) ->
  spec act fuel dic0 tinfo key = Some its ->
  Forall2 (matches act sa) todo1 its -> Forall2 (matches act sb) todo2 its ->
  cells_ok (senv_of act senv0 sa) D1 sa -> cells_ok (senv_of act senv0 sb) D2 sb ->
  (forall s, sigmaM sigma1 matching1 s = senv_of act senv0 sa s p) ->
  (forall s, sigmaM sigma2 matching2 s = senv_of act senv0 sb s p) ->
  good_cells matching1 (tcells sa) -> good_cells matching2 (tcells sb) ->
  0 < u0 -> 0 < u1 -> C01.Spec.consistent sigma1 u0 u1 ->
  0 < v0 -> 0 < v1 -> C01.Spec.consistent sigma2 v0 v1 ->
  NoDup todo1 -> NoDup todo2 ->
  (forall k, In k todo1 -> k <= cnt1) -> (forall k, In k todo2 -> k <= cnt2) ->
  C01.Model.convert_cells cfuel (embed_cells (tcells sa)) matching1 u0 u1 todo1 (C01.Model.mkSt cnt1 [] [] []) = C01.Model.Ok s1 ->
  C01.Model.convert_cells cfuel (embed_cells (tcells sb)) matching2 v0 v1 todo2 (C01.Model.mkSt cnt2 [] [] []) = C01.Model.Ok s2 ->
  C01.Model.prune u0 u1 rn1 (C01.Model.vols s1) = C01.Model.Ok w1 ->
  C01.Model.prune v0 v1 rn2 (C01.Model.vols s2) = C01.Model.Ok w2 ->
  (forall r, rn1 = Some r -> C01.ProofsPrune.respects sigma1 r) ->
  (forall r, rn2 = Some r -> C01.ProofsPrune.respects sigma2 r) ->
  (forall k, In k sk1 -> k <= cnt1 /\ ~ In k todo1) -> (forall k, In k sk2 -> k <= cnt2 /\ ~ In k todo2) ->
  In (k1, k2) (combine todo1 todo2) ->
  D1 k1 p = true -> (forall c, In c todo1 -> D1 c p = true -> c = k1) ->
  (forall k, C01.ProofsCells.in_volume sigma1 (C01.Model.written sk1 w1) k <-> k = k1) /\
  (forall k, C01.ProofsCells.in_volume sigma2 (C01.Model.written sk2 w2) k <-> k = k2) /\
  exists c1 c2, lookup k1 (tcells sa) = Some c1 /\ lookup k2 (tcells sb) = Some c2 /\
                corigin c1 = corigin c2 /\ cmat c1 = cmat c2.
Proof. intros Tr P act. exact (options_same_written_tr_env act). Qed.

(* the last semantic hypothesis of the transformation theorem, "D_i is a model of
   the final cell table": pot_fill with transformations keeps the table acyclic
   ([jinv]: keys below the counter, cached keys present, a rank exists), so for
   EVERY surface environment the final state has a denotation of its cells and
   it is the only one on the cells of the table *)
From T4V Require Import C13.ProofsTr4.
Theorem C13_pot_fill_tr_acyclic : forall (Tr : Type) (tr_eqb : Tr -> Tr -> bool) fd fg dic0 tinfo fuel key st ks st',
  jinv st -> pot_fill_tr tr_eqb fuel fd fg dic0 tinfo key st = Ok (ks, st') -> jinv st' /\ grows st st'.
Proof. intros Tr tr_eqb. exact (pot_fill_tr_j tr_eqb). Qed.

Theorem C13_final_state_model : forall (Tr P : Type) (act : Tr -> P -> P) (st : @tstate Tr) (senv : Z -> P -> bool),
  jinv st ->
  exists D, cells_ok senv D st /\
    forall D', cells_ok senv D' st -> forall k, lookup k (tcells st) <> None -> forall p, D' k p = D k p.
Proof. intros Tr P act. exact (final_state_model act). Qed.

(* the hypotheses of that theorem for the cells pot_fill_tr returns: both runs
   realise the items of [spec], and two surface environments that agree on the
   parsed cells give every item the same denotation *)
Theorem C13_fill_tr_items : forall (Tr P : Type) (tr_eqb : Tr -> Tr -> bool) (act : Tr -> P -> P),
  (forall a b, tr_eqb a b = true -> forall p, act a p = act b p) ->
  forall dic0 tinfo fuel key fd1 fg1 fd2 fg2 sa sb ks1 sa' ks2 sb',
  norefs dic0 -> lookup key dic0 <> None ->
  wf act sa -> based dic0 sa -> wf act sb -> based dic0 sb ->
  pot_fill_tr tr_eqb fuel fd1 fg1 dic0 tinfo key sa = Ok (ks1, sa') ->
  pot_fill_tr tr_eqb fuel fd2 fg2 dic0 tinfo key sb = Ok (ks2, sb') ->
  exists its, spec act fuel dic0 tinfo key = Some its /\
              Forall2 (matches act sa') ks1 its /\ Forall2 (matches act sb') ks2 its /\
              forall senv1 senv2, surf_agree dic0 senv1 senv2 ->
                Forall (fun it => forall p, i_den it senv1 p = i_den it senv2 p) its.
Proof.
  intros Tr P tr_eqb act H dic0 tinfo fuel key fd1 fg1 fd2 fg2 sa sb ks1 sa' ks2 sb' Hn Hk Hwa Hba Hwb Hbb H1 H2.
  destruct (two_runs_items tr_eqb act H dic0 tinfo fuel key fd1 fg1 fd2 fg2 sa sb ks1 sa' ks2 sb'
              Hn Hk Hwa Hba Hwb Hbb H1 H2) as [its [Hs [M1 M2]]].
  exists its. split; [exact Hs|]. split; [exact M1|]. split; [exact M2|].
  intros senv1 senv2 Hag. exact (spec_den_agree act dic0 tinfo senv1 senv2 Hag fuel key its Hs).
Qed.

(* C13's own model of the tail of convertMCNPGeometry ([finish]: renumber_surfaces,
   remove_empty_volumes, remove_unused_volumes, tied to the code by tie:finish)
   and C01's model of the same lines ([prune]) compute the same volume table, up
   to the representation of the PLUS / MINUS sets (sorted lists vs order of first
   insertion: [same_set]) and of the operands (Z vs option Z): whenever finish
   succeeds on a table, C01's prune succeeds on every related table, with the
   renumbering of the same option setting, and the results are related *)
From T4V Require Import C13.LinkC01Prune.
Theorem C13_finish_is_c01_prune_linked : forall T (S : Scalar T) skip surfs volus u0 u1 s' v3 w d,
  finish S skip surfs volus u0 u1 = Ok (s', v3, w) -> vols_rel volus d ->
  exists d', C01.Model.prune u0 u1 (c01_rn S skip surfs) d = C01.Model.Ok d' /\ vols_rel v3 d'.
Proof. exact @finish_is_c01_prune. Qed.

(* non-vacuity of the link: both stage-1 tables of C13_example_options run through
   C01's loop and prune (with and without a renumbering) and leave the same
   non-FICTIVE volumes 2, 12, 13 *)
Example C13_example_linked :
  good_cells ex_matching ex_dic /\
  exists d1 d2 s1 s2 w1 w2,
    cell_stage 10 (mkOptions false false false []) ex_dic 11 = Ok (d1, 13) /\
    cell_stage 10 (mkOptions true true true [1; 10]) ex_dic 11 = Ok (d2, 13) /\
    C01.Model.convert_cells 6 (embed_cells d1) ex_matching 3 4 [2; 12; 13] (C01.Model.mkSt 13 [] [] []) = C01.Model.Ok s1 /\
    C01.Model.convert_cells 6 (embed_cells d2) ex_matching 3 4 [2; 12; 13] (C01.Model.mkSt 13 [] [] []) = C01.Model.Ok s2 /\
    C01.Model.prune 3 4 (Some [(1, 1); (2, 2); (3, 3); (4, 4)]) (C01.Model.vols s1) = C01.Model.Ok w1 /\
    C01.Model.prune 3 4 None (C01.Model.vols s2) = C01.Model.Ok w2 /\
    map fst (filter (fun kv => negb (C01.Model.v_fict (snd kv))) w1) = [2; 12; 13] /\
    map fst (filter (fun kv => negb (C01.Model.v_fict (snd kv))) w2) = [2; 12; 13].
Proof. split; [exact ex_good|exact ex_linked_runs]. Qed.

(* ---- non-vacuity ---- *)
(* a container (cell 1, FILL=1) and the two cells of universe 1: the stage under
   the default flags with nothing inlined, and with both flags and {1, 10} inlined *)
Example C13_example_options :
  let dic := [(1, mkCell 0 (Some 1) (GNode true [GSurf (-1)])); (2, mkCell 0 None (GNode true [GSurf 1]));
              (10, mkCell 1 None (GNode true [GSurf (-2)])); (11, mkCell 1 None (GNode true [GSurf 2]))] in
  cell_stage 10 (mkOptions false false false []) dic 11 =
    Ok (dic ++ [(12, MkCell 0 None (GNode true [GRef 1; GRef 10]) [(10, 1)] 0);
                (13, MkCell 0 None (GNode true [GRef 1; GRef 11]) [(11, 1)] 0)], 13) /\
  cell_stage 10 (mkOptions true true true [1; 10]) dic 11 =
    Ok (dic ++ [(12, MkCell 0 None (GNode true [GNode true [GSurf (-1)]; GNode true [GSurf (-2)]]) [(10, 1)] 0);
                (13, MkCell 0 None (GNode true [GNode true [GSurf (-1)]; GNode true [GSurf 2]]) [(11, 1)] 0)], 13).
Proof. cbv zeta. split; vm_compute; reflexivity. Qed.

(* a two-level table: cell 1 = -1 AND cell 10, cell 10 = 2 : cell 20, cell 20 = -3;
   inlining {10, 20} rewrites cell 1 and cell 10; hypotheses of C13_inline_den hold *)
Example C13_example_inline :
  let dic := [(1, mkCell 0 None (GNode true [GSurf (-1); GRef 10]));
              (10, mkCell 1 None (GNode false [GSurf 2; GRef 20]));
              (20, mkCell 2 None (GNode true [GSurf (-3)]))] in
  let rank := fun k => if Z.eqb k 1 then 2%nat else if Z.eqb k 10 then 1%nat else 0%nat in
  acyclic rank dic /\
  inline_cells 10 [10; 20] dic =
    Ok [(1, mkCell 0 None (GNode true [GSurf (-1); GNode false [GSurf 2; GNode true [GSurf (-3)]]]));
        (10, mkCell 1 None (GNode false [GSurf 2; GNode true [GSurf (-3)]]));
        (20, mkCell 2 None (GNode true [GSurf (-3)]))].
Proof.
  cbv zeta. split; [|vm_compute; reflexivity].
  intros k c H r Hr. cbn [lookup] in H.
  destruct (Z.eqb 1 k) eqn:E1; [apply Z.eqb_eq in E1; subst k; injection H as <-|].
  { cbn in Hr. destruct Hr as [<-|[]]. cbn. split; [lia|discriminate]. }
  destruct (Z.eqb 10 k) eqn:E2; [apply Z.eqb_eq in E2; subst k; injection H as <-|].
  { cbn in Hr. destruct Hr as [<-|[]]. cbn. split; [lia|discriminate]. }
  destruct (Z.eqb 20 k) eqn:E3; [apply Z.eqb_eq in E3; subst k; injection H as <-|discriminate].
  cbn in Hr. destruct Hr.
Qed.

(* de-duplication of PX 2 / P 1 0 0 2 (both PLANEX 2 after conversion) / PY 3 over
   the integers: 2 is merged into 1 *)
Example C13_example_dedup :
  remove_duplicate_surfaces ZS [(2, mkDesc 0%N [2] None); (3, mkDesc 1%N [3] None); (1, mkDesc 0%N [2] None)]
  = ([(1, mkDesc 0%N [2] None); (3, mkDesc 1%N [3] None)], [(1, 1); (2, 1); (3, 3)]).
Proof. vm_compute. reflexivity. Qed.

(* ================================================================== *)
(* Families: the conjunction of the theorems above, grouped, so that one *)
(* Print Assumptions audits each group (the statement of a family is     *)
(* literally the conjunction of the statements of its members).         *)
(* ================================================================== *)
(* SurfaceT4 equality / hash, remove_duplicate_surfaces, renumber_surfaces, helper planes, the writer's lookups *)
Theorem C13_family_dedup :
  ltac:(let t := type of (conj C13_dedup_merges_equal (conj C13_dedup_merges_tested (conj C13_desc_eqb_sound (conj C13_hash_consistent (conj C13_dedup_survivor_smallest (conj C13_dedup_survivor_minimal (conj C13_dedup_covers (conj C13_dedup_idempotent (conj C13_renumber_den (conj C13_dedup_den (conj C13_dedup_den_any_scalar (conj C13_dedup_helpers_survive (conj C13_dedup_writer_finds_surfaces C13_dedup_all_empty_refuted))))))))))))) in exact t).
Proof. exact (conj C13_dedup_merges_equal (conj C13_dedup_merges_tested (conj C13_desc_eqb_sound (conj C13_hash_consistent (conj C13_dedup_survivor_smallest (conj C13_dedup_survivor_minimal (conj C13_dedup_covers (conj C13_dedup_idempotent (conj C13_renumber_den (conj C13_dedup_den (conj C13_dedup_den_any_scalar (conj C13_dedup_helpers_survive (conj C13_dedup_writer_finds_surfaces C13_dedup_all_empty_refuted))))))))))))). Qed.
Print Assumptions C13_family_dedup.

(* the volume tables after remove_empty_volumes / the tail of convertMCNPGeometry, --skip-deduplication on and off *)
Theorem C13_family_written :
  ltac:(let t := type of (conj C13_remove_empty_sound (conj C13_finish_sound (conj C13_written_same_dedup C13_vden_model))) in exact t).
Proof. exact (conj C13_remove_empty_sound (conj C13_finish_sound (conj C13_written_same_dedup C13_vden_model))). Qed.
Print Assumptions C13_family_written.

(* find_occurrences, the score, inline_cells: every set, acyclic tables, fuel *)
Theorem C13_family_inline :
  ltac:(let t := type of (conj C13_inline_den (conj C13_inline_score_den (conj C13_find_occurrences_sound (conj C13_find_occurrences_complete (conj C13_find_occurrences_count (conj C13_inline_complete (conj C13_inline_model (conj C13_inline_total C13_acyclic_unique_model)))))))) in exact t).
Proof. exact (conj C13_inline_den (conj C13_inline_score_den (conj C13_find_occurrences_sound (conj C13_find_occurrences_complete (conj C13_find_occurrences_count (conj C13_inline_complete (conj C13_inline_model (conj C13_inline_total C13_acyclic_unique_model)))))))). Qed.
Print Assumptions C13_family_inline.

(* pot_fill under the inline flags, with and without transformations; both stages of the options *)
Theorem C13_family_fill :
  ltac:(let t := type of (conj C13_fill_geometry_den (conj C13_cell_transform_den (conj C13_fill_geometry_den_tr (conj C13_pot_fill_tr_spec (conj C13_fill_tr_two_runs (conj C13_fill_flags_lockstep (conj C13_options_same_geometry (conj C13_senv_of_ok (conj C13_pot_fill_tr_inv (conj C13_pot_fill_tr_acyclic (conj C13_final_state_model C13_fill_tr_items))))))))))) in exact t).
Proof. exact (conj C13_fill_geometry_den (conj C13_cell_transform_den (conj C13_fill_geometry_den_tr (conj C13_pot_fill_tr_spec (conj C13_fill_tr_two_runs (conj C13_fill_flags_lockstep (conj C13_options_same_geometry (conj C13_senv_of_ok (conj C13_pot_fill_tr_inv (conj C13_pot_fill_tr_acyclic (conj C13_final_state_model C13_fill_tr_items))))))))))). Qed.
Print Assumptions C13_family_fill.

(* composed with C01 (conversion loop, prune, written): the property for two option vectors *)
Theorem C13_family_linked :
  ltac:(let t := type of (conj C13_merged_surfaces_equal_senses (conj C13_options_same_written_linked (conj C13_options_same_written_dedup_linked (conj C13_options_same_written_provenance_linked (conj C13_options_same_written_tr_linked (conj C13_options_same_written_tr_env_linked C13_finish_is_c01_prune_linked)))))) in exact t).
Proof. exact (conj C13_merged_surfaces_equal_senses (conj C13_options_same_written_linked (conj C13_options_same_written_dedup_linked (conj C13_options_same_written_provenance_linked (conj C13_options_same_written_tr_linked (conj C13_options_same_written_tr_env_linked C13_finish_is_c01_prune_linked)))))). Qed.
Print Assumptions C13_family_linked.

