(* C13 — De-duplication and inlining options never change the geometry.
   Only restatements; proofs are in C13/Proofs*.v. *)
From Coq Require Import List ZArith NArith Bool Reals.
From T4V Require Import Base.Scalar C13.Model C13.Spec C13.Proofs.
Import ListNotations.
Open Scope Z_scope.

(* --always-inline-filled / --always-inline-filling: whichever of the four
   shapes pot_fill gives to a filled cell, it denotes container AND filler *)
Theorem C13_fill_geometry_den : forall sigma rho dic fd fg key cell elt ec,
  is_model sigma rho dic ->
  lookup key dic = Some cell -> lookup elt dic = Some ec ->
  geval sigma rho (fill_geometry fd fg key (cgeom cell) elt (cgeom ec)) = rho key && rho elt.
Proof. exact fill_geometry_den. Qed.
Print Assumptions C13_fill_geometry_den.
