(* C16 — Reflecting and white surfaces become boundary conditions on the right
   surfaces.  Only restatements; proofs are in C16/Proofs.v. *)
From Coq Require Import List NArith ZArith Bool String Ascii Lia.
From T4V Require Import Base.Str C16.Model C16.Proofs.
Import ListNotations.
Open Scope string_scope.

(* re_name: one leading star / plus is the flag, the digits are the number *)
Theorem C16_split_flags_star : forall n : string, n <> "" -> all_digits n = true ->
  split_flags (String "*" n) = ("*", n).
Proof. exact split_flags_star. Qed.
Print Assumptions C16_split_flags_star.

Theorem C16_split_flags_plus : forall n : string, n <> "" -> all_digits n = true ->
  split_flags (String "+" n) = ("+", n).
Proof. exact split_flags_plus. Qed.
Print Assumptions C16_split_flags_plus.

Theorem C16_split_flags_none : forall n : string, n <> "" -> all_digits n = true ->
  split_flags n = ("", n).
Proof. exact split_flags_digits. Qed.
Print Assumptions C16_split_flags_none.

(* the parsed surface dictionary has one entry per surface number *)
Theorem C16_parsed_keys_distinct : forall (cards : list scard) (t : table),
  parse_cards cards [] = Ok t -> NoDup (map fst t).
Proof. exact parsed_keys_distinct. Qed.
Print Assumptions C16_parsed_keys_distinct.

(* bc_kind: star -> REFLECTION, plus -> COSINUS, no flag -> no entry (whatever
   the other cards are, as long as the block is produced) *)
Theorem C16_bc_kind : forall (t : table) (l : list (kind * N)) (k : N) (e : entry),
  bc_entries t = Ok l -> In (k, e) t ->
  (e_flag e = "*" -> In (Reflection, k) l) /\
  (e_flag e = "+" -> In (Cosinus, k) l) /\
  (NoDup (map fst t) -> e_flag e = "" -> forall kd, ~ In (kd, k) l).
Proof. exact bc_kind. Qed.
Print Assumptions C16_bc_kind.

(* exactly one entry designates the number of a flagged surface, none that of
   an unflagged one *)
Theorem C16_bc_one_per_flag : forall (t : table) (l : list (kind * N)) (k : N) (e : entry),
  NoDup (map fst t) -> bc_entries t = Ok l -> In (k, e) t ->
  count_key k l = if String.eqb (e_flag e) "" then 0%nat else 1%nat.
Proof. exact bc_one_per_flag. Qed.
Print Assumptions C16_bc_one_per_flag.

(* with MCNP's flags only and no flagged macrobody the block is exactly the
   flagged numbers, in card order, each with the kind of its flag *)
Theorem C16_bc_entries_exact : forall t : table,
  proper t -> bc_entries t = Ok (flat_map entry_of t).
Proof. exact bc_entries_exact. Qed.
Print Assumptions C16_bc_entries_exact.

(* a flag on a macrobody (more than one facet) is rejected, used or not ... *)
Theorem C16_macrobody_flag_rejected : forall (t : table) (k : N) (e : entry),
  In (k, e) t -> e_flag e <> "" -> (1 < e_mcnp e)%nat ->
  bc_entries t = Err ENotImplemented.
Proof. exact macrobody_flag_rejected. Qed.
Print Assumptions C16_macrobody_flag_rejected.

(* ... and the run as a whole does not succeed *)
Theorem C16_macrobody_flag_stops_run :
  forall (cfg : config) (cards : list scard) (cells : list cell) (t : table) (k : N) (e : entry),
  skip_bc cfg = false -> parse_cards cards [] = Ok t ->
  In (k, e) t -> e_flag e <> "" -> (1 < e_mcnp e)%nat ->
  exists err, run cfg cards cells = Err err.
Proof. exact macrobody_flag_stops_run. Qed.
Print Assumptions C16_macrobody_flag_stops_run.

(* the written SURF lines: exactly the representatives (after de-duplication)
   of the surfaces used by the cells that survive, each with its descriptor *)
Theorem C16_written_surfaces_exact :
  forall (dedup : bool) (t : table) (cells : list cell) (surfs : list (N * N)) (k d : N),
  geometry dedup t cells = Ok surfs ->
  (In (k, d) surfs <->
   dict_get k (number_items t) = Some d /\
   exists c k0, In c cells /\ survives dedup (number_items t) c /\ bounds c k0 /\
                repr_of dedup (number_items t) k0 = Some k).
Proof. exact written_surfaces_exact. Qed.
Print Assumptions C16_written_surfaces_exact.

(* bc_designates_present_same_locus, under the guard the code needs: the
   flagged surface is used by a cell that survives, and either de-duplication
   is off or the surface is the smallest-numbered among its duplicates.  Then
   its entry has the kind of the flag and designates a written SURF line whose
   descriptor is the flagged surface's own (hence the same locus). *)
Theorem C16_bc_designates_present_same_locus :
  forall (cfg : config) (cards : list scard) (cells : list cell) (t : table)
         (surfs : list (N * N)) (bcs : list (kind * N)) (k : N) (e : entry),
  skip_bc cfg = false ->
  parse_cards cards [] = Ok t ->
  run cfg cards cells = Ok (surfs, bcs) ->
  In (k, e) t -> (e_flag e = "*" \/ e_flag e = "+") ->
  (exists c, In c cells /\ survives (negb (skip_dedup cfg)) (number_items t) c /\ bounds c k) ->
  (skip_dedup cfg = true \/ smallest_dup (number_items t) k) ->
  In (kind_of (e_flag e), k) bcs /\ In (k, e_first e) surfs.
Proof. exact bc_designates_present_same_locus. Qed.
Print Assumptions C16_bc_designates_present_same_locus.

(* without the second half of the guard the statement is false: *2 PX 0 and
   *3 PX 0, the cell uses 3; the block designates 3, only SURF 2 is written
   (DESIGN 8 #12, finding class bc_on_deduplicated_surface) *)
Theorem C16_bc_dedup_refuted :
  exists t surfs bcs k e c,
    parse_cards w_dedup_cards [] = Ok t /\
    run (mkCfg false false) w_dedup_cards w_dedup_cells = Ok (surfs, bcs) /\
    In (k, e) t /\ e_flag e = "*" /\
    In c w_dedup_cells /\ survives true (number_items t) c /\ bounds c k /\
    In (Reflection, k) bcs /\ ~ In k (map fst surfs).
Proof. exact bc_dedup_refuted. Qed.
Print Assumptions C16_bc_dedup_refuted.

(* without the first half: *5 PY 7 used by no cell still gets an entry, with
   or without de-duplication, and there is no SURF 5 (finding class
   bc_on_unused_surface) *)
Theorem C16_bc_unused_refuted :
  exists t surfs bcs e,
    parse_cards w_unused_cards [] = Ok t /\
    (forall dedup, run (mkCfg dedup false) w_unused_cards w_unused_cells = Ok (surfs, bcs)) /\
    In (5%N, e) t /\ e_flag e = "*" /\ smallest_dup (number_items t) 5 /\
    In (Reflection, 5%N) bcs /\ ~ In 5%N (map fst surfs).
Proof. exact bc_unused_refuted. Qed.
Print Assumptions C16_bc_unused_refuted.

(* quirk of conversionBoundCond: a flag that is neither one star nor one plus
   (the card regex accepts any run of them) is an UnboundLocalError when it
   comes first and silently takes the previous entry's kind otherwise *)
Theorem C16_bc_stale_kind_quirk : forall (k : N) (f : string) (r : list (N * string)),
  f <> "*" -> f <> "+" ->
  conv_kinds ((k, f) :: r) None = Err EUnbound /\
  forall kd out, conv_kinds ((k, f) :: r) (Some kd) = Ok out -> In (kd, k) out.
Proof. exact stale_kind_quirk. Qed.
Print Assumptions C16_bc_stale_kind_quirk.

(* non-vacuity: a deck with a reflecting plane that has a larger-numbered
   duplicate, a white sphere, an unflagged plane, de-duplication on; every
   hypothesis of the main theorem holds for the reflecting plane 2 *)
Example C16_example :
  let cards := [mkS "1" 1 5 []; mkS "*2" 1 7 []; mkS "3" 1 7 []; mkS "+9" 1 8 []] in
  let cells := [(1%N, [(-1)%Z; 2%Z; (-9)%Z]); (2%N, [3%Z; (-2)%Z])] in
  exists t e,
    parse_cards cards [] = Ok t /\
    run (mkCfg false false) cards cells =
      Ok ([(1, 5); (2, 7); (9, 8)]%N, [(Reflection, 2%N); (Cosinus, 9%N)]) /\
    In (2%N, e) t /\ e_flag e = "*" /\
    (exists c, In c cells /\ survives true (number_items t) c /\ bounds c 2) /\
    smallest_dup (number_items t) 2.
Proof.
  cbv zeta. eexists. eexists.
  split; [vm_compute; reflexivity|].
  split; [vm_compute; reflexivity|].
  split; [right; left; reflexivity|].
  split; [reflexivity|].
  split.
  - exists (1%N, [(-1)%Z; 2%Z; (-9)%Z]). split; [left; reflexivity|]. split.
    + exists [2%N], [1%N; 9%N]. repeat split; vm_compute; reflexivity.
    + left. left. reflexivity.
  - intros d k' Hd Hin. vm_compute in Hd. inversion Hd; subst d. vm_compute in Hin.
    destruct Hin as [H|[H|[H|[H|[]]]]]; inversion H; subst; lia.
Qed.
