(* C16 — Reflecting and white surfaces become boundary conditions on the right
   surfaces.  Only restatements; proofs are in C16/Proofs.v. *)
From Coq Require Import List NArith ZArith Bool String Ascii Lia Reals.
From T4V Require Import Base.Str Base.Scalar C16.Model C16.Proofs C16.Trcl C16.LinkC13 C16.LinkCells C16.LinkClasses C16.LinkAll.
From T4V Require C13.Model C01.Model C01.Spec C01.ProofsTree C01.ProofsPrune C16.LinkC01.
Import ListNotations.
Open Scope string_scope.

(* re_name: one leading star / plus is the flag, the digits are the number *)
Theorem C16_split_flags_star : forall n : string, n <> "" -> all_digits n = true ->
  split_flags (String "*" n) = ("*", n).
Proof. exact split_flags_star. Qed.
Print Assumptions C16_split_flags_star.

Theorem C16_split_flags_plus : forall n : string, n <> "" -> all_digits n = true ->
  split_flags (String "+" n) = ("+", n).
Proof. exact split_flags_plus. Qed.
Print Assumptions C16_split_flags_plus.

Theorem C16_split_flags_none : forall n : string, n <> "" -> all_digits n = true ->
  split_flags n = ("", n).
Proof. exact split_flags_digits. Qed.
Print Assumptions C16_split_flags_none.

(* the parsed surface dictionary has one entry per surface number *)
Theorem C16_parsed_keys_distinct : forall (cards : list scard) (t : table),
  parse_cards cards [] = Ok t -> NoDup (map fst t).
Proof. exact parsed_keys_distinct. Qed.
Print Assumptions C16_parsed_keys_distinct.

(* bc_kind, on the dictionary conversionBoundCond returns (the block is made
   from it by C16_bc_designates_present_same_locus / _entries_designate_written):
   star -> REFLECTION, plus -> COSINUS, no flag -> no entry *)
Theorem C16_bc_kind : forall (t : table) (l : list (kind * N)) (k : N) (e : entry),
  bc_entries t = Ok l -> In (k, e) t ->
  (e_flag e = "*" -> In (Reflection, k) l) /\
  (e_flag e = "+" -> In (Cosinus, k) l) /\
  (NoDup (map fst t) -> e_flag e = "" -> forall kd, ~ In (kd, k) l).
Proof. exact bc_kind. Qed.
Print Assumptions C16_bc_kind.

(* in that dictionary exactly one entry has the number of a flagged surface,
   none that of an unflagged one *)
Theorem C16_bc_one_per_flag : forall (t : table) (l : list (kind * N)) (k : N) (e : entry),
  NoDup (map fst t) -> bc_entries t = Ok l -> In (k, e) t ->
  count_key k l = if String.eqb (e_flag e) "" then 0%nat else 1%nat.
Proof. exact bc_one_per_flag. Qed.
Print Assumptions C16_bc_one_per_flag.

(* with MCNP's flags only and no flagged macrobody that dictionary is exactly
   the flagged numbers, in card order, each with the kind of its flag *)
Theorem C16_bc_entries_exact : forall t : table,
  proper t -> bc_entries t = Ok (flat_map entry_of t).
Proof. exact bc_entries_exact. Qed.
Print Assumptions C16_bc_entries_exact.

(* a flag on a macrobody (more than one facet) is rejected, used or not ... *)
Theorem C16_macrobody_flag_rejected : forall (t : table) (k : N) (e : entry),
  In (k, e) t -> e_flag e <> "" -> (1 < e_mcnp e)%nat ->
  bc_entries t = Err ENotImplemented.
Proof. exact macrobody_flag_rejected. Qed.
Print Assumptions C16_macrobody_flag_rejected.

(* ... and the run as a whole does not succeed *)
Theorem C16_macrobody_flag_stops_run :
  forall (cfg : config) (cards : list scard) (cells : list cell) (t : table) (k : N) (e : entry),
  skip_bc cfg = false -> parse_cards cards [] = Ok t ->
  In (k, e) t -> e_flag e <> "" -> (1 < e_mcnp e)%nat ->
  exists err, run cfg cards cells = Err err.
Proof. exact macrobody_flag_stops_run. Qed.
Print Assumptions C16_macrobody_flag_stops_run.

(* the written SURF lines: exactly the representatives (after de-duplication)
   of the TRIPOLI-4 surfaces (sub-surfaces of collections included, in the
   cell's equation or in a UNION volume) used by the volumes of the cells that
   survive, each with its descriptor - plus what a cell deleted after
   de-duplication leaves behind: remove_unused_volumes makes one pass, so the
   FICTIVE arguments of its UNION volumes stay in the file *)
Theorem C16_written_surfaces_exact :
  forall (dedup : bool) (t : table) (cells : list cell) (surfs : list (N * N)) (k d : N),
  geometry dedup t cells = Ok surfs ->
  (In (k, d) surfs <->
   dict_get k (number_items t) = Some d /\
   exists c, In c cells /\
     ((survives dedup (number_items t) (matching_of t) c /\
       exists k0, uses (matching_of t) c k0 /\ repr_of dedup (number_items t) k0 = Some k) \/
      leaves dedup (number_items t) (matching_of t) c k)).
Proof. exact written_surfaces_exact. Qed.
Print Assumptions C16_written_surfaces_exact.

(* bc_designates_present_same_locus, no guard (writeT4BoundCond as repaired in
   /repo 540bd39): a flagged surface that bounds a converted cell that survives
   has an entry of the kind of its flag on its representative k' (itself, or
   the smallest-numbered surface with an equal descriptor when de-duplication
   is on); exactly one entry designates k'; and SURF k' is written with the
   flagged surface's own descriptor (hence its locus). *)
Theorem C16_bc_designates_present_same_locus :
  forall (cfg : config) (cards : list scard) (cells : list cell) (t : table)
         (surfs : list (N * N)) (bcs : list (kind * N)) (k : N) (e : entry),
  skip_bc cfg = false ->
  parse_cards cards [] = Ok t ->
  run cfg cards cells = Ok (surfs, bcs) ->
  In (k, e) t -> (e_flag e = "*" \/ e_flag e = "+") ->
  (exists c, In c cells /\ survives (negb (skip_dedup cfg)) (number_items t) (matching_of t) c /\
             names c k) ->
  let k' := rep (negb (skip_dedup cfg)) (number_items t) k in
  In (kind_of (e_flag e), k') bcs /\ count_key k' bcs = 1%nat /\ In (k', e_first e) surfs.
Proof. exact bc_designates_present_same_locus. Qed.
Print Assumptions C16_bc_designates_present_same_locus.

(* the converse, no guard: every entry of the block designates a written SURF
   that carries the descriptor of a flagged surface of the entry's kind, and
   no two entries designate the same SURF (so unflagged loci yield none) *)
Theorem C16_bc_entries_designate_written :
  forall (cfg : config) (cards : list scard) (cells : list cell) (t : table)
         (surfs : list (N * N)) (bcs : list (kind * N)),
  skip_bc cfg = false ->
  parse_cards cards [] = Ok t ->
  run cfg cards cells = Ok (surfs, bcs) ->
  NoDup (map snd bcs) /\
  forall kd k', In (kd, k') bcs ->
    exists k e, In (k, e) t /\ e_flag e <> "" /\
      (e_flag e = "*" -> kd = Reflection) /\ (e_flag e = "+" -> kd = Cosinus) /\
      rep (negb (skip_dedup cfg)) (number_items t) k = k' /\ In (k', e_first e) surfs.
Proof. exact bc_entries_designate_written. Qed.
Print Assumptions C16_bc_entries_designate_written.

(* two coincident surfaces, one reflecting and one white, whose common
   representative is written: the run stops with a ValueError *)
Theorem C16_conflicting_flags_rejected :
  forall (cfg : config) (cards : list scard) (cells : list cell) (t : table)
         (surfs : list (N * N)) (k1 : N) (e1 : entry) (k2 : N) (e2 : entry),
  skip_bc cfg = false ->
  parse_cards cards [] = Ok t -> proper t ->
  geometry (negb (skip_dedup cfg)) t cells = Ok surfs ->
  In (k1, e1) t -> e_flag e1 = "*" -> In (k2, e2) t -> e_flag e2 = "+" ->
  rep (negb (skip_dedup cfg)) (number_items t) k1 = rep (negb (skip_dedup cfg)) (number_items t) k2 ->
  In (rep (negb (skip_dedup cfg)) (number_items t) k1) (map fst surfs) ->
  run cfg cards cells = Err EValue.
Proof. exact conflicting_flags_rejected. Qed.
Print Assumptions C16_conflicting_flags_rejected.

(* which written surface carries the entry of a collection (one-sheet cone:
   the flagged number designates the cone, the auxiliary plane gets a fresh id
   above every surface number): every designated number is a surface number of
   the dictionary, so no auxiliary sub-surface ever carries an entry; with
   C16_bc_designates_present_same_locus the entry of *k KZ ... +-1 is on rep k
   and that SURF has the descriptor of the first sub-surface, the cone *)
Theorem C16_bc_designates_keys :
  forall (cfg : config) (cards : list scard) (cells : list cell) (t : table)
         (surfs : list (N * N)) (bcs : list (kind * N)) (kd : kind) (k' : N),
  skip_bc cfg = false ->
  parse_cards cards [] = Ok t ->
  run cfg cards cells = Ok (surfs, bcs) -> In (kd, k') bcs ->
  In k' (map fst t) /\ (k' <= max_key t)%N.
Proof. exact bc_designates_keys. Qed.
Print Assumptions C16_bc_designates_keys.

Theorem C16_aux_ids_above : forall (t : table) (x : N),
  In x (map fst (number_items t)) -> ~ In x (map fst t) -> (max_key t < x)%N.
Proof.
  intros t x Hx Hn. unfold number_items in Hx.
  assert (H : (N.succ (max_key t) <= x)%N).
  { eapply aux_ids_above; eauto. intros k e Hin. pose proof (max_key_ge t k e Hin). lia. }
  lia.
Qed.
Print Assumptions C16_aux_ids_above.

(* the TRIPOLI-4 numbering has distinct ids (keys, then fresh ids for the
   other parts) *)
Theorem C16_number_items_distinct : forall t : table,
  NoDup (map fst t) -> NoDup (map fst (number_items t)).
Proof. exact number_items_nodup. Qed.
Print Assumptions C16_number_items_distinct.

(* the two main statements for ANY complete surface dictionary with distinct
   keys and ANY list of cells (each an intersection of parts): this is what
   every pass that adds copies (TRCL, 1000 * cell + surface, and the FILL
   development, which is not modelled) feeds; the statements about [run] and
   [run_t] are instances *)
Theorem C16_finish_designates :
  forall (cfg : config) (t : table) (cells : list cell)
         (surfs : list (N * N)) (bcs : list (kind * N)) (k : N) (e : entry),
  skip_bc cfg = false -> NoDup (map fst t) ->
  finish cfg t cells = Ok (surfs, bcs) ->
  In (k, e) t -> (e_flag e = "*" \/ e_flag e = "+") ->
  (exists c, In c cells /\ survives (negb (skip_dedup cfg)) (number_items t) (matching_of t) c /\
             names c k) ->
  let k' := rep (negb (skip_dedup cfg)) (number_items t) k in
  In (kind_of (e_flag e), k') bcs /\ count_key k' bcs = 1%nat /\ In (k', e_first e) surfs.
Proof. exact finish_designates. Qed.
Print Assumptions C16_finish_designates.

Theorem C16_finish_sound :
  forall (cfg : config) (t : table) (cells : list cell)
         (surfs : list (N * N)) (bcs : list (kind * N)),
  skip_bc cfg = false -> NoDup (map fst t) ->
  finish cfg t cells = Ok (surfs, bcs) ->
  NoDup (map snd bcs) /\
  forall kd k', In (kd, k') bcs ->
    exists k e, In (k, e) t /\ e_flag e <> "" /\
      (e_flag e = "*" -> kd = Reflection) /\ (e_flag e = "+" -> kd = Cosinus) /\
      rep (negb (skip_dedup cfg)) (number_items t) k = k' /\ In (k', e_first e) surfs.
Proof. exact finish_sound. Qed.
Print Assumptions C16_finish_sound.

(* ---- decks whose cells may carry TRCL (what the correspondence executes) -- *)
(* [ids] is the order in which the converter walks the Python set of implicit
   surfaces 1000 * cell + surface.  Every statement below is for ANY list: no
   theorem depends on that order ([run_t] is the ascending walk; the
   correspondence feeds the order Python really used).  What does depend on it
   in the written file: the order of the ALL_COMPLETE lines of two implicit
   surfaces, and which fresh id each auxiliary sub-surface gets when several
   implicit surfaces exist and one is a collection. *)

(* [run] is [run_t] on decks whose cells are all converted and carry no TRCL,
   so the statements about [run] above are statements about [run_t] *)
Theorem C16_run_t_plain : forall (cfg : config) (cards : list scard) (cs : list (N * list Z)),
  (forall c z, In c cs -> In z (snd c) -> (Z.abs_N z < 1000)%N) ->
  run_t cfg cards (map plain cs) = run cfg cards (map one_part cs).
Proof. exact run_t_plain. Qed.
Print Assumptions C16_run_t_plain.

(* the surface dictionary once every copy is made: the parsed cards, then the
   implicit surfaces 1000 * cell + surface, then the copies made for the
   literals of cells with TRCL; all keys distinct; every addition carries the
   flag (and part count) of a parsed card *)
Theorem C16_expanded_table : forall (ids : list N),
  forall (t : table) (cells : list (bool * cell)) (t' : table) (cs : list tcell),
  NoDup (map fst t) ->
  expand_table_with ids cs t = Ok (cells, t') ->
  NoDup (map fst t') /\
  (forall k e, In (k, e) t -> In (k, e) t') /\
  (forall k e, In (k, e) t' -> inherits t e).
Proof. exact expanded_table. Qed.
Print Assumptions C16_expanded_table.

(* the main statement with TRCL, no guard, for every flagged entry of the
   expanded dictionary (a parsed card or the copy made for a literal of a cell
   with TRCL) that bounds a converted cell that survives *)
Theorem C16_bc_designates_present_same_locus_trcl : forall (ids : list N),
  forall (cfg : config) (cards : list scard) (tcells : list tcell) (t : table)
         (cells : list (bool * cell)) (t' : table)
         (surfs : list (N * N)) (bcs : list (kind * N)) (k : N) (e : entry),
  skip_bc cfg = false ->
  parse_cards cards [] = Ok t ->
  expand_table_with ids tcells t = Ok (cells, t') ->
  run_t_with ids cfg cards tcells = Ok (surfs, bcs) ->
  In (k, e) t' -> (e_flag e = "*" \/ e_flag e = "+") ->
  (exists c, In c (converted cells) /\
             survives (negb (skip_dedup cfg)) (number_items t') (matching_of t') c /\
             names c k) ->
  let k' := rep (negb (skip_dedup cfg)) (number_items t') k in
  In (kind_of (e_flag e), k') bcs /\ count_key k' bcs = 1%nat /\ In (k', e_first e) surfs.
Proof. exact bc_designates_present_same_locus_trcl. Qed.
Print Assumptions C16_bc_designates_present_same_locus_trcl.

Theorem C16_bc_entries_designate_written_trcl : forall (ids : list N),
  forall (cfg : config) (cards : list scard) (tcells : list tcell) (t : table)
         (cells : list (bool * cell)) (t' : table)
         (surfs : list (N * N)) (bcs : list (kind * N)),
  skip_bc cfg = false ->
  parse_cards cards [] = Ok t ->
  expand_table_with ids tcells t = Ok (cells, t') ->
  run_t_with ids cfg cards tcells = Ok (surfs, bcs) ->
  NoDup (map snd bcs) /\
  forall kd k', In (kd, k') bcs ->
    exists k e, In (k, e) t' /\ inherits t e /\ e_flag e <> "" /\
      (e_flag e = "*" -> kd = Reflection) /\ (e_flag e = "+" -> kd = Cosinus) /\
      rep (negb (skip_dedup cfg)) (number_items t') k = k' /\ In (k', e_first e) surfs.
Proof. exact bc_entries_designate_written_trcl. Qed.
Print Assumptions C16_bc_entries_designate_written_trcl.

Theorem C16_conflicting_flags_rejected_trcl : forall (ids : list N),
  forall (cfg : config) (cards : list scard) (tcells : list tcell) (t : table)
         (cells : list (bool * cell)) (t' : table) (surfs : list (N * N))
         (k1 : N) (e1 : entry) (k2 : N) (e2 : entry),
  skip_bc cfg = false ->
  parse_cards cards [] = Ok t -> proper t ->
  expand_table_with ids tcells t = Ok (cells, t') ->
  geometry (negb (skip_dedup cfg)) t' (converted cells) = Ok surfs ->
  In (k1, e1) t' -> e_flag e1 = "*" -> In (k2, e2) t' -> e_flag e2 = "+" ->
  rep (negb (skip_dedup cfg)) (number_items t') k1 =
    rep (negb (skip_dedup cfg)) (number_items t') k2 ->
  In (rep (negb (skip_dedup cfg)) (number_items t') k1) (map fst surfs) ->
  run_t_with ids cfg cards tcells = Err EValue.
Proof. exact conflicting_flags_rejected_trcl. Qed.
Print Assumptions C16_conflicting_flags_rejected_trcl.

(* every literal of a cell with TRCL gets a copy in the dictionary that
   carries the flag of the surface it names and the transformed descriptor *)
Theorem C16_trcl_copy_in_table : forall (ids : list N),
  forall (cfg : config) (cards : list scard) (tcells : list tcell) (out : output)
         (c : tcell) (l : lit),
  run_t_with ids cfg cards tcells = Ok out ->
  In c tcells -> tc_trcl c = true -> In l (tc_lits c) ->
  exists t cells t' e k',
    parse_cards cards [] = Ok t /\
    expand_table_with ids tcells t = Ok (cells, t') /\
    dict_get (Z.abs_N (l_z l)) t' = Some e /\
    In (k', mkE (e_flag e) (e_mcnp e) (l_cls l) (l_aux l) (l_sides l)) t'.
Proof. exact trcl_copy_in_table. Qed.
Print Assumptions C16_trcl_copy_in_table.

Theorem C16_bc_designates_keys_trcl : forall (ids : list N),
  forall (cfg : config) (cards : list scard) (tcells : list tcell) (t : table)
         (cells : list (bool * cell)) (t' : table)
         (surfs : list (N * N)) (bcs : list (kind * N)) (kd : kind) (k' : N),
  skip_bc cfg = false ->
  parse_cards cards [] = Ok t ->
  expand_table_with ids tcells t = Ok (cells, t') ->
  run_t_with ids cfg cards tcells = Ok (surfs, bcs) -> In (kd, k') bcs ->
  In k' (map fst t') /\ (k' <= max_key t')%N.
Proof. exact bc_designates_keys_trcl. Qed.
Print Assumptions C16_bc_designates_keys_trcl.

(* unflagged surfaces yield none: a deck without a flagged card has no entry,
   whatever its cells and their TRCL *)
Theorem C16_unflagged_deck_no_entries : forall (ids : list N),
  forall (cfg : config) (cards : list scard) (tcells : list tcell)
         (surfs : list (N * N)) (bcs : list (kind * N)),
  (forall t k e, parse_cards cards [] = Ok t -> In (k, e) t -> e_flag e = "") ->
  run_t_with ids cfg cards tcells = Ok (surfs, bcs) -> bcs = [].
Proof. exact unflagged_deck_no_entries. Qed.
Print Assumptions C16_unflagged_deck_no_entries.

(* a flag on a macrobody stops the run, with TRCL cells too *)
Theorem C16_macrobody_flag_stops_run_t : forall (ids : list N),
  forall (cfg : config) (cards : list scard) (tcells : list tcell) (t : table) (k : N) (e : entry),
  skip_bc cfg = false -> parse_cards cards [] = Ok t ->
  In (k, e) t -> e_flag e <> "" -> (1 < e_mcnp e)%nat ->
  exists err, run_t_with ids cfg cards tcells = Err err.
Proof. exact macrobody_flag_stops_run_t. Qed.
Print Assumptions C16_macrobody_flag_stops_run_t.

(* every entry of conversionBoundCond's dictionary comes from a flagged
   surface (or a copy of one) and has the kind of its flag *)
Theorem C16_bc_entry_sound : forall (t : table) (l : list (kind * N)) (kd : kind) (k : N),
  NoDup (map fst t) -> bc_entries t = Ok l -> In (kd, k) l ->
  exists e, In (k, e) t /\ e_flag e <> "" /\
    (e_flag e = "*" -> kd = Reflection) /\ (e_flag e = "+" -> kd = Cosinus).
Proof. exact bc_entry_sound. Qed.
Print Assumptions C16_bc_entry_sound.

(* quirk of conversionBoundCond: a flag that is neither one star nor one plus
   (the card regex accepts any run of them) is an UnboundLocalError when it
   comes first and silently takes the previous entry's kind otherwise *)
Theorem C16_bc_stale_kind_quirk : forall (k : N) (f : string) (r : list (N * string)),
  f <> "*" -> f <> "+" ->
  conv_kinds ((k, f) :: r) None = Err EUnbound /\
  forall kd out, conv_kinds ((k, f) :: r) (Some kd) = Ok out -> In (kd, k) out.
Proof. exact stale_kind_quirk. Qed.
Print Assumptions C16_bc_stale_kind_quirk.

(* non-vacuity: a reflecting plane 3 whose smaller-numbered duplicate 2 is
   unflagged, a white sphere, de-duplication on; the hypotheses of the main
   theorem hold for 3, its entry is on SURF 2 *)
Example C16_example :
  let cards := [mkS "1" 1 5 [] []; mkS "2" 1 7 [] []; mkS "*3" 1 7 [] []; mkS "+9" 1 8 [] []] in
  let cells := [(1%N, [[(-1)%Z; 3%Z; (-9)%Z]])] in
  exists t e,
    parse_cards cards [] = Ok t /\
    run (mkCfg false false) cards cells =
      Ok ([(1, 5); (2, 7); (9, 8)]%N, [(Reflection, 2%N); (Cosinus, 9%N)]) /\
    In (3%N, e) t /\ e_flag e = "*" /\
    (exists c, In c cells /\ survives true (number_items t) (matching_of t) c /\ names c 3) /\
    rep true (number_items t) 3 = 2%N.
Proof.
  cbv zeta. eexists. eexists.
  split; [vm_compute; reflexivity|].
  split; [vm_compute; reflexivity|].
  split; [right; right; left; reflexivity|].
  split; [reflexivity|].
  split; [|vm_compute; reflexivity].
  exists (1%N, [[(-1)%Z; 3%Z; (-9)%Z]]). split; [left; reflexivity|]. split.
  - eexists. eexists. vm_compute. reflexivity.
  - exists [(-1)%Z; 3%Z; (-9)%Z], 3%Z. split; [left; reflexivity|].
    split; [right; left; reflexivity|]. split; [discriminate|reflexivity].
Qed.

(* non-vacuity with TRCL: *2 PX 0 used only by a cell with TRCL=(1 0 0); the
   copy 7 (PX 1) satisfies the hypotheses; the block is its single entry *)
Example C16_example_trcl :
  exists t cells t' e,
    parse_cards w_trcl_cards [] = Ok t /\
    expand_table w_trcl_cells t = Ok (cells, t') /\
    run_t (mkCfg false false) w_trcl_cards w_trcl_cells =
      Ok ([(4, 9); (6, 15); (7, 8)]%N, [(Reflection, 7%N)]) /\
    In (7%N, e) t' /\ e_flag e = "*" /\ e_first e = 8%N /\
    (exists c, In c (converted cells) /\ survives true (number_items t') (matching_of t') c /\
               names c 7).
Proof.
  eexists. eexists. eexists. eexists.
  split; [vm_compute; reflexivity|].
  split; [vm_compute; reflexivity|].
  split; [vm_compute; reflexivity|].
  split; [do 4 right; left; reflexivity|].
  split; [reflexivity|]. split; [reflexivity|].
  exists (1%N, [[(-6)%Z; 7%Z; (-8)%Z]]). split; [left; reflexivity|]. split.
  - eexists. eexists. vm_compute. reflexivity.
  - exists [(-6)%Z; 7%Z; (-8)%Z], 7%Z. split; [left; reflexivity|].
    split; [right; left; reflexivity|]. split; [discriminate|reflexivity].
Qed.

(* non-vacuity of C16_conflicting_flags_rejected: *2 PX 0 and +3 PX 0, the cell
   uses 3, de-duplication on *)
Example C16_example_conflict :
  exists t surfs e1 e2,
    parse_cards w_conflict_cards [] = Ok t /\ proper t /\
    geometry true t w_dedup_cells = Ok surfs /\
    In (2%N, e1) t /\ e_flag e1 = "*" /\ In (3%N, e2) t /\ e_flag e2 = "+" /\
    rep true (number_items t) 2 = rep true (number_items t) 3 /\
    In (rep true (number_items t) 2) (map fst surfs) /\
    run (mkCfg false false) w_conflict_cards w_dedup_cells = Err EValue /\
    exists surfs', run (mkCfg true false) w_conflict_cards w_dedup_cells =
                   Ok (surfs', [(Cosinus, 3%N)]).
Proof.
  eexists. eexists. eexists. eexists.
  split; [vm_compute; reflexivity|].
  split.
  { intros k e [H|[H|[H|[H|[]]]]]; inversion H; subst; cbn;
      (split; [auto|intros _; lia]). }
  split; [vm_compute; reflexivity|].
  split; [right; left; reflexivity|]. split; [reflexivity|].
  split; [right; right; left; reflexivity|]. split; [reflexivity|].
  split; [vm_compute; reflexivity|].
  split; [vm_compute; auto|].
  split; [vm_compute; reflexivity|].
  eexists. vm_compute. reflexivity.
Qed.

(* the decks that failed before the repair, on the model of the repaired code *)
Example C16_regression_decks :
  run (mkCfg false false) w_dedup_cards w_dedup_cells =
    Ok ([(1, 5); (2, 7); (4, 9)]%N, [(Reflection, 2%N)]) /\
  (forall sd, run (mkCfg sd false) w_unused_cards w_unused_cells =
    Ok ([(1, 5); (2, 7); (4, 9)]%N, [])) /\
  run_t (mkCfg true false) w_trcl_cards w_trcl_cells =
    Ok ([(6, 15); (7, 8); (8, 9)]%N, [(Reflection, 7%N)]) /\
  run_t (mkCfg false false) w_copy_cards w_copy_cells =
    Ok ([(1, 5); (2, 7); (4, 9)]%N, [(Reflection, 2%N)]).
Proof.
  split; [vm_compute; reflexivity|].
  split; [intros []; vm_compute; reflexivity|].
  split; vm_compute; reflexivity.
Qed.

(* one-sheet cone: *7 KZ 0 1 1 and 3 PZ 0, de-duplication on.  The cell -7 3 -9
   becomes one volume with the cone 7 on the minus side and the plane on the
   plus side; the auxiliary plane (fresh id 10) is merged into 3; the entry is
   on the cone *)
Example C16_example_cone :
  exists t e,
    parse_cards w_cone_cards [] = Ok t /\
    number_items t = [(3, 8); (7, 14); (10, 8); (9, 11)]%N /\
    matching_of t = [(3%N, [3%Z]); (7%N, [7%Z; (-10)%Z]); (9%N, [9%Z])] /\
    run (mkCfg false false) w_cone_cards w_cone_cells =
      Ok ([(3, 8); (7, 14); (9, 11)]%N, [(Reflection, 7%N)]) /\
    run (mkCfg true false) w_cone_cards w_cone_cells =
      Ok ([(3, 8); (7, 14); (9, 11); (10, 8)]%N, [(Reflection, 7%N)]) /\
    In (7%N, e) t /\ e_flag e = "*" /\ e_aux e = [8%N] /\
    (exists c, In c w_cone_cells /\ survives true (number_items t) (matching_of t) c /\
               names c 7).
Proof.
  eexists. eexists.
  split; [vm_compute; reflexivity|].
  split; [vm_compute; reflexivity|].
  split; [vm_compute; reflexivity|].
  split; [vm_compute; reflexivity|].
  split; [vm_compute; reflexivity|].
  split; [right; left; reflexivity|]. split; [reflexivity|]. split; [reflexivity|].
  exists (1%N, [[(-7)%Z; 3%Z; (-9)%Z]]). split; [left; reflexivity|]. split.
  - eexists. eexists. vm_compute. reflexivity.
  - exists [(-7)%Z; 3%Z; (-9)%Z], (-7)%Z. split; [left; reflexivity|].
    split; [left; reflexivity|]. split; [discriminate|reflexivity].
Qed.

(* surface numbers >= 1000: *7 PX 0 (class 7); cell 2 has TRCL=(1 0 0) and does
   not name 7; cell 3 (no TRCL) names 2007 = surface 7 as moved by the TRCL of
   cell 2 (PX 1: class 8).  The implicit surface inherits the flag: its entry
   is on SURF 2007; the card 7 itself bounds nothing and has no entry *)
Example C16_example_implicit :
  let cards := [mkS "1" 1 5 [] []; mkS "*7" 1 7 [] []; mkS "4" 1 9 [] []] in
  let tcells := [mkC 2 true true [mkL (-1) 15 [] []] [(7%N, mkD 8 [] [])];
                 mkC 3 true false [mkL 2007 0 [] []; mkL (-4) 0 [] []] []] in
  exists t cells t' e,
    parse_cards cards [] = Ok t /\ expand_table tcells t = Ok (cells, t') /\
    In (2007%N, e) t' /\ e_flag e = "*" /\ e_first e = 8%N /\
    run_t (mkCfg false false) cards tcells =
      Ok ([(4, 9); (2007, 8); (2009, 15)]%N, [(Reflection, 2007%N)]).
Proof.
  cbv zeta. eexists. eexists. eexists. eexists.
  split; [vm_compute; reflexivity|]. split; [vm_compute; reflexivity|].
  split; [do 3 right; left; reflexivity|]. split; [reflexivity|]. split; [reflexivity|].
  vm_compute. reflexivity.
Qed.

(* ======================================================================== *)
(* Linked with C13 (read-only).  C13.Model.finish is C13's model of the part of
   convertMCNPGeometry that decides the SURF lines, for ARBITRARY volume tables
   (equations with UNION / INTE operators and FICTIVE volumes: what FILL
   development, unions and complements produce) over the real SurfaceT4
   descriptors.  [block13] puts C16's block on top of it: the renumbering is
   C13's, surf_used is C13's list of written ids, the dictionary [l] is C16's
   conversionBoundCond ([bc_entries] of any table with distinct keys: cards,
   implicit surfaces, TRCL and FILL copies).  The function run is C16's own:   *)
Theorem C16_merge_entries_gen : forall dedup nb used l acc,
  merge_entries dedup nb used l acc = merge_gen (rep dedup nb) used l acc.
Proof. exact merge_entries_gen. Qed.
Print Assumptions C16_merge_entries_gen.

(* the main statement, linked: a flagged surface whose representative (C13's
   renumbering) is used by a written volume has exactly one entry, of its kind,
   on that representative, and the representative is kept in the writer's table
   with the SAME DESCRIPTOR OVER THE REALS as the flagged surface (C13: only
   equal descriptors are merged, C13_desc_eqb_sound) - the same locus, not just
   the same class of a harness table *)
Theorem C16_bc_designates_present_same_locus_linked :
  forall (t : table) (surfs : list (Z * C13.Model.desc R)) (volus : list (Z * C13.Model.volu))
         (u0 u1 : Z) (skip : bool),
  NoDup (map fst t) ->
  (forall k d, In (k, d) surfs -> (0 < k)%Z) ->
  (forall k e, In (k, e) t -> e_flag e <> "" -> In (Z.of_N k) (map fst surfs)) ->
  forall (l : list (kind * N)) (w : list Z) (bcs : list (kind * N)),
  bc_entries t = Ok l ->
  block13 RS skip surfs volus u0 u1 l = Some (w, Ok bcs) ->
  forall k e, In (k, e) t -> (e_flag e = "*" \/ e_flag e = "+") ->
  let k' := rep13 (ren_of RS skip surfs) k in
  In (Z.of_N k') w ->
  In (kind_of (e_flag e), k') bcs /\ count_key k' bcs = 1%nat /\
  exists d s' v3,
    C13.Model.finish RS skip surfs volus u0 u1 = C13.Model.Ok (s', v3, w) /\
    In (Z.of_N k, d) surfs /\ In (Z.of_N k', d) s'.
Proof.
  intros t surfs volus u0 u1 skip Hnd Hpos Hknown l w bcs Hc Hr k e Hin Hf k' Hw.
  eapply linked_designates; eauto.
Qed.
Print Assumptions C16_bc_designates_present_same_locus_linked.

(* the converse, linked: every entry designates a written SURF whose descriptor
   over the reals is that of a flagged surface of the entry's kind; no two
   entries designate the same SURF *)
Theorem C16_bc_entries_designate_written_linked :
  forall (t : table) (surfs : list (Z * C13.Model.desc R)) (volus : list (Z * C13.Model.volu))
         (u0 u1 : Z) (skip : bool),
  NoDup (map fst t) ->
  (forall k d, In (k, d) surfs -> (0 < k)%Z) ->
  (forall k e, In (k, e) t -> e_flag e <> "" -> In (Z.of_N k) (map fst surfs)) ->
  forall (l : list (kind * N)) (w : list Z) (bcs : list (kind * N)),
  bc_entries t = Ok l ->
  block13 RS skip surfs volus u0 u1 l = Some (w, Ok bcs) ->
  NoDup (map snd bcs) /\
  forall kd k', In (kd, k') bcs ->
    In (Z.of_N k') w /\
    exists k e d s' v3,
      C13.Model.finish RS skip surfs volus u0 u1 = C13.Model.Ok (s', v3, w) /\
      In (k, e) t /\ e_flag e <> "" /\
      (e_flag e = "*" -> kd = Reflection) /\ (e_flag e = "+" -> kd = Cosinus) /\
      In (Z.of_N k, d) surfs /\ In (Z.of_N k', d) s'.
Proof.
  intros t surfs volus u0 u1 skip Hnd Hpos Hknown l w bcs Hc Hr.
  eapply linked_sound; eauto.
Qed.
Print Assumptions C16_bc_entries_designate_written_linked.

(* two flagged surfaces of different kinds with the same written
   representative: the block is a ValueError, whatever the volumes and the
   scalar type *)
Theorem C16_conflicting_flags_rejected_linked :
  forall (T : Type) (S : Scalar T) (skip : bool) (surfs : list (Z * C13.Model.desc T))
         (volus : list (Z * C13.Model.volu)) (u0 u1 : Z) (l : list (kind * N)) (w : list Z)
         (out : res (list (kind * N))) (k1 k2 : N),
  block13 S skip surfs volus u0 u1 l = Some (w, out) ->
  In (Reflection, k1) l -> In (Cosinus, k2) l ->
  rep13 (ren_of S skip surfs) k1 = rep13 (ren_of S skip surfs) k2 ->
  In (Z.of_N (rep13 (ren_of S skip surfs) k1)) w ->
  out = Err EValue.
Proof. exact @block13_conflict. Qed.
Print Assumptions C16_conflicting_flags_rejected_linked.

(* non-vacuity of the linked statements on a FILL-shaped volume table: the
   filled cell is the FICTIVE volume 10 (PLUS 1 MINUS 4), the universe element
   is volume 6 (MINUS 3, INTE 10); *2 and *3 coincide.  Surface 3 is merged into
   2, the block has the single entry 2, and SURF 1 2 4 are written *)
Example C16_example_linked :
  exists l,
    bc_entries ex_table = Ok l /\
    block13 RS false ex_surfs ex_volus 8 9 l =
      Some ([1; 2; 4]%Z, Ok [(Reflection, 2%N)]) /\
    rep13 (ren_of RS false ex_surfs) 3 = 2%N /\
    NoDup (map fst ex_table) /\
    (forall k d, In (k, d) ex_surfs -> (0 < k)%Z) /\
    (forall k e, In (k, e) ex_table -> e_flag e <> "" -> In (Z.of_N k) (map fst ex_surfs)).
Proof.
  eexists. split; [vm_compute; reflexivity|].
  split; [vm_compute; reflexivity|].
  split; [vm_compute; reflexivity|].
  split; [repeat constructor; cbn; intuition discriminate|].
  split.
  - intros k d H. repeat (destruct H as [H|H]; [inversion H; lia|]). destruct H.
  - intros k e H Hf. repeat (destruct H as [H|H]; [inversion H; subst; cbn; auto 10|]).
    destruct H.
Qed.

(* positive literal of a collection (a UNION volume): *7 KZ 0 1 1, cells
   "-1 7" and "-1 8 7" with 8 a duplicate of 1.  With de-duplication the second
   cell dies (1 on both sides), its UNION volume goes, the FICTIVE volume of the
   cone's plane (id 10) stays behind; the first cell keeps the cone: one entry,
   on 7.  Without de-duplication both cells live *)
Example C16_example_union :
  let cards := [mkS "1" 1 5 [] []; mkS "8" 1 5 [] []; mkS "*7" 1 14 [8%N] [true; false]] in
  let cells := [(1%N, [[(-1)%Z; 7%Z]]); (2%N, [[(-1)%Z; 8%Z; 7%Z]])] in
  exists t,
    parse_cards cards [] = Ok t /\
    run (mkCfg false false) cards cells = Ok ([(1, 5); (7, 14); (9, 8)]%N, [(Reflection, 7%N)]) /\
    run (mkCfg true false) cards cells =
      Ok ([(1, 5); (7, 14); (8, 5); (9, 8)]%N, [(Reflection, 7%N)]) /\
    survives true (number_items t) (matching_of t) (1%N, [[(-1)%Z; 7%Z]]) /\
    leaves true (number_items t) (matching_of t) (2%N, [[(-1)%Z; 8%Z; 7%Z]]) 9 /\
    ~ survives true (number_items t) (matching_of t) (2%N, [[(-1)%Z; 8%Z; 7%Z]]).
Proof.
  cbv zeta. eexists.
  split; [vm_compute; reflexivity|].
  split; [vm_compute; reflexivity|].
  split; [vm_compute; reflexivity|].
  split; [eexists; eexists; vm_compute; reflexivity|].
  split; [eexists; eexists; split; [vm_compute; reflexivity|left; reflexivity]|].
  intros [ids [left H]]. vm_compute in H. discriminate.
Qed.

(* ======================================================================== *)
(* Linked with C01 and C13: the main statement from a premise on the CELL CARDS.
   C01.Model.convert_cells is C01's model of pot_convert and of the final loop of
   construct_volume_t4 (cell trees over MCNP surfaces, with unions, complements
   eliminated, cell references: whatever the cell cards and the FILL development
   give), C01.Model.prune the renumbering and the two pruning passes; the
   renumbering is C13's.  [bounds_cell k c]: c is a converted cell and there are
   two points - sense assignments of the TRIPOLI-4 surfaces that are constant on
   merged surfaces and consistent on the helper planes, with the cells that hold
   them as the CARDS read (C01.Spec.mden) - whose senses differ only on k and the
   surfaces merged with it, one inside c, one outside.  That is "the flagged
   surface bounds a converted cell that survives", said on the cards.
   Conclusion: the representative of k is used by a volume of the pruned table
   (so its SURF line is written), the block has exactly one entry for it, of the
   kind of the flag, and it carries the flagged surface's descriptor over the
   reals.  (C01_cells and prune_sound carry the denotation from the cards to
   the written table; a table that does not mention a surface cannot depend on
   its sense.) *)
Theorem C16_bc_designates_present_same_locus_cells_linked :
  forall (t : table) (surfs : list (Z * C13.Model.desc R)) (skip : bool),
  NoDup (map fst surfs) ->
  (forall k d, In (k, d) surfs -> (0 < k)%Z) ->
  (forall k e, In (k, e) t -> e_flag e <> "" -> In (Z.of_N k) (map fst surfs)) ->
  forall (cells : C01.Model.dict C01.Model.cell) (matching : C01.Model.dict (list Z))
         (u0 u1 : Z) (fuel : nat) (todo : list Z) (cnt0 : Z)
         (s' : C01.Model.st) (d' : C01.Model.dict C01.Model.vol),
  (0 < u0)%Z -> (0 < u1)%Z -> NoDup todo -> (forall k, In k todo -> (k <= cnt0)%Z) ->
  C01.Model.convert_cells fuel cells matching u0 u1 todo (C01.Model.mkSt cnt0 [] [] [])
    = C01.Model.Ok s' ->
  C01.Model.prune u0 u1 (C16.LinkC01.rn_of surfs skip) (C01.Model.vols s') = C01.Model.Ok d' ->
  forall (l bcs : list (kind * N)),
  bc_entries t = Ok l ->
  merge_gen (rep13 (ren_of RS skip surfs)) (map Z.to_N (C16.LinkC01.surf_ids d')) l [] = Ok bcs ->
  forall k e c, In (k, e) t -> (e_flag e = "*" \/ e_flag e = "+") ->
  C16.LinkC01.bounds_cell surfs skip cells matching u0 u1 todo (Z.of_N k) c ->
  let k' := rep13 (ren_of RS skip surfs) k in
  In (Z.of_N k') (C16.LinkC01.surf_ids d') /\
  In (kind_of (e_flag e), k') bcs /\ count_key k' bcs = 1%nat /\
  exists d, In (Z.of_N k, d) surfs /\ In (Z.of_N k', d) (kept surfs skip).
Proof.
  intros t surfs skip Hns Hpos Hknown cells matching u0 u1 fuel todo cnt0 s' d'
         H0 H1 Hnd Hle Hconv Hprune l bcs Hl Hb k e c Hin Hf Hbc.
  exact (cells_linked_designates t surfs skip Hns Hpos Hknown cells matching u0 u1 fuel todo cnt0
           s' d' H0 H1 Hnd Hle Hconv Hprune l bcs Hl Hb k e c Hin Hf Hbc).
Qed.
Print Assumptions C16_bc_designates_present_same_locus_cells_linked.

(* non-vacuity: the table and surfaces of C16_example_linked (the reflecting
   surfaces 2 and 3 coincide),
   one cell card "-1 2" (cell 1), converted by C01's model.  The two points:
   senses true on {2, 3} resp. nowhere; the first is in the cell, the second not;
   they differ only on 2 and 3, which are merged.  Every hypothesis of the
   theorem holds for k = 2 and for k = 3 alike *)
Definition ex_cells : C01.Model.dict C01.Model.cell :=
  [(1%Z, (C01.Model.Node 0 C01.Model.OInter
            [C01.Model.Leaf ((-1)%Z, None); C01.Model.Leaf (2%Z, None)], []))].
Definition ex_matching : C01.Model.dict (list Z) :=
  [(1, [1]); (2, [2]); (3, [3]); (4, [4])]%Z.
Definition ex_s1 (z : Z) : bool := Z.eqb z 2 || Z.eqb z 3.
Definition ex_s2 (z : Z) : bool := false.

Example C16_example_cells_linked :
  exists s' d' l,
    C01.Model.convert_cells 5 ex_cells ex_matching 8 9 [1%Z] (C01.Model.mkSt 1 [] [] [])
      = C01.Model.Ok s' /\
    C01.Model.prune 8 9 (C16.LinkC01.rn_of ex_surfs false) (C01.Model.vols s') = C01.Model.Ok d' /\
    C16.LinkC01.surf_ids d' = [2; 1]%Z /\
    bc_entries ex_table = Ok l /\
    merge_gen (rep13 (ren_of RS false ex_surfs)) (map Z.to_N (C16.LinkC01.surf_ids d')) l [] =
      Ok [(Reflection, 2%N)] /\
    C16.LinkC01.bounds_cell ex_surfs false ex_cells ex_matching 8 9 [1%Z] 2 1 /\
    C16.LinkC01.bounds_cell ex_surfs false ex_cells ex_matching 8 9 [1%Z] 3 1.
Proof.
  eexists. eexists. eexists.
  split; [vm_compute; reflexivity|].
  split; [vm_compute; reflexivity|].
  split; [vm_compute; reflexivity|].
  split; [vm_compute; reflexivity|].
  split; [vm_compute; reflexivity|].
  assert (Hpt : forall s, (s = ex_s1 \/ s = ex_s2) ->
            C16.LinkC01.is_point ex_surfs false ex_cells ex_matching 8 9 s
              (fun c => if Z.eqb c 1 then negb (s 1%Z) && s 2%Z else false)).
  { intros s Hs. split; [|split].
    - unfold C01.Spec.consistent. destruct Hs as [-> | ->]; cbn; intros H; discriminate.
    - intros r Hr. vm_compute in Hr. inversion Hr; subst r. intros x y Hl. cbn in Hl.
      repeat (match type of Hl with
              | (if ?b then _ else _) = _ => destruct b eqn:?
              end);
        try discriminate; inversion Hl; subst;
        repeat match goal with H : (_ =? _)%Z = true |- _ => apply Z.eqb_eq in H; subst end;
        destruct Hs as [-> | ->]; reflexivity.
    - intros c g orig Hl. cbn in Hl. destruct (c =? 1)%Z eqn:Ec; [|discriminate].
      inversion Hl; subst g orig. apply Z.eqb_eq in Ec. subst c. split.
      + cbn. repeat split; try lia; try discriminate;
          intros ids Hi; cbn in Hi; inversion Hi; subst; repeat constructor; lia.
      + destruct Hs as [-> | ->]; reflexivity. }
  assert (Hag : forall k, (k = 2 \/ k = 3)%Z -> forall z,
            C16.LinkC01.rpZ ex_surfs false z <> C16.LinkC01.rpZ ex_surfs false k ->
            ex_s1 z = ex_s2 z).
  { intros k Hk z Hz. unfold ex_s1, ex_s2.
    destruct (Z.eqb z 2) eqn:E2; [apply Z.eqb_eq in E2; subst z; exfalso; apply Hz;
      destruct Hk as [-> | ->]; vm_compute; reflexivity|].
    destruct (Z.eqb z 3) eqn:E3; [apply Z.eqb_eq in E3; subst z; exfalso; apply Hz;
      destruct Hk as [-> | ->]; vm_compute; reflexivity|]. reflexivity. }
  split; (split; [left; reflexivity|];
    eexists ex_s1, _, ex_s2, _;
    split; [apply Hpt; left; reflexivity|];
    split; [apply Hpt; right; reflexivity|];
    split; [apply Hag; auto|]; split; reflexivity).
Qed.

(* ======================================================================== *)
(* C16's descriptor CLASSES against C13's REAL descriptors: when the classes are
   an injective naming of real descriptors, C16's representative (smallest
   number of the same class) is the image under C13's renumbering of the table
   read through that naming - also when the table holds further, larger-numbered
   surfaces (the union helper planes, which may be merged into a user surface).
   The two models of the de-duplication are the same function on the surface
   numbers of the dictionary. *)
Theorem C16_rep_is_C13_renumbering_linked :
  forall (cls_desc : N -> C13.Model.desc R),
  (forall a b, cls_desc a = cls_desc b -> a = b) ->
  forall (nb : numbering) (extra : list (Z * C13.Model.desc R)) (k c : N),
  NoDup (map fst nb) ->
  NoDup (map fst (surfs_of cls_desc nb ++ extra)) ->
  (forall x d k0 c0, In (x, d) extra -> In (k0, c0) nb -> (Z.of_N k0 < x)%Z) ->
  dict_get k nb = Some c ->
  rep13 (ren_of RS false (surfs_of cls_desc nb ++ extra)) k = rep true nb k.
Proof. exact rep_is_c13. Qed.
Print Assumptions C16_rep_is_C13_renumbering_linked.

(* everything of C16's own: the surface table handed to C13 is C16's numbering
   [number_items t] read through the naming (plus the helper planes), the
   matching handed to C01's conversion is C16's [matching_of t], the block is
   the executed [merge_entries] with C16's renumbering on classes.  From the
   cell cards ([bounds_cell]) to: the representative [rep] of the flagged surface
   is used by a volume of the pruned table, has exactly one entry of the flag's
   kind, and is kept with the real descriptor that names the flagged surface's
   class. *)
Theorem C16_bc_designates_present_same_locus_all_linked :
  forall (cls_desc : N -> C13.Model.desc R),
  (forall a b, cls_desc a = cls_desc b -> a = b) ->
  forall (t : table) (skip : bool) (u0 u1 : Z) (h0 h1 : C13.Model.desc R),
  NoDup (map fst t) ->
  (forall k c, In (k, c) (number_items t) -> (0 < Z.of_N k < u0)%Z /\ (Z.of_N k < u1)%Z) ->
  u0 <> u1 -> (0 < u0)%Z -> (0 < u1)%Z ->
  forall (cells : C01.Model.dict C01.Model.cell) (fuel : nat) (todo : list Z) (cnt0 : Z)
         (s' : C01.Model.st) (d' : C01.Model.dict C01.Model.vol),
  NoDup todo -> (forall k, In k todo -> (k <= cnt0)%Z) ->
  C01.Model.convert_cells fuel cells (matching01 t) u0 u1 todo (C01.Model.mkSt cnt0 [] [] [])
    = C01.Model.Ok s' ->
  C01.Model.prune u0 u1 (C16.LinkC01.rn_of (surfs_all cls_desc t u0 u1 h0 h1) skip)
    (C01.Model.vols s') = C01.Model.Ok d' ->
  forall (l bcs : list (kind * N)),
  bc_entries t = Ok l ->
  merge_entries (negb skip) (number_items t) (map Z.to_N (C16.LinkC01.surf_ids d')) l [] = Ok bcs ->
  forall k e c, In (k, e) t -> (e_flag e = "*" \/ e_flag e = "+") ->
  C16.LinkC01.bounds_cell (surfs_all cls_desc t u0 u1 h0 h1) skip cells (matching01 t) u0 u1 todo
    (Z.of_N k) c ->
  let k' := rep (negb skip) (number_items t) k in
  In (Z.of_N k') (C16.LinkC01.surf_ids d') /\
  In (kind_of (e_flag e), k') bcs /\ count_key k' bcs = 1%nat /\
  In (Z.of_N k', cls_desc (e_first e)) (kept (surfs_all cls_desc t u0 u1 h0 h1) skip).
Proof.
  intros cls_desc Hinj t skip u0 u1 h0 h1 Hnd Hab Hne H0 H1 cells fuel todo cnt0 s' d'
         Htn Htl Hconv Hprune l bcs Hl Hb k e c Hin Hf Hbc.
  exact (all_linked_designates cls_desc Hinj t Hnd skip u0 u1 h0 h1 Hab Hne H0 H1 cells fuel todo
           cnt0 s' d' Htn Htl Hconv Hprune l bcs Hl Hb k e c Hin Hf Hbc).
Qed.
Print Assumptions C16_bc_designates_present_same_locus_all_linked.

(* non-vacuity: with the naming "class n = descriptor of type n without
   parameters" the table, surfaces, matching and helper planes of
   C16_example_cells_linked ARE the instances this theorem speaks about *)
Example C16_example_all_linked :
  (forall a b, dR a = dR b -> a = b) /\
  surfs_all dR ex_table 8 9 (dR 3) (dR 4) = ex_surfs /\
  matching01 ex_table = ex_matching /\
  (forall k c, In (k, c) (number_items ex_table) -> (0 < Z.of_N k < 8)%Z /\ (Z.of_N k < 9)%Z) /\
  merge_entries true (number_items ex_table) (map Z.to_N [2; 1]%Z)
    [(Reflection, 2%N); (Reflection, 3%N)] [] = Ok [(Reflection, 2%N)].
Proof.
  split; [intros a b H; inversion H; reflexivity|].
  split; [vm_compute; reflexivity|].
  split; [vm_compute; reflexivity|].
  split; [|vm_compute; reflexivity].
  intros k c H. vm_compute in H.
  repeat (destruct H as [H|H]; [inversion H; subst; lia|]). destruct H.
Qed.
