(* C16 — Reflecting and white surfaces become boundary conditions on the right
   surfaces.  Only restatements; proofs are in C16/Proofs.v. *)
From Coq Require Import List NArith ZArith Bool String Ascii Lia.
From T4V Require Import Base.Str C16.Model C16.Proofs C16.Trcl.
Import ListNotations.
Open Scope string_scope.

(* re_name: one leading star / plus is the flag, the digits are the number *)
Theorem C16_split_flags_star : forall n : string, n <> "" -> all_digits n = true ->
  split_flags (String "*" n) = ("*", n).
Proof. exact split_flags_star. Qed.
Print Assumptions C16_split_flags_star.

Theorem C16_split_flags_plus : forall n : string, n <> "" -> all_digits n = true ->
  split_flags (String "+" n) = ("+", n).
Proof. exact split_flags_plus. Qed.
Print Assumptions C16_split_flags_plus.

Theorem C16_split_flags_none : forall n : string, n <> "" -> all_digits n = true ->
  split_flags n = ("", n).
Proof. exact split_flags_digits. Qed.
Print Assumptions C16_split_flags_none.

(* the parsed surface dictionary has one entry per surface number *)
Theorem C16_parsed_keys_distinct : forall (cards : list scard) (t : table),
  parse_cards cards [] = Ok t -> NoDup (map fst t).
Proof. exact parsed_keys_distinct. Qed.
Print Assumptions C16_parsed_keys_distinct.

(* bc_kind: star -> REFLECTION, plus -> COSINUS, no flag -> no entry (whatever
   the other cards are, as long as the block is produced) *)
Theorem C16_bc_kind : forall (t : table) (l : list (kind * N)) (k : N) (e : entry),
  bc_entries t = Ok l -> In (k, e) t ->
  (e_flag e = "*" -> In (Reflection, k) l) /\
  (e_flag e = "+" -> In (Cosinus, k) l) /\
  (NoDup (map fst t) -> e_flag e = "" -> forall kd, ~ In (kd, k) l).
Proof. exact bc_kind. Qed.
Print Assumptions C16_bc_kind.

(* exactly one entry designates the number of a flagged surface, none that of
   an unflagged one *)
Theorem C16_bc_one_per_flag : forall (t : table) (l : list (kind * N)) (k : N) (e : entry),
  NoDup (map fst t) -> bc_entries t = Ok l -> In (k, e) t ->
  count_key k l = if String.eqb (e_flag e) "" then 0%nat else 1%nat.
Proof. exact bc_one_per_flag. Qed.
Print Assumptions C16_bc_one_per_flag.

(* with MCNP's flags only and no flagged macrobody the block is exactly the
   flagged numbers, in card order, each with the kind of its flag *)
Theorem C16_bc_entries_exact : forall t : table,
  proper t -> bc_entries t = Ok (flat_map entry_of t).
Proof. exact bc_entries_exact. Qed.
Print Assumptions C16_bc_entries_exact.

(* a flag on a macrobody (more than one facet) is rejected, used or not ... *)
Theorem C16_macrobody_flag_rejected : forall (t : table) (k : N) (e : entry),
  In (k, e) t -> e_flag e <> "" -> (1 < e_mcnp e)%nat ->
  bc_entries t = Err ENotImplemented.
Proof. exact macrobody_flag_rejected. Qed.
Print Assumptions C16_macrobody_flag_rejected.

(* ... and the run as a whole does not succeed *)
Theorem C16_macrobody_flag_stops_run :
  forall (cfg : config) (cards : list scard) (cells : list cell) (t : table) (k : N) (e : entry),
  skip_bc cfg = false -> parse_cards cards [] = Ok t ->
  In (k, e) t -> e_flag e <> "" -> (1 < e_mcnp e)%nat ->
  exists err, run cfg cards cells = Err err.
Proof. exact macrobody_flag_stops_run. Qed.
Print Assumptions C16_macrobody_flag_stops_run.

(* the written SURF lines: exactly the representatives (after de-duplication)
   of the surfaces used by the cells that survive, each with its descriptor *)
Theorem C16_written_surfaces_exact :
  forall (dedup : bool) (t : table) (cells : list cell) (surfs : list (N * N)) (k d : N),
  geometry dedup t cells = Ok surfs ->
  (In (k, d) surfs <->
   dict_get k (number_items t) = Some d /\
   exists c k0, In c cells /\ survives dedup (number_items t) c /\ bounds c k0 /\
                repr_of dedup (number_items t) k0 = Some k).
Proof. exact written_surfaces_exact. Qed.
Print Assumptions C16_written_surfaces_exact.

(* bc_designates_present_same_locus, under the guard the code needs: the
   flagged surface is used by a cell that survives, and either de-duplication
   is off or the surface is the smallest-numbered among its duplicates.  Then
   its entry has the kind of the flag and designates a written SURF line whose
   descriptor is the flagged surface's own (hence the same locus). *)
Theorem C16_bc_designates_present_same_locus :
  forall (cfg : config) (cards : list scard) (cells : list cell) (t : table)
         (surfs : list (N * N)) (bcs : list (kind * N)) (k : N) (e : entry),
  skip_bc cfg = false ->
  parse_cards cards [] = Ok t ->
  run cfg cards cells = Ok (surfs, bcs) ->
  In (k, e) t -> (e_flag e = "*" \/ e_flag e = "+") ->
  (exists c, In c cells /\ survives (negb (skip_dedup cfg)) (number_items t) c /\ bounds c k) ->
  (skip_dedup cfg = true \/ smallest_dup (number_items t) k) ->
  In (kind_of (e_flag e), k) bcs /\ In (k, e_first e) surfs.
Proof. exact bc_designates_present_same_locus. Qed.
Print Assumptions C16_bc_designates_present_same_locus.

(* without the second half of the guard the statement is false: *2 PX 0 and
   *3 PX 0, the cell uses 3; the block designates 3, only SURF 2 is written
   (DESIGN 8 #12, finding class bc_on_deduplicated_surface) *)
Theorem C16_bc_dedup_refuted :
  exists t surfs bcs k e c,
    parse_cards w_dedup_cards [] = Ok t /\
    run (mkCfg false false) w_dedup_cards w_dedup_cells = Ok (surfs, bcs) /\
    In (k, e) t /\ e_flag e = "*" /\
    In c w_dedup_cells /\ survives true (number_items t) c /\ bounds c k /\
    In (Reflection, k) bcs /\ ~ In k (map fst surfs).
Proof. exact bc_dedup_refuted. Qed.
Print Assumptions C16_bc_dedup_refuted.

(* without the first half: *5 PY 7 used by no cell still gets an entry, with
   or without de-duplication, and there is no SURF 5 (finding class
   bc_on_unused_surface) *)
Theorem C16_bc_unused_refuted :
  exists t surfs bcs e,
    parse_cards w_unused_cards [] = Ok t /\
    (forall dedup, run (mkCfg dedup false) w_unused_cards w_unused_cells = Ok (surfs, bcs)) /\
    In (5%N, e) t /\ e_flag e = "*" /\ smallest_dup (number_items t) 5 /\
    In (Reflection, 5%N) bcs /\ ~ In 5%N (map fst surfs).
Proof. exact bc_unused_refuted. Qed.
Print Assumptions C16_bc_unused_refuted.

(* ---- decks whose cells may carry TRCL (what the correspondence executes) -- *)

(* [run] is [run_t] on decks whose cells are all converted and carry no TRCL,
   so the statements about [run] above are statements about [run_t] *)
Theorem C16_run_t_plain : forall (cfg : config) (cards : list scard) (cells : list cell),
  run_t cfg cards (map plain cells) = run cfg cards cells.
Proof. exact run_t_plain. Qed.
Print Assumptions C16_run_t_plain.

(* the surface dictionary after the TRCL loop: the parsed cards, then the
   copies; all keys distinct; every copy carries the flag (and part count) of
   a parsed card *)
Theorem C16_expanded_table :
  forall (t : table) (cells : list (bool * cell)) (t' : table) (cs : list tcell),
  NoDup (map fst t) ->
  apply_trcls cs t (N.succ (max_key t)) = Ok (cells, t') ->
  NoDup (map fst t') /\
  (forall k e, In (k, e) t -> In (k, e) t') /\
  (forall k e, In (k, e) t' -> inherits t e).
Proof. exact expanded_table. Qed.
Print Assumptions C16_expanded_table.

(* the main statement with TRCL, for every entry of the expanded dictionary
   (a parsed card or the copy made for a literal of a cell with TRCL), under
   the same guard: the entry's key bounds a converted cell that survives, and
   de-duplication is off or the key is the smallest among its duplicates *)
Theorem C16_bc_designates_present_same_locus_trcl :
  forall (cfg : config) (cards : list scard) (tcells : list tcell) (t : table)
         (cells : list (bool * cell)) (t' : table)
         (surfs : list (N * N)) (bcs : list (kind * N)) (k : N) (e : entry),
  skip_bc cfg = false ->
  parse_cards cards [] = Ok t ->
  apply_trcls tcells t (N.succ (max_key t)) = Ok (cells, t') ->
  run_t cfg cards tcells = Ok (surfs, bcs) ->
  In (k, e) t' -> (e_flag e = "*" \/ e_flag e = "+") ->
  (exists c, In c (converted cells) /\
             survives (negb (skip_dedup cfg)) (number_items t') c /\ bounds c k) ->
  (skip_dedup cfg = true \/ smallest_dup (number_items t') k) ->
  In (kind_of (e_flag e), k) bcs /\ In (k, e_first e) surfs.
Proof. exact bc_designates_present_same_locus_trcl. Qed.
Print Assumptions C16_bc_designates_present_same_locus_trcl.

(* every literal of a cell with TRCL gets a copy that carries the flag of the
   surface it names and the transformed descriptor; when that flag is a star
   or a plus the copy has its own entry of that kind *)
Theorem C16_trcl_copy_has_entry :
  forall (cfg : config) (cards : list scard) (tcells : list tcell)
         (surfs : list (N * N)) (bcs : list (kind * N)) (c : tcell) (l : lit),
  skip_bc cfg = false ->
  run_t cfg cards tcells = Ok (surfs, bcs) ->
  In c tcells -> tc_trcl c = true -> In l (tc_lits c) ->
  exists t' e k',
    dict_get (Z.abs_N (l_z l)) t' = Some e /\
    In (k', mkE (e_flag e) (e_mcnp e) (l_cls l) (l_aux l)) t' /\
    ((e_flag e = "*" \/ e_flag e = "+") -> In (kind_of (e_flag e), k') bcs).
Proof. exact trcl_copy_has_entry. Qed.
Print Assumptions C16_trcl_copy_has_entry.

(* unflagged surfaces yield none: a deck without a flagged card has no entry,
   whatever its cells and their TRCL *)
Theorem C16_unflagged_deck_no_entries :
  forall (cfg : config) (cards : list scard) (tcells : list tcell)
         (surfs : list (N * N)) (bcs : list (kind * N)),
  (forall t k e, parse_cards cards [] = Ok t -> In (k, e) t -> e_flag e = "") ->
  run_t cfg cards tcells = Ok (surfs, bcs) -> bcs = [].
Proof. exact unflagged_deck_no_entries. Qed.
Print Assumptions C16_unflagged_deck_no_entries.

(* a flag on a macrobody stops the run, with TRCL cells too *)
Theorem C16_macrobody_flag_stops_run_t :
  forall (cfg : config) (cards : list scard) (tcells : list tcell) (t : table) (k : N) (e : entry),
  skip_bc cfg = false -> parse_cards cards [] = Ok t ->
  In (k, e) t -> e_flag e <> "" -> (1 < e_mcnp e)%nat ->
  exists err, run_t cfg cards tcells = Err err.
Proof. exact macrobody_flag_stops_run_t. Qed.
Print Assumptions C16_macrobody_flag_stops_run_t.

(* no guard needed: every entry written comes from a flagged surface (or a
   copy of one) and has the kind of its flag; unflagged surfaces yield none *)
Theorem C16_bc_entry_sound : forall (t : table) (l : list (kind * N)) (kd : kind) (k : N),
  NoDup (map fst t) -> bc_entries t = Ok l -> In (kd, k) l ->
  exists e, In (k, e) t /\ e_flag e <> "" /\
    (e_flag e = "*" -> kd = Reflection) /\ (e_flag e = "+" -> kd = Cosinus).
Proof. exact bc_entry_sound. Qed.
Print Assumptions C16_bc_entry_sound.

(* no guard needed: an entry never designates a written surface of ANOTHER
   locus.  When the designated number is a SURF line at all, the line carries
   the descriptor of the flagged surface (or TRCL copy) the entry was made
   for.  So the defects of the unchanged code (C16_*_refuted) are all of one
   sort: the designated surface is absent, never wrong. *)
Theorem C16_bc_never_designates_other_locus :
  forall (cfg : config) (cards : list scard) (tcells : list tcell) (t : table)
         (cells : list (bool * cell)) (t' : table)
         (surfs : list (N * N)) (bcs : list (kind * N)) (kd : kind) (k d : N),
  parse_cards cards [] = Ok t ->
  apply_trcls tcells t (N.succ (max_key t)) = Ok (cells, t') ->
  run_t cfg cards tcells = Ok (surfs, bcs) ->
  In (kd, k) bcs -> In (k, d) surfs ->
  exists e, In (k, e) t' /\ d = e_first e /\ inherits t e /\ e_flag e <> "" /\
    (e_flag e = "*" -> kd = Reflection) /\ (e_flag e = "+" -> kd = Cosinus).
Proof. exact bc_never_other_locus. Qed.
Print Assumptions C16_bc_never_designates_other_locus.

(* the whole block of a deck with MCNP's flags only and no flagged macrobody:
   the flagged cards in card order, then the copies of flagged surfaces made
   for cells with TRCL, in cell and literal order *)
Theorem C16_run_t_block_exact :
  forall (cfg : config) (cards : list scard) (tcells : list tcell) (t : table)
         (cells : list (bool * cell)) (t' : table)
         (surfs : list (N * N)) (bcs : list (kind * N)),
  skip_bc cfg = false ->
  parse_cards cards [] = Ok t -> proper t ->
  apply_trcls tcells t (N.succ (max_key t)) = Ok (cells, t') ->
  run_t cfg cards tcells = Ok (surfs, bcs) ->
  bcs = flat_map entry_of t'.
Proof. exact run_t_block_exact. Qed.
Print Assumptions C16_run_t_block_exact.

(* *2 PX 0 used only by a cell with TRCL=(1 0 0): one flagged surface bounding
   a converted cell yields two entries; the one for the copy (7) designates a
   written SURF, the one for the original designates nothing, with and without
   de-duplication (finding class bc_on_trcl_original_surface) *)
Theorem C16_bc_trcl_original_refuted :
  forall sd, exists surfs,
    run_t (mkCfg sd false) w_trcl_cards w_trcl_cells =
      Ok (surfs, [(Reflection, 2%N); (Reflection, 7%N)]) /\
    In (7%N, 8%N) surfs /\ ~ In 2%N (map fst surfs).
Proof. exact bc_trcl_original_refuted. Qed.
Print Assumptions C16_bc_trcl_original_refuted.

(* *2 PX 0 used by a cell with TRCL=(0 0 0) and by a plain cell,
   de-duplication on: the copy 7 equals 2, is renamed to 2, keeps its entry
   (finding class bc_on_deduplicated_trcl_copy) *)
Theorem C16_bc_trcl_copy_dedup_refuted :
  exists surfs bcs,
    run_t (mkCfg false false) w_copy_cards w_copy_cells = Ok (surfs, bcs) /\
    In (Reflection, 7%N) bcs /\ ~ In 7%N (map fst surfs) /\
    In (Reflection, 2%N) bcs /\ In (2%N, 7%N) surfs.
Proof. exact bc_trcl_copy_dedup_refuted. Qed.
Print Assumptions C16_bc_trcl_copy_dedup_refuted.

(* quirk of conversionBoundCond: a flag that is neither one star nor one plus
   (the card regex accepts any run of them) is an UnboundLocalError when it
   comes first and silently takes the previous entry's kind otherwise *)
Theorem C16_bc_stale_kind_quirk : forall (k : N) (f : string) (r : list (N * string)),
  f <> "*" -> f <> "+" ->
  conv_kinds ((k, f) :: r) None = Err EUnbound /\
  forall kd out, conv_kinds ((k, f) :: r) (Some kd) = Ok out -> In (kd, k) out.
Proof. exact stale_kind_quirk. Qed.
Print Assumptions C16_bc_stale_kind_quirk.

(* non-vacuity: a deck with a reflecting plane that has a larger-numbered
   duplicate, a white sphere, an unflagged plane, de-duplication on; every
   hypothesis of the main theorem holds for the reflecting plane 2 *)
Example C16_example :
  let cards := [mkS "1" 1 5 []; mkS "*2" 1 7 []; mkS "3" 1 7 []; mkS "+9" 1 8 []] in
  let cells := [(1%N, [(-1)%Z; 2%Z; (-9)%Z]); (2%N, [3%Z; (-2)%Z])] in
  exists t e,
    parse_cards cards [] = Ok t /\
    run (mkCfg false false) cards cells =
      Ok ([(1, 5); (2, 7); (9, 8)]%N, [(Reflection, 2%N); (Cosinus, 9%N)]) /\
    In (2%N, e) t /\ e_flag e = "*" /\
    (exists c, In c cells /\ survives true (number_items t) c /\ bounds c 2) /\
    smallest_dup (number_items t) 2.
Proof.
  cbv zeta. eexists. eexists.
  split; [vm_compute; reflexivity|].
  split; [vm_compute; reflexivity|].
  split; [right; left; reflexivity|].
  split; [reflexivity|].
  split.
  - exists (1%N, [(-1)%Z; 2%Z; (-9)%Z]). split; [left; reflexivity|]. split.
    + exists [2%N], [1%N; 9%N]. repeat split; vm_compute; reflexivity.
    + left. left. reflexivity.
  - intros d k' Hd Hin. vm_compute in Hd. inversion Hd; subst d. vm_compute in Hin.
    destruct Hin as [H|[H|[H|[H|[]]]]]; inversion H; subst; lia.
Qed.

(* non-vacuity with TRCL: *2 PX 0 used only by a cell with TRCL=(1 0 0),
   de-duplication on; the copy 7 (PX 1) satisfies every hypothesis of
   C16_bc_designates_present_same_locus_trcl *)
Example C16_example_trcl :
  exists t cells t' e,
    parse_cards w_trcl_cards [] = Ok t /\
    apply_trcls w_trcl_cells t (N.succ (max_key t)) = Ok (cells, t') /\
    In (7%N, e) t' /\ e_flag e = "*" /\ e_first e = 8%N /\
    (exists c, In c (converted cells) /\ survives true (number_items t') c /\ bounds c 7) /\
    smallest_dup (number_items t') 7.
Proof.
  eexists. eexists. eexists. eexists.
  split; [vm_compute; reflexivity|].
  split; [vm_compute; reflexivity|].
  split; [do 4 right; left; reflexivity|].
  split; [reflexivity|]. split; [reflexivity|].
  split.
  - exists (1%N, [(-6)%Z; 7%Z; (-8)%Z]). split; [left; reflexivity|]. split.
    + exists [7%N], [6%N; 4%N]. repeat split; vm_compute; reflexivity.
    + left. left. reflexivity.
  - intros d k' Hd Hin. vm_compute in Hd. inversion Hd; subst d. vm_compute in Hin.
    destruct Hin as [H|[H|[H|[H|[H|[H|[]]]]]]]; inversion H; subst; lia.
Qed.
